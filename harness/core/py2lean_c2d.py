"""Sixth translator Python `ast` -> Lean 4 (DESIGN §10.3 / notes/NOTES-py2lean-sample.md): the
DISCRETISATION code of property C14 -

  control/statesp.py   StateSpace.sample           -> Generated/C2dSS.lean      ssSample
  control/xferfcn.py   _c2d_matched                -> Generated/C2dTF.lean      tfMatched
  control/xferfcn.py   TransferFunction.sample     -> Generated/C2dTF.lean      tfSample
  scipy/signal/_lti_conversion.py  cont2discrete   -> Generated/C2dScipy.lean   scipyC2dGbt, scipyC2d
       (the state-space branch: 4-tuple of 2-D arrays; NOT a file of /repo - the installed SciPy)

The files are rewritten from the source text of the tree the check runs against on every run
(`regenerate(repo, lean_dir)`, called from `families/c14.py: pre_build`); `Props/C14GenSample.lean`,
`C14GenTF.lean`, `C14GenScipy.lean` prove the hand-written model of `Model/Discretize.lean`
(`DSS.sampleP`, `twarp`, `gbtAlpha`, `SS.gbt`, `tfSampleP`, `c2dMatchedP`, `sampleNames`) EQUAL to
the generated functions, so a semantic edit of the source breaks a proof obligation, and an edit
that leaves the supported subset makes the translation fail (the emitted definition is then
`.error .notImplemented` for every argument, which cannot equal the model; it is also returned as a
problem = broken obligation).

Value model (fixed in `lean/CtrlVerif/Model/PyC2d.lean`, hand-written, trusted; `PMat` / `PySS` /
`PyNum.div` of `Model/PyMat.lean` and `PyArith.getItem / setItem` are reused):
  StateSpace / TransferFunction object -> `PyC2d.NamedSS K` / `PyC2d.NamedTF K` (system + names)
  the period `Ts`                      -> `Period` (number or `True`): `periodNum` in arithmetic,
                                          `periodDt` as the timebase argument of a constructor
  Python float / NumPy number          -> an arbitrary field `K`, EXACT; `x / y` -> `PyNum.div`
                                          (zero divisor = error), `x / <non-zero literal>` -> `/`
  str -> `String`; `None`-able -> `Option _` (`x is None` -> a `match`); bool -> `Bool`
  2-D ndarray -> `PMat K`; 1-D array / list of numbers -> `List K`; `**kwargs` -> `PyC2d.LabelKw`
  EXTERNAL routines are PARAMETERS of the generated function, resolved through the module's
  imports: `cont2discrete` (scipy.signal), `np.tan`, `exp` (numpy), `tf2zpk` (scipy.signal),
  `linalg.expm` (scipy).
The body becomes a term of `Except Err T`.  `raise ValueError(msg)` -> the `Err` that
`families/c14.py: classify_exc` gives the message ("continuous" -> timebase, "Improper" -> nonProper,
else badArg); `raise ControlMIMONotImplemented` -> notImplemented.

Supported subset (anything else raises `Unsupported`):
  statements  docstring, `x = e`, `a, b, _ = e` (tuple value), `xs[i] = e`, `x.name = e`,
              `x._copy_names(y, prefix_suffix_name='sampled')`, `warn(<literal>)` (dropped),
              `if/elif/else` (a branch that ends takes the rest of the block into the other one; else a
              join over the re-bound variables; `x is None` / `is not None` -> `match`), `raise`,
              `return e`, `for i, v in enumerate(xs): ...` (-> `List.foldlM`, the re-assigned outer
              variables as state)
  expressions names, `None True False`, int / float / str literals, `+ - * /` on numbers, number *
              array, array +/- array, `==  !=  <  >  <=  >=`, `in (<str>, ...)`, `not and or`,
              attributes `.A .B .C .D .dt .name .shape .T`, `x.num[0][0]`, `x.den[0][0]`, `X[0, :]`,
              `X[a:b, c:d]`, `t[i]` of a tuple, `[c] * len(xs)`, `len`, method calls
              `.isctime() .issiso() .dcgain() .transpose()`, constructors `StateSpace(A,B,C,D,Ts)`,
              `StateSpace(sys, **kw)`, `TransferFunction(num, den, Ts[, **kw])`,
              `TransferFunction(sys, name=name, **kw)`, `zpk2tf`, `np.multiply.reduce`, `np.eye`,
              `np.zeros((r, c))`, `np.hstack / np.vstack((X, Y))`, `np.dot`, `linalg.solve`, calls of the
              external parameters and of generated siblings.
Specialisation: a job may fix the value of a string parameter (`cont2discrete` at `method="gbt"`):
the tests on it are then decided statically, dead branches are not translated, and a recursive call
with that literal value becomes a call of the specialised function (no recursion is left).
Normalisation: nested `or` / `and` and `x in (a, b)` are flattened into one flat disjunction /
conjunction; the arms of a `match` on an optional are emitted `some` first.
Evaluation order: effectful sub-expressions are bound left to right in Python's order.  Default
values of parameters are compared with the expected ones.  Output is deterministic, carries the
sha256 of each function text and is rewritten only when changed.
"""
import ast
import hashlib
import os
import re
from fractions import Fraction

from core.py2lean import Unsupported
from core.py2lean_ss import module_bindings, _ind

NSS, NTF, PERIOD, STR, NUM, INT, NAT, BOOL, MAT, DT, POLY, POLY2, KW, TUPLE, PROP, NONE, UNIT, SYS4 = (
    "NSS", "NTF", "PERIOD", "STR", "NUM", "INT", "NAT", "BOOL", "MAT", "DT", "POLY", "POLY2", "KW", "TUPLE",
    "PROP", "NONE", "UNIT", "SYS4")


def OPT(t):
    return "OPT:" + t


def is_opt(t):
    return isinstance(t, str) and t.startswith("OPT:")


LEAN_TY = {NSS: "PyC2d.NamedSS K", NTF: "PyC2d.NamedTF K", PERIOD: "Period", STR: "String", NUM: "K",
           INT: "Int", NAT: "Nat", BOOL: "Bool", MAT: "PMat K", DT: "Dt", POLY: "List K",
           POLY2: "List (List K)", KW: "PyC2d.LabelKw", UNIT: "Unit",
           SYS4: "PMat K × PMat K × PMat K × PMat K",
           OPT(NUM): "Option K", OPT(STR): "Option String"}

SCIPY_REL = "scipy/signal/_lti_conversion.py"


def scipy_path():
    """the installed SciPy the implementation under check imports (VERIF_SCIPY_SRC: test-only switch of
    harness/c2d_tie_mutations.py, a scratch copy of the file; the registered commands never set it)"""
    if os.environ.get("VERIF_SCIPY_SRC"):
        return os.environ["VERIF_SCIPY_SRC"]
    try:
        import scipy.signal._lti_conversion as m
        return m.__file__
    except Exception:
        return "/venv/lib/python3.12/site-packages/" + SCIPY_REL


class V:
    """a translated effect-free expression: Lean code (atomic or parenthesised), static type, the
    value when it is a literal, the items when it is a tuple"""

    def __init__(self, code, ty, lit=None, items=None):
        self.code, self.ty, self.lit, self.items = code, ty, lit, items


def lean_ty(t):
    if isinstance(t, tuple):
        return " × ".join(lean_ty(x) for x in t)
    return LEAN_TY[t]


def lean_str(s):
    if not re.fullmatch(r"[ -~]*", s) or '"' in s or "\\" in s:
        raise Unsupported("string literal %r" % s)
    return '"%s"' % s


def classify_message(exc, msg):
    """the rule of harness/families/c14.py: classify_exc"""
    if exc == "ControlMIMONotImplemented":
        return "notImplemented"
    if exc == "ValueError":
        if "singular" in msg.lower():
            return "illPosed"
        if "continuous" in msg:
            return "timebase"
        if "Improper" in msg:
            return "nonProper"
        return "badArg"
    raise Unsupported("raise %s" % exc)


# signatures of the external routines (parameters of the generated functions)
EXTERNAL_TY = {
    "C2dSS": "PyC2d.C2dSS K", "C2dTF": "PyC2d.C2dTF K", "Tf2zpk": "PyC2d.Tf2zpk K", "fun1": "K → K",
    "Expm": "PMat K → Except Err (PMat K)",
}


class Translator:
    def __init__(self, job, bindings, available):
        self.job = job
        self.bindings = bindings
        self.available = available        # python function name -> (lean name, job) generated earlier
        self.ntmp = 0
        self.notes = []
        self.locals = set()
        self.static = dict(job.get("static", {}))      # parameter -> known literal value / ("ne", value)

    # -- helpers ------------------------------------------------------------------------------
    def tmp(self):
        self.ntmp += 1
        return "t%d" % self.ntmp

    def need(self, name, what):
        if name in self.locals:
            raise Unsupported("`%s` is re-bound inside the function" % name)
        got = self.bindings.get(name)
        if got != what:
            raise Unsupported("`%s` is bound to %s in the module, expected %s" % (name, got, what))

    def bind(self, pre, code, ty, items=None):
        t = self.tmp()
        pre.append("let %s ← %s" % (t, code))
        return V(t, ty, items=items)

    def external(self, pyname):
        for e in self.job["externals"]:
            if e["py"] == pyname:
                return e
        return None

    # -- coercions ----------------------------------------------------------------------------
    def as_num(self, v):
        if v.ty == NUM:
            return v.code
        if v.ty == INT:
            if v.lit is not None:
                return "(%d : K)" % v.lit if v.lit >= 0 else "(-%d : K)" % -v.lit
            return "((%s : Int) : K)" % v.code
        if v.ty == NAT:
            return "((%s : Nat) : K)" % v.code
        if v.ty == PERIOD:
            return "((PyC2d.periodNum %s : ℚ) : K)" % v.code
        raise Unsupported("expected a number, got %s" % v.ty)

    def is_numlike(self, v):
        return v.ty in (NUM, INT, NAT, PERIOD)

    def as_int(self, v):
        if v.ty == INT:
            return v.code if v.lit is None else "(%d : Int)" % v.lit
        if v.ty == NAT:
            return "(%s : Int)" % v.code
        raise Unsupported("expected an int, got %s" % v.ty)

    def as_dt(self, v):
        if v.ty == DT:
            return v.code
        if v.ty == PERIOD:
            return "(PyC2d.periodDt %s)" % v.code
        raise Unsupported("a %s as the timebase of a constructor" % v.ty)

    def as_ty(self, v, ty):
        """coerce an argument to the expected static type"""
        if v.ty == ty:
            return v.code
        if ty == NUM and self.is_numlike(v):
            return self.as_num(v)
        if is_opt(ty):
            if v.ty == NONE:
                return "none"
            return "(some %s)" % self.as_ty(v, ty[4:])
        if ty == SYS4 and v.ty == TUPLE and [x.ty for x in v.items] == [MAT] * 4:
            return v.code if v.code else "(" + ", ".join(x.code for x in v.items) + ")"
        if isinstance(ty, tuple) and v.ty == TUPLE and len(v.items) == len(ty):
            return "(" + ", ".join(self.as_ty(x, t) for x, t in zip(v.items, ty)) + ")"
        raise Unsupported("a value of type %s where %s is expected" % (v.ty, ty))

    # -- tests --------------------------------------------------------------------------------
    def none_test(self, node):
        """`x is None` / `x is not None` / `not (...)` on a variable -> (name, True if 'is None')"""
        if isinstance(node, ast.UnaryOp) and isinstance(node.op, ast.Not):
            r = self.none_test(node.operand)
            return None if r is None else (r[0], not r[1])
        if isinstance(node, ast.Compare) and len(node.ops) == 1 and isinstance(node.ops[0], (ast.Is, ast.IsNot)) \
                and isinstance(node.comparators[0], ast.Constant) and node.comparators[0].value is None \
                and isinstance(node.left, ast.Name):
            return node.left.id, isinstance(node.ops[0], ast.Is)
        return None

    def static_str(self, node):
        """value of a string parameter fixed by the job's specialisation"""
        if isinstance(node, ast.Name) and node.id in self.static and node.id not in self.locals:
            return self.static[node.id]
        return None

    def test(self, node, env, pre):
        """Python test -> (static truth value or None, Lean Prop code)"""
        if isinstance(node, ast.UnaryOp) and isinstance(node.op, ast.Not):
            s, c = self.test(node.operand, env, pre)
            if s is not None:
                return (not s), ("False" if s else "True")
            return None, "(¬ %s)" % c
        if isinstance(node, ast.BoolOp):
            is_and = isinstance(node.op, ast.And)
            parts = []
            # `a or (b or c)`, `x in (p, q) or c` and `a or b or c` are the same flat disjunction
            # (operands after the first are effect-free, the connective is associative)
            values = []

            def flatten(n):
                if isinstance(n, ast.BoolOp) and isinstance(n.op, type(node.op)):
                    for v in n.values:
                        flatten(v)
                elif isinstance(n, ast.Compare) and len(n.ops) == 1 and isinstance(n.ops[0], ast.In) and not is_and \
                        and isinstance(n.comparators[0], (ast.Tuple, ast.List)) and n.comparators[0].elts:
                    for e in n.comparators[0].elts:
                        values.append(ast.Compare(left=n.left, ops=[ast.Eq()], comparators=[e]))
                else:
                    values.append(n)
            flatten(node)
            for sub in values:
                npre = []
                s, c = self.test(sub, env, npre)
                if npre and (parts or pre is None):
                    raise Unsupported("effectful operand of and/or after the first")
                pre.extend(npre)
                if s is not None:
                    if s != is_and:
                        return s, ("True" if s else "False")
                    continue
                parts.append(c)
            if not parts:
                return is_and, ("True" if is_and else "False")
            if len(parts) == 1:
                return None, parts[0]
            return None, "(" + (" ∧ " if is_and else " ∨ ").join(parts) + ")"
        if isinstance(node, ast.Compare) and len(node.ops) == 1:
            op = node.ops[0]
            if isinstance(op, (ast.In, ast.NotIn)) and isinstance(node.comparators[0], (ast.Tuple, ast.List)):
                alts = [ast.Compare(left=node.left, ops=[ast.Eq()], comparators=[e]) for e in node.comparators[0].elts]
                if not alts:
                    raise Unsupported("membership in an empty tuple")
                n2 = ast.BoolOp(op=ast.Or(), values=alts) if len(alts) > 1 else alts[0]
                if isinstance(op, ast.NotIn):
                    n2 = ast.UnaryOp(op=ast.Not(), operand=n2)
                return self.test(n2, env, pre)
            if isinstance(op, (ast.Is, ast.IsNot)):
                raise Unsupported("`is` test inside a compound condition: %s" % ast.unparse(node))
            # tests on a statically known string parameter
            sv = self.static_str(node.left)
            if sv is not None and isinstance(node.comparators[0], ast.Constant) \
                    and isinstance(node.comparators[0].value, str) and isinstance(op, (ast.Eq, ast.NotEq)):
                lit = node.comparators[0].value
                if isinstance(sv, str):
                    r = (sv == lit)
                elif sv[0] == "ne" and sv[1] == lit:
                    r = False
                else:
                    r = None
                if r is not None:
                    if isinstance(op, ast.NotEq):
                        r = not r
                    return r, ("True" if r else "False")
            a = self.expr(node.left, env, pre)
            b = self.expr(node.comparators[0], env, pre)
            sym = {ast.Eq: "=", ast.NotEq: "≠", ast.Lt: "<", ast.LtE: "≤", ast.Gt: ">", ast.GtE: "≥"}.get(type(op))
            if sym is None:
                raise Unsupported("comparison %s" % ast.unparse(node))
            if a.ty == INT and b.ty == INT and a.lit is not None and b.lit is not None:
                r = {"=": a.lit == b.lit, "≠": a.lit != b.lit, "<": a.lit < b.lit, "≤": a.lit <= b.lit,
                     ">": a.lit > b.lit, "≥": a.lit >= b.lit}[sym]
                return r, ("True" if r else "False")
            return None, "(" + self.compare(a, b, sym) + ")"
        if isinstance(node, ast.Name) and node.id in env and env[node.id].ty == BOOL:
            return None, "(%s = true)" % env[node.id].code
        if isinstance(node, ast.Constant) and isinstance(node.value, bool):
            return node.value, ("True" if node.value else "False")
        if isinstance(node, ast.Call):
            v = self.expr(node, env, pre)
            if v.ty == PROP:
                return (v.lit if isinstance(v.lit, bool) else None), v.code
            if v.ty == BOOL:
                return None, "(%s = true)" % v.code
        raise Unsupported("test %s" % ast.unparse(node)[:80])

    def compare(self, a, b, sym):
        if a.ty == STR and b.ty == STR and sym in ("=", "≠"):
            return "%s %s %s" % (a.code, sym, b.code)
        if is_opt(a.ty) and sym in ("=", "≠"):
            return "%s %s %s" % (a.code, sym, self.as_ty(b, a.ty))
        if is_opt(b.ty) and sym in ("=", "≠"):
            return "%s %s %s" % (self.as_ty(a, b.ty), sym, b.code)
        if a.ty in (INT, NAT) and b.ty in (INT, NAT):
            if a.ty == NAT and b.ty == NAT:
                return "%s %s %s" % (a.code, sym, b.code)
            return "%s %s %s" % (self.as_int(a), sym, self.as_int(b))
        if self.is_numlike(a) and self.is_numlike(b):
            return "%s %s %s" % (self.as_num(a), sym, self.as_num(b))
        raise Unsupported("comparison of %s and %s" % (a.ty, b.ty))

    # -- expressions --------------------------------------------------------------------------
    def expr(self, node, env, pre):
        if isinstance(node, ast.Name):
            if node.id in env:
                return env[node.id]
            raise Unsupported("unknown name %s" % node.id)
        if isinstance(node, ast.Constant):
            val = node.value
            if val is None:
                return V("none", NONE)
            if isinstance(val, bool):
                return V("true" if val else "false", BOOL)
            if type(val) is int:
                return V("(%d : Int)" % val, INT, lit=val)
            if type(val) is float:
                fr = Fraction(repr(val))
                if float(fr) != val:
                    raise Unsupported("float literal %r" % val)
                if fr.denominator == 1:
                    return V("(%d : K)" % fr.numerator, NUM, lit=fr)
                return V("((%d : K) / (%d : K))" % (fr.numerator, fr.denominator), NUM, lit=fr)
            if isinstance(val, str):
                return V(lean_str(val), STR)
            raise Unsupported("constant %r" % (val,))
        if isinstance(node, ast.UnaryOp) and isinstance(node.op, ast.USub):
            v = self.expr(node.operand, env, pre)
            if v.ty == INT and v.lit is not None:
                return V("(%d : Int)" % -v.lit, INT, lit=-v.lit)
            if v.ty == MAT:
                return V("(PMat.neg %s)" % v.code, MAT)
            if self.is_numlike(v):
                return V("(-%s)" % self.as_num(v), NUM)
            raise Unsupported("unary minus on %s" % v.ty)
        if isinstance(node, ast.Tuple):
            items = [self.expr(e, env, pre) for e in node.elts]
            return V(None, TUPLE, items=items)
        if isinstance(node, ast.Attribute):
            return self.attribute(node, env, pre)
        if isinstance(node, ast.Subscript):
            return self.subscript(node, env, pre)
        if isinstance(node, ast.BinOp):
            return self.binop(node, env, pre)
        if isinstance(node, ast.Call):
            return self.call(node, env, pre)
        raise Unsupported("expression %s" % ast.unparse(node)[:80])

    def attribute(self, node, env, pre):
        v = self.expr(node.value, env, pre)
        a = node.attr
        if v.ty == NSS:
            if a in ("A", "B", "C", "D"):
                return V("(PySS.%s %s.sys)" % (a, v.code), MAT)
            if a == "dt":
                return V("%s.sys.dt" % v.code, DT)
            if a in ("nstates", "ninputs", "noutputs"):
                return V("%s.sys.%s" % (v.code, {"nstates": "n", "ninputs": "m", "noutputs": "p"}[a]), NAT)
            if a == "name":
                return V("%s.names.name" % v.code, OPT(STR))
        if v.ty == NTF:
            if a == "dt":
                return V("%s.dt" % v.code, DT)
            if a in ("ninputs", "noutputs"):
                return V("%s.%s" % (v.code, a), NAT)
            if a == "name":
                return V("%s.names.name" % v.code, OPT(STR))
        if v.ty == MAT:
            if a == "T":
                return V("(PMat.T %s)" % v.code, MAT)
            if a == "shape":
                return V(None, TUPLE, items=[V("%s.r" % v.code, NAT), V("%s.c" % v.code, NAT)])
        raise Unsupported("attribute .%s of %s" % (a, v.ty))

    def int_const(self, node):
        if isinstance(node, ast.Constant) and type(node.value) is int:
            return node.value
        if isinstance(node, ast.UnaryOp) and isinstance(node.op, ast.USub) and isinstance(node.operand, ast.Constant) \
                and type(node.operand.value) is int:
            return -node.operand.value
        return None

    def slice_bound(self, node, env, pre):
        if node is None:
            return "none"
        v = self.expr(node, env, pre)
        return "(some %s)" % self.as_int(v)

    def subscript(self, node, env, pre):
        # x.num[0][0] / x.den[0][0] of a transfer function
        inner = node.value
        if isinstance(inner, ast.Subscript) and isinstance(inner.value, ast.Attribute) \
                and inner.value.attr in ("num", "den") and self.int_const(node.slice) == 0 \
                and self.int_const(inner.slice) == 0:
            obj = self.expr(inner.value.value, env, pre)
            if obj.ty == NTF:
                fn = "PyC2d.tfNum00" if inner.value.attr == "num" else "PyC2d.tfDen00"
                return self.bind(pre, "%s %s" % (fn, obj.code), POLY)
        v = self.expr(node.value, env, pre)
        sl = node.slice
        if v.ty == TUPLE:
            k = self.int_const(sl)
            if k is None or not (-len(v.items) <= k < len(v.items)):
                raise Unsupported("tuple index %s" % ast.unparse(sl))
            return v.items[k]
        if v.ty == POLY2:
            # X[0, :]
            if isinstance(sl, ast.Tuple) and len(sl.elts) == 2 and self.int_const(sl.elts[0]) == 0 \
                    and isinstance(sl.elts[1], ast.Slice) and sl.elts[1].lower is None and sl.elts[1].upper is None \
                    and sl.elts[1].step is None:
                return self.bind(pre, "PyC2d.row0 %s" % v.code, POLY)
            raise Unsupported("index %s of a 2-D coefficient array (only X[0, :])" % ast.unparse(sl))
        if v.ty == POLY:
            i = self.expr(sl, env, pre)
            return self.bind(pre, "PyArith.getItem %s %s" % (v.code, self.as_int(i)), NUM)
        if v.ty == MAT:
            if not (isinstance(sl, ast.Tuple) and len(sl.elts) == 2 and all(isinstance(e, ast.Slice) for e in sl.elts)):
                raise Unsupported("index %s (only X[a:b, c:d])" % ast.unparse(sl))
            out = v.code
            for e, fn in zip(sl.elts, ("PMat.sliceRows", "PMat.sliceCols")):
                if e.step is not None:
                    raise Unsupported("slice step")
                if e.lower is None and e.upper is None:
                    continue
                out = "(%s %s %s %s)" % (fn, out, self.slice_bound(e.lower, env, pre), self.slice_bound(e.upper, env, pre))
            return V(out, MAT)
        raise Unsupported("subscript of %s" % v.ty)

    def binop(self, node, env, pre):
        op = node.op
        a = self.expr(node.left, env, pre)
        # [c] * len(xs)
        if isinstance(op, ast.Mult) and isinstance(node.left, ast.List):
            raise Unsupported("internal")
        b = self.expr(node.right, env, pre)
        ints = lambda v: v.ty in (INT, NAT)
        if isinstance(op, (ast.Add, ast.Sub)):
            plus = isinstance(op, ast.Add)
            if a.ty == MAT and b.ty == MAT:
                return self.bind(pre, "PMat.%s %s %s" % ("add" if plus else "sub", a.code, b.code), MAT)
            if ints(a) and ints(b):
                if a.lit is not None and b.lit is not None:
                    k = a.lit + b.lit if plus else a.lit - b.lit
                    return V("(%d : Int)" % k, INT, lit=k)
                if plus and a.ty == NAT and b.ty == NAT:
                    return V("(%s + %s)" % (a.code, b.code), NAT)
                return V("(%s %s %s)" % (self.as_int(a), "+" if plus else "-", self.as_int(b)), INT)
            if self.is_numlike(a) and self.is_numlike(b):
                return V("(%s %s %s)" % (self.as_num(a), "+" if plus else "-", self.as_num(b)), NUM)
            raise Unsupported("%s %s %s" % (a.ty, "+" if plus else "-", b.ty))
        if isinstance(op, ast.Mult):
            if self.is_numlike(a) and b.ty == MAT:
                return V("(PMat.smul %s %s)" % (self.as_num(a), b.code), MAT)
            if a.ty == MAT and self.is_numlike(b):
                return V("(PMat.mulNum %s %s)" % (a.code, self.as_num(b)), MAT)
            if a.ty == NAT and b.ty == NAT:
                return V("(%s * %s)" % (a.code, b.code), NAT)
            if ints(a) and ints(b):
                if a.lit is not None and b.lit is not None:
                    return V("(%d : Int)" % (a.lit * b.lit), INT, lit=a.lit * b.lit)
                return V("(%s * %s)" % (self.as_int(a), self.as_int(b)), INT)
            if self.is_numlike(a) and self.is_numlike(b):
                return V("(%s * %s)" % (self.as_num(a), self.as_num(b)), NUM)
            raise Unsupported("%s * %s" % (a.ty, b.ty))
        if isinstance(op, ast.Div):
            if self.is_numlike(a) and self.is_numlike(b):
                nz = (b.ty == INT and b.lit not in (None, 0)) or (b.ty == NUM and b.lit not in (None, 0))
                if nz:
                    # a non-zero literal divisor cannot raise
                    return V("(%s / %s)" % (self.as_num(a), self.as_num(b)), NUM)
                return self.bind(pre, "PyNum.div %s %s" % (self.as_num(a), self.as_num(b)), NUM)
            raise Unsupported("%s / %s" % (a.ty, b.ty))
        raise Unsupported("operator %s" % type(op).__name__)

    def dotted(self, node):
        try:
            return ast.unparse(node)
        except Exception:
            return None

    def kwargs_of(self, node, env):
        """the `**kwargs` of a call -> Lean code of a LabelKw (empty when absent); other keywords returned"""
        kw, rest = "PyC2d.LabelKw.empty", {}
        for k in node.keywords:
            if k.arg is None:
                v = self.expr(k.value, env, [])
                if v.ty != KW:
                    raise Unsupported("** of a %s" % v.ty)
                kw = v.code
            else:
                rest[k.arg] = k.value
        return kw, rest

    def call(self, node, env, pre):
        f = self.dotted(node.func)
        args = node.args
        kws = {k.arg: k.value for k in node.keywords}
        plain = not node.keywords
        # ---- method calls on objects
        if isinstance(node.func, ast.Attribute) and not args and plain:
            m = node.func.attr
            if m in ("isctime", "issiso", "dcgain", "transpose"):
                v = self.expr(node.func.value, env, pre)
                if m == "isctime" and v.ty == NSS:
                    return V("(PyC2d.isctime %s.sys.dt = true)" % v.code, PROP)
                if m == "isctime" and v.ty == NTF:
                    return V("(PyC2d.isctime %s.dt = true)" % v.code, PROP)
                if m == "issiso" and v.ty == NTF:
                    return V("(PyC2d.tfIssiso %s = true)" % v.code, PROP)
                if m == "issiso" and v.ty == NSS:
                    return V("(PySS.issiso %s.sys = true)" % v.code, PROP)
                if m == "dcgain" and v.ty == NTF:
                    return self.bind(pre, "PyC2d.tfDcgain %s" % v.code, NUM)
                if m == "transpose" and v.ty == MAT:
                    return V("(PMat.T %s)" % v.code, MAT)
                raise Unsupported("method .%s() of %s" % (m, v.ty))
        # ---- external routines (parameters of the generated function)
        ext = self.external(f)
        if ext is not None:
            self.check_external(ext)
            return self.call_external(ext, node, env, pre)
        # ---- generated siblings / the function itself at a specialised value
        if isinstance(node.func, ast.Name) and (f in self.available or f == self.job["func"]):
            return self.call_sibling(f, node, env, pre)
        # ---- constructors
        if f == "StateSpace":
            self.need("StateSpace", ("class",))
            kw, rest = self.kwargs_of(node, env)
            if len(args) == 5 and plain:
                vs = [self.expr(x, env, pre) for x in args]
                if [x.ty for x in vs[:4]] == [MAT] * 4:
                    return self.bind(pre, "PyC2d.mkSS %s %s" % (" ".join(x.code for x in vs[:4]), self.as_dt(vs[4])), NSS)
            if len(args) == 1 and not rest:
                v = self.expr(args[0], env, pre)
                if v.ty == NSS:
                    return self.bind(pre, "PyC2d.copySS %s %s" % (v.code, kw), NSS)
            raise Unsupported("call %s" % ast.unparse(node)[:80])
        if f == "TransferFunction":
            self.need("TransferFunction", ("class",))
            kw, rest = self.kwargs_of(node, env)
            if len(args) == 3 and not rest:
                vs = [self.expr(x, env, pre) for x in args]
                if vs[0].ty == POLY and vs[1].ty == POLY:
                    return self.bind(pre, "PyC2d.mkTF %s %s %s %s" % (vs[0].code, vs[1].code, self.as_dt(vs[2]), kw), NTF)
            if len(args) == 1 and set(rest) <= {"name"}:
                v = self.expr(args[0], env, pre)
                nm = self.expr(rest["name"], env, pre) if "name" in rest else V("none", NONE)
                if v.ty == NTF:
                    return self.bind(pre, "PyC2d.copyTF %s %s %s" % (v.code, self.as_ty(nm, OPT(STR)), kw), NTF)
            raise Unsupported("call %s" % ast.unparse(node)[:80])
        # ---- library functions with a fixed meaning
        if f == "len" and len(args) == 1 and plain:
            v = self.expr(args[0], env, pre)
            if v.ty == POLY:
                return V("%s.length" % v.code if v.code.isidentifier() else "(%s).length" % v.code, NAT)
            if v.ty == TUPLE:
                return V("(%d : Int)" % len(v.items), INT, lit=len(v.items))
            raise Unsupported("len of %s" % v.ty)
        if f == "zpk2tf" and len(args) == 3 and plain:
            self.need("zpk2tf", ("from", "scipy.signal"))
            z, p, k = [self.expr(x, env, pre) for x in args]
            if z.ty == POLY and p.ty == POLY and self.is_numlike(k):
                t = self.tmp()
                pre.append("let %s : List K × List K := PyC2d.zpk2tf %s %s %s" % (t, z.code, p.code, self.as_num(k)))
                return V(t, TUPLE, items=[V("%s.1" % t, POLY), V("%s.2" % t, POLY)])
        if f == "np.multiply.reduce" and len(args) == 1 and plain:
            self.need("np", ("import", "numpy"))
            v = self.expr(args[0], env, pre)
            if v.ty == POLY:
                return V("(PyC2d.prod %s)" % v.code, NUM)
        if f == "np.eye" and len(args) == 1 and plain:
            self.need("np", ("import", "numpy"))
            n = self.expr(args[0], env, pre)
            if n.ty == NAT:
                return V("(PMat.eye %s)" % n.code, MAT)
        if f == "np.zeros" and len(args) == 1 and plain and isinstance(args[0], ast.Tuple) and len(args[0].elts) == 2:
            self.need("np", ("import", "numpy"))
            r = self.expr(args[0].elts[0], env, pre)
            c = self.expr(args[0].elts[1], env, pre)
            if r.ty == NAT and c.ty == NAT:
                return V("(PMat.zeros %s %s)" % (r.code, c.code), MAT)
        if f in ("np.hstack", "np.vstack") and len(args) == 1 and plain and isinstance(args[0], ast.Tuple) \
                and len(args[0].elts) == 2:
            self.need("np", ("import", "numpy"))
            x = self.expr(args[0].elts[0], env, pre)
            y = self.expr(args[0].elts[1], env, pre)
            if x.ty == MAT and y.ty == MAT:
                return self.bind(pre, "PMat.%s %s %s" % ("hcat" if f == "np.hstack" else "vcat", x.code, y.code), MAT)
        if f == "np.dot" and len(args) == 2 and plain:
            self.need("np", ("import", "numpy"))
            x = self.expr(args[0], env, pre)
            y = self.expr(args[1], env, pre)
            if x.ty == MAT and y.ty == MAT:
                return self.bind(pre, "PMat.matmul %s %s" % (x.code, y.code), MAT)
        if f == "linalg.solve" and len(args) == 2 and plain:
            self.need("linalg", ("from", "scipy"))
            x = self.expr(args[0], env, pre)
            y = self.expr(args[1], env, pre)
            if x.ty == MAT and y.ty == MAT:
                return self.bind(pre, "PMat.solve %s %s" % (x.code, y.code), MAT)
        if f == "hasattr" and len(args) == 2 and plain:
            v = self.expr(args[0], env, pre)
            if v.ty == TUPLE and isinstance(args[1], ast.Constant) and args[1].value == "to_discrete":
                return V("False", PROP, lit=False)          # a tuple has no such attribute
        raise Unsupported("call %s" % ast.unparse(node)[:80])

    def check_external(self, ext):
        how = ext["bound"]
        if how[0] == "attr":          # np.tan: `np` must be numpy
            self.need(how[1], how[2])
        else:
            self.need(ext["py"], how)

    def call_external(self, ext, node, env, pre):
        args = [self.expr(a, env, pre) for a in node.args]
        kws = {k.arg: self.expr(k.value, env, pre) for k in node.keywords}
        kind = ext["kind"]
        if kind == "fun1":
            if len(args) == 1 and not kws and self.is_numlike(args[0]):
                return V("(%s %s)" % (ext["lean"], self.as_num(args[0])), NUM)
        if kind == "Expm":
            if len(args) == 1 and not kws and args[0].ty == MAT:
                return self.bind(pre, "%s %s" % (ext["lean"], args[0].code), MAT)
        if kind in ("C2dSS", "C2dTF"):
            sig = (MAT, MAT, MAT, MAT) if kind == "C2dSS" else (POLY, POLY)
            ret = [MAT, MAT, MAT, MAT, NUM] if kind == "C2dSS" else [POLY2, POLY, NUM]
            names = ["system", "dt", "method", "alpha"]
            full = dict(zip(names, args))
            for k, v in kws.items():
                if k in full or k not in names:
                    raise Unsupported("keyword %s of cont2discrete" % k)
                full[k] = v
            if "system" not in full or "dt" not in full:
                raise Unsupported("cont2discrete without system / dt")
            method = full.get("method", V('"zoh"', STR))          # SciPy's defaults
            alpha = full.get("alpha", V("none", NONE))
            code = "%s %s %s %s %s" % (ext["lean"], self.as_ty(full["system"], sig), self.as_ty(full["dt"], NUM),
                                       self.as_ty(method, STR), self.as_ty(alpha, OPT(NUM)))
            t = self.bind(pre, code, TUPLE)
            t.items = self.projections(t.code, ret)
            return t
        if kind == "Tf2zpk":
            if len(args) == 2 and not kws and args[0].ty == POLY and args[1].ty == POLY:
                t = self.bind(pre, "%s %s %s" % (ext["lean"], args[0].code, args[1].code), TUPLE)
                t.items = self.projections(t.code, [POLY, POLY, NUM])
                return t
        raise Unsupported("call %s" % ast.unparse(node)[:80])

    def projections(self, name, tys):
        out = []
        for i, t in enumerate(tys):
            code = name + ".2" * i + ("" if i == len(tys) - 1 else ".1")
            out.append(V(code, t))
        return out

    def call_sibling(self, f, node, env, pre):
        args = [self.expr(a, env, pre) for a in node.args]
        kws = {k.arg: self.expr(k.value, env, pre) for k in node.keywords if k.arg is not None}
        if f == self.job["func"]:
            # a recursive call: only at a value of the specialised parameter that has its own function
            spec = self.job.get("recursion")
            if not spec:
                raise Unsupported("recursive call of %s" % f)
            pnames = [p[0] for p in self.job["params"]]
            full = dict(zip(pnames, args))
            full.update(kws)
            sp = spec["param"]
            if sp not in full or full[sp].ty != STR or full[sp].code != lean_str(spec["value"]):
                raise Unsupported("recursive call with %s = %s" % (sp, full[sp].code if sp in full else "?"))
            callee, cjob = spec["lean"], spec["job"]
            ordered = [full.get(p[0]) for p in cjob["params"]]
            if any(x is None for x in ordered):
                raise Unsupported("recursive call without all arguments")
            code = " ".join([callee] + [e["lean"] for e in cjob["externals"]]
                            + [self.as_ty(x, p[1]) for x, p in zip(ordered, cjob["params"])])
            t = self.bind(pre, code, cjob["ret_ty"])
            if isinstance(cjob["ret"], list):
                t.ty = TUPLE
                t.items = self.projections(t.code, cjob["ret"])
            return t
        lean, cjob = self.available[f]
        self.need(f, ("def",))
        pnames = [p[0] for p in cjob["params"]]
        if len(args) > len(pnames) or set(kws) - set(pnames):
            raise Unsupported("call %s" % ast.unparse(node)[:80])
        full = dict(zip(pnames, args))
        full.update(kws)
        if set(full) != set(pnames):
            raise Unsupported("call of %s without all arguments" % f)
        for e in cjob["externals"]:
            mine = self.external(e["py"])
            if mine is None or mine["kind"] != e["kind"]:
                raise Unsupported("sibling %s needs the external %s" % (f, e["py"]))
        code = " ".join([lean] + [e["lean"] for e in cjob["externals"]]
                        + [self.as_ty(full[p[0]], p[1]) for p in cjob["params"]])
        if cjob.get("kwarg"):
            kw = "PyC2d.LabelKw.empty"
            for k in node.keywords:
                if k.arg is None:
                    v = self.expr(k.value, env, [])
                    if v.ty != KW:
                        raise Unsupported("** of a %s" % v.ty)
                    kw = v.code
            code += " " + kw
        return self.bind(pre, code, cjob["ret"])

    # -- statements ---------------------------------------------------------------------------
    def is_doc(self, s):
        return isinstance(s, ast.Expr) and isinstance(s.value, ast.Constant) and isinstance(s.value.value, str)

    def is_warn(self, s):
        if isinstance(s, ast.Expr) and isinstance(s.value, ast.Call) and isinstance(s.value.func, ast.Name) \
                and s.value.func.id == "warn":
            self.need("warn", ("from", "warnings"))
            for a in s.value.args:
                if not (isinstance(a, ast.Constant) and isinstance(a.value, str)):
                    raise Unsupported("warn(%s)" % ast.unparse(a)[:40])
            return True
        return False

    def ret_lines(self, v, pre):
        want = self.job["ret"]
        if isinstance(want, list):
            if v.ty != TUPLE or len(v.items) != len(want):
                raise Unsupported("returns %s, expected a %d-tuple" % (v.ty, len(want)))
            if v.code is not None and pre and pre[-1].startswith("let %s ← " % v.code):
                last = pre.pop()
                return pre + [last[len("let %s ← " % v.code):]]
            return pre + ["pure (" + ", ".join(self.as_ty(x, t) for x, t in zip(v.items, want)) + ")"]
        if v.ty != want:
            raise Unsupported("returns a %s, expected %s" % (v.ty, want))
        if pre and pre[-1].startswith("let %s ← " % v.code):
            last = pre.pop()
            return pre + [last[len("let %s ← " % v.code):]]
        return pre + ["pure %s" % v.code]

    def let(self, name, v, env, pre):
        if v.ty in (PROP, NONE):
            raise Unsupported("assignment of a %s" % v.ty)
        self.locals.add(name)
        if v.ty == TUPLE:
            env[name] = V(None, TUPLE, items=v.items)          # a tuple of effect-free values: static
            return pre
        if pre and re.fullmatch(r"t\d+", v.code or "") and pre[-1].startswith("let %s ← " % v.code):
            last = pre.pop()
            self.ntmp -= 1
            lines = pre + ["let %s ← %s" % (name, last[len("let %s ← " % v.code):])]
        else:
            code = v.code
            if v.ty == INT and v.lit is not None:
                code = "(%d : Int)" % v.lit
            lines = pre + ["let %s : %s := %s" % (name, LEAN_TY[v.ty], code)]
        env[name] = V(name, v.ty)
        return lines

    def assigned(self, stmts):
        out = set()
        for s in stmts:
            for n in ast.walk(s):
                if isinstance(n, ast.Assign):
                    for t in n.targets:
                        for x in ast.walk(t):
                            if isinstance(x, ast.Name) and isinstance(x.ctx, ast.Store):
                                out.add(x.id)
                            elif isinstance(x, (ast.Subscript, ast.Attribute)) and isinstance(x.value, ast.Name):
                                out.add(x.value.id)
                elif isinstance(n, ast.Expr) and isinstance(n.value, ast.Call) and isinstance(n.value.func, ast.Attribute) \
                        and isinstance(n.value.func.value, ast.Name) and n.value.func.attr == "_copy_names":
                    out.add(n.value.func.value.id)
                elif isinstance(n, ast.For):
                    for x in ast.walk(n.target):
                        if isinstance(x, ast.Name):
                            out.add(x.id)
        out.discard("_")
        return out

    def branch_pair(self, s, env):
        """an `if` as (header lines, [(arm header or None, env, stmts)...], footer) - either a Prop test
        or a match on an optional variable; static tests are resolved by the caller"""
        nt = self.none_test(s.test)
        if nt is not None and nt[0] in env and is_opt(env[nt[0]].ty):
            x, is_none = nt
            senv = dict(env)
            senv[x] = V(x, env[x].ty[4:])
            some_stmts, none_stmts = (s.orelse, s.body) if is_none else (s.body, s.orelse)
            return ["match %s with" % env[x].code], [("| some %s =>" % x, senv, list(some_stmts)),
                                                      ("| none =>", dict(env), list(none_stmts))]
        if nt is not None and nt[0] in env and not is_opt(env[nt[0]].ty) and env[nt[0]].ty != NONE:
            return "static", (not nt[1])           # a value that is known not to be None
        return None

    def seq(self, stmts, env, tail):
        """translate a statement list; returns (lines, ended).  tail: None = function level (must end in
        return / raise); a list of (name, type) = a branch of a join, ends with `pure (vars)`"""
        lines = []
        stmts = [s for s in stmts if not self.is_doc(s) and not isinstance(s, ast.Pass)]
        for idx, s in enumerate(stmts):
            rest = stmts[idx + 1:]
            if self.is_warn(s):
                continue
            if isinstance(s, ast.Return):
                if s.value is None:
                    raise Unsupported("bare return")
                if tail == []:
                    return lines + ["<return>"], True            # probing whether a branch ends
                if tail is not None:
                    raise Unsupported("return inside a branch that is joined / a loop body")
                pre = []
                v = self.expr(s.value, env, pre)
                return lines + self.ret_lines(v, pre), True
            if isinstance(s, ast.Raise):
                e = s.exc
                if isinstance(e, ast.Call) and isinstance(e.func, ast.Name) and len(e.args) == 1:
                    msg = e.args[0]
                    if isinstance(msg, ast.BinOp) and isinstance(msg.op, ast.Mod):
                        msg = msg.left                       # "..." % x : the literal part decides
                    if isinstance(msg, ast.JoinedStr):           # f"...{x}...": the literal parts decide
                        msg = ast.Constant(value="".join(p.value for p in msg.values
                                                         if isinstance(p, ast.Constant) and isinstance(p.value, str)))
                    if isinstance(msg, ast.Constant) and isinstance(msg.value, str):
                        if e.func.id == "ControlMIMONotImplemented":
                            self.need("ControlMIMONotImplemented", ("from", "exception"))
                        return lines + ["throw Err.%s" % classify_message(e.func.id, msg.value)], True
                raise Unsupported("raise %s" % ast.unparse(s)[:60])
            if isinstance(s, ast.Assign) and len(s.targets) == 1:
                lines += self.assign(s, env)
                continue
            if isinstance(s, ast.Expr) and isinstance(s.value, ast.Call) and isinstance(s.value.func, ast.Attribute) \
                    and s.value.func.attr == "_copy_names" and isinstance(s.value.func.value, ast.Name):
                lines += self.copy_names(s.value, env)
                continue
            if isinstance(s, ast.For):
                lines += self.for_loop(s, env)
                continue
            if isinstance(s, ast.If):
                got = self.if_stmt(s, rest, env, tail)
                if got[0] == "done":
                    return lines + got[1], got[2]
                lines += got[1]
                continue
            raise Unsupported("statement %s" % ast.unparse(s)[:60])
        if tail is None:
            raise Unsupported("a path falls off the end of the function")
        if tail == []:
            return lines, False
        vals = []
        for nm, t in tail:
            if nm not in env:
                raise Unsupported("internal: join variable %s undefined" % nm)
            vals.append(self.as_ty(env[nm], t))
        return lines + ["pure %s" % (vals[0] if len(vals) == 1 else "(" + ", ".join(vals) + ")")], False

    def assign(self, s, env):
        t = s.targets[0]
        if isinstance(t, ast.Name):
            pre = []
            # [c] * len(xs)
            if isinstance(s.value, ast.BinOp) and isinstance(s.value.op, ast.Mult) and isinstance(s.value.left, ast.List) \
                    and len(s.value.left.elts) == 1:
                c = self.expr(s.value.left.elts[0], env, pre)
                n = self.expr(s.value.right, env, pre)
                if self.is_numlike(c) and n.ty == NAT:
                    return self.let(t.id, V("(List.replicate %s %s)" % (n.code, self.as_num(c)), POLY), env, pre)
                raise Unsupported("assignment %s" % ast.unparse(s)[:60])
            v = self.expr(s.value, env, pre)
            return self.let(t.id, v, env, pre)
        if isinstance(t, ast.Tuple) and all(isinstance(x, ast.Name) for x in t.elts):
            pre = []
            v = self.expr(s.value, env, pre)
            if v.ty != TUPLE or len(v.items) != len(t.elts):
                raise Unsupported("unpacking of a %s into %d names" % (v.ty, len(t.elts)))
            lines = pre
            names = [x.id for x in t.elts]
            if len(set(n for n in names if n != "_")) != len([n for n in names if n != "_"]):
                raise Unsupported("repeated name in a tuple target")
            # all right-hand sides are effect-free values evaluated before the targets are bound
            vals = list(v.items)
            used = set()
            for it in vals:
                used |= set(re.findall(r"[A-Za-z_]\w*", it.code or ""))
            if used & set(names):
                # simultaneous assignment that reads its own targets: go through temporaries
                tmps = []
                for it in vals:
                    tn = self.tmp()
                    lines.append("let %s : %s := %s" % (tn, LEAN_TY[it.ty], it.code))
                    tmps.append(V(tn, it.ty))
                vals = tmps
            for nm, it in zip(names, vals):
                if nm == "_":
                    continue
                lines = self.let(nm, it, env, lines)
            return lines
        if isinstance(t, ast.Subscript) and isinstance(t.value, ast.Name):
            x = self.expr(t.value, env, [])
            if x.ty != POLY:
                raise Unsupported("item assignment on %s" % x.ty)
            pre = []
            i = self.expr(t.slice, env, pre)
            v = self.expr(s.value, env, pre)
            if not self.is_numlike(v):
                raise Unsupported("item assignment of a %s" % v.ty)
            self.locals.add(t.value.id)
            env[t.value.id] = V(t.value.id, POLY)
            return pre + ["let %s ← PyArith.setItem %s %s %s" % (t.value.id, x.code, self.as_int(i), self.as_num(v))]
        if isinstance(t, ast.Attribute) and isinstance(t.value, ast.Name) and t.attr == "name":
            x = self.expr(t.value, env, [])
            pre = []
            v = self.expr(s.value, env, pre)
            if x.ty in (NSS, NTF) and v.ty == STR:
                fn = "PyC2d.setNameSS" if x.ty == NSS else "PyC2d.setNameTF"
                self.locals.add(t.value.id)
                env[t.value.id] = V(t.value.id, x.ty)
                return pre + ["let %s : %s := (%s %s %s)" % (t.value.id, LEAN_TY[x.ty], fn, x.code, v.code)]
            raise Unsupported("`%s.name = <%s>`" % (x.ty, v.ty))
        raise Unsupported("assignment %s" % ast.unparse(s)[:60])

    def copy_names(self, call, env):
        x = call.func.value.id
        kws = {k.arg: k.value for k in call.keywords}
        if len(call.args) != 1 or set(kws) != {"prefix_suffix_name"} \
                or not (isinstance(kws["prefix_suffix_name"], ast.Constant) and kws["prefix_suffix_name"].value == "sampled"):
            raise Unsupported("call %s (only _copy_names(sys, prefix_suffix_name='sampled'))" % ast.unparse(call)[:80])
        dst = self.expr(call.func.value, env, [])
        src = self.expr(call.args[0], env, [])
        if dst.ty != src.ty or dst.ty not in (NSS, NTF):
            raise Unsupported("_copy_names from %s to %s" % (src.ty, dst.ty))
        fn = "PyC2d.copyNamesSS" if dst.ty == NSS else "PyC2d.copyNamesTF"
        self.locals.add(x)
        env[x] = V(x, dst.ty)
        return ["let %s : %s := (%s %s %s)" % (x, LEAN_TY[dst.ty], fn, dst.code, src.code)]

    def for_loop(self, s, env):
        """for i, v in enumerate(xs): body   ->   List.foldlM over PyC2d.enumerate xs"""
        if s.orelse:
            raise Unsupported("for ... else")
        it = s.iter
        if not (isinstance(it, ast.Call) and isinstance(it.func, ast.Name) and it.func.id == "enumerate"
                and len(it.args) == 1 and not it.keywords and isinstance(s.target, ast.Tuple)
                and len(s.target.elts) == 2 and all(isinstance(x, ast.Name) for x in s.target.elts)):
            raise Unsupported("loop %s (only `for i, v in enumerate(xs)`)" % ast.unparse(s)[:60])
        if "enumerate" in self.locals or "enumerate" in self.bindings:
            raise Unsupported("`enumerate` is re-bound")
        for n in ast.walk(s):
            if isinstance(n, (ast.Break, ast.Continue, ast.Return)):
                raise Unsupported("break / continue / return inside a loop")
        pre = []
        xs = self.expr(it.args[0], env, pre)
        if xs.ty != POLY:
            raise Unsupported("enumerate of a %s" % xs.ty)
        iv, vv = s.target.elts[0].id, s.target.elts[1].id
        state = sorted(n for n in self.assigned(s.body) if n in env and n not in (iv, vv))
        if not state:
            raise Unsupported("a loop without effect")
        for n in state:
            if env[n].ty not in LEAN_TY:
                raise Unsupported("loop state %s of type %s" % (n, env[n].ty))
        tys = [env[n].ty for n in state]
        st, itv = self.tmp(), self.tmp()
        benv = dict(env)
        body = []
        for k, n in enumerate(state):
            proj = st if len(state) == 1 else st + ".2" * k + ("" if k == len(state) - 1 else ".1")
            body.append("let %s : %s := %s" % (n, LEAN_TY[tys[k]], proj))
            benv[n] = V(n, tys[k])
        body.append("let %s : Int := %s.1" % (iv, itv))
        body.append("let %s : K := %s.2" % (vv, itv))
        benv[iv] = V(iv, INT)
        benv[vv] = V(vv, NUM)
        self.locals |= {iv, vv}
        bl, _ = self.seq(list(s.body), benv, [(n, t) for n, t in zip(state, tys)])
        body += bl
        sty = " × ".join(LEAN_TY[t] for t in tys)
        pat = state[0] if len(state) == 1 else "(" + ", ".join(state) + ")"
        init = state[0] if len(state) == 1 else "(" + ", ".join(env[n].code for n in state) + ")"
        if len(state) == 1:
            init = env[state[0]].code
        lines = pre + ["let %s ← List.foldlM (fun (%s : %s) (%s : Int × K) => (do" % (pat, st, sty, itv)] \
            + _ind(body, 4) + ["    : Except Err (%s))) %s (PyC2d.enumerate %s)" % (sty, init, xs.code)]
        for n, t in zip(state, tys):
            env[n] = V(n, t)
            self.locals.add(n)
        env.pop(iv, None)
        env.pop(vv, None)
        return lines

    def if_stmt(self, s, rest, env, tail):
        """-> ("done", lines, ended) when the rest of the block was consumed, else ("go", lines)"""
        bp = self.branch_pair(s, env)
        pre = []
        if bp is not None and bp[0] == "static":
            st, cond = bp[1], None
        elif bp is None:
            st, cond = self.test(s.test, env, pre)
        else:
            st, cond = None, None
        if st is True:
            sub, ended = self.seq(list(s.body) + rest, env, tail)
            return "done", pre + sub, ended
        if st is False:
            sub, ended = self.seq(list(s.orelse) + rest, env, tail)
            return "done", pre + sub, ended
        skip = self.job.get("skip_tests", {})
        key = ast.unparse(s.test)
        if key in skip:
            # a branch that is not modelled: an explicit error, the rest of the chain is translated
            self.notes.append("branch `if %s`: %s" % (key, skip[key]))
            sub, ended = self.seq(list(s.orelse) + ([] if self.always_ends(s.orelse) else rest), dict(env), tail)
            return "done", pre + ["if %s then" % cond, "  throw Err.notImplemented   -- not modelled: " + skip[key],
                                  "else"] + _ind(sub), True if ended else ended

        def arms(mk):
            """assemble the two branches; mk(env, stmts) -> lines"""
            if bp is None:
                return ["if %s then" % cond] + _ind(mk(dict(env), list(s.body))) + ["else"] + _ind(mk(dict(env), list(s.orelse)))
            out = list(bp[0])
            for hdr, aenv, stmts in bp[1]:
                out += [hdr] + _ind(mk(dict(aenv), stmts))
            return out

        # does a branch end (return / raise on every path)?
        save = (self.ntmp, set(self.locals), list(self.notes))

        def probe(benv, stmts):
            l, e = self.seq(stmts, benv, [])
            return e
        if bp is None:
            ends = [probe(dict(env), list(s.body)), probe(dict(env), list(s.orelse))]
        else:
            ends = [probe(dict(a[1]), a[2]) for a in bp[1]]
        self.ntmp, self.locals, self.notes = save[0], save[1], save[2]
        if any(ends):
            flags = iter(ends)
            all_end = []

            def mk(benv, stmts):
                e = next(flags)
                l, ended = self.seq(stmts + ([] if e else rest), benv, tail)
                all_end.append(ended)
                return l
            out = arms(mk)
            return "done", pre + out, all(all_end)
        # join over the variables re-bound in a branch and known afterwards
        names = sorted(self.assigned(s.body) | self.assigned(s.orelse))
        envs = []

        def mk_probe(benv, stmts):
            self.seq(stmts, benv, [])
            envs.append(benv)
            return []
        save = (self.ntmp, set(self.locals), list(self.notes))
        arms(mk_probe)
        self.ntmp, self.locals, self.notes = save[0], save[1], save[2]
        live = []
        for nm in names:
            tys = [e.get(nm) for e in envs]
            if any(t is None for t in tys):
                continue
            ts = {t.ty for t in tys}
            if len(ts) == 1 and tys[0].ty in LEAN_TY:
                live.append((nm, tys[0].ty))
            elif ts <= {NUM, INT, NAT, PERIOD}:
                live.append((nm, NUM))
            else:
                raise Unsupported("`%s` has type %s after the branches" % (nm, sorted(ts)))
        if not live:
            # a guard: branches that only raise or do nothing
            empty = []
            arms(lambda benv, stmts: empty.append(not self.seq(stmts, benv, [])[0]) or [])
            if all(empty):
                # nothing is left of the statement (its body was a `warn(...)`): the test is effect-free
                self.notes.append("`if %s:` has no effect on the result (warning only): dropped" % ast.unparse(s.test))
                return "go", pre
            out = arms(lambda benv, stmts: self.seq(stmts, benv, [])[0] + ["pure ()"])
            return "go", pre + ["(do"] + _ind(out) + ["  : Except Err Unit)"]
        out = arms(lambda benv, stmts: self.seq(stmts, benv, live)[0])
        pat = live[0][0] if len(live) == 1 else "(" + ", ".join(nm for nm, _ in live) + ")"
        ty = " × ".join(LEAN_TY[t] for _, t in live)
        for nm, t in live:
            env[nm] = V(nm, t)
            self.locals.add(nm)
        for nm in names:
            if nm not in [x for x, _ in live]:
                env.pop(nm, None)
        return "go", pre + ["let %s ← (do" % pat] + _ind(out) + ["  : Except Err (%s))" % ty]

    def always_ends(self, stmts):
        return bool(stmts) and isinstance(stmts[-1], (ast.Return, ast.Raise))


# -------------------------------------------------------------------------------------------------
# jobs
# -------------------------------------------------------------------------------------------------
EXT_C2DSS = dict(py="cont2discrete", lean="cont2discrete", kind="C2dSS", bound=("from", "scipy.signal"))
EXT_C2DTF = dict(py="cont2discrete", lean="cont2discrete", kind="C2dTF", bound=("from", "scipy.signal"))
EXT_TAN = dict(py="np.tan", lean="tan", kind="fun1", bound=("attr", "np", ("import", "numpy")))
EXT_EXP = dict(py="exp", lean="exp", kind="fun1", bound=("from", "numpy"))
EXT_TF2ZPK = dict(py="tf2zpk", lean="tf2zpk", kind="Tf2zpk", bound=("from", "scipy.signal"))
EXT_EXPM = dict(py="linalg.expm", lean="expm", kind="Expm", bound=("attr", "linalg", ("from", "scipy")))

SAMPLE_PARAMS = [("Ts", PERIOD), ("method", STR), ("alpha", OPT(NUM)), ("prewarp_frequency", OPT(NUM)),
                 ("name", OPT(STR)), ("copy_names", BOOL)]
SAMPLE_DEFAULTS = {"method": "'zoh'", "alpha": "None", "prewarp_frequency": "None", "name": "None",
                   "copy_names": "True"}

JOB_SS = dict(key="StateSpace.sample", source="repo", rel="control/statesp.py", cls="StateSpace", func="sample",
              lean="ssSample", out="C2dSS.lean", params=[("self", NSS)] + SAMPLE_PARAMS, kwarg="kwargs",
              defaults=SAMPLE_DEFAULTS, externals=[EXT_C2DSS, EXT_TAN], ret=NSS,
              variables="variable {K : Type} [Field K] [DecidableEq K]")
JOB_MATCHED = dict(key="_c2d_matched", source="repo", rel="control/xferfcn.py", cls=None, func="_c2d_matched",
                   lean="tfMatched", out="C2dTF.lean", params=[("sysC", NTF), ("Ts", PERIOD)], kwarg="kwargs",
                   defaults={}, externals=[EXT_TF2ZPK, EXT_EXP], ret=NTF, callable_as="_c2d_matched")
JOB_TF = dict(key="TransferFunction.sample", source="repo", rel="control/xferfcn.py", cls="TransferFunction",
              func="sample", lean="tfSample", out="C2dTF.lean", params=[("self", NTF)] + SAMPLE_PARAMS,
              kwarg="kwargs", defaults=SAMPLE_DEFAULTS, externals=[EXT_C2DTF, EXT_TAN, EXT_TF2ZPK, EXT_EXP], ret=NTF)
SCIPY_NOTE = ("the state-space branch: `system` is a 4-tuple of 2-D arrays (`hasattr(system, 'to_discrete')` is "
              "False, `len(system) == 4`)")
JOB_SCIPY_GBT = dict(key="scipy.cont2discrete[method='gbt']", source="scipy", rel=SCIPY_REL, cls=None,
                     func="cont2discrete", lean="scipyC2dGbt", out="C2dScipy.lean",
                     py_params=["system", "dt", "method", "alpha"],
                     params=[("system", SYS4), ("dt", NUM), ("alpha", OPT(NUM))], tuple_params={"system": [MAT] * 4},
                     static={"method": "gbt"}, variant=" specialised at method='gbt'",
                     defaults={"method": "'zoh'", "alpha": "None"}, externals=[], ret=[MAT, MAT, MAT, MAT, NUM],
                     ret_ty=TUPLE, notes=[SCIPY_NOTE])
JOB_SCIPY = dict(key="scipy.cont2discrete", source="scipy", rel=SCIPY_REL, cls=None, func="cont2discrete",
                 lean="scipyC2dRest", out="C2dScipy.lean", py_params=["system", "dt", "method", "alpha"],
                 params=[("system", SYS4), ("dt", NUM), ("method", STR), ("alpha", OPT(NUM))],
                 tuple_params={"system": [MAT] * 4}, static={"method": ("ne", "gbt")},
                 variant=" for method != 'gbt'",
                 recursion=dict(param="method", value="gbt", lean="scipyC2dGbt", job=JOB_SCIPY_GBT),
                 skip_tests={"method == 'foh'": "first-order hold is outside the property",
                             "method == 'impulse'": "impulse invariance is outside the property"},
                 defaults={"method": "'zoh'", "alpha": "None"}, externals=[EXT_EXPM], ret=[MAT, MAT, MAT, MAT, NUM],
                 notes=[SCIPY_NOTE],
                 epilogue=("/-- `scipy.signal.cont2discrete` on a 4-tuple: the two specialisations joined on the test\n"
                           "`method == 'gbt'` (a recursive call `cont2discrete(system, dt, method=\"gbt\", alpha=…)` of the\n"
                           "source is a call of the first one). -/\n"
                           "def scipyC2d (expm : PMat K → Except Err (PMat K)) : PyC2d.C2dSS K :=\n"
                           "  fun system dt method alpha =>\n"
                           "    if method = \"gbt\" then scipyC2dGbt system dt alpha else scipyC2dRest expm system dt method alpha\n"))
JOBS = [JOB_SS, JOB_MATCHED, JOB_TF, JOB_SCIPY_GBT, JOB_SCIPY]
FILES = [("C2dSS.lean", ["CtrlVerif.Model.PyC2d"], "variable {K : Type} [Field K] [DecidableEq K]"),
         ("C2dTF.lean", ["CtrlVerif.Model.PyC2d"], "variable {K : Type} [Field K] [DecidableEq K]"),
         ("C2dScipy.lean", ["CtrlVerif.Model.PyC2d"], "variable {K : Type} [Field K] [LinearOrder K]")]


def find_function(module, cls, func):
    body = module.body
    if cls:
        found = [n for n in module.body if isinstance(n, ast.ClassDef) and n.name == cls]
        if len(found) != 1:
            raise Unsupported("class %s %s" % (cls, "not found" if not found else "defined twice"))
        body = found[0].body
    found = [n for n in body if isinstance(n, ast.FunctionDef) and n.name == func]
    if len(found) != 1:
        raise Unsupported("function %s %s" % (func, "not found" if not found else "defined twice"))
    return found[0]


def signature(job, unused=False):
    u = "_" if unused else ""
    parts = ["(%s%s : %s)" % (u, e["lean"], EXTERNAL_TY[e["kind"]]) for e in job["externals"]]
    parts += ["(%s%s : %s)" % (u, n, LEAN_TY[t]) for n, t in job["params"]]
    if job.get("kwarg"):
        parts.append("(%s%s : PyC2d.LabelKw)" % (u, job["kwarg"]))
    out, line = [], ""
    for p in parts:                       # wrap at ~100 columns
        if line and len(line) + len(p) > 88:
            out.append(line)
            line = p
        else:
            line = (line + " " + p) if line else p
    out.append(line)
    return "\n    ".join(out)


def ret_type(job):
    r = job["ret"]
    return " × ".join(LEAN_TY[t] for t in r) if isinstance(r, list) else LEAN_TY[r]


def where_of(job):
    return "%s:%s%s" % (job["rel"], (job["cls"] + ".") if job.get("cls") else "", job["func"])


def translate(src, module, bindings, job, available):
    fn = find_function(module, job.get("cls"), job["func"])
    a = fn.args
    if a.vararg or a.kwonlyargs or a.posonlyargs:
        raise Unsupported("signature")
    got = [x.arg for x in a.args]
    want = [n for n, _ in job["params"]] + [n for n, _ in job.get("fixed_params", [])]
    want = job.get("py_params", want)
    if got != want:
        raise Unsupported("parameters %s, expected %s" % (got, want))
    if (a.kwarg.arg if a.kwarg else None) != job.get("kwarg"):
        raise Unsupported("**%s, expected %s" % (a.kwarg.arg if a.kwarg else None, job.get("kwarg")))
    defaults = dict(zip(got[len(got) - len(a.defaults):], [ast.unparse(d) for d in a.defaults]))
    if defaults != job["defaults"]:
        raise Unsupported("default values %s, expected %s" % (defaults, job["defaults"]))
    text = ast.get_source_segment(src, fn)
    sha = hashlib.sha256(text.encode()).hexdigest()
    tr = Translator(job, bindings, available)
    env = {}
    for n, t in job["params"]:
        env[n] = V(n, t)
    for n, val in job.get("static", {}).items():
        if isinstance(val, str):
            env[n] = V(lean_str(val), STR)
    if job.get("kwarg"):
        env[job["kwarg"]] = V(job["kwarg"], KW)
    for n, tys in job.get("tuple_params", {}).items():
        env[n] = V(n, TUPLE, items=tr.projections(n, tys))
    lines, _ = tr.seq(fn.body, env, None)
    body = ["do"] + _ind(lines)
    notes = list(job.get("notes", [])) + tr.notes
    doc = ("/-- `%s` as the source text says it (sha256 of the function text\n%s).\nDefaults: %s.%s -/\n" % (
        where_of(job) + job.get("variant", ""), sha,
        ", ".join("%s=%s" % kv for kv in sorted(defaults.items())) or "none",
        "".join("\n  note: " + n.replace("-/", "- /") for n in notes)))
    lean = doc + "def %s %s :\n    Except Err (%s) :=\n" % (job["lean"], signature(job), ret_type(job)) \
        + "\n".join(_ind(body)) + "\n"
    return lean, {"sha": sha, "lines": fn.end_lineno - fn.lineno + 1, "temporaries": tr.ntmp, "notes": notes}


def failed_def(job, msg):
    return "/-- translation of `%s` FAILED: %s -/\ndef %s %s :\n    Except Err (%s) :=\n  .error Err.notImplemented\n" % (
        where_of(job) + job.get("variant", ""), msg, job["lean"], signature(job, unused=True), ret_type(job))


def load(path):
    try:
        src = open(path).read()
        module = ast.parse(src)
        return src, module, module_bindings(module), None
    except (OSError, SyntaxError) as e:
        return None, None, None, str(e)


def regenerate(repo, lean_dir, only=None):
    """Rewrite Generated/C2d*.lean; returns (list of problems, info dict).  Deterministic functions of
    the source texts (no timestamps), rewritten only when changed."""
    problems, info = [], {}
    gen_dir = os.path.join(lean_dir, "CtrlVerif", "Generated")
    os.makedirs(gen_dir, exist_ok=True)
    loaded = {}
    available = {}
    texts = {out: [] for out, _, _ in FILES}
    for job in JOBS:
        path = os.path.join(repo, job["rel"]) if job["source"] == "repo" else scipy_path()
        if path not in loaded:
            loaded[path] = load(path)
        src, module, bindings, err = loaded[path]
        where = where_of(job) + job.get("variant", "")
        try:
            if err:
                raise Unsupported(err)
            lean, inf = translate(src, module, bindings, job, available)
            info[job["key"]] = inf
        except Unsupported as e:
            msg = str(e).replace("\n", " ").replace("-/", "- /")[:300]
            problems.append("py2lean_c2d: %s cannot be translated: %s" % (where, msg))
            lean = failed_def(job, msg)
        if job.get("callable_as"):
            available[job["callable_as"]] = (job["lean"], job)
        texts[job["out"]].append(lean)
        if job.get("epilogue"):
            texts[job["out"]].append(job["epilogue"])
    for out, imports, variables in FILES:
        if only and out not in only:
            continue
        jobs = [j for j in JOBS if j["out"] == out]
        shas = ", ".join("%s %s" % (j["key"], info[j["key"]]["sha"][:16] if j["key"] in info else "FAILED") for j in jobs)
        rels = sorted({j["rel"] for j in jobs})
        text = ("-- GENERATED on every run by harness/core/py2lean_c2d.py from %s (%s).  Do not edit.\n" % (", ".join(rels), shas)
                + "".join("import %s\n" % d for d in imports)
                + "\nnamespace CtrlVerif.Generated\n\nopen CtrlVerif\n\nnoncomputable section\n\n"
                + variables + "\n\n" + "\n".join(texts[out]) + "\nend\n\nend CtrlVerif.Generated\n")
        p = os.path.join(gen_dir, out)
        old = open(p).read() if os.path.exists(p) else None
        if old != text:
            with open(p, "w") as f:
                f.write(text)
    return problems, info


if __name__ == "__main__":
    import sys
    probs, inf = regenerate(sys.argv[1], sys.argv[2])
    for p in probs:
        print("PROBLEM", p)
    for k, v in inf.items():
        print(k, v["sha"][:16], v["lines"], "lines,", v["temporaries"], "temporaries", v["notes"])
