"""Translator Python `ast` -> Lean 4 for the `inplist` / `outlist` PRE-PROCESSING LOOPS of `interconnect()`
(control/nlsys.py; property C07, tag py2lean-iolist, notes/NOTES-py2lean-iolist.md).  It extends the tie of
`core/py2lean_icx.py` (class `X`, imported, not edited) and regenerates on every run

  Generated/ICLIn.lean    `icxInList`: from `if not isinstance(inplist, list):` to `inplist, inputs = new_inplist,
                          new_inputs` (the loop `for iinp, connection in enumerate(inplist):` with everything in it)
  Generated/ICLOut.lean   `icxOutList`: the same for `outlist` (incl. the local function
                          `_find_output_or_input_signal` with its `try … except ValueError`)
  Generated/ICLNone.lean  `icxListNone`: `if inplist is None: inplist = inputs or []; inplist_none = True`, idem outlist

EVERY `for` LOOP IS HOISTED: the body of the n-th loop of a group (source order) becomes its own definition
`<group>_loop<n> <free variables, sorted> (st : <re-bound variables, sorted>) (el : <element>)`, and the loop is
`List.foldlM (<group>_loop<n> …) <initial state> <iterable>`.  The equality theorems of `Props/C07GenXList*.lean` are
stated per definition (a loop body is evaluated on a generic element; loops are rewritten by fold lemmas).

New forms on top of `X`: `a, b = e1, e2`; `a, b, c = _parse_spec(…)`; `x += <list>`; `x.append(e)` on a value; `xs[i].append(e)`;
`for i, x in enumerate(l)`; `for i in range(n)`; `[e for i in l]`; conditional expressions whose branches can raise;
negative int constants; 3-tuples as values; `s.split('.')`; `v == '<lit>'`; `v == sys.name`; `v[i]`; `sys.ninputs`;
`sys._find_signals(name, sys.input_index)` (= `PyIC.findSignals`, proved equal to the translated `_find_signals` by
`C07GenX.generated_findSignals_prim`); a local `def` with `try / except ValueError` (`PyIC.tryExcept`).
New primitives: `Model/PyIOL.lean` (trusted, small).
"""
import ast
import hashlib
import os

from core.py2lean import Unsupported
from core.py2lean_select import find_def, write_if_changed, _lean_str
from core.py2lean_ic import lean_name, _ind, literal_text, failed_def
from core import py2lean_icx as icx
from core.py2lean_icx import X, E, par, lty, Retry, run, classify_x, exactly_one, is_name

icx.LT.setdefault("NUM", "K")

# Python names that are tokens of Lean but not in py2lean_ic.LEAN_KEYWORDS (e.g. a variable called `matches`):
# escaped like the others.  Installed in py2lean_icx as well, whose class X this translator extends (it only
# changes names that would otherwise give a Lean file that does not parse).
_MORE_KEYWORDS = {"matches", "at", "from", "have", "show", "end", "open", "in", "then", "do", "fun", "let", "where",
                  "with", "by", "using", "deriving", "instance", "class", "structure", "theorem", "def", "example",
                  "match", "if", "else", "for", "return", "import", "namespace", "section", "variable", "universe",
                  "macro", "syntax", "notation", "infix", "prefix", "postfix", "mutual", "private", "protected",
                  "partial", "unsafe", "noncomputable", "abbrev", "axiom", "inductive", "extends", "calc", "suffices",
                  "obtain", "exact", "forall", "exists", "Type", "Prop", "Sort", "st", "el"}
_base_lean_name = lean_name


def lean_name(py):  # noqa: F811
    return py + "_py" if py in _MORE_KEYWORDS else _base_lean_name(py)


icx.lean_name = lean_name
NLSYS = "control/nlsys.py"


def to_val(v):
    if v.ty == "VAL":
        return v.code
    if v.ty == "INT":
        return "(Val.int %s)" % par(v.code)
    if v.ty == "NAT":
        return "(Val.int (Int.ofNat %s))" % par(v.code)
    if v.ty == "NUM":
        return "(Val.num %s)" % par(v.code)
    if v.ty == "STRING":
        return "(PyIOL.nameVal %s)" % par(v.code)
    if v.ty == "LABEL":
        return "(PyIOL.labelVal %s)" % par(v.code)
    if v.ty == "LIST:VAL":
        return "(Val.list %s)" % par(v.code)
    if v.ty == "LIST:LIST:VAL":
        return "(Val.list (%s.map Val.list))" % par(v.code)
    raise Unsupported("a %s used as a value" % v.ty)


class XL(X):
    def __init__(self, hints, group):
        X.__init__(self, hints)
        self.group = group
        self.defs = []          # hoisted loop bodies (text), source order
        self.nloop = 0
        self.funcs = {}         # local functions: name -> lean name

    # ---- expressions ----------------------------------------------------------------------------
    def expr(self, node, env, pre, want=None):
        if isinstance(node, ast.UnaryOp) and isinstance(node.op, ast.USub) and isinstance(node.operand, ast.Constant) \
                and isinstance(node.operand.value, int):
            return E("(-%d : Int)" % node.operand.value, "INT")
        if isinstance(node, ast.Tuple) and len(node.elts) == 3:
            items = [self.expr(e, env, pre) for e in node.elts]
            return E("(Val.tuple [%s])" % ", ".join(to_val(i) for i in items), "VAL")
        if isinstance(node, ast.List) and len(node.elts) == 1:
            i = self.expr(node.elts[0], env, pre)
            return E("[%s]" % i.code, "LIST:" + i.ty)
        if isinstance(node, ast.ListComp):
            return self.listcomp(node, env, pre)
        if isinstance(node, ast.BoolOp) and isinstance(node.op, ast.Or) and len(node.values) == 2 \
                and isinstance(node.values[1], ast.List) and not node.values[1].elts:
            # `v or []` as a VALUE: v when it is true, else the empty list
            a = self.expr(node.values[0], env, pre)
            if a.ty == "VAL":
                return E("(if PyICX.truthy %s then %s else Val.list [])" % (a.code, a.code), "VAL")
            raise Unsupported("`%s` on a %s" % (ast.unparse(node), a.ty))
        return X.expr(self, node, env, pre, want)

    def listcomp(self, node, env, pre):
        if len(node.generators) != 1 or node.generators[0].ifs or not isinstance(node.generators[0].target, ast.Name):
            raise Unsupported("comprehension %s" % ast.unparse(node)[:60])
        g = node.generators[0]
        it = self.iterable(g.iter, env, pre)
        v = lean_name(g.target.id)
        p = []
        elt = self.expr(node.elt, dict(env, **{g.target.id: E(v, it.ty[5:])}), p)
        body = " ".join("%s;" % l for l in p) + " pure %s" % elt.code
        t = self.tmp()
        pre.append("let %s ← List.mapM (fun (%s : %s) => (do %s : Except Err (%s))) %s"
                   % (t, v, lty(it.ty[5:]), body.strip(), lty(elt.ty), par(it.code)))
        return E(t, "LIST:" + elt.ty)

    def join2(self, a, b):
        if {a.ty, b.ty} == {"INT", "NAT"}:
            f = lambda x: x if x.ty == "INT" else E("(%s : Int)" % x.code.replace(" : Nat)", ")").strip("()"), "INT")
            return f(a), f(b)
        if a.ty == "EMPTY" and b.ty == "VAL":
            return E("(Val.list [])", "VAL"), b
        if b.ty == "EMPTY" and a.ty == "VAL":
            return a, E("(Val.list [])", "VAL")
        return X.join2(self, a, b)

    def ifexp(self, node, env, pre):
        c = self.truth(node.test, env, pre)
        pa, pb = [], []
        a = self.expr(node.body, env, pa)
        b = self.expr(node.orelse, env, pb)
        ra, rb = self.join2(a, b)
        if not pa and not pb:
            return E("(if %s then %s else %s)" % (c, ra.code, rb.code), ra.ty)
        t = self.tmp()
        pre.append("let %s ← (do" % t)
        pre.append("  if %s then" % c)
        pre.extend(_ind(pa + ["pure %s" % ra.code], 4))
        pre.append("  else")
        pre.extend(_ind(pb + ["pure %s" % rb.code], 4))
        pre.append("  : Except Err (%s))" % lty(ra.ty))
        return E(t, ra.ty)

    def subscript(self, node, env, pre):
        base = self.expr(node.value, env, pre)
        sl = node.slice
        if not isinstance(sl, (ast.Slice, ast.Constant)):
            idx = self.expr(sl, env, pre)
            if base.ty == "VAL" and idx.ty == "INT":
                return self.bind(pre, "PyIC.getItem %s %s" % (base.code, par(idx.code)), "VAL")
            if base.ty == "LIST:LABEL" and idx.ty in ("VAL", "INT"):
                return self.bind(pre, "PyIOL.labelAtVal %s %s" % (par(base.code), to_val(idx)), "VAL")
            if base.ty == "LIST:SYS" and idx.ty == "INT":
                return self.bind(pre, "PyIOL.sysAt %s %s" % (par(base.code), par(idx.code)), "SYS")
            raise Unsupported("subscript %s (%s[%s])" % (ast.unparse(node)[:50], base.ty, idx.ty))
        return X.subscript(self, node, env, pre)

    def attribute(self, node, env, pre):
        base = self.expr(node.value, env, pre)
        if base.ty == "SYS" and node.attr in ("ninputs", "noutputs"):
            return E("(PyICX.%s %s).length" % ("inputIndex" if node.attr == "ninputs" else "outputIndex", base.code), "NAT")
        if base.ty == "SYS":
            m = {"input_index": ("PyICX.inputIndex", "LIST:LABEL"), "output_index": ("PyICX.outputIndex", "LIST:LABEL"),
                 "input_labels": ("PyICX.inputIndex", "LIST:LABEL"), "output_labels": ("PyICX.outputIndex", "LIST:LABEL"),
                 "name": ("SysSig.name", "STRING")}
            if node.attr in m:
                f, t = m[node.attr]
                return E("(%s %s)" % (f, base.code), t)
        raise Unsupported("attribute %s" % ast.unparse(node)[:60])

    def call(self, node, env, pre):
        f = node.func
        fn = ast.unparse(f)
        if isinstance(f, ast.Attribute) and f.attr == "split" and len(node.args) == 1 and self.const_str(node.args[0]) == "." \
                and not node.keywords:
            x = self.expr(f.value, env, pre)
            if x.ty == "VAL":
                return self.bind(pre, "PyIC.reSplitDot %s" % x.code, "VAL")
        if isinstance(f, ast.Attribute) and f.attr == "_find_signals" and len(node.args) == 2 and not node.keywords:
            s = self.expr(f.value, env, pre)
            nm = self.expr(node.args[0], env, pre)
            d = self.expr(node.args[1], env, pre)
            if s.ty == "SYS" and nm.ty == "VAL" and d.ty == "LIST:LABEL":
                return self.bind(pre, "PyIC.findSignals %s %s" % (d.code, nm.code), "VAL")
        if fn == "_parse_spec" and len(node.args) == 3 and [k.arg for k in node.keywords] == ["dictname"]:
            sl = self.expr(node.args[0], env, pre)
            x = self.expr(node.args[1], env, pre)
            what = self.const_str(node.args[2])
            dn = self.const_str(node.keywords[0].value)
            if sl.ty == "LIST:SYS" and x.ty == "VAL" and what is not None and dn is not None:
                return self.bind(pre, 'icParseSpec %s %s %s (some %s)' % (sl.code, x.code, _lean_str(what), _lean_str(dn)), "SPEC3")
        if fn == "range" and len(node.args) == 1 and not node.keywords:
            n = self.expr(node.args[0], env, pre)
            if n.ty == "NAT":
                return E("(PyIC.rangeNat %s)" % par(n.code), "LIST:INT")
        if fn == "enumerate" and len(node.args) == 1 and not node.keywords:
            it = self.iterable(node.args[0], env, pre)
            if ";" in it.ty:
                raise Unsupported("enumerate of %s" % it.ty)
            return E("(PyIC.enumerate %s)" % par(it.code), "LIST:PROD<INT;%s>" % it.ty[5:])
        if fn in self.funcs and len(node.args) == 1 and not node.keywords:
            lean, frees = self.funcs[fn]
            x = self.expr(node.args[0], env, pre)
            if x.ty != "VAL":
                raise Unsupported("argument of %s" % fn)
            return self.bind(pre, "%s %s %s" % (lean, " ".join(env[n].code for n in frees), x.code), "LIST:VAL")
        return X.call(self, node, env, pre)

    def compare(self, node, env, pre):
        if len(node.ops) == 1 and isinstance(node.ops[0], (ast.Eq, ast.NotEq)):
            p = []
            a, b = self.expr(node.left, env, p), self.expr(node.comparators[0], env, p)
            if a.ty == "VAL" and b.ty == "STRING":
                pre.extend(p)
                c = "(PyIC.eqLit %s %s)" % (a.code, par(b.code))
                return c if isinstance(node.ops[0], ast.Eq) else "(!%s)" % c
        return X.compare(self, node, env, pre)

    # ---- statements -----------------------------------------------------------------------------
    def assigned(self, stmts):
        out = X.assigned(self, stmts)
        for s in stmts:
            n = self.at_append(s)
            if n and n not in out:
                out.append(n)
            if isinstance(s, ast.Try):
                for m in self.assigned(s.body) + [x for h in s.handlers for x in self.assigned(h.body)]:
                    if m not in out:
                        out.append(m)
            if isinstance(s, (ast.If, ast.For)):
                for m in self.assigned(s.body) + self.assigned(getattr(s, "orelse", [])):
                    if m not in out:
                        out.append(m)
        return out

    def at_append(self, s):
        """`xs[i].append(e)` with a variable index"""
        if (isinstance(s, ast.Expr) and isinstance(s.value, ast.Call) and isinstance(s.value.func, ast.Attribute)
                and s.value.func.attr == "append" and len(s.value.args) == 1
                and isinstance(s.value.func.value, ast.Subscript) and isinstance(s.value.func.value.value, ast.Name)
                and isinstance(s.value.func.value.slice, ast.Name)):
            return s.value.func.value.value.id
        return None

    def seq(self, stmts, env, ret_ty=None):
        lines = []
        for k, s in enumerate(stmts):
            # a, b = e1, e2
            if isinstance(s, ast.Assign) and len(s.targets) == 1 and isinstance(s.targets[0], ast.Tuple) \
                    and isinstance(s.value, ast.Tuple) and len(s.value.elts) == len(s.targets[0].elts) \
                    and all(isinstance(t, ast.Name) for t in s.targets[0].elts):
                pre, vals = [], []
                for t, e in zip(s.targets[0].elts, s.value.elts):
                    vals.append(self.expr(e, env, pre, want=self.hints.get(t.id)))
                lines += pre
                tmp_env = dict(env)
                for t, v in zip(s.targets[0].elts, vals):
                    if v.code in [lean_name(u.id) for u in s.targets[0].elts if u is not t] and v.code != lean_name(t.id):
                        # a simultaneous assignment that reads a variable it also writes: go through a temporary
                        tt = self.tmp()
                        lines.append("let %s : %s := %s" % (tt, lty(v.ty), v.code))
                        v = E(tt, v.ty)
                    self.set_var(t.id, v, tmp_env, lines)
                env.update(tmp_env)
                continue
            # a, b, c = _parse_spec(...)
            if isinstance(s, ast.Assign) and len(s.targets) == 1 and isinstance(s.targets[0], ast.Tuple) \
                    and len(s.targets[0].elts) == 3 and all(isinstance(t, ast.Name) for t in s.targets[0].elts) \
                    and isinstance(s.value, ast.Call):
                pre = []
                v = self.expr(s.value, env, pre)
                if v.ty != "SPEC3":
                    raise Unsupported("unpacking of a %s" % v.ty)
                lines += pre
                for t, proj, ty in zip(s.targets[0].elts, (".1", ".2.1", ".2.2"), ("INT", "LIST:INT", "NUM")):
                    lines.append("let %s : %s := %s%s" % (lean_name(t.id), lty(ty), v.code, proj))
                    env[t.id] = E(lean_name(t.id), ty)
                continue
            # x += e
            if isinstance(s, ast.AugAssign) and isinstance(s.op, ast.Add) and isinstance(s.target, ast.Name):
                pre = []
                name = s.target.id
                if name not in env:
                    raise Unsupported("+= on unknown %s" % name)
                cur = env[name]
                e = self.expr(s.value, env, pre)
                lines += pre
                ln = lean_name(name)
                if cur.ty == "EMPTY" and e.ty.startswith("LIST:"):
                    self.hints[name] = "LIST:VAL" if e.ty in ("LIST:LIST:VAL",) else e.ty
                    raise Retry()
                if cur.ty == "VAL" and e.ty == "LIST:VAL":
                    lines.append("let %s ← PyIOL.extend %s %s" % (ln, cur.code, par(e.code)))
                elif cur.ty == "LIST:VAL" and e.ty == "LIST:LIST:VAL":
                    lines.append("let %s : %s := %s ++ %s.map Val.list" % (ln, lty(cur.ty), cur.code, par(e.code)))
                elif cur.ty.startswith("LIST:") and e.ty == cur.ty:
                    lines.append("let %s : %s := %s ++ %s" % (ln, lty(cur.ty), cur.code, par(e.code)))
                else:
                    raise Unsupported("`+=` of a %s to a %s" % (e.ty, cur.ty))
                env[name] = E(ln, cur.ty)
                continue
            # x.append(e) on a value / a list of values
            if isinstance(s, ast.Expr) and isinstance(s.value, ast.Call) and isinstance(s.value.func, ast.Attribute) \
                    and s.value.func.attr == "append" and isinstance(s.value.func.value, ast.Name) and len(s.value.args) == 1 \
                    and s.value.func.value.id in env and env[s.value.func.value.id].ty in ("VAL", "LIST:VAL"):
                name = s.value.func.value.id
                pre = []
                e = self.expr(s.value.args[0], env, pre)
                lines += pre
                ln = lean_name(name)
                if env[name].ty == "VAL":
                    lines.append("let %s ← PyIOL.appendVal %s %s" % (ln, env[name].code, to_val(e)))
                else:
                    lines.append("let %s : List (Val K) := %s ++ [%s]" % (ln, env[name].code, to_val(e)))
                env[name] = E(ln, env[name].ty)
                continue
            # xs[i].append(e)
            nm = self.at_append(s)
            if nm:
                pre = []
                i = self.expr(s.value.func.value.slice, env, pre)
                e = self.expr(s.value.args[0], env, pre)
                lines += pre
                cur = env.get(nm)
                if cur is None or i.ty != "INT" or cur.ty != "LIST:LIST:" + e.ty:
                    raise Unsupported("`%s`" % ast.unparse(s)[:60])
                lines.append("let %s ← PyIOL.appendAt %s %s %s" % (lean_name(nm), cur.code, par(i.code), e.code))
                env[nm] = E(lean_name(nm), cur.ty)
                continue
            # local function with try / except ValueError
            if isinstance(s, ast.FunctionDef):
                self.local_def(s, env)
                continue
            if isinstance(s, ast.Try):
                lines += self.try_stmt(s, env)
                continue
            l, ended = X.seq(self, [s], env)
            lines += l
            if ended:
                if k != len(stmts) - 1:
                    raise Unsupported("statements after return / raise")
                return lines, True
        return lines, False

    def frees(self, stmts, env, exclude):
        used = []
        for st in stmts:
            for n in ast.walk(st):
                if isinstance(n, ast.Name) and n.id in env and n.id not in exclude and n.id not in used:
                    used.append(n.id)
                if isinstance(n, ast.Name) and n.id in self.funcs:
                    for m in self.funcs[n.id][1]:
                        if m in env and m not in exclude and m not in used:
                            used.append(m)
        return sorted(used)

    def for_stmt(self, s, env):
        if s.orelse:
            raise Unsupported("for … else")
        self.nloop += 1
        my_n = self.nloop
        name = "%s_loop%d" % (self.group, my_n)
        pre = []
        src = self.iterable(s.iter, env, pre)
        ety = src.ty[5:]
        tgt = s.target
        benv = {}
        if isinstance(tgt, ast.Name):
            tpat = lean_name(tgt.id)
            benv[tgt.id] = E(lean_name(tgt.id), ety)
            tnames = [tgt.id]
        elif isinstance(tgt, ast.Tuple) and ety.startswith("PROD<") and len(tgt.elts) == 2 \
                and all(isinstance(e, ast.Name) for e in tgt.elts):
            ta, tb = ety[5:-1].split(";")
            a, b = (lean_name(e.id) for e in tgt.elts)
            tpat = "(%s, %s)" % (a, b)
            benv[tgt.elts[0].id] = E(a, ta)
            benv[tgt.elts[1].id] = E(b, tb)
            tnames = [e.id for e in tgt.elts]
        else:
            raise Unsupported("loop target %s over %s" % (ast.unparse(tgt), ety))
        names = sorted(self.state(self.assigned(s.body), env))
        names = [n for n in names if n not in tnames]
        frees = [n for n in self.frees(s.body, env, set(names) | set(tnames)) if env[n].ty not in ("NONE",)]
        init, sty = self.pack(names, env)
        fenv = {n: E(lean_name(n), env[n].ty) for n in frees}
        fenv.update({n: E(lean_name(n), env[n].ty) for n in names})
        fenv.update(benv)
        for fname in self.funcs:
            pass
        body, ended = self.seq(s.body, fenv)
        if ended:
            raise Unsupported("return / raise as the last statement of a loop body")
        for n in names:
            if fenv[n].ty != env[n].ty:
                raise Unsupported("`%s` changes its type in a loop (%s -> %s)" % (n, env[n].ty, fenv[n].ty))
        body.append("pure %s" % self.pack(names, fenv)[0])
        binders = " ".join("(%s : %s)" % (lean_name(n), lty(env[n].ty)) for n in frees)
        text = ("/-- body of the %s loop of the group: `for %s in %s:` -/\n"
                "def %s %s (st : %s) (el : %s) :\n    Except Err (%s) :=\n  match st, el with\n  | %s, %s => do\n%s\n"
                % (_ordinal(my_n), ast.unparse(tgt), ast.unparse(s.iter).replace("-/", "- /"), name, binders,
                   sty, lty(ety), sty, self.pat(names), tpat, "\n".join(_ind(body, 4))))
        self.place(name, text)
        out = pre
        out.append("let %s ← List.foldlM (%s %s) %s %s" % (self.pat(names), name, " ".join(lean_name(n) for n in frees),
                                                            init, par(src.code)))
        for n in names:
            env[n] = E(lean_name(n), env[n].ty)
        return out

    def place(self, name, text):
        self.defs.append((name, text))

    def local_def(self, s, env):
        """def f(spec): … return <list>   (one parameter; reads the enclosing variables)"""
        if len(s.args.args) != 1 or s.args.defaults or s.args.kwonlyargs or s.args.vararg or s.args.kwarg:
            raise Unsupported("local function %s: parameters" % s.name)
        p = s.args.args[0].arg
        frees = [n for n in self.frees(s.body, env, {p}) if env[n].ty not in ("NONE", "EMPTY")
                 and not env[n].ty.startswith("LIST:VAL") and not env[n].ty.startswith("LIST:LIST")]
        # only immutable context may be read (lists the enclosing code appends to are excluded above; if the
        # body mentions them the translation of the body fails with `unknown name`)
        fenv = {n: E(lean_name(n), env[n].ty) for n in frees}
        fenv[p] = E(lean_name(p), "VAL")
        lean = "%s_%s" % (self.group, "fn%d" % (len(self.funcs) + 1))
        self.ret_seen = None
        body, ended = self.seq(list(s.body), fenv)
        if not ended or self.ret_seen != "LIST:VAL":
            raise Unsupported("local function %s must end in `return <list of values>` (got %s)" % (s.name, self.ret_seen))
        binders = " ".join("(%s : %s)" % (lean_name(n), lty(env[n].ty)) for n in frees)
        text = ("/-- the local function `%s` -/\ndef %s %s (%s : Val K) :\n    Except Err (List (Val K)) :=\n  do\n%s\n"
                % (s.name, lean, binders, lean_name(p), "\n".join(_ind(body, 4))))
        self.place(lean, text)
        self.funcs[s.name] = (lean, frees)

    def try_stmt(self, s, env):
        if s.orelse or s.finalbody or len(s.handlers) != 1 or not is_name(s.handlers[0].type, "ValueError") \
                or s.handlers[0].name:
            raise Unsupported("try statement other than try / except ValueError")
        names = sorted(self.state(self.assigned([s]), env))
        _, sty = self.pack(names, env)
        a = self.branch(s.body, env, names)
        b = self.branch(s.handlers[0].body, env, names)
        out = ["let %s ← PyIC.tryExcept (do" % self.pat(names)]
        out += _ind(a, 4)
        out.append("    : Except Err (%s)) PyIC.isValueError (do" % sty)
        out += _ind(b, 4)
        out.append("    : Except Err (%s))" % sty)
        for n in names:
            env[n] = E(lean_name(n), env[n].ty)
        return out


def _ordinal(n):
    return "%d%s" % (n, {1: "st", 2: "nd", 3: "rd"}.get(n if n < 20 else n % 10, "th"))


# ---- the groups ------------------------------------------------------------------------------------
def is_enum_of(node, name):
    return (isinstance(node, ast.Call) and is_name(node.func, "enumerate") and len(node.args) == 1
            and is_name(node.args[0], name))


def loc_list(which, labels):
    """from `if not isinstance(<which>, list):` to `<which>, <labels> = new_…, new_…` (top level of interconnect())"""
    def loc(fn):
        loop = exactly_one([st for st in fn.body if isinstance(st, ast.For) and is_enum_of(st.iter, which)],
                           "`for … in enumerate(%s):`" % which)
        k = fn.body.index(loop)

        def is_wrap(st):
            t = st.test
            return (isinstance(t, ast.UnaryOp) and isinstance(t.op, ast.Not) and isinstance(t.operand, ast.Call)
                    and is_name(t.operand.func, "isinstance") and is_name(t.operand.args[0], which))
        wrap = exactly_one([st for st in fn.body if isinstance(st, ast.If) and is_wrap(st)],
                           "`if not isinstance(%s, list):`" % which)
        j = fn.body.index(wrap)
        if not j < k:
            raise Unsupported("`if not isinstance(%s, list):` comes after the loop" % which)
        final = [st for st in fn.body[k + 1:] if isinstance(st, ast.Assign) and isinstance(st.targets[0], ast.Tuple)
                 and [getattr(e, "id", None) for e in st.targets[0].elts] == [which, labels]]
        if not final or fn.body.index(final[0]) != min(
                i for i in range(k + 1, len(fn.body)) if not _is_dprint(fn.body[i])):
            raise Unsupported("`%s, %s = …` does not follow the loop" % (which, labels))
        grp = [st for st in fn.body[j:fn.body.index(final[0]) + 1] if not _is_dprint(st)]
        for st in grp:
            if not isinstance(st, (ast.If, ast.For, ast.Assign)):
                raise Unsupported("unexpected statement inside the group: %s" % ast.unparse(st)[:50])
        return grp, "\n".join(ast.unparse(b) for b in grp)
    return loc


def _is_dprint(st):
    return isinstance(st, ast.Expr) and isinstance(st.value, ast.Call) and is_name(st.value.func, "dprint")


def loc_none(fn):
    """`inplist_none, outlist_none = False, False`, `if inplist is None: …`, `if outlist is None: …` (top level, in
    this order, each exactly once)"""
    init = exactly_one([st for st in fn.body if isinstance(st, ast.Assign) and isinstance(st.targets[0], ast.Tuple)
                        and [getattr(e, "id", None) for e in st.targets[0].elts] == ["inplist_none", "outlist_none"]],
                       "`inplist_none, outlist_none = …`")
    a = exactly_one([st for st in fn.body if isinstance(st, ast.If) and icx.test_is(st.test, "inplist", None)],
                    "`if inplist is None:`")
    b = exactly_one([st for st in fn.body if isinstance(st, ast.If) and icx.test_is(st.test, "outlist", None)],
                    "`if outlist is None:`")
    if not fn.body.index(init) < fn.body.index(a) < fn.body.index(b):
        raise Unsupported("the three statements are not in the expected order")
    # nothing between them may touch the four variables
    for st in fn.body[fn.body.index(init) + 1:fn.body.index(b)]:
        if st is not a and set(XL({}, "").assigned([st])) & {"inplist", "outlist", "inputs", "outputs", "inplist_none",
                                                             "outlist_none"}:
            raise Unsupported("`%s` between the statements of the group" % ast.unparse(st)[:40])
    grp = [init, a, b]
    return grp, "\n".join(ast.unparse(s) for s in grp)


class LGroup:
    def __init__(self, lean, fname, params, results, locate, doc):
        self.lean, self.fname, self.params, self.results, self.locate, self.doc = lean, fname, params, results, locate, doc

    def signature(self):
        binders = " ".join("(%s : %s)" % (lean_name(n), lty(t)) for n, t in self.params)
        rt = " × ".join(("(%s)" % lty(t)) if "×" in lty(t) else lty(t) for _, t in self.results)
        return "def %s %s :\n    Except Err (%s)" % (self.lean, binders, rt)

    def translate(self, fn):
        stmts, text = self.locate(fn)

        def build(hints):
            x = XL(hints, self.lean)
            env = {n: E(lean_name(n), t) for n, t in self.params}
            lines, ended = x.seq(stmts, env)
            if ended:
                raise Unsupported("%s: the group ends in return / raise" % self.lean)
            out = []
            for n, t in self.results:
                if n not in env or env[n].ty != t:
                    raise Unsupported("%s: `%s` is a %s at the end of the group, expected %s"
                                      % (self.lean, n, env[n].ty if n in env else "-", t))
                out.append(env[n].code)
            lines.append("pure (%s)" % ", ".join(out))
            return x, lines
        x, lines = run(build)
        sha = hashlib.sha256(text.encode()).hexdigest()
        doc = "`%s:interconnect`, %s, as the source text says it (sha256 of the statement group\n%s)." % (NLSYS, self.doc, sha)
        parts = [t for _, t in x.defs]
        for t in parts:
            if "List _" in t:
                raise Unsupported("the element type of an empty list is not determined")
        return "\n".join(parts) + "\n" + icx.render(doc, self.signature(), lines), sha, [n for n, _ in x.defs]


IN_DOC = ("the pre-processing of `inplist`: a bare string is a subsystem name (all its inputs, one entry each) or a signal name "
          "looked up among the inputs of EVERY subsystem (all matches, summed); a list is one entry; anything else is one "
          "specification (one entry per signal); `new_inputs` collects the labels when `inplist` was omitted")
OUT_DOC = ("the pre-processing of `outlist`: as for `inplist` on the subsystem OUTPUTS; a specification that is not a bare "
           "string is looked up among the outputs first and, if that raises ValueError, among the inputs")

L_GROUPS = [
    LGroup("icxInList", "ICLIn", [("syslist", "LIST:SYS"), ("inplist", "VAL"), ("inputs", "VAL"), ("inplist_none", "BOOL")],
           [("inplist", "VAL"), ("inputs", "VAL")], loc_list("inplist", "inputs"), IN_DOC),
    LGroup("icxOutList", "ICLOut", [("syslist", "LIST:SYS"), ("outlist", "VAL"), ("outputs", "VAL"), ("outlist_none", "BOOL")],
           [("outlist", "VAL"), ("outputs", "VAL")], loc_list("outlist", "outputs"), OUT_DOC),
]
L_GROUPS.append(
    LGroup("icxListNone", "ICLNone", [("inplist", "VAL"), ("inputs", "VAL"), ("outlist", "VAL"), ("outputs", "VAL")],
           [("inplist", "VAL"), ("inplist_none", "BOOL"), ("outlist", "VAL"), ("outlist_none", "BOOL")], loc_none,
           "`inplist` / `outlist` omitted: `inputs or []` / `outputs or []` stand in for them and the flags "
           "`inplist_none` / `outlist_none` (\"rewrite `inputs` / `outputs` below\") are set"))
# the groups that are wired (equality theorems exist); see notes/NOTES-py2lean-iolist.md
WIRED = ["icxInList", "icxOutList", "icxListNone"]

HEADER = ("-- GENERATED on every run by harness/core/py2lean_iolist.py from %s (%s).  Do not edit.\n"
          "import CtrlVerif.Model.PyIOL\nimport CtrlVerif.Generated.ICParseSpec\n\nnamespace CtrlVerif.Generated\n\n"
          "open CtrlVerif CtrlVerif.IC CtrlVerif.PyIC\n\nvariable {K : Type} [Field K] [DecidableEq K]\n\n")

# the definitions a group consists of on the unchanged source (the equality theorems name them), with their
# signatures: when the translation fails, each of them is emitted as a definition that cannot equal the model
import json
REF_SIGS = json.load(open(os.path.join(os.path.dirname(os.path.abspath(__file__)), "py2lean_iolist_sigs.json")))


def regenerate(repo, lean_dir):
    """Rewrite Generated/ICL*.lean from the tree `repo`; returns (list of problems, info dict)."""
    problems, info = [], {}
    fn = None
    try:
        src = open(os.path.join(repo, NLSYS)).read()
        fn = find_def(src, "interconnect")
    except (OSError, Unsupported, SyntaxError) as e:
        problems.append("py2lean_iolist: %s:interconnect cannot be read: %s" % (NLSYS, e))
    for g in L_GROUPS:
        if g.lean not in WIRED:
            continue
        try:
            if fn is None:
                raise Unsupported("source not readable")
            text, sha, names = g.translate(fn)
            info[g.lean] = sha[:16]
        except (Unsupported, SyntaxError, KeyError, AttributeError, IndexError, ValueError) as e:
            problems.append("py2lean_iolist: %s:interconnect, group %s cannot be translated: %s" % (NLSYS, g.lean, e))
            text = "\n".join(failed_def(str(e), REF_SIGS[n]) for n in sorted(REF_SIGS)
                             if n.startswith(g.lean + "_")) + "\n" + failed_def(str(e), g.signature())
            info[g.lean] = "-"
        head = HEADER % (NLSYS + ":interconnect", "%s %s" % (g.lean, info[g.lean]))
        write_if_changed(os.path.join(lean_dir, "CtrlVerif", "Generated", g.fname + ".lean"),
                         head + text + "\nend CtrlVerif.Generated\n")
    return problems, info


if __name__ == "__main__":
    import sys
    repo = sys.argv[1] if len(sys.argv) > 1 else "/repo"
    lean_dir = sys.argv[2] if len(sys.argv) > 2 else os.path.join(
        os.path.dirname(os.path.dirname(os.path.dirname(os.path.abspath(__file__)))), "lean")
    for p in regenerate(repo, lean_dir)[0]:
        print(p)
