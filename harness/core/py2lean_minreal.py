"""Translator Python `ast` -> Lean 4 for the per-entry body of `TransferFunction.minreal`
(control/xferfcn.py; DESIGN §10.3).

Rewrites `lean/CtrlVerif/Generated/TFMinreal.lean` from the source text on every run of the C15
check; `Props/C15GenMinreal.lean` proves the generated loop equal to the model's `cancelRoots` and
the generated body equal to `minrealEntry` (Model/Minreal.lean), for every coefficient list, root
list, tolerance argument and magnitude function.

What is translated: the body of `for i in range(self.noutputs): for j in range(self.ninputs):`
of `minreal` (the statements between the loop header and the end of the loop), with
`self.num_array[i, j]` / `self.den_array[i, j]` as the parameters `num_ij` / `den_ij` and the two
stores `num[i, j] = …`, `den[i, j] = …` as the returned pair.  What is only *checked for its exact
form* (a different form is a failed translation): `sqrt_eps = sqrt(float_info.epsilon)` before the
loops (the generated function takes `sqrt_eps` as a parameter), the loop headers, and the final
`return TransferFunction(num, den, self.dt)`.

Supported subset inside the body (anything else raises `Unsupported`): assignments to names;
`x.append(e)`; one `for v in <name>:` loop whose body is simple statements followed by an
`if len(x): … else: …` of simple statements, emitted as a structurally recursive function whose
state is the tuple of variables the loop re-binds; the NumPy / Python calls listed in
`Model/PyMin.lean`."""
import ast
import hashlib
import os

REL = "control/xferfcn.py"
CLS = "TransferFunction"
FUNC = "minreal"
OUT = "TFMinreal.lean"


class Unsupported(Exception):
    pass


def _u(node, what="construct"):
    raise Unsupported("%s: %s" % (what, ast.dump(node)[:140] if isinstance(node, ast.AST) else node))


def _call(n, name, nargs):
    return isinstance(n, ast.Call) and isinstance(n.func, ast.Name) and n.func.id == name \
        and len(n.args) == nargs and not n.keywords


def _entry(n):
    """self.num_array[i, j] / self.den_array[i, j] -> parameter name"""
    if isinstance(n, ast.Subscript) and isinstance(n.value, ast.Attribute) \
            and isinstance(n.value.value, ast.Name) and n.value.value.id == "self" \
            and n.value.attr in ("num_array", "den_array") and isinstance(n.slice, ast.Tuple) \
            and [getattr(e, "id", None) for e in n.slice.elts] == ["i", "j"]:
        return "num_ij" if n.value.attr == "num_array" else "den_ij"
    return None


class Body:
    def __init__(self):
        self.ntmp = 0
        self.defs = []
        self.index_lists = set()      # names bound to the result of `where(...)[0]`

    def tmp(self):
        self.ntmp += 1
        return "t%d" % self.ntmp

    # expressions: returns Lean text; monadic sub-expressions are bound to temporaries in `pre`
    def expr(self, n, pre, listy=False):
        ent = _entry(n)
        if ent:
            return ent
        if isinstance(n, ast.Name):
            return n.id
        if isinstance(n, ast.Constant) and type(n.value) is int:
            return str(n.value)
        if isinstance(n, ast.List) and not n.elts:
            return "[]"
        if isinstance(n, ast.Attribute) and isinstance(n.value, ast.Name) and n.value.id == "float_info" \
                and n.attr == "epsilon":
            return "X.eps"
        if isinstance(n, ast.Subscript) and isinstance(n.slice, ast.Constant) and n.slice.value == 0:
            base = self.expr(n.value, pre)
            t = self.tmp()
            pre.append("let %s ← %s %s" % (t, "PyMin.getIdx0" if base in self.index_lists else "PyMin.getItem0", base))
            return t
        if isinstance(n, ast.BoolOp) and isinstance(n.op, ast.Or) and len(n.values) == 2:
            return "PyMin.tolOr %s (%s)" % (self.expr(n.values[0], pre), self.expr(n.values[1], pre))
        if isinstance(n, ast.BinOp):
            if isinstance(n.op, ast.Div):
                a, b = self.expr(n.left, pre), self.expr(n.right, pre)
                t = self.tmp()
                pre.append("let %s ← PyMin.div %s %s" % (t, a, b))
                return t
            if isinstance(n.op, ast.Mult):
                if _call(n.right, "real", 1) or _call(n.right, "poly", 1):        # scalar * coefficient array
                    return "scale %s (%s)" % (self.expr(n.left, pre), self.expr(n.right, pre))
                return "%s * %s" % (self.expr(n.left, pre), self.expr(n.right, pre))
            if isinstance(n.op, ast.Sub):
                return "%s - %s" % (self.expr(n.left, pre), self.expr(n.right, pre))
            _u(n, "operator")
        if isinstance(n, ast.Call):
            if _call(n, "roots", 1):
                return "X.roots %s" % self.expr(n.args[0], pre)
            if _call(n, "real", 1):
                return "X.real (%s)" % self.expr(n.args[0], pre)
            if _call(n, "poly", 1):
                return "polyFromRoots %s" % self.expr(n.args[0], pre)
            if _call(n, "abs", 1):
                return "X.abs %s" % self.expr(n.args[0], pre)
            if _call(n, "max", 2):
                return "max %s (%s)" % (self.expr(n.args[0], pre), self.expr(n.args[1], pre))
            if _call(n, "delete", 2):
                return "PyMin.delete %s %s" % (self.expr(n.args[0], pre), self.expr(n.args[1], pre))
            if isinstance(n.func, ast.Attribute) and n.func.attr == "atleast_1d" and len(n.args) == 1 \
                    and isinstance(n.func.value, ast.Name) and n.func.value.id == "np" and not n.keywords:
                return self.expr(n.args[0], pre)
            _u(n, "call")
        _u(n, "expression")

    def where_first(self, n, pre):
        """where(abs(z - poles) < t)[0] -> PyMin.whereLt (poles.map fun p => X.abs (z - p)) t"""
        if not (isinstance(n, ast.Subscript) and isinstance(n.slice, ast.Constant) and n.slice.value == 0
                and _call(n.value, "where", 1)):
            return None
        c = n.value.args[0]
        if not (isinstance(c, ast.Compare) and len(c.ops) == 1 and isinstance(c.ops[0], ast.Lt)
                and _call(c.left, "abs", 1) and isinstance(c.left.args[0], ast.BinOp)
                and isinstance(c.left.args[0].op, ast.Sub) and isinstance(c.left.args[0].left, ast.Name)
                and isinstance(c.left.args[0].right, ast.Name)):
            _u(n, "where form")
        z, arr = c.left.args[0].left.id, c.left.args[0].right.id
        return "PyMin.whereLt (%s.map fun p => X.abs (%s - p)) %s" % (arr, z, self.expr(c.comparators[0], pre))

    def simple(self, s, lines, pad, assigned):
        """assignment / append -> lines; records assigned names"""
        pre = []
        if isinstance(s, ast.Assign) and len(s.targets) == 1 and isinstance(s.targets[0], ast.Name):
            name = s.targets[0].id
            w = self.where_first(s.value, pre)
            if w is not None:
                self.index_lists.add(name)
            text = w if w is not None else self.expr(s.value, pre)
            ann = " : List K" if text == "[]" else ""
            lines += [pad + p for p in pre] + [pad + "let %s%s := %s" % (name, ann, text)]
            assigned.append(name)
            return
        if isinstance(s, ast.Expr) and isinstance(s.value, ast.Call) and isinstance(s.value.func, ast.Attribute) \
                and s.value.func.attr == "append" and isinstance(s.value.func.value, ast.Name) \
                and len(s.value.args) == 1 and not s.value.keywords:
            name = s.value.func.value.id
            lines += [pad + p for p in pre] + [pad + "let %s := %s ++ [%s]" % (name, name, self.expr(s.value.args[0], pre))]
            assigned.append(name)
            return
        _u(s, "statement")

    def loop(self, loop, defined):
        if loop.orelse or not isinstance(loop.target, ast.Name) or not isinstance(loop.iter, ast.Name):
            _u(loop, "loop form")
        v = loop.target.id
        body = list(loop.body)
        if not body or not isinstance(body[-1], ast.If):
            _u(loop, "loop body must end in if/else")
        branch = body[-1]
        t = branch.test
        if not (_call(t, "len", 1) and isinstance(t.args[0], ast.Name)) or not branch.orelse:
            _u(branch, "if len(x): … else: …")
        # the variables the loop re-binds, in the order of their first definition before the loop
        probe = Body()
        asg = []
        for s in body[:-1] + branch.body + branch.orelse:
            probe.simple(s, [], "", asg)
        state = [d for d in defined if d in asg]
        if not state:
            _u(loop, "loop re-binds nothing")
        st = "(%s)" % ", ".join(state)
        lines = ["/-- loop `for %s in %s:` re-binding %s. -/" % (v, loop.iter.id, ", ".join("`%s`" % s for s in state)),
                 "def zLoop (X : PyMin.Ext K R) (tol : Option R) (sqrt_eps : R) :",
                 "    List K → %s → Except Err (%s)" % (" × ".join(["List K"] * len(state)), " × ".join(["List K"] * len(state))),
                 "  | [], %s => pure %s" % (st, st),
                 "  | %s :: rest, %s => do" % (v, st)]
        pad = "    "
        dummy = []
        for s in body[:-1]:
            self.simple(s, lines, pad, dummy)
        lines.append(pad + "if %s.length ≠ 0 then do" % t.args[0].id)
        for s in branch.body:
            self.simple(s, lines, pad + "  ", dummy)
        lines.append(pad + "  zLoop X tol sqrt_eps rest %s" % st)
        lines.append(pad + "else do")
        for s in branch.orelse:
            self.simple(s, lines, pad + "  ", dummy)
        lines.append(pad + "  zLoop X tol sqrt_eps rest %s" % st)
        self.defs.append("\n".join(lines))
        return "let %s ← zLoop X tol sqrt_eps %s %s" % (st, loop.iter.id, st)

    def entry(self, stmts):
        lines, defined, stores = [], [], {}
        pad = "  "
        for s in stmts:
            if isinstance(s, ast.For):
                self.ntmp_before = self.ntmp
                save = self.ntmp
                self.ntmp = 0                     # the loop is its own definition: temporaries restart
                lines.append(pad + self.loop(s, defined))
                self.ntmp = save
                continue
            if isinstance(s, ast.Assign) and len(s.targets) == 1 and isinstance(s.targets[0], ast.Subscript) \
                    and isinstance(s.targets[0].value, ast.Name) and s.targets[0].value.id in ("num", "den") \
                    and isinstance(s.targets[0].slice, ast.Tuple) \
                    and [getattr(e, "id", None) for e in s.targets[0].slice.elts] == ["i", "j"]:
                pre = []
                name = s.targets[0].value.id + "_ij'"
                text = self.expr(s.value, pre)
                lines += [pad + p for p in pre] + [pad + "let %s := %s" % (name, text)]
                stores[s.targets[0].value.id] = name
                continue
            self.simple(s, lines, pad, defined)
        if sorted(stores) != ["den", "num"]:
            raise Unsupported("the body must store num[i, j] and den[i, j] exactly once each")
        lines.append(pad + "pure (%s, %s)" % (stores["num"], stores["den"]))
        return lines


def _strip(stmts):
    return [s for s in stmts if not (isinstance(s, ast.Expr) and isinstance(s.value, ast.Constant)
                                     and isinstance(s.value.value, str))]


def find_method(module):
    for n in module.body:
        if isinstance(n, ast.ClassDef) and n.name == CLS:
            for m in n.body:
                if isinstance(m, ast.FunctionDef) and m.name == FUNC:
                    return m
    raise Unsupported("method %s.%s not found" % (CLS, FUNC))


def translate(src):
    fn = find_method(ast.parse(src))
    text = ast.get_source_segment(src, fn)
    if [a.arg for a in fn.args.args] != ["self", "tol"] or len(fn.args.defaults) != 1 \
            or not (isinstance(fn.args.defaults[0], ast.Constant) and fn.args.defaults[0].value is None):
        raise Unsupported("signature of minreal")
    body = _strip(fn.body)
    # the statements around the double loop, checked for their exact form
    want_pre = ["from sys import float_info", "sqrt_eps = sqrt(float_info.epsilon)",
                "num = _create_poly_array((self.noutputs, self.ninputs))",
                "den = _create_poly_array((self.noutputs, self.ninputs))"]
    got_pre = [ast.unparse(s) for s in body[:4]]
    if got_pre != want_pre:
        raise Unsupported("statements before the loops: %s" % got_pre)
    if len(body) != 6 or ast.unparse(body[5]) != "return TransferFunction(num, den, self.dt)":
        raise Unsupported("statements after the loops: %s" % [ast.unparse(s)[:60] for s in body[5:]])
    outer = body[4]
    if not (isinstance(outer, ast.For) and ast.unparse(outer.target) == "i"
            and ast.unparse(outer.iter) == "range(self.noutputs)" and not outer.orelse and len(outer.body) == 1):
        raise Unsupported("outer loop header")
    inner = outer.body[0]
    if not (isinstance(inner, ast.For) and ast.unparse(inner.target) == "j"
            and ast.unparse(inner.iter) == "range(self.ninputs)" and not inner.orelse):
        raise Unsupported("inner loop header")
    b = Body()
    lines = b.entry(_strip(inner.body))
    sha = hashlib.sha256(text.encode()).hexdigest()
    main = ("/-- body of the `for i … for j` loop of `%s:%s.%s` for one entry, as the source text says it\n"
            "(sha256 of the method text %s). -/\n"
            "def entryBody (X : PyMin.Ext K R) (tol : Option R) (sqrt_eps : R) (num_ij den_ij : List K) :\n"
            "    Except Err (List K × List K) := do\n" % (REL, CLS, FUNC, sha)) + "\n".join(lines) + "\n"
    return b.defs, main, sha


def regenerate(repo, lean_dir):
    problems, info = [], {}
    gen_dir = os.path.join(lean_dir, "CtrlVerif", "Generated")
    try:
        src = open(os.path.join(repo, REL)).read()
        defs, main, sha = translate(src)
        info["minreal"] = {"sha": sha, "auxiliary_definitions": len(defs)}
        head = "%s %s" % (FUNC, sha[:16])
        body = "\n\n".join(defs + [main])
    except (OSError, SyntaxError, Unsupported, AttributeError, IndexError) as e:
        msg = str(e).replace("\n", " ").replace("-/", "- /")[:300]
        problems.append("py2lean_minreal: %s:%s.%s cannot be translated: %s" % (REL, CLS, FUNC, msg))
        head = "%s FAILED" % FUNC
        body = ("/-- translation FAILED: %s -/\n"
                "def zLoop (_ : PyMin.Ext K R) (_ : Option R) (_ : R) :\n"
                "    List K → List K × List K → Except Err (List K × List K) := fun _ _ => .error Err.notImplemented\n"
                "def entryBody (_ : PyMin.Ext K R) (_ : Option R) (_ : R) (_ _ : List K) :\n"
                "    Except Err (List K × List K) := .error Err.notImplemented\n") % msg
    text_out = ("-- GENERATED on every run by harness/core/py2lean_minreal.py from %s (%s).  Do not edit.\n" % (REL, head)
                + "import CtrlVerif.Model.PyMin\n\nnamespace CtrlVerif.Generated.Minreal\n\nopen CtrlVerif\n\n"
                + "variable {K R : Type} [Field K] [DecidableEq K] [Field R] [LinearOrder R] [DecidableEq R]\n\n"
                + body + "\nend CtrlVerif.Generated.Minreal\n")
    p = os.path.join(gen_dir, OUT)
    old = open(p).read() if os.path.exists(p) else None
    if old != text_out:
        with open(p, "w") as f:
            f.write(text_out)
    return problems, info


if __name__ == "__main__":
    import sys
    probs, inf = regenerate(sys.argv[1], sys.argv[2])
    for p in probs:
        print("PROBLEM", p)
    print(inf)
