"""Demonstration for the source-text tie of C09 (tag py2lean-frd, notes/NOTES-py2lean-frd.md): apply
semantic mutations / meaning-preserving refactorings of `FrequencyResponseData` arithmetic to a SCRATCH worktree
of /repo, run `check.py C09 --tier quick` against it (VERIF_REPO, VERIF_NO_EVIDENCE=1) and report
which proof obligations break and whether a VIOLATION with a failing input is reported.

    git -C /repo worktree add --detach /tmp/w/g9_repo HEAD
    /venv/bin/python harness/frd_tie_mutations.py /tmp/w/g9_repo [name ...]
    git -C /repo worktree remove --force /tmp/w/g9_repo

Never run against /repo itself.  The generated Lean files are left as the LAST run wrote them; the
script finishes with a regeneration from the unchanged /repo."""
import json
import os
import re
import subprocess
import sys
import time

HERE = os.path.dirname(os.path.abspath(__file__))
VERIF = os.path.dirname(HERE)

# (name, kind, method, old text, new text); kind: 'mutation' (must be caught) | 'refactor' (must pass)
EDITS = [
    ("mul-operand-order", "mutation", "__mul__",
     "            frdata[:, :, i] = self.frdata[:, :, i] @ other.frdata[:, :, i]",
     "            frdata[:, :, i] = other.frdata[:, :, i] @ self.frdata[:, :, i]"),
    ("feedback-sign", "mutation", "feedback",
     "        I_AB = eye(self.ninputs)[np.newaxis, :, :] - sign * otherfrdata @ myfrdata",
     "        I_AB = eye(self.ninputs)[np.newaxis, :, :] + sign * otherfrdata @ myfrdata"),
    ("rmul-promotion-size", "mutation", "__rmul__",
     "            self = bdalg.append(*([self] * other.ninputs))",
     "            self = bdalg.append(*([self] * other.noutputs))"),
    ("append-block-misplaced", "mutation", "append",
     "        new_frdata[self.noutputs:, self.ninputs:, :] = np.reshape(",
     "        new_frdata[self.noutputs:, :other.ninputs, :] = np.reshape("),
    ("truediv-scalar-multiplies", "mutation", "__truediv__",
     "            return FRD(self.frdata * (1/other), self.omega, dt=self.dt,",
     "            return FRD(self.frdata * other, self.omega, dt=self.dt,"),
    ("convert-lti-drops-dt", "mutation", "_convert_to_frd",
     "            frdata = sys(np.exp(1j * omega * sys.dt))",
     "            frdata = sys(np.exp(1j * omega))"),
    ("convert-scalar-shape-swapped", "mutation", "_convert_to_frd",
     "        frdata = ones((outputs, inputs, len(omega)), dtype=float)*sys",
     "        frdata = ones((inputs, outputs, len(omega)), dtype=float)*sys"),
    ("getitem-rows-cols", "mutation", "__getitem__",
     "            self.frdata[outdx, :][:, inpdx], self.omega, self.dt,",
     "            self.frdata[inpdx, :][:, outdx], self.omega, self.dt,"),
    # ---- caught ONLY by the tie: the running code agrees with the model on every generated case -------
    ("add-grid-of-self", "tie-only", "__add__",
     "        return FRD(self.frdata + other.frdata, other.omega, dt=dt)",
     "        return FRD(self.frdata + other.frdata, self.omega, dt=dt)"),
    ("eval-last-match", "tie-only", "eval",
     "                out = self.frdata[:, :, [match[0] for match in matches]]",
     "                out = self.frdata[:, :, [match[-1] for match in matches]]"),
    # ---- meaning-preserving refactorings: every obligation must stay discharged -----------------
    ("r-neg-named-temporary", "refactor", "__neg__",
     "        return FRD(-self.frdata, self.omega, dt=self.dt)",
     "        data = -self.frdata\n        return FRD(data, self.omega, dt=self.dt)"),
    ("r-mul-loop-renamed-temporaries", "refactor", "__mul__",
     "        for i in range(len(self.omega)):\n            frdata[:, :, i] = self.frdata[:, :, i] @ other.frdata[:, :, i]",
     "        for k in range(len(self.omega)):\n            left = self.frdata[:, :, k]\n            right = other.frdata[:, :, k]\n"
     "            frdata[:, :, k] = left @ right"),
    ("r-feedback-reordered-np-eye", "refactor", "feedback",
     "        myfrdata = np.moveaxis(self.frdata, 2, 0)\n        otherfrdata = np.moveaxis(other.frdata, 2, 0)\n"
     "        I_AB = eye(self.ninputs)[np.newaxis, :, :] - sign * otherfrdata @ myfrdata",
     "        otherfrdata = np.moveaxis(other.frdata, 2, 0)\n        myfrdata = np.moveaxis(self.frdata, 2, 0)\n"
     "        I_AB = np.eye(self.ninputs)[np.newaxis, :, :] - (sign * otherfrdata) @ myfrdata"),
    ("r-add-renamed-timebase", "refactor", "__add__",
     "        dt = common_timebase(self.dt, other.dt)\n\n        return FRD(self.frdata + other.frdata, other.omega, dt=dt)",
     "        timebase = common_timebase(self.dt, other.dt)\n        total = self.frdata + other.frdata\n\n"
     "        return FRD(total, other.omega, dt=timebase)"),
    ("r-append-named-size", "refactor", "append",
     "            (self.noutputs + other.noutputs, self.ninputs + other.ninputs,\n             self.omega.shape[-1]), dtype=complex)",
     "            (self.noutputs + other.noutputs, self.ninputs + other.ninputs,\n             len(self.omega)), dtype=complex)"),
    ("r-convert-loop-variables", "refactor", "_convert_to_frd",
     "        for i in range(outputs):\n            for j in range(inputs):\n                frdata[i, j, :] = sys[i, j]",
     "        for row in range(outputs):\n            for col in range(inputs):\n                entry = sys[row, col]\n"
     "                frdata[row, col, :] = entry"),
    ("r-truediv-named-reciprocal", "refactor", "__truediv__",
     "            return FRD(self.frdata * (1/other), self.omega, dt=self.dt,\n                       smooth=(self._ifunc is not None))",
     "            reciprocal = 1/other\n            return FRD(self.frdata * reciprocal, self.omega, dt=self.dt,\n"
     "                       smooth=(self._ifunc is not None))"),
    # ---- outside the translator's subset (meaning kept): the translation fails, reported as a broken
    #      obligation without a failing input ------------------------------------------------------
    ("x-neg-np-negative", "outside", "__neg__",
     "        return FRD(-self.frdata, self.omega, dt=self.dt)",
     "        return FRD(np.negative(self.frdata), self.omega, dt=self.dt)"),
]


def run(repo, name):
    edit = [e for e in EDITS if e[0] == name][0]
    _, kind, method, old, new = edit
    path = os.path.join(repo, "control", "frdata.py")
    subprocess.run(["git", "-C", repo, "checkout", "--", "control/frdata.py"], check=True)
    src = open(path).read()
    if src.count(old) != 1:
        return {"name": name, "error": "pattern occurs %d times" % src.count(old)}
    open(path, "w").write(src.replace(old, new))
    env = dict(os.environ, VERIF_REPO=repo, VERIF_NO_EVIDENCE="1", VERIF_SEED=os.environ.get("VERIF_SEED", "0"))
    t0 = time.time()
    p = subprocess.run(["/venv/bin/python", os.path.join(HERE, "check.py"), "C09", "--tier", "quick"],
                       cwd=VERIF, env=env, text=True, capture_output=True)
    out = p.stdout + p.stderr
    subprocess.run(["git", "-C", repo, "checkout", "--", "control/frdata.py"], check=True)
    viol = [l for l in out.split("\n") if l.startswith("VIOLATION")]
    summ = [l for l in out.split("\n") if l.startswith("C09 tier=")]
    m = re.search(r"obligations=(\d+)/(\d+)", out)
    broken = re.findall(r"error: (CtrlVerif/Props/\S+?\.lean):(\d+)", out)
    return {"name": name, "kind": kind, "method": method, "exit": p.returncode,
            "obligations": m.group(0) if m else None, "violations": len(viol),
            "first_violation": viol[0][:300] if viol else None,
            "no_failing_input": sum("no-failing-input-found" in v for v in viol),
            "broken_at": sorted(set(broken))[:4], "summary": summ[-1] if summ else out[-400:],
            "wall": round(time.time() - t0, 1),
            "problems": [l[:200] for l in out.split("\n") if "cannot be translated" in l][:2],
            "as_expected": (p.returncode == 1 and bool(viol)) if kind in ("mutation", "outside", "tie-only")
            else p.returncode == 0}


if __name__ == "__main__":
    repo = os.path.abspath(sys.argv[1])
    if os.path.realpath(repo) == os.path.realpath("/repo"):
        sys.exit("refusing to edit /repo")
    names = sys.argv[2:] or [e[0] for e in EDITS]
    results = []
    for nm in names:
        r = run(repo, nm)
        results.append(r)
        print(json.dumps(r), flush=True)
    # leave the generated files as the unchanged tree defines them
    sys.path.insert(0, HERE)
    from core import py2lean_frd, leanproj
    py2lean_frd.regenerate("/repo", leanproj.LEAN)
    bad = [r["name"] for r in results if not r.get("as_expected")]
    print("not as expected:", bad)
