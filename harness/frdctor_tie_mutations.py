"""Demonstration for the source-text tie of `FrequencyResponseData.__init__` / `frd` (property C03, tag
py2lean-frdctor, notes/NOTES-py2lean-frdctor.md): apply semantic mutations / meaning-preserving refactorings
to a SCRATCH worktree of /repo, run `check.py C03 --tier quick` against it (VERIF_REPO, VERIF_NO_EVIDENCE=1)
and report which proof obligations break and whether a VIOLATION with a failing input is reported.

    git -C /repo worktree add --detach /tmp/w/g28_repo HEAD
    /venv/bin/python harness/frdctor_tie_mutations.py /tmp/w/g28_repo [name ...]
    git -C /repo worktree remove --force /tmp/w/g28_repo

Never run against /repo itself.  The script finishes with a regeneration from the unchanged /repo."""
import json
import os
import re
import subprocess
import sys
import time

HERE = os.path.dirname(os.path.abspath(__file__))
VERIF = os.path.dirname(HERE)

LABELS = ("                kwargs['inputs'] = kwargs.get('inputs', otherlti.input_labels)\n"
          "                kwargs['outputs'] = kwargs.get(\n"
          "                    'outputs', otherlti.output_labels)\n")
GUARD = "                if not otherlti._generic_name_check():\n"
EVAL = ("                if otherlti.isctime():\n"
        "                    s = 1j * self.omega\n"
        "                    self.frdata = otherlti(s, squeeze=False)\n"
        "                else:\n"
        "                    z = np.exp(1j * self.omega * otherlti.dt)\n"
        "                    self.frdata = otherlti(z, squeeze=False)\n")

# (name, kind, [(old, new) ...]); kind: 'mutation' (must be caught) | 'refactor' (must pass)
EDITS = [
    ("labels-under-name-guard", "mutation", [
        (LABELS + GUARD, GUARD
         + "                    kwargs['inputs'] = kwargs.get('inputs', otherlti.input_labels)\n"
         + "                    kwargs['outputs'] = kwargs.get(\n"
         + "                        'outputs', otherlti.output_labels)\n")]),
    ("unsorted-omega-kept", "mutation", [
        ("                self.omega = sort(np.asarray(args[1], dtype=float))",
         "                self.omega = np.asarray(args[1], dtype=float)")]),
    ("discrete-branch-lost", "mutation", [
        (EVAL, "                s = 1j * self.omega\n"
               "                self.frdata = otherlti(s, squeeze=False)\n")]),
    ("dt-not-copied", "mutation", [
        ("                arg_dt = otherlti.dt\n", "                arg_dt = None\n")]),
    ("name-guard-dropped", "mutation", [
        (GUARD, "                if True:\n")]),
    ("exp-without-dt", "mutation", [
        ("                    z = np.exp(1j * self.omega * otherlti.dt)\n",
         "                    z = np.exp(1j * self.omega)\n")]),
    ("factory-drops-keywords", "mutation", [
        ("    return FrequencyResponseData(*args, **kwargs)\n", "    return FrequencyResponseData(*args)\n")]),
    # caught ONLY by the tie: the running code agrees with the model on every generated case (lists are copied by asarray)
    ("sort-in-place", "tie-only", [
        ("                self.omega = sort(np.asarray(args[1], dtype=float))",
         "                self.omega = np.asarray(args[1], dtype=float)\n                self.omega.sort()")]),
    # ---- meaning-preserving refactorings: every obligation must stay discharged ----
    ("r-renamed-variables", "refactor", [
        ("otherlti", "src_sys"), ("arg_dt", "sys_dt")]),
    ("r-named-temporaries", "refactor", [
        ("                self.omega = sort(np.asarray(args[1], dtype=float))",
         "                w_in = np.asarray(args[1], dtype=float)\n                self.omega = sort(w_in)"),
        ("                    z = np.exp(1j * self.omega * otherlti.dt)\n",
         "                    h = otherlti.dt\n                    z = np.exp(self.omega * 1j * h)\n")]),
    ("r-reordered-statements", "refactor", [
        (EVAL + "                arg_dt = otherlti.dt\n", "                arg_dt = otherlti.dt\n" + EVAL),
        (LABELS, "                kwargs['outputs'] = kwargs.get(\n"
                 "                    'outputs', otherlti.output_labels)\n"
                 "                kwargs['inputs'] = kwargs.get('inputs', otherlti.input_labels)\n")]),
    ("r-branches-swapped", "refactor", [
        (EVAL, "                if not otherlti.isctime():\n"
               "                    z = np.exp(1j * self.omega * otherlti.dt)\n"
               "                    self.frdata = otherlti(z, squeeze=False)\n"
               "                else:\n"
               "                    s = 1j * self.omega\n"
               "                    self.frdata = otherlti(s, squeeze=False)\n")]),
    ("r-name-before-labels", "refactor", [
        (LABELS + GUARD
         + "                    kwargs['name'] = kwargs.get('name', _extended_system_name(\n"
         + "                        otherlti.name, prefix_suffix_name='sampled'))\n",
         GUARD
         + "                    newname = _extended_system_name(\n"
         + "                        otherlti.name, prefix_suffix_name='sampled')\n"
         + "                    kwargs['name'] = kwargs.get('name', newname)\n" + LABELS)]),
    ("r-factory-alias-and-comments", "refactor", [
        ("    return FrequencyResponseData(*args, **kwargs)\n",
         "    # forward everything to the class\n    return FRD(*args, **kwargs)\n"),
        ("                # calculate frequency response at specified points\n",
         "                # evaluate the system on the (sorted) grid\n")]),
]


def run(repo, name):
    edit = [e for e in EDITS if e[0] == name][0]
    _, kind, subs = edit
    path = os.path.join(repo, "control", "frdata.py")
    subprocess.run(["git", "-C", repo, "checkout", "--", "control/frdata.py"], check=True)
    src = open(path).read()
    for old, new in subs:
        n = src.count(old)
        if n < 1 or (n != 1 and "\n" in old):
            return {"name": name, "error": "pattern %r occurs %d times" % (old[:40], n)}
        src = src.replace(old, new)
    open(path, "w").write(src)
    env = dict(os.environ, VERIF_REPO=repo, VERIF_NO_EVIDENCE="1", VERIF_SEED=os.environ.get("VERIF_SEED", "0"))
    t0 = time.time()
    p = subprocess.run(["/venv/bin/python", os.path.join(HERE, "check.py"), "C03", "--tier", "quick"],
                       cwd=VERIF, env=env, text=True, capture_output=True)
    out = p.stdout + p.stderr
    subprocess.run(["git", "-C", repo, "checkout", "--", "control/frdata.py"], check=True)
    viol = [l for l in out.split("\n") if l.startswith("VIOLATION")]
    summ = [l for l in out.split("\n") if l.startswith("C03 tier=")]
    m = re.search(r"obligations=(\d+)/(\d+)", out)
    broken = re.findall(r"error: (CtrlVerif/Props/\S+?\.lean):(\d+)", out)
    return {"name": name, "kind": kind, "exit": p.returncode,
            "obligations": m.group(0) if m else None, "violations": len(viol),
            "first_violation": viol[0][:400] if viol else None,
            "no_failing_input": sum("no-failing-input-found" in v for v in viol),
            "broken_at": sorted(set(broken))[:4], "summary": summ[-1] if summ else out[-400:],
            "wall": round(time.time() - t0, 1),
            "problems": [l[:240] for l in out.split("\n") if "cannot be translated" in l][:2],
            "as_expected": (p.returncode == 1 and bool(viol)) if kind in ("mutation", "tie-only")
            else p.returncode == 0}


if __name__ == "__main__":
    repo = os.path.abspath(sys.argv[1])
    if os.path.realpath(repo) == os.path.realpath("/repo"):
        sys.exit("refusing to edit /repo")
    names = sys.argv[2:] or [e[0] for e in EDITS]
    results = []
    for nm in names:
        r = run(repo, nm)
        results.append(r)
        print(json.dumps(r), flush=True)
    sys.path.insert(0, HERE)
    from core import py2lean_frdctor, leanproj
    py2lean_frdctor.regenerate("/repo", leanproj.LEAN)
    bad = [r["name"] for r in results if not r.get("as_expected")]
    print("not as expected:", bad)
