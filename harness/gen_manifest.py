#!/venv/bin/python
"""Regenerate MANIFEST.json from the table below (kept in one place so it stays valid)."""
import json, os
HERE = os.path.dirname(os.path.abspath(__file__))
VERIF = os.path.dirname(HERE)
ALL = ["C%02d" % i for i in range(1, 21)]

CLAIMED = {}
for fn in sorted(os.listdir(os.path.join(HERE, "claims"))):
    if fn.endswith(".json"):
        CLAIMED[fn[:-5]] = json.load(open(os.path.join(HERE, "claims", fn)))
NA_REASONS = {}
if os.path.exists(os.path.join(HERE, "not_applicable.json")):
    NA_REASONS = json.load(open(os.path.join(HERE, "not_applicable.json")))

def main():
    checks = []
    for pid in ALL:
        if pid not in CLAIMED:
            continue
        c = CLAIMED[pid]
        checks.append({
            "property_id": pid,
            "quick_cmd": "/venv/bin/python harness/check.py %s --tier quick" % pid,
            "thorough_cmd": "/venv/bin/python harness/check.py %s --tier thorough" % pid,
            "evidence_file": "evidence/%s.json" % pid,
            "replay_cmd_template": "/venv/bin/python harness/check.py %s --replay {path}" % pid,
            "engine": "lean-ctrlverif",
            "level_claimed": {"category": "proof", "text": c["text"], "design_ref": "DESIGN.md §" + c["ref"]},
            "level_note": c["note"],
            "technique": c["technique"],
        })
    na = [{"property_id": pid, "reason": NA_REASONS.get(pid, "not yet built (planned, see DESIGN.md §7); no check is registered, so nothing is claimed")}
          for pid in ALL if pid not in CLAIMED]
    man = {
        "version": 1,
        "setup_cmd": "cd lean && lake build CtrlVerif",
        "hooks": {"guard": "PYTHON_CONTROL_VERIF", "enable": "no hooks are needed: every observation point is reachable through the public API",
                  "baseline_off_cmd": "cd /repo && /venv/bin/python -m pytest -ra -q -p no:cacheprovider --timeout=900 --continue-on-collection-errors",
                  "source_commits": [], "add_only": True},
        "engines": [{"name": "lean-ctrlverif", "path": "lean/", "serves_properties": sorted(CLAIMED),
                     "kind_free_text": "Lean 4.33 + Mathlib model and theorems; line-protocol driver (lake env lean --run Main.lean); Python correspondence harness in harness/"}],
        "checks": checks,
        "notes": "Known findings: known_findings.json. Fix commits in /repo are listed there with status fixed.",
        "not_applicable": na,
    }
    json.dump(man, open(os.path.join(VERIF, "MANIFEST.json"), "w"), indent=1)

if __name__ == "__main__":
    main()
