#!/venv/bin/python
"""Mutation / refactoring demonstration for the source-text tie of `TransferFunction.minreal` (py2lean_minreal, C15):
applies each edit to control/xferfcn.py of a scratch worktree, regenerates Generated/TFMinreal.lean from it
and builds the Props module.  usage: minreal_tie_mutations.py <scratch worktree>
(the Generated file is restored from /repo at the end)"""
import os
import subprocess
import sys
import time
sys.path.insert(0, os.path.dirname(os.path.abspath(__file__)))
from core import py2lean_minreal, leanproj

MUT = [
    ("M1 tolerance test with <=", [("idx = where(abs(z - poles) < t)[0]", "idx = where(abs(z - poles) <= t)[0]")]),
    ("M2 cancels the last close pole instead of the first", [("poles = delete(poles, idx[0])", "poles = delete(poles, idx[-1])")]),
    ("M3 relative tolerance factor 100", [("1000 * max(float_info.epsilon, abs(z) * sqrt_eps)", "100 * max(float_info.epsilon, abs(z) * sqrt_eps)")]),
    ("M4 explicit tol ignored (`tol and ...`)", [("t = tol or \\\n", "t = tol and \\\n")]),
    ("M5 cancelled zero kept as well", [("                        poles = delete(poles, idx[0])\n", "                        poles = delete(poles, idx[0])\n                        newzeros.append(z)\n")]),
    ("M6 gain from the trailing coefficients", [("gain = self.num_array[i, j][0] / self.den_array[i, j][0]", "gain = self.num_array[i, j][-1] / self.den_array[i, j][-1]")]),
    ("M7 timebase dropped from the result", [("return TransferFunction(num, den, self.dt)", "return TransferFunction(num, den)")]),
    ("M8 tolerance relative to the pole instead of the zero", [("abs(z) * sqrt_eps)", "abs(poles[0]) * sqrt_eps)")]),
]
REF = [
    ("R1 locals renamed (newzeros -> kept, idx -> hit)", "rename"),
    ("R2 comments changed", [("# cancel this zero against one of the poles", "# cancel against the first close pole")]),
]


def build():
    t = time.time()
    r = subprocess.run(["lake", "build", "CtrlVerif.Props.C15GenMinreal"], cwd=leanproj.LEAN,
                       capture_output=True, text=True)
    errs = [l for l in (r.stdout + r.stderr).split("\n") if l.startswith("error:") and ".lean:" in l]
    return r.returncode == 0, errs, time.time() - t


def main(repo):
    path = os.path.join(repo, "control", "xferfcn.py")
    orig = open(path).read()
    try:
        for name, edits in MUT + REF:
            src = orig
            if edits == "rename":
                a = src.index("    def minreal(self, tol=None):")
                b = src.index("    def returnScipySignalLTI")
                body = src[a:b].replace("newzeros", "kept").replace("idx", "hit")
                src = src[:a] + body + src[b:]
            else:
                for old, new in edits:
                    assert src.count(old) == 1, (name, old, src.count(old))
                    src = src.replace(old, new)
            open(path, "w").write(src)
            probs, _ = py2lean_minreal.regenerate(repo, leanproj.LEAN)
            ok, errs, dt = build()
            print("%-75s %s  (%.0fs) %s" % (name, "all obligations hold" if ok and not probs else "BROKEN",
                                            dt, (probs or errs)[:1]), flush=True)
    finally:
        open(path, "w").write(orig)
        py2lean_minreal.regenerate("/repo", leanproj.LEAN)
        build()


if __name__ == "__main__":
    main(sys.argv[1])
