import CtrlVerif.Props.C20

#print axioms CtrlVerif.C20.flat_inverse_left
#print axioms CtrlVerif.C20.flat_inverse_right
#print axioms CtrlVerif.C20.construct_valid
#print axioms CtrlVerif.C20.flat_inverse
#print axioms CtrlVerif.C20.construct_zero_states
#print axioms CtrlVerif.C20.kindCheck_ok_iff
#print axioms CtrlVerif.C20.brunovsky_valid
#print axioms CtrlVerif.C20.reachable_flat_exists
#print axioms CtrlVerif.C20.endpoints_of_solution
#print axioms CtrlVerif.C20.p2p_solves
#print axioms CtrlVerif.C20.endpoints
#print axioms CtrlVerif.C20.p2p_basis_too_small
#print axioms CtrlVerif.C20.feasible_core
#print axioms CtrlVerif.C20.basis_deriv
#print axioms CtrlVerif.C20.basis_deriv_real
#print axioms CtrlVerif.C20.evalDeriv_ok
#print axioms CtrlVerif.C20.bezier_index_too_high
#print axioms CtrlVerif.C20.trajFlag_hasDerivAt
#print axioms CtrlVerif.C20.feasible
#print axioms CtrlVerif.C20.feasible_p2p
