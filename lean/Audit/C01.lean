import CtrlVerif.Props.C01

#print axioms CtrlVerif.C01.ctor_zero_den_raises
#print axioms CtrlVerif.C01.ctor_sem
#print axioms CtrlVerif.C01.sem_add
#print axioms CtrlVerif.C01.sem_neg
#print axioms CtrlVerif.C01.sem_sub
#print axioms CtrlVerif.C01.sem_mul
#print axioms CtrlVerif.C01.sem_ofConst
#print axioms CtrlVerif.C01.sem_append
#print axioms CtrlVerif.C01.sem_diag
#print axioms CtrlVerif.C01.sem_truediv
#print axioms CtrlVerif.C01.truediv_zero_raises
#print axioms CtrlVerif.C01.sem_feedback
#print axioms CtrlVerif.C01.feedback_singular_raises
#print axioms CtrlVerif.C01.sem_reindex
