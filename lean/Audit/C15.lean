import CtrlVerif.Props.C15
import CtrlVerif.Props.C15GenSim
import CtrlVerif.Props.C15GenReach
import CtrlVerif.Props.C15GenObs
import CtrlVerif.Props.C15GenForm
import CtrlVerif.Props.C15GenKeys
import CtrlVerif.Props.C15GenReduce
import CtrlVerif.Props.C15Flag
import CtrlVerif.Props.C15GenMinreal
import CtrlVerif.Props.C15GenMinrealC
import CtrlVerif.Props.C15GenMinrealSem

#print axioms CtrlVerif.C15.timescale_resp
#print axioms CtrlVerif.C15.similarity_relations
#print axioms CtrlVerif.C15.similarity_resp
#print axioms CtrlVerif.C15.similarityInv_eq
#print axioms CtrlVerif.C15.similarityInv_resp
#print axioms CtrlVerif.C15.similarityInv_relations
#print axioms CtrlVerif.C15.certInv_some
#print axioms CtrlVerif.C15.certInv_none_iff
#print axioms CtrlVerif.C15.charpoly_contract
#print axioms CtrlVerif.C15.reachable_form_structure
#print axioms CtrlVerif.C15.reachable_form_correct
#print axioms CtrlVerif.C15.reachable_form_T_invertible
#print axioms CtrlVerif.C15.observable_form_structure
#print axioms CtrlVerif.C15.observable_form_correct
#print axioms CtrlVerif.C15.observable_form_T_singular_iff
#print axioms CtrlVerif.C15.unreachable_raises
#print axioms CtrlVerif.C15.unobservable_raises
#print axioms CtrlVerif.C15.canonical_mimo_raises
#print axioms CtrlVerif.C15.canonical_unknown_form_raises
#print axioms CtrlVerif.C15.similarity_singular_raises
#print axioms CtrlVerif.C15.truncate_keeps
#print axioms CtrlVerif.C15.select_keeps
#print axioms CtrlVerif.C15.canonIdx_same_set
#print axioms CtrlVerif.C15.canonIdx_spec
#print axioms CtrlVerif.C15.complIdx_spec
#print axioms CtrlVerif.C15.keep_elim_partition
#print axioms CtrlVerif.C15.keep_elim_bijective
#print axioms CtrlVerif.C15.matchdc_dcgain
#print axioms CtrlVerif.C15.matchdc_select_dcgain
#print axioms CtrlVerif.C15.minreal_sem
#print axioms CtrlVerif.C15.minreal_sem_on
#print axioms CtrlVerif.C15.minreal_sem_certified
#print axioms CtrlVerif.C15.minreal_only_cancels
#print axioms CtrlVerif.C15.closeQ_iff
#print axioms CtrlVerif.C15.tolOf_default
#print axioms CtrlVerif.C15.tolOf_explicit
#print axioms CtrlVerif.C15.tolOf_zero
#print axioms CtrlVerif.C15.closeQ_default_self
#print axioms CtrlVerif.C15.closeQ_default_separated
#print axioms CtrlVerif.C15.closeQI_iff
#print axioms CtrlVerif.C15.closeQI_neg
#print axioms CtrlVerif.C15.closeQI_default_self
#print axioms CtrlVerif.C15.closeQI_real_default
#print axioms CtrlVerif.C15.minreal_sem_graded
#print axioms CtrlVerif.C15Gen.generated_similarity_transform_eq
#print axioms CtrlVerif.C15Gen.generated_similarity_transform_nonsquare
#print axioms CtrlVerif.C15Gen.generated_similarity_transform_ok_iff
#print axioms CtrlVerif.C15Gen.generated_similarity_resp
#print axioms CtrlVerif.C15Gen.generated_reachable_form_eq
#print axioms CtrlVerif.C15Gen.reachableForm_closed
#print axioms CtrlVerif.C15Gen.charpolyList_contract
#print axioms CtrlVerif.C15Gen.generated_reachable_form_ok_iff
#print axioms CtrlVerif.C15Gen.generated_reachable_form_correct
#print axioms CtrlVerif.C15Gen.generated_reachable_form_resp
#print axioms CtrlVerif.C15Gen.generated_reachable_form_raises
#print axioms CtrlVerif.C15Gen.generated_observable_form_eq
#print axioms CtrlVerif.C15Gen.observableForm_closed
#print axioms CtrlVerif.C15Gen.charpolyList_contract_dual
#print axioms CtrlVerif.C15Gen.generated_observable_form_ok_iff
#print axioms CtrlVerif.C15Gen.generated_observable_form_correct
#print axioms CtrlVerif.C15Gen.generated_observable_form_resp
#print axioms CtrlVerif.C15Gen.generated_observable_form_raises
#print axioms CtrlVerif.C15Gen.generated_canonical_form_eq
#print axioms CtrlVerif.C15Gen.generated_canonical_form_modal
#print axioms CtrlVerif.C15Gen.generated_canonical_unknown_form_raises
#print axioms CtrlVerif.C15Gen.generated_expandKey_atom
#print axioms CtrlVerif.C15Gen.mapM_expandKey_atoms
#print axioms CtrlVerif.C15Gen.generated_expandKey_eq
#print axioms CtrlVerif.C15Gen.generated_resolve_eq
#print axioms CtrlVerif.C15Gen.generated_processElimOrKeep_eq
#print axioms CtrlVerif.C15Gen.generated_processElimOrKeep_ok_iff
#print axioms CtrlVerif.C15Gen.generated_keep_elim_partition
#print axioms CtrlVerif.C15Gen.generated_model_reduction_eq
#print axioms CtrlVerif.C15Gen.generated_model_reduction_ok_iff
#print axioms CtrlVerif.C15Gen.modelReduction_ok_cases
#print axioms CtrlVerif.C15Gen.modelReduction_ok_of
#print axioms CtrlVerif.C15Gen.generated_truncate_keeps
#print axioms CtrlVerif.C15Gen.generated_matchdc_dcgain
#print axioms CtrlVerif.C15Gen.generated_model_reduction_refusals
#print axioms CtrlVerif.C15Flag.truthy_table
#print axioms CtrlVerif.C15Flag.falsy_nonliteral
#print axioms CtrlVerif.C15Flag.is_False_eq_not_truthy_of_pyBool
#print axioms CtrlVerif.C15Flag.is_False_ne_not_truthy
#print axioms CtrlVerif.C15Flag.similarityF_spelling
#print axioms CtrlVerif.C15Flag.similarityF_falsy
#print axioms CtrlVerif.C15Flag.similarityF_truthy
#print axioms CtrlVerif.C15Flag.generated_similarityF_eq
#print axioms CtrlVerif.C15Flag.similarityF_resp
#print axioms CtrlVerif.C15Flag.falsy_relations
#print axioms CtrlVerif.C15GenMinreal.step_match
#print axioms CtrlVerif.C15GenMinreal.delete_first
#print axioms CtrlVerif.C15GenMinreal.generated_zLoop_eq
#print axioms CtrlVerif.C15GenMinreal.generated_entryBody_eq
#print axioms CtrlVerif.C15GenMinreal.generated_zLoop_sublists
#print axioms CtrlVerif.C15GenMinreal.generated_close_eq_closeQ
#print axioms CtrlVerif.C15GenMinreal.normSqQI_nonneg
#print axioms CtrlVerif.C15GenMinreal.sq_max_of_nonneg
#print axioms CtrlVerif.C15GenMinreal.default_tol_sq
#print axioms CtrlVerif.C15GenMinreal.default_tol_pos
#print axioms CtrlVerif.C15GenMinreal.generated_close_eq_closeQI
#print axioms CtrlVerif.C15GenMinreal.generated_entryBody_sem
#print axioms CtrlVerif.C15GenMinreal.generated_zLoop_relative_degree
