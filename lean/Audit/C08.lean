import CtrlVerif.Props.C08
import CtrlVerif.Props.C08GenUfun
import CtrlVerif.Props.C08GenLoop
import CtrlVerif.Props.C08GenGrid
import CtrlVerif.Props.C08GenVector
import CtrlVerif.Props.C08GenBroadcast
import CtrlVerif.Props.C08GenLin
import CtrlVerif.Props.C08GenOpSetup
import CtrlVerif.Props.C08GenOp
import CtrlVerif.Props.C08GenOpShort
import CtrlVerif.Props.C08GenParams

#print axioms CtrlVerif.C08.simulate_length
#print axioms CtrlVerif.C08.simulate_init
#print axioms CtrlVerif.C08.discrete_recursion
#print axioms CtrlVerif.C08.simulate_total
#print axioms CtrlVerif.C08.simulate_smul
#print axioms CtrlVerif.C08.ufun_smul
#print axioms CtrlVerif.C08.response_smul
#print axioms CtrlVerif.C08.ofSS_homog
#print axioms CtrlVerif.C08.ufun_segment
#print axioms CtrlVerif.C08.searchLeft_grid
#print axioms CtrlVerif.C08.ufun_grid
#print axioms CtrlVerif.C08.ufun_between
#print axioms CtrlVerif.C08.ufun_before
#print axioms CtrlVerif.C08.mulVec_add_single
#print axioms CtrlVerif.C08.linearize_affine
#print axioms CtrlVerif.C08.linearize_ofSS
#print axioms CtrlVerif.C08.static_io_sound
#print axioms CtrlVerif.C08.static_io_sound1
#print axioms CtrlVerif.C08.ic2_out
#print axioms CtrlVerif.C08.ic2_rhs
#print axioms CtrlVerif.C08.ic2_homog
#print axioms CtrlVerif.C08.ic1_homog
#print axioms CtrlVerif.C08.mul_compose
#print axioms CtrlVerif.C08.add_compose
#print axioms CtrlVerif.C08.sub_compose
#print axioms CtrlVerif.C08.neg_compose
#print axioms CtrlVerif.C08.feedback_compose
#print axioms CtrlVerif.C08.add_linear
#print axioms CtrlVerif.C08.mul_linear
#print axioms CtrlVerif.C08.ops_homog
#print axioms CtrlVerif.C08.mul_homog
#print axioms CtrlVerif.C08.processVector_length
#print axioms CtrlVerif.C08.processVector_short
#print axioms CtrlVerif.C08.mem_complementOf
#print axioms CtrlVerif.C08.scatter_of_not_mem
#print axioms CtrlVerif.C08.opPoint_sound
#print axioms CtrlVerif.C08.opProblem_discrete
#print axioms CtrlVerif.C08.opPoint_unspecified_timebase
#print axioms CtrlVerif.C08.opIndexing_inputs_fixed
#print axioms CtrlVerif.C08.opIndexing_outputs_fixed
#print axioms CtrlVerif.C08.linearize_operating_point
#print axioms CtrlVerif.C08.linearize_operating_point_input
#print axioms CtrlVerif.C08.linearize_default_input
#print axioms CtrlVerif.C08.linearize_explicit_input
#print axioms CtrlVerif.C08.update_params_history
#print axioms CtrlVerif.C08.seen_history
#print axioms CtrlVerif.C08.call_history
#print axioms CtrlVerif.C08.update_params_functional
#print axioms CtrlVerif.C08.history_functional
#print axioms CtrlVerif.C08.polySys_same
#print axioms CtrlVerif.C08.ofPolyD_build
#print axioms CtrlVerif.C08.ofPolyD_nil
#print axioms CtrlVerif.C08.op_call_frame
#print axioms CtrlVerif.C08.op_refs_valid
#print axioms CtrlVerif.C08.op_history_frame
#print axioms CtrlVerif.C08.op_caller_arrays_unchanged
#print axioms CtrlVerif.C08.op_results_stable
#print axioms CtrlVerif.C08.op_results_stable_mid
#print axioms CtrlVerif.C08.op_general_contents
#print axioms CtrlVerif.C08Gen.generated_clip_eq
#print axioms CtrlVerif.C08Gen.generated_ufun_eq
#print axioms CtrlVerif.C08Gen.generated_ufun_grid
#print axioms CtrlVerif.C08Gen.generated_discLoop_eq
#print axioms CtrlVerif.C08Gen.generated_discrete_recursion
#print axioms CtrlVerif.C08Gen.generated_grid_core
#print axioms CtrlVerif.C08Gen.generated_discGrid_eq
#print axioms CtrlVerif.C08Gen.generated_findSize_ok
#print axioms CtrlVerif.C08Gen.generated_findSize_shape
#print axioms CtrlVerif.C08Gen.generated_pad_core
#print axioms CtrlVerif.C08Gen.foldlM_append_flatten
#print axioms CtrlVerif.C08Gen.generated_processVector_eq
#print axioms CtrlVerif.C08Gen.generated_processVector_length
#print axioms CtrlVerif.C08Gen.processInputs_broadcast
#print axioms CtrlVerif.C08Gen.generated_broadcast_eq
#print axioms CtrlVerif.C08Gen.generated_linPoint_eq
#print axioms CtrlVerif.C08Gen.generated_linPoint_operating_point
#print axioms CtrlVerif.C08Gen.generated_linPoint_default_input
#print axioms CtrlVerif.C08Gen.generated_linearize_ok
#print axioms CtrlVerif.C08Gen.generated_linearize_defined
#print axioms CtrlVerif.C08Gen.generated_linearize_eq
#print axioms CtrlVerif.C08Gen.generated_linearize_affine
#print axioms CtrlVerif.C08Gen.generated_linearize_ofSS
#print axioms CtrlVerif.C08Gen.generated_linArgs_eq
#print axioms CtrlVerif.C08Gen.vecOfList_ofFn
#print axioms CtrlVerif.C08Gen.generated_linearizeP_eq
#print axioms CtrlVerif.C08Gen.generated_opSetup_eq_partial
#print axioms CtrlVerif.C08Gen.generated_opSetup_empty_outputs
#print axioms CtrlVerif.C08Gen.generated_op_state
#print axioms CtrlVerif.C08Gen.generated_op_input
#print axioms CtrlVerif.C08Gen.generated_rootfun_eq
#print axioms CtrlVerif.C08Gen.generated_opUnpack_eq
#print axioms CtrlVerif.C08Gen.generated_opPoint_sound
#print axioms CtrlVerif.C08Gen.lookup_zip_getElem
#print axioms CtrlVerif.C08Gen.scatter_finRange
#print axioms CtrlVerif.C08Gen.scatter_nil
#print axioms CtrlVerif.C08Gen.opIndexing_short
#print axioms CtrlVerif.C08Gen.generated_opShort_default
#print axioms CtrlVerif.C08Gen.generated_opShort_core
#print axioms CtrlVerif.C08Gen.generated_opShort_eq
#print axioms CtrlVerif.C08Gen.truthy_update
#print axioms CtrlVerif.C08Gen.generated_updateLeaf_eq
#print axioms CtrlVerif.C08Gen.applyLocals_locals
#print axioms CtrlVerif.C08Gen.generated_updateNode_eq
#print axioms CtrlVerif.C08Gen.generated_updateNode_update
#print axioms CtrlVerif.C08Gen.generated_updateLeaf_history
