import CtrlVerif.Props.C02

#print axioms CtrlVerif.C02.neg_resp
#print axioms CtrlVerif.C02.add_resp
#print axioms CtrlVerif.C02.sub_resp
#print axioms CtrlVerif.C02.addConst_resp
#print axioms CtrlVerif.C02.mul_resp
#print axioms CtrlVerif.C02.mulConst_resp
#print axioms CtrlVerif.C02.constMul_resp
#print axioms CtrlVerif.C02.smul_resp
#print axioms CtrlVerif.C02.inv_resp
#print axioms CtrlVerif.C02.T2_eq_E
#print axioms CtrlVerif.C02.feedback_resp
#print axioms CtrlVerif.C02.invQ_spec
#print axioms CtrlVerif.C02.lft_resp
#print axioms CtrlVerif.C02.lft_resp_inv
#print axioms CtrlVerif.C02.push_through
#print axioms CtrlVerif.C02.lft_illposed
#print axioms CtrlVerif.C02.lft_wellposed
#print axioms CtrlVerif.C02.lft_dispatch
#print axioms CtrlVerif.C02.append_resp
#print axioms CtrlVerif.C02.select_resp
#print axioms CtrlVerif.C02.reindex_resp
#print axioms CtrlVerif.C02.static_resp
#print axioms CtrlVerif.C02.card_states_sum
