import CtrlVerif.Props.C19
import CtrlVerif.Props.C19Gen

#print axioms CtrlVerif.C19.reset_restores
#print axioms CtrlVerif.C19.reset_restores_value
#print axioms CtrlVerif.C19.reset_other_keys
#print axioms CtrlVerif.C19.resetCode_counterexample
#print axioms CtrlVerif.C19.resetCode_eq_of_noDep
#print axioms CtrlVerif.C19.no_entry_removed
#print axioms CtrlVerif.C19.setDefaults_no_new_keys
#print axioms CtrlVerif.C19.useDefaults_no_new_keys
#print axioms CtrlVerif.C19.ctx_restores
#print axioms CtrlVerif.C19.ctx_unknown_key_unchanged
#print axioms CtrlVerif.C19.enter_none_iff
#print axioms CtrlVerif.C19.enterCode_counterexample
#print axioms CtrlVerif.C19.ctx_pure_body_identity
#print axioms CtrlVerif.C19.ctx_nested_identity
#print axioms CtrlVerif.C19.op_pure
#print axioms CtrlVerif.C19.history_independence
#print axioms CtrlVerif.C19.history_independence_ops
#print axioms CtrlVerif.C19.generated_name
#print axioms CtrlVerif.C19.params_protocol
#print axioms CtrlVerif.C19.params_code_counterexample
#print axioms CtrlVerif.C19.params_code_ok_unless_bare_call
#print axioms CtrlVerif.C19.memo_empty_sound
#print axioms CtrlVerif.C19.memo_call_spec
#print axioms CtrlVerif.C19.memo_run_sound
#print axioms CtrlVerif.C19.memo_history_independent
#print axioms CtrlVerif.C19.memo_partial_key_counterexample
#print axioms CtrlVerif.C19Gen.generated_checkDeprecation_eq
#print axioms CtrlVerif.C19Gen.generated_missing_eq
#print axioms CtrlVerif.C19Gen.generated_getitem_eq
#print axioms CtrlVerif.C19Gen.generated_setitem_eq
#print axioms CtrlVerif.C19Gen.generated_setDefaults_eq
#print axioms CtrlVerif.C19Gen.generated_update_eq
#print axioms CtrlVerif.C19Gen.generated_resetDefaults_eq
#print axioms CtrlVerif.C19Gen.generated_reset_restores
