import CtrlVerif.Driver.All

open CtrlVerif.Driver

partial def loop (h : IO.FS.Stream) (out : IO.FS.Stream) : IO Unit := do
  let line ← h.getLine
  if line.isEmpty then return ()
  out.putStrLn (dispatch (line.trimAscii.toString))
  loop h out

def main : IO Unit := do
  let out ← IO.getStdout
  loop (← IO.getStdin) out
  out.flush
