-- GENERATED on every run by harness/core/py2lean_c2d.py from control/xferfcn.py (_c2d_matched c8dd67529f7eadff, TransferFunction.sample c0342620479dcc42).  Do not edit.
import CtrlVerif.Model.PyC2d

namespace CtrlVerif.Generated

open CtrlVerif

noncomputable section

variable {K : Type} [Field K] [DecidableEq K]

/-- `control/xferfcn.py:_c2d_matched` as the source text says it (sha256 of the function text
c8dd67529f7eadff5f4a4571d990fb8032ece6914e7be3e1358fca142f1083bc).
Defaults: none. -/
def tfMatched (tf2zpk : PyC2d.Tf2zpk K) (exp : K → K) (sysC : PyC2d.NamedTF K) (Ts : Period)
    (kwargs : PyC2d.LabelKw) :
    Except Err (PyC2d.NamedTF K) :=
  do
    if (¬ (PyC2d.tfIssiso sysC = true)) then
      throw Err.notImplemented
    else
      let t1 ← PyC2d.tfNum00 sysC
      let t2 ← PyC2d.tfDen00 sysC
      let t3 ← tf2zpk t1 t2
      let szeros : List K := t3.1
      let spoles : List K := t3.2.1
      let zzeros : List K := (List.replicate szeros.length (0 : K))
      let zpoles : List K := (List.replicate spoles.length (0 : K))
      let pregainnum : List K := (List.replicate szeros.length (0 : K))
      let pregainden : List K := (List.replicate spoles.length (0 : K))
      let (pregainnum, zzeros) ← List.foldlM (fun (t4 : List K × List K) (t5 : Int × K) => (do
          let pregainnum : List K := t4.1
          let zzeros : List K := t4.2
          let idx : Int := t5.1
          let s : K := t5.2
          let sTs : K := (s * ((PyC2d.periodNum Ts : ℚ) : K))
          let z : K := (exp sTs)
          let zzeros ← PyArith.setItem zzeros idx z
          let pregainnum ← PyArith.setItem pregainnum idx ((1 : K) - z)
          pure (pregainnum, zzeros)
          : Except Err (List K × List K))) (pregainnum, zzeros) (PyC2d.enumerate szeros)
      let (pregainden, zpoles) ← List.foldlM (fun (t6 : List K × List K) (t7 : Int × K) => (do
          let pregainden : List K := t6.1
          let zpoles : List K := t6.2
          let idx : Int := t7.1
          let s : K := t7.2
          let sTs : K := (s * ((PyC2d.periodNum Ts : ℚ) : K))
          let z : K := (exp sTs)
          let zpoles ← PyArith.setItem zpoles idx z
          let pregainden ← PyArith.setItem pregainden idx ((1 : K) - z)
          pure (pregainden, zpoles)
          : Except Err (List K × List K))) (pregainden, zpoles) (PyC2d.enumerate spoles)
      let zgain ← PyNum.div (PyC2d.prod pregainnum) (PyC2d.prod pregainden)
      let t8 ← PyC2d.tfDcgain sysC
      let gain ← PyNum.div t8 zgain
      let t9 : List K × List K := PyC2d.zpk2tf zzeros zpoles gain
      let sysDnum : List K := t9.1
      let sysDden : List K := t9.2
      PyC2d.mkTF sysDnum sysDden (PyC2d.periodDt Ts) kwargs

/-- `control/xferfcn.py:TransferFunction.sample` as the source text says it (sha256 of the function text
c0342620479dcc420131b83919601481818d970deb2f861f7bed271e5d3e22fb).
Defaults: alpha=None, copy_names=True, method='zoh', name=None, prewarp_frequency=None.
  note: `if prewarp_frequency is not None:` has no effect on the result (warning only): dropped -/
def tfSample (cont2discrete : PyC2d.C2dTF K) (tan : K → K) (tf2zpk : PyC2d.Tf2zpk K) (exp : K → K)
    (self : PyC2d.NamedTF K) (Ts : Period) (method : String) (alpha : Option K)
    (prewarp_frequency : Option K) (name : Option String) (copy_names : Bool)
    (kwargs : PyC2d.LabelKw) :
    Except Err (PyC2d.NamedTF K) :=
  do
    if (¬ (PyC2d.isctime self.dt = true)) then
      throw Err.timebase
    else
      if (¬ (PyC2d.tfIssiso self = true)) then
        throw Err.notImplemented
      else
        if (method = "matched") then
          let sysd ← tfMatched tf2zpk exp self Ts PyC2d.LabelKw.empty
          let sysd ← (do
            if (copy_names = true) then
              let sysd : PyC2d.NamedTF K := (PyC2d.copyNamesTF sysd self)
              pure sysd
            else
              pure sysd
            : Except Err (PyC2d.NamedTF K))
          PyC2d.copyTF sysd name kwargs
        else
          let t2 ← PyC2d.tfNum00 self
          let t3 ← PyC2d.tfDen00 self
          let Twarp ← (do
            match prewarp_frequency with
            | some prewarp_frequency =>
              let Twarp ← (do
                if ((method = "bilinear") ∨ (method = "tustin") ∨ ((method = "gbt") ∧ (alpha = (some ((1 : K) / (2 : K)))))) then
                  let Twarp ← PyNum.div ((2 : K) * (tan ((prewarp_frequency * ((PyC2d.periodNum Ts : ℚ) : K)) / (2 : K)))) prewarp_frequency
                  pure Twarp
                else
                  let Twarp : Period := Ts
                  pure ((PyC2d.periodNum Twarp : ℚ) : K)
                : Except Err (K))
              pure Twarp
            | none =>
              let Twarp : Period := Ts
              pure ((PyC2d.periodNum Twarp : ℚ) : K)
            : Except Err (K))
          let t4 ← cont2discrete (t2, t3) Twarp method alpha
          let numd : List (List K) := t4.1
          let dend : List K := t4.2.1
          let t5 ← PyC2d.row0 numd
          let sysd ← PyC2d.mkTF t5 dend (PyC2d.periodDt Ts) PyC2d.LabelKw.empty
          let sysd ← (do
            if (copy_names = true) then
              let sysd : PyC2d.NamedTF K := (PyC2d.copyNamesTF sysd self)
              let sysd ← (do
                match name with
                | some name =>
                  let sysd : PyC2d.NamedTF K := (PyC2d.setNameTF sysd name)
                  pure sysd
                | none =>
                  pure sysd
                : Except Err (PyC2d.NamedTF K))
              pure sysd
            else
              pure sysd
            : Except Err (PyC2d.NamedTF K))
          PyC2d.copyTF sysd name kwargs

end

end CtrlVerif.Generated
