-- GENERATED on every run by harness/core/py2lean_p2phead.py from control/flatsys/flatsys.py (p2pHeadTime 1b7bea4f5d7bca3e, sfoHeadTime 9c92cb8ef7cecdd9).  Do not edit.
import CtrlVerif.Model.PyP2PHead

namespace CtrlVerif.Generated

open CtrlVerif

variable {K : Type} [Field K]

/-- block `p2pHeadTime` of `control/flatsys/flatsys.py:point_to_point` as the source text says it (sha256 of the text of the translated
statements 1b7bea4f5d7bca3ee55cd5b907f693b9418df42c7365d56f1925669f1c2ec3ad). -/
def p2pHeadTime (timepts : PyHead.TimeArg K) (T0 : K) :
    Except Err (K × K) :=
  do
    let timepts : List K := (PyHead.atleast1d timepts)
    let t1 ← PyArith.getItem timepts (-1 : Int)
    let Tf : K := t1
    let t3 ← (if (decide (timepts.length > (1 : Nat))) = true then (do
        let t2 ← PyArith.getItem timepts (0 : Int)
        pure t2
        : Except Err (K)) else (do
        pure T0
        : Except Err (K)))
    let T0 : K := t3
    pure (T0, Tf)

/-- block `sfoHeadTime` of `control/flatsys/flatsys.py:solve_flat_optimal` as the source text says it (sha256 of the text of the translated
statements 9c92cb8ef7cecdd9fdc5984414371ba41743153e3247938459ac57aee1aaf1cc). -/
def sfoHeadTime (timepts : PyHead.TimeArg K) :
    Except Err K :=
  do
    let timepts : List K := (PyHead.atleast1d timepts)
    let t2 ← (if (decide (timepts.length > (1 : Nat))) = true then (do
        let t1 ← PyArith.getItem timepts (0 : Int)
        pure t1
        : Except Err (K)) else (do
        pure (0 : K)
        : Except Err (K)))
    let T0 : K := t2
    pure (T0)

end CtrlVerif.Generated
