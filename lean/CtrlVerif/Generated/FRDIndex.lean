-- GENERATED on every run by harness/core/py2lean_frd.py from control/frdata.py (__getitem__ 3cdafb665db7ece0, eval 2b13bb55dd2fdc17).  Do not edit.
import CtrlVerif.Model.PyFRD

namespace CtrlVerif.Generated

open CtrlVerif

noncomputable section

variable {K : Type} [Field K] [DecidableEq K]

/-- `control/frdata.py:FrequencyResponseData.__getitem__` as the source text says it (sha256 of the function text
3cdafb665db7ece0d0af4029e64300e90c4cd591aa39df1eb1ed2b4098cb3e62).
Defaults: none.
  note: `NamedSignal(...)._parse_key(key, level=1)` and `_process_subsys_index` are read as the identity on index lists that are already resolved (their own source tie: C17Gen) -/
def frdGetitemData (self : PyFRD K) (key : List Nat × List Nat) : Except Err (PyFRD K) :=
  do
    let t1 ← PArr3.getFreq (PyFRD.frdata self) (0 : Nat)
    let indices : List Nat × List Nat := key
    let outdx : List Nat := indices.1
    let inpdx : List Nat := indices.2
    let t2 ← PArr3.takeRows (PyFRD.frdata self) outdx
    let t3 ← PArr3.takeCols t2 inpdx
    PyFRD.ctor t3 (PyFRD.omega self) self.dt false

/-- `control/frdata.py:FrequencyResponseData.eval` as the source text says it (sha256 of the function text
2b13bb55dd2fdc1794c10935ec2d05c9d57ae3866b9dd55011c36b55b2d57670).
Defaults: squeeze=None.
  note: a branch that evaluates the interpolating spline (`splev`) is external: `throw Err.notImplemented`
  note: `_process_frequency_response(self, omega, out, squeeze=squeeze)` is read as `out` (the squeeze processing is property C18's, with its own source tie) -/
def frdEval (self : PyFRD K) (omega : FVec) : Except Err (PArr3 K) :=
  do
    let omega_array : FVec := (FVec.array1 omega)
    if ((PBVec.any (FVec.gtNum (FVec.imag omega_array) (0 : ℚ))) = true) then
      throw Err.shape
    else
      if ((!(PyFRD.smooth self)) = true) then
        let matches' : List (List Nat) := (List.map (fun (w : ℚ) => (PBVec.flatnonzero (FVec.eqNum (PyFRD.omega self) w))) (FVec.toList omega_array))
        if ((List.any matches' (fun (match' : List Nat) => decide (match'.length = (0 : Nat)))) = true) then
          throw Err.missing
        else
          let t2 ← List.mapM (fun (match' : List Nat) => (do
              let t1 ← PyList.get0 match'
              pure t1
              : Except Err Nat)) matches'
          let out ← PArr3.takeFreq (PyFRD.frdata self) t2
          pure out
      else
        throw Err.notImplemented

end

end CtrlVerif.Generated
