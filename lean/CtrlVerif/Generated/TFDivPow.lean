-- GENERATED on every run by harness/core/py2lean_tf.py from control/xferfcn.py (__truediv__ 5a3c382d724d47aeb46474bdcff4367beb132152f1a3618a0520e828cb62429c; __pow__ 6ef693eeff1d66e34f29d5e8fe04823aa614d72ae4301a068c05adca649a4e20).  Do not edit.
import CtrlVerif.Model.PyTF
import CtrlVerif.Generated.TFMul

namespace CtrlVerif.Generated.TF

open CtrlVerif

set_option linter.unusedTactic false
set_option linter.unreachableTactic false
set_option linter.unnecessarySeqFocus false

mutual

/-- `control/xferfcn.py:TransferFunction.__truediv__` as the source text says it (sha256 of the function text
5a3c382d724d47aeb46474bdcff4367beb132152f1a3618a0520e828cb62429c).
Defaults: none. -/
def truediv {K : Type} [Field K] [DecidableEq K] (self : DTF K) (other : PyTF.Operand K) :
    Except Err (DTF K) :=
  (do
    let other ← PyTF.convert other 1 1
    (if ((¬ (self.isSiso = true)) ∧ (other.isSiso = true)) then
        (do
          let t2 ← Generated.TF.pow other (PyTF.Exponent.int (-1))
          let other ← PyTF.appendCopies t2 (PyTF.ninputs self)
          Generated.TF.mul self (PyTF.Operand.tf other))
      else
        (if ((1 < (PyTF.ninputs self)) ∨ (1 < (PyTF.noutputs self)) ∨ (1 < (PyTF.ninputs other)) ∨ (1 < (PyTF.noutputs other))) then
            (.error Err.notImplemented)
          else
            (do
              let dt ← common self.dt other.dt
              let t6 ← PyTF.PolyArr.getItem (PyTF.numArray self) 0 0
              let t7 ← PyTF.PolyArr.getItem (PyTF.denArray other) 0 0
              let num : List K := (polymul t6 t7)
              let t8 ← PyTF.PolyArr.getItem (PyTF.denArray self) 0 0
              let t9 ← PyTF.PolyArr.getItem (PyTF.numArray other) 0 0
              let den : List K := (polymul t8 t9)
              PyTF.mkSiso num den (some dt)))))
termination_by (if self.isSiso = true then 0 else 4)
decreasing_by all_goals (simp_wf; first | omega | (simp_all <;> omega) | (have := PyTF.isSiso_of_mkSiso (by assumption); simp_all <;> omega))

/-- `control/xferfcn.py:TransferFunction.__pow__` as the source text says it (sha256 of the function text
6ef693eeff1d66e34f29d5e8fe04823aa614d72ae4301a068c05adca649a4e20).
Defaults: none. -/
def pow {K : Type} [Field K] [DecidableEq K] (self : DTF K) (other : PyTF.Exponent) :
    Except Err (DTF K) :=
  (match other with
    | .int other =>
      (if (other = 0) then
          (PyTF.mkSiso ([(1 : K)] : List K) ([(1 : K)] : List K) (some self.dt))
        else
          (if (0 < other) then
              (do
                let t2 ← Generated.TF.pow self (PyTF.Exponent.int (other - 1))
                Generated.TF.mul self (PyTF.Operand.tf t2))
            else
              (if (other < 0) then
                  (match h_t4 : (PyTF.mkSiso ([(1 : K)] : List K) ([(1 : K)] : List K) none) with
                  | .error err => .error err
                  | .ok t4 =>
                    (do
                      let t5 ← Generated.TF.truediv t4 (PyTF.Operand.tf self)
                      let t6 ← Generated.TF.pow self (PyTF.Exponent.int (other + 1))
                      Generated.TF.mul t5 (PyTF.Operand.tf t6)))
                else
                  (PyTF.fellOff))))
    | other@(.notInt) =>
      (.error Err.badArg))
termination_by (match other with | .int n => 2 * n.natAbs + 1 | .notInt => 0)
decreasing_by all_goals (simp_wf; first | omega | (simp_all <;> omega) | (have := PyTF.isSiso_of_mkSiso (by assumption); simp_all <;> omega))

end

end CtrlVerif.Generated.TF
