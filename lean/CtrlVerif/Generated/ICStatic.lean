-- GENERATED on every run by harness/core/py2lean_ic.py from control/nlsys.py (_compute_static_io ee146a8c14a7cc9a, _rhs 217fb58f3effcdd3, _out 69a9aa034de5f2e0).  Do not edit.
import CtrlVerif.Model.PyIC

namespace CtrlVerif.Generated

open CtrlVerif CtrlVerif.IC CtrlVerif.PyIC

variable {K : Type} [Field K] [DecidableEq K]

/-- `control/nlsys.py:InterconnectedSystem._compute_static_io` as the source text says it (sha256 of the function text
ee146a8c14a7cc9ac2ac59e0ddcf3e5e081a75070aa462bdf33486ec22abb983). Returns `(ulist, ylist)`; `fuel` bounds the iterations of the `while` loop. -/
def icComputeStaticIO (fuel : Nat) (self_connect_map : PMat K) (self_input_map : PMat K) (self_syslist : List (PyIC.Subsys K)) (t : K) (x : List K) (u : List K) :
    Except Err (List K × List K) :=
  do
    let ninputs : Nat := self_connect_map.r
    let noutputs : Nat := self_connect_map.c
    let ulist ← PyIC.matVec self_input_map u
    let ylist : List K := (PyIC.zerosVec (noutputs + ninputs))
    let cycle_count : Int := ((self_syslist.length : Int) + (1 : Int))
    let (ylist, ulist, cycle_count) ← PyIC.whileLoop
        (fun (st : List K × List K × Int) => (do
            let (ylist, ulist, cycle_count) := st
            pure (decide (cycle_count > (0 : Int)))
            : Except Err Bool))
        (fun (st : List K × List K × Int) => (do
            let (ylist, ulist, cycle_count) := st
            let state_index : Int := (0 : Int)
            let input_index : Int := (0 : Int)
            let output_index : Int := (0 : Int)
            let (ylist, state_index, input_index, output_index) ← List.foldlM (fun (st : List K × Int × Int × Int) (sys : PyIC.Subsys K) => (do
                let (ylist, state_index, input_index, output_index) := st
                let ysys : List K := (sys.out t (PyIC.sliceVec x state_index (state_index + (sys.nstates : Int))) (PyIC.sliceVec ulist input_index (input_index + (sys.ninputs : Int))))
                let ylist ← PyIC.setSliceVec ylist output_index (output_index + (sys.noutputs : Int)) ysys
                let ylist ← PyIC.setSliceVec ylist ((noutputs : Int) + input_index) (((noutputs : Int) + input_index) + (sys.ninputs : Int)) (PyIC.sliceVec ulist input_index (input_index + (sys.ninputs : Int)))
                let state_index : Int := (state_index + (sys.nstates : Int))
                let input_index : Int := (input_index + (sys.ninputs : Int))
                let output_index : Int := (output_index + (sys.noutputs : Int))
                pure (ylist, state_index, input_index, output_index)
                : Except Err (List K × Int × Int × Int))) (ylist, state_index, input_index, output_index) self_syslist
            let t2 ← PyIC.matVec self_connect_map (PyIC.sliceVec ylist (0 : Int) (noutputs : Int))
            let t3 ← PyIC.matVec self_input_map u
            let new_ulist ← PyIC.addVec t2 t3
            if (PyIC.eqAll ulist new_ulist) then
              pure ((ylist, ulist, cycle_count), true)
            else
              let ulist : List K := new_ulist
              let cycle_count : Int := (cycle_count - (1 : Int))
              pure ((ylist, ulist, cycle_count), false)
            : Except Err ((List K × List K × Int) × Bool)))
        fuel (ylist, ulist, cycle_count)
    if (decide (cycle_count = (0 : Int))) then
      throw Err.illPosed
    else
      pure ()
    pure (ulist, ylist)

/-- `control/nlsys.py:InterconnectedSystem._rhs` as the source text says it (sha256 of the function text
217fb58f3effcdd3ea2c4350946e7ea804a5961d0abb75690a86d5d0a7987b2f).
  note: `np.array(x, ndmin=1)` of a 1-D array is the array -/
def icRhs (fuel : Nat) (self_connect_map : PMat K) (self_input_map : PMat K) (self_syslist : List (PyIC.Subsys K)) (self_nstates : Nat) (t : K) (x : List K) (u : List K) :
    Except Err (List K) :=
  do
    let x : List K := x
    let u : List K := u
    let (ulist, ylist) ← icComputeStaticIO fuel self_connect_map self_input_map self_syslist t x u
    let xdot : List K := (PyIC.zerosVec self_nstates)
    let state_index : Int := (0 : Int)
    let input_index : Int := (0 : Int)
    let (xdot, state_index, input_index) ← List.foldlM (fun (st : List K × Int × Int) (sys : PyIC.Subsys K) => (do
        let (xdot, state_index, input_index) := st
        let xdot ← (do
          if (decide ((sys.nstates : Int) ≠ (0 : Int))) then
            let xdot ← PyIC.setSliceVec xdot state_index (state_index + (sys.nstates : Int)) (sys.rhs t (PyIC.sliceVec x state_index (state_index + (sys.nstates : Int))) (PyIC.sliceVec ulist input_index (input_index + (sys.ninputs : Int))))
            pure xdot
          else
            pure xdot
          : Except Err (List K))
        let state_index : Int := (state_index + (sys.nstates : Int))
        let input_index : Int := (input_index + (sys.ninputs : Int))
        pure (xdot, state_index, input_index)
        : Except Err (List K × Int × Int))) (xdot, state_index, input_index) self_syslist
    pure xdot

/-- `control/nlsys.py:InterconnectedSystem._out` as the source text says it (sha256 of the function text
69a9aa034de5f2e014230eef07dfc84ba8be01ff01b6fe885fad4988dd0fed9c).
  note: `np.array(x, ndmin=1)` of a 1-D array is the array -/
def icOut (fuel : Nat) (self_connect_map : PMat K) (self_input_map : PMat K) (self_syslist : List (PyIC.Subsys K)) (self_output_map : PMat K) (t : K) (x : List K) (u : List K) :
    Except Err (List K) :=
  do
    let x : List K := x
    let u : List K := u
    let (ulist, ylist) ← icComputeStaticIO fuel self_connect_map self_input_map self_syslist t x u
    let t1 ← PyIC.matVec self_output_map ylist
    pure t1

end CtrlVerif.Generated
