-- GENERATED on every run by harness/core/py2lean_tr.py from control/timeresp.py:forced_response (frFree c5226811c81a3035).  Do not edit.
import CtrlVerif.Model.PyTR

namespace CtrlVerif.Generated

open CtrlVerif

variable {K : Type} [Field K] [DecidableEq K]

/-- block `frFree` of `control/timeresp.py:forced_response` as the source text says it (sha256 of the text of the translated
statements c5226811c81a30355cd736fed32fc24a6dffea437a7b8ec1f5d9e7726308a3a1).
  note: the test `isctime(sys, strict=True)` is taken as True
  note: the test `U is None or np.all(U == 0)` is taken as True -/
def frFree (expm : SqFun K) (A B C D : PMat K) (dt : K) (n_steps : Nat) (T : List K) (X0 : PVec K) (U : PSig K) :
    Except Err (List K × PSig K × PSig K × PSig K) :=
  do
    let n_states : Nat := A.r
    let n_inputs : Nat := B.c
    let n_outputs : Nat := C.r
    let xout : PSig K := (PSig.zeros n_states n_steps)
    let xout ← PSig.setCol xout (0 : Int) X0
    let yout : PMat K := (PMat.zeros n_outputs n_steps)
    let expAdt ← PMat.applySq expm (PMat.mulNum A dt)
    let xout ← List.foldlM (fun (xout : PSig K) (i : Int) => (do
        let t1 ← PSig.getCol xout (i - (1 : Int))
        let t2 ← PMat.matvec expAdt t1
        let xout ← PSig.setCol xout i t2
        pure xout
        : Except Err (PSig K))) xout (PyArith.range (1 : Int) (n_steps : Int))
    let yout ← PMat.matsig C xout
    let tout : List K := T
    pure (tout, yout, xout, U)

end CtrlVerif.Generated
