-- GENERATED on every run by harness/core/py2lean_iolist.py from control/nlsys.py:interconnect (icxInList 7f82ea6085ff2c80).  Do not edit.
import CtrlVerif.Model.PyIOL
import CtrlVerif.Generated.ICParseSpec

namespace CtrlVerif.Generated

open CtrlVerif CtrlVerif.IC CtrlVerif.PyIC

variable {K : Type} [Field K] [DecidableEq K]

/-- body of the 3rd loop of the group: `for isig in range(sys.ninputs):` -/
def icxInList_loop3 (gain : Int) (isys : Int) (st : List (Val K)) (el : Int) :
    Except Err (List (Val K)) :=
  match st, el with
  | new_inplist, isig => do
    let new_inplist : List (Val K) := new_inplist ++ [(Val.tuple [(Val.int isys), (Val.int isig), (Val.int gain)])]
    pure new_inplist

/-- body of the 4th loop of the group: `for isig in indices:` -/
def icxInList_loop4 (gain : Int) (isys : Int) (st : List (Val K)) (el : Val K) :
    Except Err (List (Val K)) :=
  match st, el with
  | new_connection, isig => do
    let new_connection : List (Val K) := new_connection ++ [(Val.tuple [(Val.int isys), isig, (Val.int gain)])]
    pure new_connection

/-- body of the 5th loop of the group: `for cnx in new_connection:` -/
def icxInList_loop5  (st : List (List (Val K))) (el : Val K) :
    Except Err (List (List (Val K))) :=
  match st, el with
  | new_connections, cnx => do
    let new_connections : List (List (Val K)) := new_connections ++ [[cnx]]
    pure new_connections

/-- body of the 6th loop of the group: `for (i, cnx) in enumerate(new_connection):` -/
def icxInList_loop6  (st : List (List (Val K))) (el : (Int) × (Val K)) :
    Except Err (List (List (Val K))) :=
  match st, el with
  | new_connections, (i, cnx) => do
    let new_connections ← PyIOL.appendAt new_connections i cnx
    pure new_connections

/-- body of the 2nd loop of the group: `for (isys, sys) in enumerate(syslist):` -/
def icxInList_loop2 (gain : Int) (iinp : Int) (inplist_none : Bool) (inputs : Val K) (sname : Val K) (st : Bool × Bool × List (List (Val K)) × List (Val K) × Val K) (el : (Int) × (SysSig)) :
    Except Err (Bool × Bool × List (List (Val K)) × List (Val K) × Val K) :=
  match st, el with
  | (found_signal, found_system, new_connections, new_inplist, new_inputs), (isys, sys) => do
    let t11 ← PyIC.findSignals (PyICX.inputIndex sys) sname
    let indices : Val K := t11
    let (new_inplist, found_system, new_connections, new_inputs, found_signal) ← (do
      if (PyIC.eqLit sname (SysSig.name sys)) then
        let new_inplist ← List.foldlM (icxInList_loop3 gain isys) new_inplist (PyIC.rangeNat ((PyICX.inputIndex sys).length))
        let found_system : Bool := true
        pure (new_inplist, found_system, new_connections, new_inputs, found_signal)
      else
        let (new_connections, new_inputs, found_signal) ← (do
          if (PyICX.truthy indices) then
            let new_connection : List (Val K) := []
            let t12 ← PyIC.iter indices
            let new_connection ← List.foldlM (icxInList_loop4 gain isys) new_connection t12
            let (new_connections, new_inputs) ← (do
              if (new_connections.length == (0 : Nat)) then
                let new_connections ← List.foldlM (icxInList_loop5 ) new_connections new_connection
                let new_inputs ← (do
                  if inplist_none then
                    let new_inputs ← (do
                      if (!(new_connection.length == (1 : Nat))) then
                        let t13 ← PyIC.iter indices
                        let t15 ← List.mapM (fun (i : Val K) => (do let t14 ← PyIOL.labelAtVal (PyICX.inputIndex sys) i; pure t14 : Except Err (Val K))) t13
                        let new_inputs ← PyIOL.extend new_inputs t15
                        pure new_inputs
                      else
                        let t16 ← PyIC.getItem inputs iinp
                        let new_inputs ← PyIOL.appendVal new_inputs t16
                        pure new_inputs
                      : Except Err (Val K))
                    pure new_inputs
                  else
                    pure new_inputs
                  : Except Err (Val K))
                pure (new_connections, new_inputs)
              else
                let new_connections ← List.foldlM (icxInList_loop6 ) new_connections (PyIC.enumerate new_connection)
                pure (new_connections, new_inputs)
              : Except Err (List (List (Val K)) × Val K))
            let found_signal : Bool := true
            pure (new_connections, new_inputs, found_signal)
          else
            pure (new_connections, new_inputs, found_signal)
          : Except Err (List (List (Val K)) × Val K × Bool))
        pure (new_inplist, found_system, new_connections, new_inputs, found_signal)
      : Except Err (List (Val K) × Bool × List (List (Val K)) × Val K × Bool))
    pure (found_signal, found_system, new_connections, new_inplist, new_inputs)

/-- body of the 8th loop of the group: `for isig in indices:` -/
def icxInList_loop8 (gain : K) (isys : Int) (st : List (Val K)) (el : Int) :
    Except Err (List (Val K)) :=
  match st, el with
  | signal_list, isig => do
    let signal_list : List (Val K) := signal_list ++ [(Val.tuple [(Val.int isys), (Val.int isig), (Val.num gain)])]
    pure signal_list

/-- body of the 7th loop of the group: `for spec in connection:` -/
def icxInList_loop7 (syslist : List (SysSig)) (st : List (Val K)) (el : Val K) :
    Except Err (List (Val K)) :=
  match st, el with
  | signal_list, spec => do
    let t18 ← icParseSpec syslist spec "input" none
    let isys : Int := t18.1
    let indices : List (Int) := t18.2.1
    let gain : K := t18.2.2
    let signal_list ← List.foldlM (icxInList_loop8 gain isys) signal_list indices
    pure signal_list

/-- body of the 9th loop of the group: `for isig in indices:` -/
def icxInList_loop9 (gain : K) (isys : Int) (st : List (Val K)) (el : Int) :
    Except Err (List (Val K)) :=
  match st, el with
  | new_inplist, isig => do
    let new_inplist : List (Val K) := new_inplist ++ [(Val.tuple [(Val.int isys), (Val.int isig), (Val.num gain)])]
    pure new_inplist

/-- body of the 1st loop of the group: `for (iinp, connection) in enumerate(inplist):` -/
def icxInList_loop1 (inplist_none : Bool) (inputs : Val K) (syslist : List (SysSig)) (st : List (Val K) × Val K) (el : (Int) × (Val K)) :
    Except Err (List (Val K) × Val K) :=
  match st, el with
  | (new_inplist, new_inputs), (iinp, connection) => do
    let t6 ← (do
      if (PyIC.isinstance connection [.str]) then
        let t4 ← PyIC.reSplitDot connection
        let t5 ← PyIC.len t4
        pure ((t5 : Int) == ((1 : Nat) : Int))
      else
        pure false
      : Except Err Bool)
    let (new_inplist, new_inputs) ← (do
      if t6 then
        let new_connections : List (List (Val K)) := []
        let t7 ← PyIC.getItem connection (0 : Int)
        let t9 ← (do
          if (PyIC.eqLit t7 ("-")) then
            let t8 ← PyIC.dropFrom connection 1
            pure t8
          else
            pure connection
          : Except Err (Val K))
        let sname : Val K := t9
        let t10 ← PyIC.getItem connection (0 : Int)
        let gain : Int := (if (PyIC.eqLit t10 ("-")) then (-1 : Int) else (1 : Int))
        let found_system : Bool := false
        let found_signal : Bool := false
        let (found_signal, found_system, new_connections, new_inplist, new_inputs) ← List.foldlM (icxInList_loop2 gain iinp inplist_none inputs sname) (found_signal, found_system, new_connections, new_inplist, new_inputs) (PyIC.enumerate syslist)
        let new_inplist ← (do
          if (found_system && found_signal) then
            throw Err.badArg
          else
            let new_inplist ← (do
              if found_signal then
                let new_inplist : List (Val K) := new_inplist ++ new_connections.map Val.list
                pure new_inplist
              else
                let _ ← (do
                  if (!found_system) then
                    throw Err.unknownName
                  else
                    pure ()
                  : Except Err (Unit))
                pure new_inplist
              : Except Err (List (Val K)))
            pure new_inplist
          : Except Err (List (Val K)))
        pure (new_inplist, new_inputs)
      else
        let new_inplist ← (do
          if (PyIC.isinstance connection [.list]) then
            let signal_list : List (Val K) := []
            let t17 ← PyIC.iter connection
            let signal_list ← List.foldlM (icxInList_loop7 syslist) signal_list t17
            let new_inplist : List (Val K) := new_inplist ++ [(Val.list signal_list)]
            pure new_inplist
          else
            let t19 ← icParseSpec syslist connection "input" none
            let isys : Int := t19.1
            let indices : List (Int) := t19.2.1
            let gain : K := t19.2.2
            let new_inplist ← List.foldlM (icxInList_loop9 gain isys) new_inplist indices
            pure new_inplist
          : Except Err (List (Val K)))
        pure (new_inplist, new_inputs)
      : Except Err (List (Val K) × Val K))
    pure (new_inplist, new_inputs)

/-- `control/nlsys.py:interconnect`, the pre-processing of `inplist`: a bare string is a subsystem name (all its inputs, one entry each) or a signal name looked up among the inputs of EVERY subsystem (all matches, summed); a list is one entry; anything else is one specification (one entry per signal); `new_inputs` collects the labels when `inplist` was omitted, as the source text says it (sha256 of the statement group
7f82ea6085ff2c805fa9bdeb0cff9a7d09d7afd19c675a84857dc9ab21bef56b). -/
def icxInList (syslist : List (SysSig)) (inplist : Val K) (inputs : Val K) (inplist_none : Bool) :
    Except Err (Val K × Val K) :=
  do
    let inplist ← (do
      if (!(PyIC.isinstance inplist [.list])) then
        let inplist : Val K := (Val.list ([inplist]))
        pure inplist
      else
        pure inplist
      : Except Err (Val K))
    let new_inplist : List (Val K) := []
    let new_inputs : Val K := (if inplist_none then (Val.list []) else inputs)
    let t1 ← PyIC.iter inplist
    let (new_inplist, new_inputs) ← List.foldlM (icxInList_loop1 inplist_none inputs syslist) (new_inplist, new_inputs) (PyIC.enumerate t1)
    let inplist : Val K := (Val.list new_inplist)
    let inputs : Val K := new_inputs
    pure (inplist, inputs)

end CtrlVerif.Generated
