-- GENERATED on every run by harness/core/py2lean_disp.py from control/dtime.py (sample_system 0e86a5f8cf5c80dc, c2d 1fd89633688fd029).  Do not edit.
import CtrlVerif.Generated.DispSig

namespace CtrlVerif.Generated.Disp

open CtrlVerif

/-- the forwarding call of `control/dtime.py:sample_system` (sha256 of the function text
0e86a5f8cf5c80dce815d583dd3d12cfa6af0eaa00879ed731f231be4b104f0a):
`sysc.sample(Ts, method=method, alpha=alpha, prewarp_frequency=prewarp_frequency, name=name, copy_names=copy_names, **kwargs)` -/
def sampleSystemCall : PySig.Call :=
  { recv := "sysc", attr := "sample",
    pos := ["Ts"],
    kws := [("method", "method"), ("alpha", "alpha"), ("prewarp_frequency", "prewarp_frequency"), ("name", "name"), ("copy_names", "copy_names")],
    star := true }

/-- `control/dtime.py:sample_system` as the source text says it: the tests that raise, then the call form `sample` is invoked with
(`env`: the value of each parameter after binding, `kwargs`: the function's `**kwargs`). -/
def sampleSystem {α : Type} (isctime : α → Bool) (env : String → α) (kwargs : List (String × α)) :
    Except Err (PySig.CallForm α) :=
  if !(isctime (env "sysc")) then .error Err.timebase else
  .ok (sampleSystemCall.eval env kwargs)

/-- `c2d` is bound by `c2d = sample_system`: the same function object -/
def c2dCall : PySig.Call := sampleSystemCall

/-- `control/dtime.py:c2d`: `c2d` is bound by `c2d = sample_system`: the same function object -/
def c2d {α : Type} (isctime : α → Bool) (env : String → α) (kwargs : List (String × α)) :
    Except Err (PySig.CallForm α) :=
  sampleSystem isctime env kwargs

end CtrlVerif.Generated.Disp
