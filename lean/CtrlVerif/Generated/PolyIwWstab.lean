-- GENERATED on every run by harness/core/py2lean_arith.py from control/margins.py:_poly_iw_wstab (sha256 ac683f0c9bb76bf9c49b41f16c3b250dd93c7fa6eaf349b7f06bc9f6478a7671).  Do not edit.
import CtrlVerif.Model.PyArith
import CtrlVerif.Model.PyNumpy
import CtrlVerif.Generated.PolyIwSqr

namespace CtrlVerif.Generated

open CtrlVerif

/-- `control/margins.py:_poly_iw_wstab` as the source text says it (sha256 of the function text
ac683f0c9bb76bf9c49b41f16c3b250dd93c7fa6eaf349b7f06bc9f6478a7671).
Defaults: none.
Translated up to the first call of `np.roots`: the result is its argument; the rest of the body is outside this tie. -/
def polyIwWstab {K : Type} [Field K] [LinearOrder K] (num_iw : (List K × List K)) (den_iw : (List K × List K)) :
    Except Err (List K) :=
  (do
    let test_wstabn ← polyIwSqr (Margins.cadd num_iw den_iw)
    let test_wstabd ← polyIwSqr den_iw
    let test_wstab : List K := (Margins.npsub (Margins.npmul (Margins.polyder test_wstabn) test_wstabd) (Margins.npmul (Margins.polyder test_wstabd) test_wstabn))
    pure test_wstab)

end CtrlVerif.Generated
