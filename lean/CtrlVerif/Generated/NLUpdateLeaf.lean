-- GENERATED on every run by harness/core/py2lean_nl.py from control/nlsys.py (nlUpdateLeaf 88920206b118f8c5).  Do not edit.
import CtrlVerif.Model.PyNL

namespace CtrlVerif.Generated

open CtrlVerif

variable {κ ν : Type}

/-- block `nlUpdateLeaf` of `control/nlsys.py` as the source text says it (sha256 of the text of the translated
statements 88920206b118f8c50d1450a4d60e55f9acc6276270c7dc3d0a7f4e23f7e33889).
  note: returns self._current_params -/
def nlUpdateLeaf (self_params : PyNL.Dict κ ν) (params : Option (PyNL.Dict κ ν)) :
    Except Err (PyNL.Dict κ ν) :=
  do
    let self__current_params : PyNL.Dict κ ν := self_params
    let self__current_params ← (if PyNL.Dict.truthy params = true then (do
        let self__current_params : PyNL.Dict κ ν := PyNL.Dict.updateOpt self__current_params params
        pure self__current_params
        : Except Err (PyNL.Dict κ ν)) else (do
        pure self__current_params
        : Except Err (PyNL.Dict κ ν)))
    pure self__current_params

end CtrlVerif.Generated
