-- GENERATED on every run by harness/core/py2lean_grid.py from control/freqplot.py:_default_frequency_range (sha256 0b3f840623ea9ef2fa00184811d21a644468b994e32666d09007bd1eee369b1a).  Do not edit.
import CtrlVerif.Model.PyGrid

namespace CtrlVerif.Generated

open CtrlVerif

/-- the body of the loop `for sys in syslist:` of `_default_frequency_range`: one iteration on the carried names (features, freq_interesting). -/
def defaultFrequencyRangeLoop {K : Type} [Field K] [LinearOrder K] [IsStrictOrderedRing K] [FloorRing K] (E : PyGrid.Ext K)
    (feature_periphery_decades : K) (st : List K × List K) (sys : PyGrid.Sys K) :
    Except Err (List K × List K) :=
  (do
    let features : List K := st.1
    let freq_interesting : List K := st.2
    if sys.frd then
      (do
        let t4 ← PyGrid.minOf sys.omega
        let t5 ← PyGrid.maxOf sys.omega
        let features : List K := features ++ ([t4 * (E.pow10 feature_periphery_decades), t5 / (E.pow10 feature_periphery_decades)])
        pure (features, freq_interesting))
    else
      (do
        let t12 ← PyGrid.catchNotImpl (α := List K × List K)
            (do
              let t11 ← ((if DtPred.isctime false sys.dt then
                  (do
                    let features_ : List K := sys.absPoles ++ sys.absZeros
                    let toreplace : List Bool := List.map (fun x => PyGrid.isclose x (0 : K)) features_
                    let t6 : List K := (if List.any features_ (fun x => PyGrid.isclose x (0 : K)) then
                        (let features_ : List K := List.filter (fun x => !(PyGrid.isclose x (0 : K))) features_
                        features_)
                      else
                        (features_))
                    let features_ : List K := t6
                    pure (freq_interesting, features_))
                else
                  (if DtPred.isdtime true sys.dt then
                    (do
                      let t7 ← PyGrid.dtNum sys.dt
                      let t8 ← PyGrid.pdiv E.pi t7
                      let fn : K := t8
                      let freq_interesting : List K := freq_interesting ++ [fn * ((9 : K) / 10)]
                      let features_ : List K := sys.absPoles ++ sys.absZeros
                      let toreplace : List Bool := List.map (fun x => (PyGrid.isclose (0 : K) (0 : K)) && ((decide (x ≤ (0 : K))) || (decide ((|x - (1 : K)|) < ((1 : K) / 10000000000))))) features_
                      let t9 : List K := (if List.any features_ (fun x => (PyGrid.isclose (0 : K) (0 : K)) && ((decide (x ≤ (0 : K))) || (decide ((|x - (1 : K)|) < ((1 : K) / 10000000000))))) then
                          (let features_ : List K := List.filter (fun x => !((PyGrid.isclose (0 : K) (0 : K)) && ((decide (x ≤ (0 : K))) || (decide ((|x - (1 : K)|) < ((1 : K) / 10000000000)))))) features_
                          features_)
                        else
                          (features_))
                      let features_ : List K := t9
                      let t10 ← PyGrid.dtNum sys.dt
                      let features_ : List K := List.map (fun x => PyGrid.absDivJ (E.ln x) t10) features_
                      pure (freq_interesting, features_))
                  else
                    (.error Err.notImplemented))) : Except Err (List K × List K))
              let freq_interesting : List K := t11.1
              let features_ : List K := t11.2
              let features : List K := features ++ features_
              pure (freq_interesting, features))
            (pure (freq_interesting, features))
        let freq_interesting : List K := t12.1
        let features : List K := t12.2
        pure (features, freq_interesting)))

/-- `control/freqplot.py:_default_frequency_range` as the source text says it (sha256 of the function text
0b3f840623ea9ef2fa00184811d21a644468b994e32666d09007bd1eee369b1a). -/
def defaultFrequencyRange {K : Type} [Field K] [LinearOrder K] [IsStrictOrderedRing K] [FloorRing K] (E : PyGrid.Ext K)
    (syslist : PyGrid.SysArg K) (Hz : Bool) (number_of_samples : Option ℕ) (feature_periphery_decades : Option K) :
    Except Err (List K) :=
  (do
    let number_of_samples : Option ℕ := PyGrid.getParamO (E.cfgN "freqplot.number_of_samples") number_of_samples
    let feature_periphery_decades : K := PyGrid.getParam (E.cfgK "freqplot.feature_periphery_decades" (1 : K)) feature_periphery_decades
    let features : List K := ([] : List K)
    let freq_interesting : List K := ([] : List K)
    let t2 ← ((if !(PyGrid.hasIter syslist) then
        (do
          let t1 ← PyGrid.single syslist
          let syslist : PyGrid.SysArg K := t1
          pure syslist)
      else
        (pure syslist)) : Except Err (PyGrid.SysArg K))
    let syslist : PyGrid.SysArg K := t2
    let t3 ← PyGrid.iter syslist
    let t13 ← List.foldlM (defaultFrequencyRangeLoop E feature_periphery_decades) (features, freq_interesting) t3
    let features : List K := t13.1
    let freq_interesting : List K := t13.2
    let t14 : List K := (if decide ((List.length features) = (0)) then
        (let features : List K := [(1 : K)]
        features)
      else
        (features))
    let features : List K := t14
    let t15 : List K := (if Hz then
        (let features : List K := List.map (fun x => x / ((2 : K) * E.pi)) features
        features)
      else
        (features))
    let features : List K := t15
    let features : List K := List.map (fun x => E.log10 x) features
    let t16 ← PyGrid.minOf features
    let lsp_min : K := PyNyq.round0 (t16 - feature_periphery_decades)
    let t17 ← PyGrid.maxOf features
    let lsp_max : K := PyNyq.round0 (t17 + feature_periphery_decades)
    let t18 : K × K := (if Hz then
        (let lsp_min : K := lsp_min + (E.log10 ((2 : K) * E.pi))
        let lsp_max : K := lsp_max + (E.log10 ((2 : K) * E.pi))
        (lsp_min, lsp_max))
      else
        ((lsp_min, lsp_max)))
    let lsp_min : K := t18.1
    let lsp_max : K := t18.2
    let t21 ← ((if !(List.isEmpty freq_interesting) then
        (do
          let t19 ← PyGrid.minOf freq_interesting
          let lsp_min : K := min lsp_min (E.log10 t19)
          let t20 ← PyGrid.maxOf freq_interesting
          let lsp_max : K := max lsp_max (E.log10 t20)
          pure (lsp_min, lsp_max))
      else
        (pure (lsp_min, lsp_max))) : Except Err (K × K))
    let lsp_min : K := t21.1
    let lsp_max : K := t21.2
    let t23 ← ((if PyGrid.truthyN number_of_samples then
        (do
          let t22 ← PyGrid.natOf number_of_samples
          let omega : List K := PyGrid.logspace E.pow10 lsp_min lsp_max t22
          pure omega)
      else
        (do
          let omega : List K := PyGrid.logspace E.pow10 lsp_min lsp_max 50
          pure omega)) : Except Err (List K))
    let omega : List K := t23
    pure omega)

end CtrlVerif.Generated
