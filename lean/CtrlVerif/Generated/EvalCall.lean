-- GENERATED on every run by harness/core/py2lean_eval.py from the source text of the tree under check (TransferFunction.__call__ 3e77d5c502d5f5d0, StateSpace.__call__ 33d8b739b6e32af1).  Do not edit.
import CtrlVerif.Model.PyEval
import CtrlVerif.Generated.EvalTF
import CtrlVerif.Generated.EvalSS

set_option linter.unusedVariables false

namespace CtrlVerif.Generated

open CtrlVerif

noncomputable section

variable {K : Type} [Field K] [DecidableEq K]

/-- `control/xferfcn.py:TransferFunction.__call__` as the source text says it (sha256 of the function text
3e77d5c502d5f5d02860b9478081a71c7979b36e412dbc4cf96fd12b72e00a32).
Defaults: squeeze=None, warn_infinite=True. -/
def tfCall (P : Eval.Parts K) (self : DTF K) (x : PyEval.XArg K) (squeeze : Option Bool) (warn_infinite : Bool) :
    Except Err (PyEval.Arr3 K) :=
  do
    let out ← tfHorner P self x warn_infinite
    pure (PyEval.processFrequencyResponse out squeeze)

/-- `control/statesp.py:StateSpace.__call__` as the source text says it (sha256 of the function text
33d8b739b6e32af125cb26657c0c85a641ea0ae8b419e450770a69ebfcc9009c).
Defaults: squeeze=None, warn_infinite=True. -/
def ssCall (P : Eval.Parts K) (self : DSS K) (x : PyEval.XArg K) (squeeze : Option Bool) (warn_infinite : Bool) :
    Except Err (PyEval.Arr3 K) :=
  do
    let out ← ssHorner P self x warn_infinite
    pure (PyEval.processFrequencyResponse out squeeze)

end

end CtrlVerif.Generated
