-- GENERATED on every run by harness/core/py2lean_canon.py from control/canonical.py (reachable_form 2c3c4d5e07ce85ae).  Do not edit.
import CtrlVerif.Model.PyCanon

namespace CtrlVerif.Generated

open CtrlVerif

noncomputable section

variable {K : Type} [Field K] [DecidableEq K]

/-- `control/canonical.py:reachable_form` as the source text says it (sha256 of the function text
2c3c4d5e07ce85ae2a9d8c4af6ae402e5701ef6c94998caf748292ea26821b21).
Defaults: none. -/
def reachableForm (xsys : DSS K) : Except Err (DSS K × PMat K) :=
  do
    if (¬ (PySS.issiso xsys = true)) then
      throw Err.notImplemented
    else
      let zsys_A : PMat K := (PySS.A xsys)
      let zsys_B : PMat K := (PySS.B xsys)
      let zsys_C : PMat K := (PySS.C xsys)
      let zsys_D : PMat K := (PySS.D xsys)
      let zsys_dt : Dt := xsys.dt
      let zsys_B : PMat K := (PyCanon.zerosLike (PySS.B xsys))
      let zsys_B ← PyCanon.setItem zsys_B (0 : Int) (0 : Int) (1 : K)
      let zsys_A : PMat K := (PyCanon.zerosLike (PySS.A xsys))
      let Apoly ← PyCanon.poly (PySS.A xsys)
      let zsys_A ← List.foldlM (fun (zsys_A : PMat K) (i : Int) => ((do
          let t1 ← PyArith.getItem Apoly (i + (1 : Int))
          let t2 ← PyArith.getItem Apoly (0 : Int)
          let t3 ← PyNum.div (-t1) t2
          let zsys_A ← PyCanon.setItem zsys_A (0 : Int) i t3
          let zsys_A ← (do
            if ((i + (1 : Int)) < (xsys.n : Int)) then
              let zsys_A ← PyCanon.setItem zsys_A (i + (1 : Int)) i (1 : K)
              pure zsys_A
            else
              pure zsys_A
            : Except Err (PMat K))
          pure zsys_A
          : Except Err (PMat K)))) zsys_A (PyArith.range (0 : Int) (xsys.n : Int))
      let Wrx ← PyCanon.ctrb (PySS.A xsys) (PySS.B xsys)
      let Wrz ← PyCanon.ctrb zsys_A zsys_B
      if ((PMat.rank Wrx) ≠ xsys.n) then
        throw Err.illPosed
      else
        let t4 ← PMat.solve (PMat.T Wrx) (PMat.T Wrz)
        let Tzx : PMat K := (PMat.T t4)
        if ((PMat.rank Tzx) ≠ xsys.n) then
          throw Err.illPosed
        else
          let t5 ← PMat.solve (PMat.T Tzx) (PMat.T (PySS.C xsys))
          let zsys_C : PMat K := (PMat.T t5)
          let t6 ← PySS.mk zsys_A zsys_B zsys_C zsys_D zsys_dt
          pure (t6, Tzx)

end

end CtrlVerif.Generated
