-- GENERATED on every run by harness/core/py2lean_c2d.py from scipy/signal/_lti_conversion.py (scipy.cont2discrete[method='gbt'] f7d445c9d771a55c, scipy.cont2discrete f7d445c9d771a55c).  Do not edit.
import CtrlVerif.Model.PyC2d

namespace CtrlVerif.Generated

open CtrlVerif

noncomputable section

variable {K : Type} [Field K] [LinearOrder K]

/-- `scipy/signal/_lti_conversion.py:cont2discrete specialised at method='gbt'` as the source text says it (sha256 of the function text
f7d445c9d771a55c1ad19670c70eadd471ba3c88c820401c44490634f880b15d).
Defaults: alpha=None, method='zoh'.
  note: the state-space branch: `system` is a 4-tuple of 2-D arrays (`hasattr(system, 'to_discrete')` is False, `len(system) == 4`) -/
def scipyC2dGbt (system : PMat K × PMat K × PMat K × PMat K) (dt : K) (alpha : Option K) :
    Except Err (PMat K × PMat K × PMat K × PMat K × K) :=
  do
    let a : PMat K := system.1
    let b : PMat K := system.2.1
    let c : PMat K := system.2.2.1
    let d : PMat K := system.2.2.2
    match alpha with
    | some alpha =>
      if ((alpha < (0 : K)) ∨ (alpha > (1 : K))) then
        throw Err.badArg
      else
        let ima ← PMat.sub (PMat.eye a.r) (PMat.smul (alpha * dt) a)
        let t1 ← PMat.add (PMat.eye a.r) (PMat.smul (((1 : K) - alpha) * dt) a)
        let ad ← PMat.solve ima t1
        let bd ← PMat.solve ima (PMat.smul dt b)
        let cd ← PMat.solve (PMat.T ima) (PMat.T c)
        let cd : PMat K := (PMat.T cd)
        let t2 ← PMat.matmul c bd
        let dd ← PMat.add d (PMat.smul alpha t2)
        pure (ad, bd, cd, dd, dt)
    | none =>
      throw Err.badArg

/-- `scipy/signal/_lti_conversion.py:cont2discrete for method != 'gbt'` as the source text says it (sha256 of the function text
f7d445c9d771a55c1ad19670c70eadd471ba3c88c820401c44490634f880b15d).
Defaults: alpha=None, method='zoh'.
  note: the state-space branch: `system` is a 4-tuple of 2-D arrays (`hasattr(system, 'to_discrete')` is False, `len(system) == 4`)
  note: branch `if method == 'foh'`: first-order hold is outside the property
  note: branch `if method == 'impulse'`: impulse invariance is outside the property -/
def scipyC2dRest (expm : PMat K → Except Err (PMat K)) (system : PMat K × PMat K × PMat K × PMat K)
    (dt : K) (method : String) (alpha : Option K) :
    Except Err (PMat K × PMat K × PMat K × PMat K × K) :=
  do
    let a : PMat K := system.1
    let b : PMat K := system.2.1
    let c : PMat K := system.2.2.1
    let d : PMat K := system.2.2.2
    if ((method = "bilinear") ∨ (method = "tustin")) then
      scipyC2dGbt system dt (some ((1 : K) / (2 : K)))
    else
      if ((method = "euler") ∨ (method = "forward_diff")) then
        scipyC2dGbt system dt (some (0 : K))
      else
        if (method = "backward_diff") then
          scipyC2dGbt system dt (some (1 : K))
        else
          if (method = "zoh") then
            let em_upper ← PMat.hcat a b
            let em_lower ← PMat.hcat (PMat.zeros b.c a.r) (PMat.zeros b.c b.c)
            let em ← PMat.vcat em_upper em_lower
            let ms ← expm (PMat.smul dt em)
            let ms : PMat K := (PMat.sliceRows ms none (some (a.r : Int)))
            let ad : PMat K := (PMat.sliceCols ms (some (0 : Int)) (some (a.c : Int)))
            let bd : PMat K := (PMat.sliceCols ms (some (a.c : Int)) none)
            let cd : PMat K := c
            let dd : PMat K := d
            pure (ad, bd, cd, dd, dt)
          else
            if (method = "foh") then
              throw Err.notImplemented   -- not modelled: first-order hold is outside the property
            else
              if (method = "impulse") then
                throw Err.notImplemented   -- not modelled: impulse invariance is outside the property
              else
                throw Err.badArg

/-- `scipy.signal.cont2discrete` on a 4-tuple: the two specialisations joined on the test
`method == 'gbt'` (a recursive call `cont2discrete(system, dt, method="gbt", alpha=…)` of the
source is a call of the first one). -/
def scipyC2d (expm : PMat K → Except Err (PMat K)) : PyC2d.C2dSS K :=
  fun system dt method alpha =>
    if method = "gbt" then scipyC2dGbt system dt alpha else scipyC2dRest expm system dt method alpha

end

end CtrlVerif.Generated
