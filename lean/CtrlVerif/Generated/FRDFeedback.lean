-- GENERATED on every run by harness/core/py2lean_frd.py from control/frdata.py (feedback 1b045a7759ff8e1b).  Do not edit.
import CtrlVerif.Model.PyFRD
import CtrlVerif.Generated.FRDConvert

namespace CtrlVerif.Generated

open CtrlVerif

noncomputable section

variable {K : Type} [Field K] [DecidableEq K]

/-- the part of `feedback` after `other = _convert_to_frd(other, ...)` (the same text for the operand kinds frd, scalar, array, lti). -/
def frdFeedbackCore (E : Env K) (self : PyFRD K) (other : PyFRD K) (sign : K) : Except Err (PyFRD K) :=
  do
    if (((PyFRD.noutputs self) ≠ (PyFRD.ninputs other)) ∨ ((PyFRD.ninputs self) ≠ (PyFRD.noutputs other))) then
      throw Err.shape
    else
      let dt ← common self.dt other.dt
      let myfrdata : PArr3 K := (PArr3.toStack (PyFRD.frdata self))
      let otherfrdata : PArr3 K := (PArr3.toStack (PyFRD.frdata other))
      let t1 ← PStk.matmul (PStk.smul sign otherfrdata) myfrdata
      let I_AB ← PStk.sub (PStk.ofMat (PMat.eye (PyFRD.ninputs self))) t1
      let t2 ← PStk.inv I_AB
      let resfrdata ← PStk.matmul myfrdata t2
      let frdata : PArr3 K := (PArr3.ofStack resfrdata)
      PyFRD.ctor frdata (PyFRD.omega other) dt (PyFRD.smooth self)

/-- `control/frdata.py:FrequencyResponseData.feedback` as the source text says it (sha256 of the function text
1b045a7759ff8e1beff0b126e896adcf49d4a999b8824362907c70dcc71bbf1e).
Defaults: other=1, sign=-1. -/
def frdFeedback (E : Env K) (self : PyFRD K) (other : PyOpd K) (sign : K) : Except Err (PyFRD K) :=
  match other with
  | .frd other => do
    let other ← convertToFrd E (PyOpd.frd other) (PyFRD.omega self) (1 : Nat) (1 : Nat)
    frdFeedbackCore E self other sign
  | .scalar other => do
    let other ← convertToFrd E (PyOpd.scalar other) (PyFRD.omega self) (1 : Nat) (1 : Nat)
    frdFeedbackCore E self other sign
  | .array other_r other_c other_M => do
    let other : PMat K := ⟨other_r, other_c, other_M⟩
    let other ← convertToFrd E (PyOpd.ofMat other) (PyFRD.omega self) (1 : Nat) (1 : Nat)
    frdFeedbackCore E self other sign
  | .lti other => do
    let other ← convertToFrd E (PyOpd.lti other) (PyFRD.omega self) (1 : Nat) (1 : Nat)
    frdFeedbackCore E self other sign

end

end CtrlVerif.Generated
