-- GENERATED on every run by harness/core/py2lean_nyq.py from control/freqplot.py:nyquist_response (count) (sha256 50be25aedcb8cbdb1716a4124ab1c7bd6a4f5babbcb9fb3971ea0b869dea5533).  Do not edit.
import CtrlVerif.Model.PyNyq
import CtrlVerif.Generated.NyqUnwrap

namespace CtrlVerif.Generated

open CtrlVerif

/-- the argument of `np.angle` in the slice below, as a function of the frequency response
`resp` (complex array): `resp + 1`. -/
def nyquistAngleArg {K : Type} [Field K] [LinearOrder K] [IsStrictOrderedRing K] [FloorRing K] (resp : List (K × K)) : List (K × K) :=
  (PyNyq.caddS resp (1 : K))

/-- the statements of `control/freqplot.py:nyquist_response` that compute `count` (backward slice of
the unique assignment to `count`; sha256 of their text
50be25aedcb8cbdb1716a4124ab1c7bd6a4f5babbcb9fb3971ea0b869dea5533):
    phase = -unwrap(np.angle(resp + 1))
    encirclements = np.sum(np.diff(phase)) / np.pi
    count = int(np.round(encirclements, 0))
`np.angle(..)` is the input `angles`, `np.pi` the parameter `pi`. -/
def nyquistCount {K : Type} [Field K] [LinearOrder K] [IsStrictOrderedRing K] [FloorRing K] (pi : K) (angles : List K) :
    Except Err Int :=
  (do
    let t1 ← unwrap angles (unwrapDefaultPeriod pi)
    let phase : List K := (List.map (fun x => -x) t1)
    let t2 ← PyArith.div (List.sum (PyNyq.diff phase)) pi
    let encirclements : K := t2
    let count : Int := (PyNyq.toInt (PyNyq.round0 encirclements))
    pure count)

end CtrlVerif.Generated
