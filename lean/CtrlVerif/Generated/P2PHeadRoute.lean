-- GENERATED on every run by harness/core/py2lean_p2phead.py from control/flatsys/flatsys.py (p2pHeadRoute 564b97718995ff90).  Do not edit.
import CtrlVerif.Model.PyP2PHead

namespace CtrlVerif.Generated

open CtrlVerif

/-- block `p2pHeadRoute` of `control/flatsys/flatsys.py:point_to_point` as the source text says it (sha256 of the text of the translated
statements 564b97718995ff90cdb9806f3a4681c4aaedcd01ca0bb7682202f85a994a0c59).
  note: `warnings.warn('minimal basis specified; optimization not possible')` dropped: a warning does not change the result
  note: returns the value of the test `cost is not None or trajectory_constraints is not None` (True: the optimiser branch) -/
def p2pHeadRoute (sys_nstates sys_ninputs ncoefs : Nat) (cost trajectory_constraints : Option Unit) :
    Except Err Bool :=
  do
    let (cost, trajectory_constraints) ← (if (decide (ncoefs < ((2 : Nat) * (sys_nstates + sys_ninputs)))) = true then (do
        throw Err.badArg
        : Except Err (Option Unit × Option Unit)) else (do
        let (cost, trajectory_constraints) ← (if (((cost.isSome) || (trajectory_constraints.isSome)) && (decide (ncoefs = ((2 : Nat) * (sys_nstates + sys_ninputs))))) = true then (do
            let cost : Option Unit := none
            let trajectory_constraints : Option Unit := none
            pure (cost, trajectory_constraints)
            : Except Err (Option Unit × Option Unit)) else (do
            pure (cost, trajectory_constraints)
            : Except Err (Option Unit × Option Unit)))
        pure (cost, trajectory_constraints)
        : Except Err (Option Unit × Option Unit)))
    pure ((cost.isSome) || (trajectory_constraints.isSome))

end CtrlVerif.Generated
