-- GENERATED on every run by harness/core/py2lean_flat.py from control/flatsys/flatsys.py (point_to_point 69031dc649d4ae4c).  Do not edit.
import CtrlVerif.Model.PyFlat
import CtrlVerif.Generated.FlatFlagMatrix

namespace CtrlVerif.Generated

open CtrlVerif

noncomputable section

variable {K : Type} [Field K] [DecidableEq K]

variable [LinearOrder K]

/-- `control/flatsys/flatsys.py:point_to_point` as the source text says it (sha256 of the translated statements' text
69031dc649d4ae4c7c7d05c8444feb55b3edf83359a1a3674ad222a239b8a1cc).
Defaults: none.
  note: the statements after `if basis is None: ...`, for a call with cost=None, trajectory_constraints=None
  note: `basis.nvars` is None (PolyFamily / BezierFamily objects)
  note: `params = sys.params if params is None else {**sys.params, **params}` is dropped (`params` is handed on to the functions of the system, which are parameters here)
  note: `numpy.linalg.lstsq` is the parameter `lstsq` (solution and rank; `residuals`, `s` are not available)
  note: `if rank < Z.size: ... warnings.warn(...)` dropped: a warning does not change the result (its tests are assumed not to raise)
  note: `SystemTrajectory(sys, basis, params=params)`: nstates / ninputs of `sys`, the basis, `coeffs = []`, `flaglen = []` (what SystemTrajectory.__init__ stores for its defaults) -/
def pointToPointBlock (lstsq : LstsqFn K) (sys_nstates : Nat) (sys_ninputs : Nat) (sys_forward : List K → List K → Except Err (List (List K))) (basis : Basis K) (x0 : List K) (u0 : List K) (xf : List K) (uf : List K) (T0 : K) (Tf : K) : Except Err (PyTraj K) :=
  do
    let t2 ← List.mapM (fun (i : Int) => ((do
        let t1 ← basisVarNcoefs basis i
        pure (t1 : Int)
        : Except Err Int))) (PyArith.range (0 : Int) (sys_ninputs : Int))
    let ncoefs : Int := (List.sum t2)
    if (ncoefs < ((2 : Int) * ((sys_nstates + sys_ninputs) : Int))) then
      throw Err.badArg
    else
      let zflag_T0 ← sys_forward x0 u0
      let zflag_Tf ← sys_forward xf uf
      let M_T0 ← basisFlagMatrix sys_ninputs basis zflag_T0 T0
      let M_Tf ← basisFlagMatrix sys_ninputs basis zflag_Tf Tf
      let M ← PMat.vcat M_T0 M_Tf
      let Z : List K := (List.flatten [(List.flatten zflag_T0), (List.flatten zflag_Tf)])
      let (alpha, rank) ← lstsq M Z
      let systraj_nstates : Nat := sys_nstates
      let systraj_ninputs : Nat := sys_ninputs
      let systraj_basis : Basis K := basis
      let systraj_coeffs : List (List K) := ([] : List (List K))
      let systraj_flaglen : List Int := ([] : List Int)
      let coef_off : Int := (0 : Int)
      let (systraj_coeffs, systraj_flaglen, coef_off) ← List.foldlM (fun (t3 : List (List K) × List Int × Int) (i : Int) => ((do
          let systraj_coeffs : List (List K) := t3.1
          let systraj_flaglen : List Int := t3.2.1
          let coef_off : Int := t3.2.2
          let coef_len ← basisVarNcoefs basis i
          let systraj_coeffs : List (List K) := (systraj_coeffs ++ [(PyFlat.sliceList alpha (some coef_off) (some (coef_off + (coef_len : Int))))])
          let coef_off : Int := (coef_off + (coef_len : Int))
          let t4 ← PyArith.getItem zflag_T0 i
          let systraj_flaglen : List Int := (systraj_flaglen ++ [(t4.length : Int)])
          pure (systraj_coeffs, systraj_flaglen, coef_off)
          : Except Err (List (List K) × List Int × Int)))) (systraj_coeffs, systraj_flaglen, coef_off) (PyArith.range (0 : Int) (sys_ninputs : Int))
      pure ⟨systraj_nstates, systraj_ninputs, systraj_basis, systraj_coeffs, systraj_flaglen⟩

end

end CtrlVerif.Generated
