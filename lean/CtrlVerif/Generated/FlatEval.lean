-- GENERATED on every run by harness/core/py2lean_flat.py from control/flatsys/systraj.py (SystemTrajectory.eval e057a2750f9b3b91).  Do not edit.
import CtrlVerif.Model.PyFlat
import CtrlVerif.Generated.FlatFlagMatrix

namespace CtrlVerif.Generated

open CtrlVerif

noncomputable section

variable {K : Type} [Field K] [DecidableEq K]

variable [LinearOrder K]

/-- `control/flatsys/systraj.py:SystemTrajectory.eval` as the source text says it (sha256 of the function text
e057a2750f9b3b910da2296351260bbc3cc51582186d026b2de87f50b7bf63ce).
Defaults: none. -/
def systrajEval (system_reverse : List (List K) → Except Err (List K × List K)) (self : PyTraj K) (tlist : List K) : Except Err (PMat K × PMat K) :=
  do
    let xd : PMat K := (PMat.zeros self.nstates tlist.length)
    let ud : PMat K := (PMat.zeros self.ninputs tlist.length)
    let (xd, ud) ← List.foldlM (fun (t2 : PMat K × PMat K) (t1 : Int × K) => ((do
        let tind : Int := t1.1
        let t : K := t1.2
        let xd : PMat K := t2.1
        let ud : PMat K := t2.2
        let zflag : List (List K) := ([] : List (List K))
        let zflag ← List.foldlM (fun (zflag : List (List K)) (i : Int) => ((do
            let flag_len ← PyArith.getItem self.flaglen i
            let t3 ← PyFlat.zeros1 flag_len
            let zflag : List (List K) := (zflag ++ [t3])
            let t4 ← basisVarNcoefs self.basis i
            let zflag ← List.foldlM (fun (zflag : List (List K)) (j : Int) => ((do
                let zflag ← List.foldlM (fun (zflag : List (List K)) (k : Int) => ((do
                    let t5 ← PyArith.getItem zflag i
                    let t6 ← PyArith.getItem t5 k
                    let t7 ← PyArith.getItem self.coeffs i
                    let t8 ← PyArith.getItem t7 j
                    let t9 ← basisEvalDeriv self.basis j k t
                    let t10 ← PyArith.getItem zflag i
                    let t11 ← PyArith.setItem t10 k (t6 + (t8 * t9))
                    let zflag ← PyArith.setItem zflag i t11
                    pure zflag
                    : Except Err (List (List K))))) zflag (PyArith.range (0 : Int) flag_len)
                pure zflag
                : Except Err (List (List K))))) zflag (PyArith.range (0 : Int) (t4 : Int))
            pure zflag
            : Except Err (List (List K))))) zflag (PyArith.range (0 : Int) (self.ninputs : Int))
        let (t12, t13) ← system_reverse zflag
        let xd ← PyFlat.setCol xd tind t12
        let ud ← PyFlat.setCol ud tind t13
        pure (xd, ud)
        : Except Err (PMat K × PMat K)))) (xd, ud) (PyFlat.enumerate tlist)
    pure (xd, ud)

end

end CtrlVerif.Generated
