-- GENERATED on every run by harness/core/py2lean_combdt.py from control/bdalg.py (combine_tf, _ensure_tf 18af32a2dc8a8658).  Do not edit.
import CtrlVerif.Model.PyComb

namespace CtrlVerif.Generated.Comb

open CtrlVerif

/-- `control/bdalg.py:_ensure_tf` as the source text says it. -/
def ensureTf (arraylike_or_tf : PyComb.Entry) (dt : Dt) : Except Err PyComb.Entry :=
  if PyComb.isTF arraylike_or_tf then do
    (if !(PyDt.isNone dt) then do
      let _ ← Generated.commonTimebase (PyComb.getattrDt arraylike_or_tf) dt
      pure ()
    else pure ())
    pure arraylike_or_tf
  else
    if PyComb.ndim arraylike_or_tf > 2 then
      .error Err.badArg
    else
      pure (PyComb.mkTF arraylike_or_tf dt)

/-- loop `for tfn in row:` re-binding `dt`. -/
def dtInner : List PyComb.Entry → Dt → Except Err Dt
  | [], dt => pure dt
  | tfn :: rest, dt => do
    let dt ← Generated.commonTimebase dt (PyComb.getattrDt tfn)
    dtInner rest dt

/-- loop `for row in tf_array:` re-binding `dt`. -/
def dtOuter : List (List PyComb.Entry) → Dt → Except Err Dt
  | [], dt => pure dt
  | row :: rest, dt => do
    let dt ← dtInner row dt
    dtOuter rest dt

/-- loop `for tfn in row:` building `ensured_row`. -/
def ensInner (dt : Dt) : List PyComb.Entry → List PyComb.Entry → Except Err (List PyComb.Entry)
  | [], ensured_row => pure ensured_row
  | tfn :: rest, ensured_row => do
    let t ← ensureTf tfn dt
    ensInner dt rest (ensured_row ++ [t])

/-- loop `for row in tf_array:` building `ensured_tf_array`. -/
def ensOuter (dt : Dt) : List (List PyComb.Entry) → List (List PyComb.Entry) → Except Err (List (List PyComb.Entry))
  | [], ensured_tf_array => pure ensured_tf_array
  | row :: rest, ensured_tf_array => do
    let ensured_row ← ensInner dt row []
    ensOuter dt rest (ensured_tf_array ++ [ensured_row])

/-- the first two sections of `control/bdalg.py:combine_tf`: the common timebase and the ensured blocks. -/
def combineHead (tf_array : List (List PyComb.Entry)) : Except Err (Dt × List (List PyComb.Entry)) := do
  let dt := Dt.none
  let dt ← dtOuter tf_array dt
  let ensured_tf_array ← ensOuter dt tf_array []
  pure (dt, ensured_tf_array)

end CtrlVerif.Generated.Comb
