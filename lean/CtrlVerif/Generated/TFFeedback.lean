-- GENERATED on every run by harness/core/py2lean_tf.py from control/xferfcn.py (feedback 937a8d82bf92f1927219d433ee922565e29176f7392df5b85f86d6cb690e193c).  Do not edit.
import CtrlVerif.Model.PyTF

namespace CtrlVerif.Generated.TF

open CtrlVerif

/-- `control/xferfcn.py:TransferFunction.feedback` as the source text says it (sha256 of the function text
937a8d82bf92f1927219d433ee922565e29176f7392df5b85f86d6cb690e193c).
Defaults: other=1, sign=-1. -/
def feedback {K : Type} [Field K] [DecidableEq K] (self : DTF K) (other : PyTF.Operand K) (sign : K) :
    Except Err (DTF K) :=
  (do
    let other ← PyTF.convert other 1 1
    (if ((1 < (PyTF.ninputs self)) ∨ (1 < (PyTF.noutputs self)) ∨ (1 < (PyTF.ninputs other)) ∨ (1 < (PyTF.noutputs other))) then
        (.error Err.notImplemented)
      else
        (do
          let dt ← common self.dt other.dt
          let num1 ← PyTF.PolyArr.getItem (PyTF.numArray self) 0 0
          let den1 ← PyTF.PolyArr.getItem (PyTF.denArray self) 0 0
          let num2 ← PyTF.PolyArr.getItem (PyTF.numArray other) 0 0
          let den2 ← PyTF.PolyArr.getItem (PyTF.denArray other) 0 0
          let num : List K := (polymul num1 den2)
          let den : List K := (polyadd (polymul den2 den1) (scale (-sign) (polymul num2 num1)))
          PyTF.mkSiso num den (some dt))))

end CtrlVerif.Generated.TF
