-- GENERATED on every run by harness/core/py2lean_tr.py from control/timeresp.py:forced_response (frFoh d66fc720de4a94a4).  Do not edit.
import CtrlVerif.Model.PyTR

namespace CtrlVerif.Generated

open CtrlVerif

variable {K : Type} [Field K] [DecidableEq K]

/-- block `frFoh` of `control/timeresp.py:forced_response` as the source text says it (sha256 of the text of the translated
statements d66fc720de4a94a42164f4a78f6d1f46b1c76287a4dd778fdcf669e40e8c7465).
  note: the test `isctime(sys, strict=True)` is taken as True
  note: the test `U is None or np.all(U == 0)` is taken as False -/
def frFoh (expm : SqFun K) (A B C D : PMat K) (dt : K) (n_steps : Nat) (T : List K) (X0 : PVec K) (U : PSig K) :
    Except Err (List K × PSig K × PSig K × PSig K) :=
  do
    let n_states : Nat := A.r
    let n_inputs : Nat := B.c
    let n_outputs : Nat := C.r
    let xout : PSig K := (PSig.zeros n_states n_steps)
    let xout ← PSig.setCol xout (0 : Int) X0
    let yout : PMat K := (PMat.zeros n_outputs n_steps)
    let M ← PMat.block [[(PMat.mulNum A dt), (PMat.mulNum B dt), (PMat.zeros n_states n_inputs)], [(PMat.zeros n_inputs (n_states + n_inputs)), (PMat.identity n_inputs)], [(PMat.zeros n_inputs (n_states + ((2 : Nat) * n_inputs)))]]
    let expM ← PMat.applySq expm M
    let Ad : PMat K := (PMat.sliceCols (PMat.sliceRows expM none (some (n_states : Int))) none (some (n_states : Int)))
    let Bd1 : PMat K := (PMat.sliceCols (PMat.sliceRows expM none (some (n_states : Int))) (some ((n_states + n_inputs) : Int)) none)
    let Bd0 ← PMat.sub (PMat.sliceCols (PMat.sliceRows expM none (some (n_states : Int))) (some (n_states : Int)) (some ((n_states + n_inputs) : Int))) Bd1
    let xout ← List.foldlM (fun (xout : PSig K) (i : Int) => (do
        let t1 ← PSig.getCol xout (i - (1 : Int))
        let t2 ← PMat.matvec Ad t1
        let t3 ← PSig.getCol U (i - (1 : Int))
        let t4 ← PMat.matvec Bd0 t3
        let t5 ← PVec.add t2 t4
        let t6 ← PSig.getCol U i
        let t7 ← PMat.matvec Bd1 t6
        let t8 ← PVec.add t5 t7
        let xout ← PSig.setCol xout i t8
        pure xout
        : Except Err (PSig K))) xout (PyArith.range (1 : Int) (n_steps : Int))
    let t9 ← PMat.matsig C xout
    let t10 ← PMat.matsig D U
    let yout ← PSig.add t9 t10
    let tout : List K := T
    pure (tout, yout, xout, U)

end CtrlVerif.Generated
