-- GENERATED on every run by harness/core/py2lean_nyq.py from control/freqplot.py:nyquist_response (indentation) (sha256 64fd0c8f0e75d7b2cd7340f5c37dd9e778a396db425f4c1bfcce0502e9d364d9).  Do not edit.
import CtrlVerif.Model.PyNyq

namespace CtrlVerif.Generated

open CtrlVerif

/-- the indentation decision of `control/freqplot.py:nyquist_response` (the unique `if` whose body is
`<contour>[<i>] += <offset>`; sha256 of its text
64fd0c8f0e75d7b2cd7340f5c37dd9e778a396db425f4c1bfcce0502e9d364d9): the coefficient of `offset` that is added to
`splane_contour[i]` (`+=`: `1`, `-=`: `-1`), `raise ValueError` = `badArg`.  `p` is `p` (the nearest pole),
`dir` is `indent_direction`. -/
def nyquistIndentSign {K : Type} [Field K] [LinearOrder K] [IsStrictOrderedRing K] [FloorRing K] (p : K × K) (dir : String) :
    Except Err Int :=
  if ((p.1 < (0 : K)) ∨ ((p.1 = (0 : K)) ∧ (dir = "right"))) then .ok 1
  else if (((0 : K) < p.1) ∨ ((p.1 = (0 : K)) ∧ (dir = "left"))) then .ok (-1)
  else .error Err.badArg

/-- the indentation loop of `control/freqplot.py:nyquist_response` (the `for i, s in enumerate(splane_contour):`
around the indentation decision, with its guard `if len(splane_poles) > 0:`; sha256 of the text of that `if`
6777f90c0dd933dd82a46097918df9f53d6fdaa8265702c9fb8b34241afd2df7).
`contour` is `splane_contour` before the loop, the result is `splane_contour` after it; `s` is `s`, `cur` the element
`splane_contour[i]`; `poles` is `splane_poles`, `r` is `indent_radius`, `dir` is `indent_direction`, `sqrt` is `np.sqrt`. -/
def nyquistIndentContour {K : Type} [Field K] [LinearOrder K] [IsStrictOrderedRing K] [FloorRing K] (sqrt : K → K) (r : K) (dir : String)
    (poles contour : List (K × K)) : Except Err (List (K × K)) :=
  if (0 < ((List.length poles : Nat) : Int)) then
    List.mapM (fun (s : K × K) =>
      ((do
        let cur : (K × K) := s
        let t1 ← PyNyq.nearestTo poles s
        let p' : (K × K) := t1
        let t4 ← ((if (PyNyq.absLt (PyNyq.csub s p') r) then
            (do
              let offset : K := ((sqrt ((r ^ (2 : Nat)) - (((PyNyq.csub s p')).2 ^ (2 : Nat)))) - ((PyNyq.csub s p')).1)
              let t3 ← ((if (((p').1 < (0 : K)) ∨ (((p').1 = (0 : K)) ∧ (dir = "right"))) then
                  (do
                    let cur : (K × K) := (PyNyq.caddR cur offset)
                    pure (cur))
                else
                  (do
                    let t2 ← ((if (((0 : K) < (p').1) ∨ (((p').1 = (0 : K)) ∧ (dir = "left"))) then
                        (do
                          let cur : (K × K) := (PyNyq.csubR cur offset)
                          pure (cur))
                      else
                        (.error Err.badArg)) : Except Err ((K × K)))
                    let cur : (K × K) := t2
                    pure (cur))) : Except Err ((K × K)))
              let cur : (K × K) := t3
              pure (cur))
          else
            (pure (cur))) : Except Err ((K × K)))
        let cur : (K × K) := t4
        pure cur) : Except Err (K × K))) contour
  else pure contour

end CtrlVerif.Generated
