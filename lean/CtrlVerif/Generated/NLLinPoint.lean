-- GENERATED on every run by harness/core/py2lean_nl.py from control/nlsys.py (nlLinPoint 8cc785eefdaabc6f).  Do not edit.
import CtrlVerif.Model.PyNL

namespace CtrlVerif.Generated

open CtrlVerif

variable {K : Type} [Field K]

/-- block `nlLinPoint` of `control/nlsys.py` as the source text says it (sha256 of the text of the translated
statements 8cc785eefdaabc6f2338694cf775c20f60e1f1a6bda2017e119e212e513abf1f).
  note: returns (x0, u0) -/
def nlLinPoint (x0 : PyNL.XArg K) (u0 : PyNL.Arg K) :
    PyNL.Arg K × PyNL.Arg K :=
  match x0, u0 with
  | .op x_states x_inputs, .none =>
    let u0 : PyNL.Arg K := x_inputs
    let x0 : PyNL.Arg K := x_states
    (x0, u0)
  | .op x_states x_inputs, u_arg =>
    let u0 : PyNL.Arg K := u_arg
    let x0 : PyNL.Arg K := x_states
    (x0, u0)
  | .vec x_arg, .none =>
    let u0 : Int := (0 : Int)
    (x_arg, (PyNL.Arg.scalar ((u0 : Int) : K)))
  | .vec x_arg, u_arg =>
    (x_arg, u_arg)

end CtrlVerif.Generated
