-- GENERATED on every run by harness/core/py2lean_flat.py from control/flatsys/linflat.py (LinearFlatSystem.__init__ 0b6c88786623e3b2).  Do not edit.
import CtrlVerif.Model.PyFlat
import CtrlVerif.Generated.CanonReachable

namespace CtrlVerif.Generated

open CtrlVerif

noncomputable section

variable {K : Type} [Field K] [DecidableEq K]

/-- `control/flatsys/linflat.py:LinearFlatSystem.__init__` as the source text says it (sha256 of the function text
0b6c88786623e3b230e32ef3038838b35a73d33e451520f7a3d07a7e75a6293b).
Defaults: none.
  note: `StateSpace.__init__(self, linsys, **kwargs)`: the StateSpace part of the object is `linsys` (names and labels given through `kwargs` are not modelled) -/
def linflatInit (linsys : DSS K) : Except Err (PyLinFlat K) :=
  do
    let t1 ← DtPred.isctimeFn (SysArg.sys linsys.dt) Dt.none false
    if (¬ (t1 = true)) then
      throw Err.notImplemented
    else
      if (¬ (PySS.issiso linsys = true)) then
        throw Err.notImplemented
      else
        let self_sys : DSS K := linsys
        let (zsys, Tr) ← reachableForm linsys
        let Tr : PMat K := (PyFlat.flipRows Tr)
        let t2 ← PyFlat.row (PySS.A zsys) (0 : Int)
        let self_F : List K := (List.reverse t2)
        let self_T : PMat K := Tr
        let self_Tinv ← PMat.inv Tr
        let Cfz : PMat K := (PMat.zeros (PySS.C linsys).r (PySS.C linsys).c)
        let Cfz ← PyCanon.setItem Cfz (0 : Int) (0 : Int) ((1 : Int) : K)
        let self_Cf ← PMat.matmul Cfz Tr
        pure ⟨self_sys, self_F, self_T, self_Tinv, self_Cf⟩

end

end CtrlVerif.Generated
