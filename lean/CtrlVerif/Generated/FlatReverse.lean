-- GENERATED on every run by harness/core/py2lean_flat.py from control/flatsys/linflat.py (LinearFlatSystem.reverse 18317011cded993c).  Do not edit.
import CtrlVerif.Model.PyFlat

namespace CtrlVerif.Generated

open CtrlVerif

noncomputable section

variable {K : Type} [Field K] [DecidableEq K]

/-- `control/flatsys/linflat.py:LinearFlatSystem.reverse` as the source text says it (sha256 of the function text
18317011cded993c28f577cdcb0fb63f590ff0c08754591ae567267ac83126a3).
Defaults: none. -/
def linflatReverse (self : PyLinFlat K) (zflag : List (List K)) : Except Err (List K × List K) :=
  do
    let t1 ← PyArith.getItem zflag (0 : Int)
    let z : List K := (PyFlat.sliceList t1 (some (0 : Int)) (some (-1 : Int)))
    let x ← PyFlat.matVec self.Tinv z
    let t2 ← PyArith.getItem zflag (0 : Int)
    let t3 ← PyArith.getItem t2 (-1 : Int)
    let t4 ← PyFlat.dot self.F z
    let u : K := (t3 - t4)
    let t5 ← PyFlat.reshapeVec x self.sys.n
    let t6 ← PyFlat.reshapeNum u self.sys.m
    pure (t5, t6)

end

end CtrlVerif.Generated
