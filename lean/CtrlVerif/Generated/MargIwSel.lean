-- GENERATED on every run by harness/core/py2lean_marg.py from control/margins.py (_poly_iw_* after np.roots) (sha256 d1de1cd0450b3fad46ee454558a1ea48135d37d4024d503e6bb393379759d1ba).  Do not edit.
import CtrlVerif.Model.PyMarg
import CtrlVerif.Generated.PolyIwRealCrossing
import CtrlVerif.Generated.PolyIwMag1Crossing
import CtrlVerif.Generated.PolyIwWstab

namespace CtrlVerif.Generated

open CtrlVerif CtrlVerif.Margins

/-- `control/margins.py:_poly_iw_real_crossing` as the source text says it (sha256 of the function text
9f32848c74bd680603a035c09bb01d9cc037ff0c2e0fa9aad4919ec5bb2d34da); the statements before `np.roots` are `Generated.polyIwRealCrossing`, `np.roots` is `P.npRoots`. -/
def polyIwRealCrossingSel {K : Type} [Field K] [LinearOrder K] (P : PyMarg.Prims K) (num_iw : (List K × List K)) (den_iw : (List K × List K)) (epsw : K) :
    Except Err (List K) :=
  (do
    let t1 ← polyIwRealCrossing num_iw den_iw
    let w : List (Cx K) := (P.npRoots t1)
    let t2 ← PyMarg.mask w (List.map (fun z => decide (z.im = 0)) w)
    let w : List K := (List.map (fun z => z.re) t2)
    let w ← PyMarg.mask w (List.map (fun x => decide (epsw ≤ x)) w)
    pure w)

/-- `control/margins.py:_poly_iw_mag1_crossing` as the source text says it (sha256 of the function text
89477a481a4134b98cec1d51b481d0dcb7470f685922f942553ab320ad5e991e); the statements before `np.roots` are `Generated.polyIwMag1Crossing`, `np.roots` is `P.npRoots`. -/
def polyIwMag1CrossingSel {K : Type} [Field K] [LinearOrder K] (P : PyMarg.Prims K) (num_iw : (List K × List K)) (den_iw : (List K × List K)) (epsw : K) :
    Except Err (List K) :=
  (do
    let t1 ← polyIwMag1Crossing num_iw den_iw
    let w : List (Cx K) := (P.npRoots t1)
    let t2 ← PyMarg.mask w (List.map (fun z => decide (z.im = 0)) w)
    let w : List K := (List.map (fun z => z.re) t2)
    let w ← PyMarg.mask w (List.map (fun x => decide (epsw < x)) w)
    pure w)

/-- `control/margins.py:_poly_iw_wstab` as the source text says it (sha256 of the function text
ac683f0c9bb76bf9c49b41f16c3b250dd93c7fa6eaf349b7f06bc9f6478a7671); the statements before `np.roots` are `Generated.polyIwWstab`, `np.roots` is `P.npRoots`. -/
def polyIwWstabSel {K : Type} [Field K] [LinearOrder K] (P : PyMarg.Prims K) (num_iw : (List K × List K)) (den_iw : (List K × List K)) (epsw : K) :
    Except Err (List K) :=
  (do
    let t1 ← polyIwWstab num_iw den_iw
    let wstab : List (Cx K) := (P.npRoots t1)
    let t2 ← PyMarg.mask wstab (List.map (fun z => decide (z.im = 0)) wstab)
    let wstab : List K := (List.map (fun z => z.re) t2)
    let wstab ← PyMarg.mask wstab (List.map (fun x => decide (epsw < x)) wstab)
    let wstabplus : List K := (List.map (fun x => polyval (Margins.polyder t1) x) wstab)
    let wstab ← PyMarg.mask wstab (List.map (fun x => decide ((0 : K) < x)) wstabplus)
    pure wstab)

end CtrlVerif.Generated
