-- GENERATED on every run by harness/core/py2lean_arith.py from control/margins.py:_poly_z_mag1_crossing (sha256 3fb966390bbf830a5add93442ff1d027966c2e80279d7e88c478376303c18be8).  Do not edit.
import CtrlVerif.Model.PyArith
import CtrlVerif.Model.Margins

namespace CtrlVerif.Generated

open CtrlVerif

/-- `control/margins.py:_poly_z_mag1_crossing` as the source text says it (sha256 of the function text
3fb966390bbf830a5add93442ff1d027966c2e80279d7e88c478376303c18be8).
Defaults: none.
Translated up to the first call of `np.roots`: the result is its argument, `p2`; the rest of the body is outside this tie. -/
def polyZMag1Crossing {K : Type} [Field K] [LinearOrder K] (num : List K) (den : List K) (num_inv_zp : List K) (den_inv_zq : List K) (p_q : Int) :
    Except Err (List K × List K) :=
  (do
    let p1 : List K := (Margins.npmul num num_inv_zp)
    let p2 : List K := (Margins.npmul den den_inv_zq)
    let t1 ← ((if (p_q < 0) then
        (do
          let x : List Int := (([1] : List Int) ++ (List.replicate (Int.toNat (-p_q)) 0))
          let p1 : List K := (Margins.npmul p1 (List.map (fun (c : Int) => (c : K)) x))
          pure (p1))
      else
        (pure (p1))) : Except Err (List K))
    let p1 : List K := t1
    pure ((Margins.npsub p1 p2), p2))

end CtrlVerif.Generated
