-- GENERATED on every run by harness/core/py2lean_norm.py from control/sysnorm.py (normPsdTol b04d7cfa678ee5df, normH2 20d28a8c25112b96).  Do not edit.
import CtrlVerif.Model.PyNorm

namespace CtrlVerif.Generated

open CtrlVerif

noncomputable section

variable {K : Type} [Field K] [LinearOrder K]

/-- `_psd_tol` as the source text says it (sha256 of the translated text
b04d7cfa678ee5df2dcdaf644ec5edcd30e5eb6f27a3b790ab5cabe04860a8ea). -/
def normPsdTol (sqrtEps : K) (fro : PMat K → K) (P : PMat K) :
    Except Err (K) :=
  do
    pure (sqrtEps * (fro P))

/-- `system_norm`: the matrix assignments and the body of `if p == 2:` as the source text says it (sha256 of the translated text
20d28a8c25112b969210d1700609edb773017496827291e9828ea2a81ab45038).
  note: `method == 'slycot'` is taken as False (method 'scipy'; the Slycot path is not translated)
  note: a path falls off the end of the translated block (Python goes on / returns None): `throw Err.badArg` -/
def normH2 (lyap dlyap : PyNorm.LyapFun K) (eigvals : PMat K → List (Norm.Pole K)) (sqrtEps : K) (fro : PMat K → K) (G : DSS K) (poles : List (Norm.Pole K)) :
    Except Err (Norm.H2Val K) :=
  do
    let A : PMat K := (PySS.A G)
    let B : PMat K := (PySS.B G)
    let C : PMat K := (PySS.C G)
    let D : PMat K := (PySS.D G)
    if (DtPred.isctime false G.dt = true) then
      let poles_real_part : List K := (PyNorm.real poles)
      if (PyNorm.any (PyNorm.isclose poles_real_part (0 : K)) = true) then
        pure Norm.H2Val.inf
      else
        if (PyNorm.any (PyNorm.gt poles_real_part (0 : K)) = true) then
          pure Norm.H2Val.inf
        else
          if (PyNorm.any (PyNorm.ne (PyNorm.flat D) (0 : K)) = true) then
            pure Norm.H2Val.inf
          else
            let t3 ← (do
              if (G.n > (0 : Nat)) then
                let t1 ← PMat.matmul B (PMat.T B)
                PyNorm.callLyap lyap A t1
              else
                pure (PMat.zeros (0 : Nat) (0 : Nat))
              : Except Err (PMat K))
            let P : PMat K := t3
            let t4 ← normPsdTol sqrtEps fro P
            if (PyNorm.any (PyNorm.lt (PyNorm.real (eigvals P)) (-t4)) = true) then
              pure Norm.H2Val.inf
            else
              let t5 ← PMat.matmul C P
              let t6 ← PMat.matmul t5 (PMat.T C)
              let norm_value : PyNorm.SqrtVal K := (PyNorm.sqrt (PyNorm.trace t6))
              if (PyNorm.isnan norm_value = true) then
                throw Err.badArg
              else
                pure (Norm.H2Val.sqrt norm_value.radicand)
    else
      if (DtPred.isdtime false G.dt = true) then
        let poles_abs : List (PyNorm.AbsVal K) := (PyNorm.abs poles)
        if (PyNorm.any (PyNorm.absIsclose poles_abs (1 : K)) = true) then
          pure Norm.H2Val.inf
        else
          if (PyNorm.any (PyNorm.absGt poles_abs (1 : K)) = true) then
            pure Norm.H2Val.inf
          else
            let t3 ← (do
              if (G.n > (0 : Nat)) then
                let t1 ← PMat.matmul B (PMat.T B)
                PyNorm.callLyap dlyap A t1
              else
                pure (PMat.zeros (0 : Nat) (0 : Nat))
              : Except Err (PMat K))
            let P : PMat K := t3
            let t4 ← normPsdTol sqrtEps fro P
            if (PyNorm.any (PyNorm.lt (PyNorm.real (eigvals P)) (-t4)) = true) then
              pure Norm.H2Val.inf
            else
              let t5 ← PMat.matmul C P
              let t6 ← PMat.matmul t5 (PMat.T C)
              let t7 ← PMat.matmul D (PMat.T D)
              let t8 ← PMat.add t6 t7
              let norm_value : PyNorm.SqrtVal K := (PyNorm.sqrt (PyNorm.trace t8))
              if (PyNorm.isnan norm_value = true) then
                throw Err.badArg
              else
                pure (Norm.H2Val.sqrt norm_value.radicand)
      else
        throw Err.badArg

end

end CtrlVerif.Generated
