-- GENERATED on every run by harness/core/py2lean_icx.py from control/iosys.py (_find_signals f366c37bba59c07c, find_input 0e6df6e3cc94c737, find_inputs 999b81fa663b451e, find_output 902743fe6e7cc06a, find_outputs 9f21e023ed474a01).  Do not edit.
import CtrlVerif.Model.PyICX

namespace CtrlVerif.Generated

open CtrlVerif CtrlVerif.IC CtrlVerif.PyIC

variable {K : Type} [Field K] [DecidableEq K]

/-- `control/iosys.py:InputOutputSystem._find_signals` as the source text says it (sha256 of the function text
f366c37bba59c07c927e0973eee640b80d615e654a634cbf832d69a09934d245).
`sigdict` is the key list of the dictionary in dictionary order; the result is `None` or the list of the
`sigdict.get` values. -/
def icxFindSignals (name_list : Val K) (sigdict : List Label) :
    Except Err (Option (List (Option Nat))) :=
  do
    let name_list ← (do
      if (!(PyIC.isinstance name_list [.list, .tuple])) then
        let name_list : Val K := (Val.list ([name_list]))
        pure name_list
      else
        pure name_list
      : Except Err (Val K))
    let index_list : List (Option Nat) := []
    let t1 ← PyIC.iter name_list
    let index_list ← List.foldlM (fun (index_list : List (Option Nat)) (name : Val K) => (do
        let t2 ← PyICX.reSlice name
        let ms : Option (String × Option Nat × Option Nat) := t2
        let t3 ← PyICX.reBase name
        let mb : Option String := t3
        let index_list ← (do
          match ms with
          | some ms_v =>
            let base : String := ms_v.1
            let start : Option Nat := (match ms_v.2.1 with | none => none | some t4 => (some t4))
            let stop : Option Nat := (match ms_v.2.2 with | none => none | some t5 => (some t5))
            let index_list ← List.foldlM (fun (index_list : List (Option Nat)) (var : Label) => (do
                let msig : Option (String × Nat) := (PyICX.reIdx var)
                let index_list ← (do
                  if (match msig with | some msig_v => ((msig_v.1 == base) && ((match start with | some start_v => (decide (msig_v.2 ≥ start_v)) | none => true) && (match stop with | some stop_v => (decide (msig_v.2 < stop_v)) | none => true))) | none => false) then
                    let index_list : List (Option Nat) := index_list ++ [(PyICX.dictGet sigdict var)]
                    pure index_list
                  else
                    pure index_list
                  : Except Err (List (Option Nat)))
                pure index_list
                : Except Err (List (Option Nat)))) index_list sigdict
            pure index_list
          | none =>
            let index_list ← (do
              if (match mb with | some mb_v => (PyICX.dictGetVal sigdict name).isNone | none => false) then
                let index_list ← List.foldlM (fun (index_list : List (Option Nat)) (var : Label) => (do
                    let msig : Option Nat := (PyICX.reNameIdx name var)
                    let index_list ← (do
                      match msig with
                      | some msig_v =>
                        let index_list : List (Option Nat) := index_list ++ [(PyICX.dictGet sigdict var)]
                        pure index_list
                      | none =>
                        pure index_list
                      : Except Err (List (Option Nat)))
                    pure index_list
                    : Except Err (List (Option Nat)))) index_list sigdict
                pure index_list
              else
                let index_list : List (Option Nat) := index_list ++ [(PyICX.dictGetVal sigdict name)]
                pure index_list
              : Except Err (List (Option Nat)))
            pure index_list
          : Except Err (List (Option Nat)))
        pure index_list
        : Except Err (List (Option Nat)))) index_list t1
    pure (if ((index_list.length == (0 : Nat)) || (index_list.any fun (idx : Option Nat) => idx.isNone)) then none else (some index_list))

/-- `control/iosys.py:InputOutputSystem.find_input` as the source text says it (sha256 of the function text
0e6df6e3cc94c737c53cda8db8b27b567871053d7f00cd0e77c52546603e632b). -/
def icxFindInput (self_input_index self_output_index : List Label) (name : Val K) :
    Except Err (Option Nat) :=
  do
    pure (PyICX.dictGetVal self_input_index name)

/-- `control/iosys.py:InputOutputSystem.find_inputs` as the source text says it (sha256 of the function text
999b81fa663b451e4f76e5dc11952dfe11b1ea8fd7a6729231e4a2f39890604c). -/
def icxFindInputs (self_input_index self_output_index : List Label) (name_list : Val K) :
    Except Err (Option (List (Option Nat))) :=
  do
    let t1 ← icxFindSignals name_list self_input_index
    pure t1

/-- `control/iosys.py:InputOutputSystem.find_output` as the source text says it (sha256 of the function text
902743fe6e7cc06a6f5495708fa922b3048c4795ee0df1544a8d46bf468c06a2). -/
def icxFindOutput (self_input_index self_output_index : List Label) (name : Val K) :
    Except Err (Option Nat) :=
  do
    pure (PyICX.dictGetVal self_output_index name)

/-- `control/iosys.py:InputOutputSystem.find_outputs` as the source text says it (sha256 of the function text
9f21e023ed474a019d153aa33ac2a562efb1829e4f39b799a9a35526b01a8ccd). -/
def icxFindOutputs (self_input_index self_output_index : List Label) (name_list : Val K) :
    Except Err (Option (List (Option Nat))) :=
  do
    let t1 ← icxFindSignals name_list self_output_index
    pure t1

end CtrlVerif.Generated
