-- GENERATED on every run by harness/core/py2lean_nl.py from control/nlsys.py (nlProcessVector 1272989aaefea63b).  Do not edit.
import CtrlVerif.Model.PyNL

namespace CtrlVerif.Generated

open CtrlVerif

variable {K : Type} [Field K] [DecidableEq K]

def nlFindSizeVec (sysval : Int) (vecval : List K) : Except Err Int :=
  do
    if (sysval ≠ (vecval.length : Int)) then
      throw Err.shape
    pure (vecval.length : Int)

def nlFindSizeNone (sysval : Int) : Except Err Int :=
  do
    pure sysval

/-- block `nlProcessVector` of `control/nlsys.py` as the source text says it (sha256 of the text of the translated
statements 1272989aaefea63b6fc11d3ade88a055ce8b03cd7446623872326180306b037c).
  note: the size of the system (`size`) is known (an int, not None); `warn(...)` has no effect
  note: the size of the system (`sysval`) is known (an int, not None) -/
def nlProcessVector (arg : PyNL.Arg K) (size : Int) :
    Except Err (Option (List K) × Int) :=
  match arg with
  | .list arg_parts => do
    let val_list : List K := []
    let val_list ← List.foldlM (fun (val_list : List K) (v : List K) => (do
        let val_list : List K := val_list ++ v
        pure val_list
        : Except Err (List K))) val_list arg_parts
    let val : List K := val_list
    let val ← (if ((val.length : Int) < size) then (do
        let t1 ← PyArith.getItem val (-1 : Int)
        let val : List K := (val ++ (PyNL.vzeros (size - (val.length : Int))))
        pure val
        : Except Err (List K)) else (do
        pure val
        : Except Err (List K)))
    let t2 ← nlFindSizeVec size val
    let nelem : Int := t2
    pure ((some val), nelem)
  | .scalar arg_c => do
    let val : List K := (PyNL.vscale (PyNL.vones size) arg_c)
    let val ← (if ((val.length : Int) < size) then (do
        let t1 ← PyArith.getItem val (-1 : Int)
        let val : List K := (val ++ (PyNL.vzeros (size - (val.length : Int))))
        pure val
        : Except Err (List K)) else (do
        pure val
        : Except Err (List K)))
    let t2 ← nlFindSizeVec size val
    let nelem : Int := t2
    pure ((some val), nelem)
  | .array arg_v => do
    let val : List K := arg_v
    let val ← (if ((val.length : Int) < size) then (do
        let t1 ← PyArith.getItem val (-1 : Int)
        let val : List K := (val ++ (PyNL.vzeros (size - (val.length : Int))))
        pure val
        : Except Err (List K)) else (do
        pure val
        : Except Err (List K)))
    let t2 ← nlFindSizeVec size val
    let nelem : Int := t2
    pure ((some val), nelem)
  | .none => do
    let t1 ← nlFindSizeNone size
    let nelem : Int := t1
    pure (none, nelem)

end CtrlVerif.Generated
