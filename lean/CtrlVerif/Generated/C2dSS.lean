-- GENERATED on every run by harness/core/py2lean_c2d.py from control/statesp.py (StateSpace.sample d80b5085c3f376cd).  Do not edit.
import CtrlVerif.Model.PyC2d

namespace CtrlVerif.Generated

open CtrlVerif

noncomputable section

variable {K : Type} [Field K] [DecidableEq K]

/-- `control/statesp.py:StateSpace.sample` as the source text says it (sha256 of the function text
d80b5085c3f376cd432a9cb640fcc1f62567383862f7383c7e86d1ccb1a02486).
Defaults: alpha=None, copy_names=True, method='zoh', name=None, prewarp_frequency=None. -/
def ssSample (cont2discrete : PyC2d.C2dSS K) (tan : K → K) (self : PyC2d.NamedSS K) (Ts : Period)
    (method : String) (alpha : Option K) (prewarp_frequency : Option K)
    (name : Option String) (copy_names : Bool) (kwargs : PyC2d.LabelKw) :
    Except Err (PyC2d.NamedSS K) :=
  do
    if (¬ (PyC2d.isctime self.sys.dt = true)) then
      throw Err.timebase
    else
      let Twarp ← (do
        match prewarp_frequency with
        | some prewarp_frequency =>
          let Twarp ← (do
            if ((method = "bilinear") ∨ (method = "tustin") ∨ ((method = "gbt") ∧ (alpha = (some ((1 : K) / (2 : K)))))) then
              let Twarp ← PyNum.div ((2 : K) * (tan ((prewarp_frequency * ((PyC2d.periodNum Ts : ℚ) : K)) / (2 : K)))) prewarp_frequency
              pure Twarp
            else
              let Twarp : Period := Ts
              pure ((PyC2d.periodNum Twarp : ℚ) : K)
            : Except Err (K))
          pure Twarp
        | none =>
          let Twarp : Period := Ts
          pure ((PyC2d.periodNum Twarp : ℚ) : K)
        : Except Err (K))
      let t1 ← cont2discrete ((PySS.A self.sys), (PySS.B self.sys), (PySS.C self.sys), (PySS.D self.sys)) Twarp method alpha
      let Ad : PMat K := t1.1
      let Bd : PMat K := t1.2.1
      let C : PMat K := t1.2.2.1
      let D : PMat K := t1.2.2.2.1
      let sysd ← PyC2d.mkSS Ad Bd C D (PyC2d.periodDt Ts)
      let sysd ← (do
        if (copy_names = true) then
          let sysd : PyC2d.NamedSS K := (PyC2d.copyNamesSS sysd self)
          pure sysd
        else
          pure sysd
        : Except Err (PyC2d.NamedSS K))
      let sysd ← (do
        match name with
        | some name =>
          let sysd : PyC2d.NamedSS K := (PyC2d.setNameSS sysd name)
          pure sysd
        | none =>
          pure sysd
        : Except Err (PyC2d.NamedSS K))
      PyC2d.copySS sysd kwargs

end

end CtrlVerif.Generated
