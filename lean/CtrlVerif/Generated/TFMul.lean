-- GENERATED on every run by harness/core/py2lean_tf.py from control/xferfcn.py (__mul__ 95b130b7f2556fa443b27b375d609d39c8c3e2906f5cc8619014091627b7ef8d).  Do not edit.
import CtrlVerif.Model.PyTF
import CtrlVerif.Generated.TFAddSiso

namespace CtrlVerif.Generated.TF

open CtrlVerif

/-- `control/xferfcn.py:TransferFunction.__mul__` as the source text says it (sha256 of the function text
95b130b7f2556fa443b27b375d609d39c8c3e2906f5cc8619014091627b7ef8d).
Defaults: none. -/
def mul {K : Type} [Field K] [DecidableEq K] (self : DTF K) (other : PyTF.Operand K) :
    Except Err (DTF K) :=
  (do
    let other ← ((match other with
      | .tf other =>
        (pure ((PyTF.Operand.tf other)))
      | other@(.ss _ _) =>
        (do
          let other ← PyTF.convert other 1 1
          pure ((PyTF.Operand.tf other)))
      | .scalar other =>
        (do
          let other ← PyTF.convert (PyTF.scaledEye (PyTF.ninputs self) other) 1 1
          pure ((PyTF.Operand.tf other)))
      | other@(.array _ _ _) =>
        (do
          let other ← PyTF.convert other 1 1
          pure ((PyTF.Operand.tf other)))
      | other@(.foreign) =>
        (pure (other))) : Except Err (PyTF.Operand K))
    (match other with
      | .tf other =>
        (do
          let t6 ← ((if ((self.isSiso = true) ∧ (¬ (other.isSiso = true))) then
              (do
                let self ← PyTF.appendCopies self (PyTF.noutputs other)
                pure (self, other))
            else
              (if ((¬ (self.isSiso = true)) ∧ (other.isSiso = true)) then
                  (do
                    let other ← PyTF.appendCopies other (PyTF.ninputs self)
                    pure (self, other))
                else
                  (pure (self, other)))) : Except Err (DTF K × DTF K))
          let self : DTF K := t6.1
          let other : DTF K := t6.2
          (if ((PyTF.ninputs self) ≠ (PyTF.noutputs other)) then
              (.error Err.shape)
            else
              (do
                let ninputs : Int := (PyTF.ninputs other)
                let noutputs : Int := (PyTF.noutputs self)
                let dt ← common self.dt other.dt
                let num ← PyTF.createPolyArray noutputs ninputs (some ([(0 : K)] : List K))
                let den ← PyTF.createPolyArray noutputs ninputs (some ([(1 : K)] : List K))
                let num_summand : List (List K) := (List.map (fun (_ : Int) => ([] : List K)) (PyArith.range 0 (PyTF.ninputs self)))
                let den_summand : List (List K) := (List.map (fun (_ : Int) => ([] : List K)) (PyArith.range 0 (PyTF.ninputs self)))
                let t24 ← List.foldlM (fun (t10 : List (List K) × List (List K) × PyTF.PolyArr K × PyTF.PolyArr K) (row : Int) =>
                    ((do
                      let num_summand : List (List K) := t10.1
                      let den_summand : List (List K) := t10.2.1
                      let num : PyTF.PolyArr K := t10.2.2.1
                      let den : PyTF.PolyArr K := t10.2.2.2
                      let t23 ← List.foldlM (fun (t11 : List (List K) × List (List K) × PyTF.PolyArr K × PyTF.PolyArr K) (col : Int) =>
                          ((do
                            let num_summand : List (List K) := t11.1
                            let den_summand : List (List K) := t11.2.1
                            let num : PyTF.PolyArr K := t11.2.2.1
                            let den : PyTF.PolyArr K := t11.2.2.2
                            let t22 ← List.foldlM (fun (t12 : List (List K) × List (List K) × PyTF.PolyArr K × PyTF.PolyArr K) (k : Int) =>
                                ((do
                                  let num_summand : List (List K) := t12.1
                                  let den_summand : List (List K) := t12.2.1
                                  let num : PyTF.PolyArr K := t12.2.2.1
                                  let den : PyTF.PolyArr K := t12.2.2.2
                                  let t13 ← PyTF.PolyArr.getItem (PyTF.numArray self) row k
                                  let t14 ← PyTF.PolyArr.getItem (PyTF.numArray other) k col
                                  let num_summand ← PyArith.setItem num_summand k (polymul t13 t14)
                                  let t15 ← PyTF.PolyArr.getItem (PyTF.denArray self) row k
                                  let t16 ← PyTF.PolyArr.getItem (PyTF.denArray other) k col
                                  let den_summand ← PyArith.setItem den_summand k (polymul t15 t16)
                                  let t17 ← PyTF.PolyArr.getItem num row col
                                  let t18 ← PyTF.PolyArr.getItem den row col
                                  let t19 ← PyArith.getItem num_summand k
                                  let t20 ← PyArith.getItem den_summand k
                                  let t21 ← Generated.TF.addSiso t17 t18 t19 t20
                                  let num ← PyTF.PolyArr.setItem num row col t21.1
                                  let den ← PyTF.PolyArr.setItem den row col t21.2
                                  pure (num_summand, den_summand, num, den)) : Except Err (List (List K) × List (List K) × PyTF.PolyArr K × PyTF.PolyArr K))) (num_summand, den_summand, num, den) (PyArith.range 0 (PyTF.ninputs self))
                            let num_summand : List (List K) := t22.1
                            let den_summand : List (List K) := t22.2.1
                            let num : PyTF.PolyArr K := t22.2.2.1
                            let den : PyTF.PolyArr K := t22.2.2.2
                            pure (num_summand, den_summand, num, den)) : Except Err (List (List K) × List (List K) × PyTF.PolyArr K × PyTF.PolyArr K))) (num_summand, den_summand, num, den) (PyArith.range 0 ninputs)
                      let num_summand : List (List K) := t23.1
                      let den_summand : List (List K) := t23.2.1
                      let num : PyTF.PolyArr K := t23.2.2.1
                      let den : PyTF.PolyArr K := t23.2.2.2
                      pure (num_summand, den_summand, num, den)) : Except Err (List (List K) × List (List K) × PyTF.PolyArr K × PyTF.PolyArr K))) (num_summand, den_summand, num, den) (PyArith.range 0 noutputs)
                let num_summand : List (List K) := t24.1
                let den_summand : List (List K) := t24.2.1
                let num : PyTF.PolyArr K := t24.2.2.1
                let den : PyTF.PolyArr K := t24.2.2.2
                PyTF.mkTF num den dt)))
      | other@(.ss _ _) =>
        (.error Err.notImplemented)
      | .scalar other =>
        (.error Err.notImplemented)
      | other@(.array _ _ _) =>
        (.error Err.notImplemented)
      | other@(.foreign) =>
        (.error Err.notImplemented)))

end CtrlVerif.Generated.TF
