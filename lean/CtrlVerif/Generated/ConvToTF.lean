-- GENERATED on every run by harness/core/py2lean_conv.py from control/statesp.py, control/xferfcn.py (_convert_to_transfer_function 1cb306d35386100c).  Do not edit.
import CtrlVerif.Model.PyConv

namespace CtrlVerif.Generated.Conv

open CtrlVerif

variable {K : Type} [Field K] [DecidableEq K]

/-- `control/xferfcn.py:_convert_to_transfer_function` as the source text says it (sha256 of the function text
1cb306d35386100c869534f23e27c925802744334cebfca1f2fdf1f85270f6e2).
Defaults: inputs=1, outputs=1, use_prefix_suffix=False. -/
def convertToTransferFunction (ss2tf : PMat K → PMat K → PMat K → PMat K → Nat → Except Err (List (List K) × List K)) (sys : PyConv.Opd K) (inputs : Nat) (outputs : Nat) (use_prefix_suffix : Bool) : Except Err (PyConv.TFObj K) :=
  match sys with
  | .ss sys =>
    do
      let (den, num) ← (if 0 = (PyConv.SSO.nstates sys) then
        do
          let t3 ← (List.range (PyConv.SSO.noutputs sys)).mapM fun (i : Nat) => (do
              let t2 ← (List.range (PyConv.SSO.ninputs sys)).mapM fun (j : Nat) => (do
                  let t1 ← PyConv.matGet (PyConv.SSO.D sys) i j
                  pure [t1]
                : Except Err (List K))
              pure t2
            : Except Err (List (List K)))
          let num : List (List (List K)) := t3
          let den : List (List (List K)) := ((List.range (PyConv.SSO.noutputs sys)).map fun (i : Nat) => ((List.range (PyConv.SSO.ninputs sys)).map fun (j : Nat) => [(1 : K)]))
          pure (den, num)
      else
        do
          let num : List (List (List K)) := ((List.range (PyConv.SSO.noutputs sys)).map fun (i : Nat) => ((List.range (PyConv.SSO.ninputs sys)).map fun (j : Nat) => ([] : List K)))
          let den : List (List (List K)) := ((List.range (PyConv.SSO.noutputs sys)).map fun (i : Nat) => ((List.range (PyConv.SSO.ninputs sys)).map fun (j : Nat) => ([] : List K)))
          let (den, num) ← List.foldlM (fun (st : (List (List (List K))) × (List (List (List K)))) (j : Nat) => (do
              let (den, num) := st
              let t4 ← ss2tf (PyConv.SSO.A sys) (PyConv.SSO.B sys) (PyConv.SSO.C sys) (PyConv.SSO.D sys) j
              let (num_j, den_j) := t4
              let (den, num) ← List.foldlM (fun (st : (List (List (List K))) × (List (List (List K)))) (i : Nat) => (do
                  let (den, num) := st
                  let t5 ← PyConv.getNat num_j i
                  let num ← PyConv.set2 num i j t5
                  let den ← PyConv.set2 den i j den_j
                  pure (den, num)
                : Except Err ((List (List (List K))) × (List (List (List K)))))) (den, num) (List.range (PyConv.SSO.noutputs sys))
              pure (den, num)
            : Except Err ((List (List (List K))) × (List (List (List K)))))) (den, num) (List.range (PyConv.SSO.ninputs sys))
          pure (den, num)
        : Except Err ((List (List (List K))) × (List (List (List K)))))
      let t6 ← PyConv.mkTF num den (some (PyConv.SSO.dt sys))
      let newsys : PyConv.TFObj K := t6
      let newsys ← (if use_prefix_suffix = true then
        do
          let newsys ← PyConv.TFObj.copyNames newsys sys.names (some "converted")
          pure newsys
      else
        pure newsys
        : Except Err ((PyConv.TFObj K)))
      pure newsys
  | .tf sys =>
    pure sys
  | .frd =>
    throw Err.notImplemented
  | .scalar sys =>
    do
      let num : List (List (List K)) := ((List.range outputs).map fun (i : Nat) => ((List.range inputs).map fun (j : Nat) => [sys]))
      let den : List (List (List K)) := ((List.range outputs).map fun (i : Nat) => ((List.range inputs).map fun (j : Nat) => [(1 : K)]))
      let t7 ← PyConv.mkTF num den none
      pure t7
  | .array sys =>
    match (do
        let D : PMat K := sys
        let (outputs, inputs) := (PyConv.matShape D)
        let t10 ← (List.range outputs).mapM fun (i : Nat) => (do
            let t9 ← (List.range inputs).mapM fun (j : Nat) => (do
                let t8 ← PyConv.matGet D i j
                pure [t8]
              : Except Err (List K))
            pure t9
          : Except Err (List (List K)))
        let num : List (List (List K)) := t10
        let den : List (List (List K)) := ((List.range outputs).map fun (i : Nat) => ((List.range inputs).map fun (j : Nat) => [(1 : K)]))
        let t11 ← PyConv.mkTF num den none
        pure t11
      : Except Err (PyConv.TFObj K)) with
    | .ok v => pure v
    | .error _ =>
      throw Err.notImplemented
  | .foreign =>
    match (do
        let t12 ← (PyConv.foreign2d : Except Err (PMat K))
        let D : PMat K := t12
        let (outputs, inputs) := (PyConv.matShape D)
        let t15 ← (List.range outputs).mapM fun (i : Nat) => (do
            let t14 ← (List.range inputs).mapM fun (j : Nat) => (do
                let t13 ← PyConv.matGet D i j
                pure [t13]
              : Except Err (List K))
            pure t14
          : Except Err (List (List K)))
        let num : List (List (List K)) := t15
        let den : List (List (List K)) := ((List.range outputs).map fun (i : Nat) => ((List.range inputs).map fun (j : Nat) => [(1 : K)]))
        let t16 ← PyConv.mkTF num den none
        pure t16
      : Except Err (PyConv.TFObj K)) with
    | .ok v => pure v
    | .error _ =>
      throw Err.notImplemented

end CtrlVerif.Generated.Conv
