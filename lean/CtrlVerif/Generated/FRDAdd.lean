-- GENERATED on every run by harness/core/py2lean_frd.py from control/frdata.py (__add__ bd903c0cd9f5eddd, __radd__ 593f7adfea9a4dcc, __sub__ cad677fbcb742325, __rsub__ 2251ecfcd556fece).  Do not edit.
import CtrlVerif.Model.PyFRD
import CtrlVerif.Generated.FRDMul

namespace CtrlVerif.Generated

open CtrlVerif

noncomputable section

variable {K : Type} [Field K] [DecidableEq K]

/-- the part of `__add__` after `other = _convert_to_frd(other, ...)` (the same text for the operand kinds frd, scalar, array, lti). -/
def frdAddCore (E : Env K) (self : PyFRD K) (other : PyFRD K) : Except Err (PyFRD K) :=
  do
    let (other, self) ← (do
      if ((PyFRD.issiso self = true) ∧ (¬ (PyFRD.issiso other = true))) then
        let self ← frdRmul E self (PyOpd.ofMat (PMat.ones (PyFRD.noutputs other) (PyFRD.ninputs other)))
        pure (other, self)
      else
        let other ← (do
          if ((¬ (PyFRD.issiso self = true)) ∧ (PyFRD.issiso other = true)) then
            let other ← frdRmul E other (PyOpd.ofMat (PMat.ones (PyFRD.noutputs self) (PyFRD.ninputs self)))
            pure other
          else
            pure other
          : Except Err (PyFRD K))
        pure (other, self)
      : Except Err (PyFRD K × PyFRD K))
    if ((PyFRD.ninputs self) ≠ (PyFRD.ninputs other)) then
      throw Err.shape
    else
      if ((PyFRD.noutputs self) ≠ (PyFRD.noutputs other)) then
        throw Err.shape
      else
        let dt ← common self.dt other.dt
        let t1 ← PArr3.add (PyFRD.frdata self) (PyFRD.frdata other)
        PyFRD.ctor t1 (PyFRD.omega other) dt false

/-- `control/frdata.py:FrequencyResponseData.__add__` as the source text says it (sha256 of the function text
bd903c0cd9f5eddd754d8ec98dc9c7c0ad8b09218327702c01a9ff46e322f286).
Defaults: none.
  note: every kind: `if isinstance(other, FRD): warn(...)` has no effect on values and is dropped -/
def frdAdd (E : Env K) (self : PyFRD K) (other : PyOpd K) : Except Err (PyFRD K) :=
  match other with
  | .frd other => do
    let other ← convertToFrd E (PyOpd.frd other) (PyFRD.omega self) (1 : Nat) (1 : Nat)
    frdAddCore E self other
  | .scalar other => do
    let other ← convertToFrd E (PyOpd.scalar other) (PyFRD.omega self) (PyFRD.ninputs self) (PyFRD.noutputs self)
    frdAddCore E self other
  | .array other_r other_c other_M => do
    let other : PMat K := ⟨other_r, other_c, other_M⟩
    let other ← convertToFrd E (PyOpd.ofMat other) (PyFRD.omega self) (1 : Nat) (1 : Nat)
    frdAddCore E self other
  | .lti other => do
    let other ← convertToFrd E (PyOpd.lti other) (PyFRD.omega self) (1 : Nat) (1 : Nat)
    frdAddCore E self other

/-- `control/frdata.py:FrequencyResponseData.__radd__` as the source text says it (sha256 of the function text
593f7adfea9a4dccbb9585c329485b715f42b167b7c175b7203b6343d1deaeba).
Defaults: none. -/
def frdRadd (E : Env K) (self : PyFRD K) (other : PyOpd K) : Except Err (PyFRD K) :=
  match other with
  | .frd other => do
    frdAdd E self (PyOpd.frd other)
  | .scalar other => do
    frdAdd E self (PyOpd.scalar other)
  | .array other_r other_c other_M => do
    let other : PMat K := ⟨other_r, other_c, other_M⟩
    frdAdd E self (PyOpd.ofMat other)
  | .lti other => do
    frdAdd E self (PyOpd.lti other)

/-- `control/frdata.py:FrequencyResponseData.__sub__` as the source text says it (sha256 of the function text
cad677fbcb742325a6b0be980a56454beec1e63494eb9af3b5dc782e55a965b3).
Defaults: none. -/
def frdSub (E : Env K) (self : PyFRD K) (other : PyOpd K) : Except Err (PyFRD K) :=
  match other with
  | .frd other => do
    let t1 ← frdNeg other
    frdAdd E self (PyOpd.frd t1)
  | .scalar other => do
    frdAdd E self (PyOpd.scalar (-other))
  | .array other_r other_c other_M => do
    let other : PMat K := ⟨other_r, other_c, other_M⟩
    frdAdd E self (PyOpd.ofMat (PMat.neg other))
  | .lti other => do
    frdAdd E self (PyOpd.lti (LTI.neg other))

/-- `control/frdata.py:FrequencyResponseData.__rsub__` as the source text says it (sha256 of the function text
2251ecfcd556fece0f8f46041b0786e80ca9dcaa23cfeb44522b0320c64d1c69).
Defaults: none. -/
def frdRsub (E : Env K) (self : PyFRD K) (other : PyOpd K) : Except Err (PyFRD K) :=
  match other with
  | .frd other => do
    let t1 ← frdNeg self
    frdAdd E other (PyOpd.frd t1)
  | .scalar other => do
    let t1 ← frdNeg self
    frdRadd E t1 (PyOpd.scalar other)
  | .array other_r other_c other_M => do
    let other : PMat K := ⟨other_r, other_c, other_M⟩
    let t1 ← frdNeg self
    frdRadd E t1 (PyOpd.ofMat other)
  | .lti other => do
    let t1 ← frdNeg self
    frdRadd E t1 (PyOpd.lti other)

end

end CtrlVerif.Generated
