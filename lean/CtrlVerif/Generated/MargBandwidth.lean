-- GENERATED on every run by harness/core/py2lean_marg.py from control/lti.py:LTI.bandwidth (sha256 ac9bb663b4da0697bb14674b55923a6cd49951ab87a46c122c59aee305f13951).  Do not edit.
import CtrlVerif.Model.PyMarg

namespace CtrlVerif.Generated

open CtrlVerif CtrlVerif.Margins

/-- `control/lti.py:LTI.bandwidth` as the source text says it (sha256 of the function text
ac9bb663b4da0697bb14674b55923a6cd49951ab87a46c122c59aee305f13951).
`siso` is `self.issiso()`, `dcgain0` is `self.dcgain()`, `omega0` is `_default_frequency_range(self)`,
`freqResp` is `self.frequency_response`, `dtime` is `self.isdtime(strict=True)`, `dt0` is `self.dt`, `sysEval` is
`self(·)`, `rootScalar m f a b` is `scipy.optimize.root_scalar(f, bracket=[a, b], method=m)` as the pair
(`.converged`, `.root`). -/
def ltiBandwidth {K : Type} [Field K] [LinearOrder K] (P : PyMarg.Prims K) (sysEval : Cx K → Option (Cx K)) (siso : Bool) (dtime : Bool) (dcgain0 : PyMarg.XF K) (omega0 : List K) (freqResp : List K → List (PyMarg.XF K) × List K × List K) (dt0 : K) (rootScalar : String → (K → PyMarg.XF K) → K → K → Bool × K) (dbdrop : K) :
    Except Err (PyMarg.XF K) :=
  (if (¬ (siso = true)) then
      (.error Err.notImplemented)
    else
      (if ((¬ (true = true)) ∨ ((0 : K) ≤ dbdrop)) then
          (.error Err.badArg)
        else
          (do
            let dcgain : PyMarg.XF K := dcgain0
            (if ((PyMarg.XF.isInf dcgain) = true) then
                (pure PyMarg.XF.nan)
              else
                (do
                  let omega : List K := omega0
                  let t1 : (List (PyMarg.XF K) × List K × List K) := (freqResp omega)
                  let mag : List (PyMarg.XF K) := t1.1
                  let phase : List K := t1.2.1
                  let omega : List K := t1.2.2
                  let idx_dropped : List Nat := (PyMarg.whereTrue (List.map (fun x => PyMarg.XF.lt x (PyMarg.XF.fin (0 : K))) (List.map (fun x => (PyMarg.XF.sub x (PyMarg.XF.mul (PyMarg.XF.abs dcgain) (PyMarg.XF.fin (P.pow10 (dbdrop / (20 : K))))))) mag)))
                  (if (((List.length idx_dropped : Nat) : Int) = 0) then
                      (pure PyMarg.XF.pinf)
                    else
                      (do
                        let t2 ← ((if (dtime = true) then
                            (do
                              let u_gain' : (K → PyMarg.XF K) := (fun (w : K) => (PyMarg.rabs P.cabs (sysEval (P.expj (w * dt0)))))
                              pure (u_gain'))
                          else
                            (do
                              let u_gain' : (K → PyMarg.XF K) := (fun (w : K) => (PyMarg.rabs P.cabs (sysEval (Margins.jw w))))
                              pure (u_gain'))) : Except Err ((K → PyMarg.XF K)))
                        let u_gain' : (K → PyMarg.XF K) := t2
                        let t3 ← PyMarg.first idx_dropped
                        let t4 ← PyArith.getItem omega (((t3 : Nat) : Int) - 1)
                        let t5 ← PyMarg.first idx_dropped
                        let t6 ← PyArith.getItem omega ((t5 : Nat) : Int)
                        let result : (Bool × K) := (rootScalar "bisect" (fun (w : K) => (PyMarg.XF.sub (u_gain' w) (PyMarg.XF.mul (PyMarg.XF.abs dcgain) (PyMarg.XF.fin (P.pow10 (dbdrop / (20 : K))))))) t4 t6)
                        (if (result.1 = true) then
                            (pure (PyMarg.XF.fin |result.2|))
                          else
                            (.error Err.illPosed)))))))))

end CtrlVerif.Generated
