-- GENERATED on every run by harness/core/py2lean_ss.py from control/statesp.py (__add__ b700ba3542dd1016, __radd__ 4256424eea3dee7e, __sub__ 213343fe00c8fec2, __rsub__ ea0f924e649b0ada).  Do not edit.
import CtrlVerif.Model.PyMat
import CtrlVerif.Generated.SSMul

namespace CtrlVerif.Generated

open CtrlVerif

noncomputable section

variable {K : Type} [Field K] [DecidableEq K]

/-- `control/statesp.py:StateSpace.__add__` as the source text says it (sha256 of the function text
b700ba3542dd1016ddd4d29441b32d6394281c8e636f96188d385a203b38be23).
Defaults: none. -/
def ssAdd (self : DSS K) (other : SOperand K) : Except Err (DSS K) :=
  match other with
  | .scalar other => do
    let A : PMat K := (PySS.A self)
    let B : PMat K := (PySS.B self)
    let C : PMat K := (PySS.C self)
    let D : PMat K := (PMat.addNum (PySS.D self) other)
    let dt : Dt := self.dt
    PySS.mk A B C D dt
  | .array other_r other_c other_M => do
    let other : PMat K := ⟨other_r, other_c, other_M⟩
    let other : PMat K := (PMat.atleast2d other)
    let self ← (do
      if (PySS.issiso self = true) then
        let self ← ssRmul self (PMat.toOperand (PMat.onesLike other))
        pure self
      else
        pure self
      : Except Err (DSS K))
    if (self.p ≠ other.r ∨ self.m ≠ other.c) then
      throw Err.shape
    else
      let A : PMat K := (PySS.A self)
      let B : PMat K := (PySS.B self)
      let C : PMat K := (PySS.C self)
      let D ← PMat.add (PySS.D self) other
      let dt : Dt := self.dt
      PySS.mk A B C D dt
  | .sys other => do
    let (other, self) ← (do
      if ((PySS.issiso self = true) ∧ (¬ (PySS.issiso other = true))) then
        let self ← ssRmul self (PMat.toOperand (PMat.ones other.p other.m))
        pure (other, self)
      else
        let other ← (do
          if ((¬ (PySS.issiso self = true)) ∧ (PySS.issiso other = true)) then
            let other ← ssRmul other (PMat.toOperand (PMat.ones self.p self.m))
            pure other
          else
            pure other
          : Except Err (DSS K))
        pure (other, self)
      : Except Err (DSS K × DSS K))
    if ((self.m ≠ other.m) ∨ (self.p ≠ other.p)) then
      throw Err.shape
    else
      let dt ← common self.dt other.dt
      let t1 ← PMat.hcat (PySS.A self) (PMat.zeros (PySS.A self).r (PySS.A other).c)
      let t2 ← PMat.hcat (PMat.zeros (PySS.A other).r (PySS.A self).c) (PySS.A other)
      let A ← PMat.vcat t1 t2
      let B ← PMat.vcat (PySS.B self) (PySS.B other)
      let C ← PMat.hcat (PySS.C self) (PySS.C other)
      let D ← PMat.add (PySS.D self) (PySS.D other)
      PySS.mk A B C D dt

/-- `control/statesp.py:StateSpace.__radd__` as the source text says it (sha256 of the function text
4256424eea3dee7ef734b6fe623db187c2eeb32fc901add1c15f1dd4d27cd6df).
Defaults: none. -/
def ssRadd (self : DSS K) (other : SOperand K) : Except Err (DSS K) :=
  match other with
  | .scalar other => do
    ssAdd self (SOperand.scalar other)
  | .array other_r other_c other_M => do
    let other : PMat K := ⟨other_r, other_c, other_M⟩
    ssAdd self (PMat.toOperand other)
  | .sys other => do
    ssAdd self (SOperand.sys other)

/-- `control/statesp.py:StateSpace.__sub__` as the source text says it (sha256 of the function text
213343fe00c8fec21ed412477bed55c4ce9414ac194d73ac0966988a981cca45).
Defaults: none. -/
def ssSub (self : DSS K) (other : SOperand K) : Except Err (DSS K) :=
  match other with
  | .scalar other => do
    ssAdd self (SOperand.scalar (-other))
  | .array other_r other_c other_M => do
    let other : PMat K := ⟨other_r, other_c, other_M⟩
    ssAdd self (PMat.toOperand (PMat.neg other))
  | .sys other => do
    let t1 ← ssNeg other
    ssAdd self (SOperand.sys t1)

/-- `control/statesp.py:StateSpace.__rsub__` as the source text says it (sha256 of the function text
ea0f924e649b0ada27aa457bde53f53e4aa620f9c343e864c67974476c68a9bb).
Defaults: none. -/
def ssRsub (self : DSS K) (other : SOperand K) : Except Err (DSS K) :=
  match other with
  | .scalar other => do
    let t1 ← ssNeg self
    ssRadd t1 (SOperand.scalar other)
  | .array other_r other_c other_M => do
    let other : PMat K := ⟨other_r, other_c, other_M⟩
    let t1 ← ssNeg self
    ssRadd t1 (PMat.toOperand other)
  | .sys other => do
    let t1 ← ssNeg self
    ssAdd other (SOperand.sys t1)

end

end CtrlVerif.Generated
