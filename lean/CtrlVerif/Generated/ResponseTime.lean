-- GENERATED on every run by harness/core/py2lean_getitem.py from the source text in /repo (sha256 of each function below).  Do not edit.
import CtrlVerif.Model.PyResp
import CtrlVerif.Generated.ProcessResponse

namespace CtrlVerif.Generated

open CtrlVerif

/-- `TimeResponseData.time` (control/timeresp.py, sha256 638f2003c6f6c6c9) as the source text says it; `cfg` holds the package defaults.
-/
def trdTime {α : Type} (cfg : Cfg) (self : PyResp.TRObj α) : Except Err (NDArr α) := do
  return self.core.t

/-- `TimeResponseData.outputs` (control/timeresp.py, sha256 4f87fea6f37d38ad) as the source text says it; `cfg` holds the package defaults.
-/
def trdOutputs {α : Type} (cfg : Cfg) (self : PyResp.TRObj α) : Except Err (NamedSignal α) := do
  let mut y := (← Generated.processTimeResponse self.core.y self.core.issiso self.core.transpose self.core.squeeze cfg.sqTime)
  return NamedSignal.mk y self.output_labels self.input_labels

/-- `TimeResponseData.states` (control/timeresp.py, sha256 0119b37efe3922ab) as the source text says it; `cfg` holds the package defaults.
-/
def trdStates {α : Type} (cfg : Cfg) (self : PyResp.TRObj α) : Except Err (Option (NamedSignal α)) := do
  match self.core.x with
  | none => do
      return none
  | some self_x => do
      let mut squeeze := self.core.squeeze
      if decide (squeeze = Sq.none) then
        squeeze := cfg.sqTime
      let mut x := self_x
      if (self.core.issiso && ((decide ((self.core.ntraces : Int) = (1 : Int))) && ((decide ((NDArr.ndim x : Int) = (3 : Int))) && (decide (squeeze = Sq.none))))) then
        x := (← NDArr.dropTrace x)
      x := (← Generated.processTimeResponse x false self.core.transpose squeeze cfg.sqTime)
      return some (NamedSignal.mk x self.state_labels self.input_labels)

/-- `TimeResponseData.inputs` (control/timeresp.py, sha256 aa48b42f6800b08c) as the source text says it; `cfg` holds the package defaults.
-/
def trdInputs {α : Type} (cfg : Cfg) (self : PyResp.TRObj α) : Except Err (Option (NamedSignal α)) := do
  match self.core.u with
  | none => do
      return none
  | some self_u => do
      let mut u := (← Generated.processTimeResponse self_u self.core.issiso self.core.transpose self.core.squeeze cfg.sqTime)
      return some (NamedSignal.mk u self.input_labels self.input_labels)

/-- `TimeResponseData._legacy_states` (control/timeresp.py, sha256 cd59cdfb26a32fc9) as the source text says it; `cfg` holds the package defaults.
-/
def trdLegacyStates {α : Type} (cfg : Cfg) (self : PyResp.TRObj α) : Except Err (Option (NDArr α)) := do
  match self.core.x with
  | none => do
      return none
  | some self_x => do
      let mut x : NDArr α := ⟨[], []⟩
      if ((decide ((self.core.ninputs : Int) = (1 : Int))) && ((decide ((self.core.noutputs : Int) = (1 : Int))) && ((decide ((self.core.ntraces : Int) = (1 : Int))) && (decide ((NDArr.ndim self_x : Int) = (3 : Int)))))) then
        x := (← NDArr.dropTrace self_x)
      else
        x := self_x
      if self.core.transpose then
        x := (← NDArr.timeFirst x)
      return some x

/-- `TimeResponseData.__iter__` (control/timeresp.py, sha256 a1a2d07f55e717bf) as the source text says it; `cfg` holds the package defaults.
-/
def trdIter {α : Type} (cfg : Cfg) (self : PyResp.TRObj α) : Except Err (List (PyResp.Item α)) := do
  if (!self.core.returnX) then
    return [PyResp.Item.arr (← Generated.trdTime cfg self), PyResp.Item.sig (← Generated.trdOutputs cfg self)]
  return [PyResp.Item.arr (← Generated.trdTime cfg self), PyResp.Item.sig (← Generated.trdOutputs cfg self), PyResp.Item.opt (← Generated.trdLegacyStates cfg self)]

/-- `TimeResponseData.__len__` (control/timeresp.py, sha256 d8e5e15c6caff909) as the source text says it; `cfg` holds the package defaults.
-/
def trdLen {α : Type} (cfg : Cfg) (self : PyResp.TRObj α) : Except Err (Int) := do
  return (if self.core.returnX then (3 : Int) else (2 : Int))

end CtrlVerif.Generated
