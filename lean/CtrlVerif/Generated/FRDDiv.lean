-- GENERATED on every run by harness/core/py2lean_frd.py from control/frdata.py (__truediv__ 42f1fa7519fff311, __rtruediv__ cdc0b50b4f7dbff9).  Do not edit.
import CtrlVerif.Model.PyFRD
import CtrlVerif.Generated.FRDConvert

namespace CtrlVerif.Generated

open CtrlVerif

noncomputable section

variable {K : Type} [Field K] [DecidableEq K]

/-- the part of `__truediv__` after `other = _convert_to_frd(other, ...)` (the same text for the operand kinds frd, array, lti). -/
def frdTruedivCore (E : Env K) (self : PyFRD K) (other : PyFRD K) : Except Err (PyFRD K) :=
  do
    if (((PyFRD.ninputs other) > (1 : Nat)) ∨ ((PyFRD.noutputs other) > (1 : Nat))) then
      throw Err.notImplemented
    else
      let dt ← common self.dt other.dt
      let t1 ← PArr3.div (PyFRD.frdata self) (PyFRD.frdata other)
      PyFRD.ctor t1 (PyFRD.omega self) dt ((PyFRD.smooth self) && (PyFRD.smooth other))

/-- `control/frdata.py:FrequencyResponseData.__truediv__` as the source text says it (sha256 of the function text
42f1fa7519fff3112fa8b5716b2526228fdeafd4afbbbeb5fd3f41b3775b99e6).
Defaults: none. -/
def frdTruediv (E : Env K) (self : PyFRD K) (other : PyOpd K) : Except Err (PyFRD K) :=
  match other with
  | .frd other => do
    let other ← convertToFrd E (PyOpd.frd other) (PyFRD.omega self) (1 : Nat) (1 : Nat)
    frdTruedivCore E self other
  | .scalar other => do
    let t1 ← PyNum.div ((1 : Int) : K) other
    PyFRD.ctor (PArr3.mulNum (PyFRD.frdata self) t1) (PyFRD.omega self) self.dt (PyFRD.smooth self)
  | .array other_r other_c other_M => do
    let other : PMat K := ⟨other_r, other_c, other_M⟩
    let other ← convertToFrd E (PyOpd.ofMat other) (PyFRD.omega self) (1 : Nat) (1 : Nat)
    frdTruedivCore E self other
  | .lti other => do
    let other ← convertToFrd E (PyOpd.lti other) (PyFRD.omega self) (1 : Nat) (1 : Nat)
    frdTruedivCore E self other

/-- `control/frdata.py:FrequencyResponseData.__rtruediv__` as the source text says it (sha256 of the function text
cdc0b50b4f7dbff98373ae5168554c09b5d938654dce7e29fcd2ef6285a769f9).
Defaults: none. -/
def frdRtruediv (E : Env K) (self : PyFRD K) (other : PyOpd K) : Except Err (PyFRD K) :=
  match other with
  | .frd other => do
    if (((PyFRD.ninputs self) > (1 : Nat)) ∨ ((PyFRD.noutputs self) > (1 : Nat))) then
      throw Err.notImplemented
    else
      let other ← convertToFrd E (PyOpd.frd other) (PyFRD.omega self) (1 : Nat) (1 : Nat)
      frdTruediv E other (PyOpd.frd self)
  | .scalar other => do
    if (((PyFRD.ninputs self) > (1 : Nat)) ∨ ((PyFRD.noutputs self) > (1 : Nat))) then
      throw Err.notImplemented
    else
      let t1 ← PArr3.rdivNum other (PyFRD.frdata self)
      PyFRD.ctor t1 (PyFRD.omega self) self.dt (PyFRD.smooth self)
  | .array other_r other_c other_M => do
    let other : PMat K := ⟨other_r, other_c, other_M⟩
    if (((PyFRD.ninputs self) > (1 : Nat)) ∨ ((PyFRD.noutputs self) > (1 : Nat))) then
      throw Err.notImplemented
    else
      let other ← convertToFrd E (PyOpd.ofMat other) (PyFRD.omega self) (1 : Nat) (1 : Nat)
      frdTruediv E other (PyOpd.frd self)
  | .lti other => do
    if (((PyFRD.ninputs self) > (1 : Nat)) ∨ ((PyFRD.noutputs self) > (1 : Nat))) then
      throw Err.notImplemented
    else
      let other ← convertToFrd E (PyOpd.lti other) (PyFRD.omega self) (1 : Nat) (1 : Nat)
      frdTruediv E other (PyOpd.frd self)

end

end CtrlVerif.Generated
