-- GENERATED on every run by harness/core/py2lean_cca.py from control/timeresp.py (_check_convert_array dce1ddd64c90bc70).  Do not edit.
import CtrlVerif.Model.PyCCA

namespace CtrlVerif.Generated.CCA

open CtrlVerif

variable {α : Type}

/-- loop `for s_legal in legal_shapes:` re-binding `out_array`. -/
def loop1 : List PyCCA.LegalShape → PyCCA.Arr α → Except Err (PyCCA.Arr α)
  | [], out_array => pure out_array
  | s_legal :: rest, out_array =>
    if PyCCA.anyIn s_legal then
      loop1 rest out_array
    else do
      let the_val ← PyCCA.item out_array
      let out_array ← PyCCA.full s_legal the_val
      pure out_array

/-- loop `for n_legal, n_actual in zip s_legal s_actual:` of `shape_matches`. -/
def shapeMatchesLoop : List (PyCCA.Dim × Nat) → Bool
  | [] => true
  | (n_legal, n_actual) :: rest =>
    if PyCCA.isAny n_legal then
      shapeMatchesLoop rest
    else
      if PyCCA.dimNe n_legal n_actual then
        false
      else
        shapeMatchesLoop rest

/-- nested function `shape_matches`. -/
def shapeMatches (s_legal : PyCCA.LegalShape) (s_actual : List Nat) : Bool :=
  if s_legal.length != s_actual.length then
    false
  else
    shapeMatchesLoop (List.zip s_legal s_actual)

/-- loop `for s_legal in legal_shapes: … else: raise`. -/
def loop2 : List PyCCA.LegalShape → PyCCA.Arr α → Except Err Unit
  | [], _ => .error Err.badArg
  | s_legal :: rest, out_array =>
    if shapeMatches s_legal out_array.shape then
      pure ()
    else
      loop2 rest out_array

/-- `control/timeresp.py:_check_convert_array` as the source text says it (sha256 of the function text
dce1ddd64c90bc70a39c5a72c3161913a23423bb296b24d28a1150310331ef5c).
Defaults: squeeze=False, transpose=False; `err_msg_start` (message text only) dropped. -/
def checkConvertArray (in_obj : PyCCA.Arr α) (legal_shapes : List PyCCA.LegalShape)
    (squeeze : Bool) (transpose : Bool) : Except Err (PyCCA.Arr α) := do
  let out_array := PyCCA.asarray in_obj
  let out_array := if transpose then PyCCA.transpose out_array else out_array
  let legal_kinds := [PyCCA.Kind.i, PyCCA.Kind.f, PyCCA.Kind.c]
  if !(legal_kinds.contains out_array.kind) then
    .error Err.badArg
  else do
    let out_array ← (if PyCCA.ndim out_array == 0 then loop1 legal_shapes out_array else pure out_array)
    loop2 legal_shapes out_array
    let out_array ← (if squeeze then do
        let out_array := PyCCA.squeeze out_array
        let out_array ← (if out_array.shape == [] then PyCCA.reshape out_array [1] else pure out_array)
        pure out_array
      else pure out_array)
    pure out_array

end CtrlVerif.Generated.CCA
