-- GENERATED on every run by harness/core/py2lean_nl.py from control/nlsys.py (nlOpUnpack 52523cd3c5004dc8).  Do not edit.
import CtrlVerif.Model.PyNL

namespace CtrlVerif.Generated

open CtrlVerif

variable {K : Type} [Field K] [DecidableEq K]

/-- block `nlOpUnpack` of `control/nlsys.py` as the source text says it (sha256 of the text of the translated
statements 52523cd3c5004dc8618b3a3a152eaf731e2e49d05157f6de0351eff56265a5ad).
  note: returns z -/
def nlOpUnpack (rhs out : K → List K → List K → Except Err (List K)) (t : K)
    (state_vars input_vars output_vars deriv_vars : List Int) (x u dx0 : List K) (nstate_vars : Int) (result_x : List K) :
    Except Err (List K × List K × List K) :=
  do
    let x ← PyNL.scatter x state_vars (PyNL.sliceTo result_x nstate_vars)
    let u ← PyNL.scatter u input_vars (PyNL.sliceFrom result_x nstate_vars)
    let t1 ← out t x u
    pure (x, u, t1)

end CtrlVerif.Generated
