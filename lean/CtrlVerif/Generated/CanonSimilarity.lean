-- GENERATED on every run by harness/core/py2lean_canon.py from control/canonical.py (similarity_transform f067cf442c390df6).  Do not edit.
import CtrlVerif.Model.PyCanon

namespace CtrlVerif.Generated

open CtrlVerif

noncomputable section

variable {K : Type} [Field K] [DecidableEq K]

/-- `control/canonical.py:similarity_transform` as the source text says it (sha256 of the function text
f067cf442c390df6cb8c7082d237d28d134c8c53f8d35d6a69d27f8e7c5a5ca9).
Defaults: inverse=False, timescale=1. -/
def similarityTransform (xsys : DSS K) (T : PMat K) (timescale : K) (inverse : Bool) : Except Err (DSS K) :=
  do
    let zsys_A : PMat K := (PySS.A xsys)
    let zsys_B : PMat K := (PySS.B xsys)
    let zsys_C : PMat K := (PySS.C xsys)
    let zsys_D : PMat K := (PySS.D xsys)
    let zsys_dt : Dt := xsys.dt
    let T : PMat K := (PMat.atleast2d T)
    let (zsys_A, zsys_B, zsys_C) ← (do
      if (¬ (inverse = true)) then
        let t1 ← PMat.matmul T zsys_A
        let t2 ← PMat.solve (PMat.T T) (PMat.T t1)
        let zsys_A ← PyCanon.divNum (PMat.T t2) timescale
        let t3 ← PMat.matmul T zsys_B
        let zsys_B ← PyCanon.divNum t3 timescale
        let t4 ← PMat.solve (PMat.T T) (PMat.T zsys_C)
        let zsys_C : PMat K := (PMat.T t4)
        pure (zsys_A, zsys_B, zsys_C)
      else
        let t5 ← PMat.solve T zsys_A
        let t6 ← PMat.matmul t5 T
        let zsys_A ← PyCanon.divNum t6 timescale
        let t7 ← PMat.solve T zsys_B
        let zsys_B ← PyCanon.divNum t7 timescale
        let zsys_C ← PMat.matmul zsys_C T
        pure (zsys_A, zsys_B, zsys_C)
      : Except Err (PMat K × PMat K × PMat K))
    PySS.mk zsys_A zsys_B zsys_C zsys_D zsys_dt

end

end CtrlVerif.Generated
