-- GENERATED on every run by harness/core/py2lean_ss.py from control/statesp.py (__mul__ 816d5cf4106f6971, __rmul__ 5c62842598f112d8).  Do not edit.
import CtrlVerif.Model.PyMat
import CtrlVerif.Generated.SSBasic

namespace CtrlVerif.Generated

open CtrlVerif

noncomputable section

variable {K : Type} [Field K] [DecidableEq K]

/-- `control/statesp.py:StateSpace.__mul__` as the source text says it (sha256 of the function text
816d5cf4106f6971808713f1e595052504772962479e16cb7bb6ba08e0b7bf72).
Defaults: none. -/
def ssMul (self : DSS K) (other : SOperand K) : Except Err (DSS K) :=
  match other with
  | .scalar other => do
    let A : PMat K := (PySS.A self)
    let C : PMat K := (PySS.C self)
    let B : PMat K := (PMat.mulNum (PySS.B self) other)
    let D : PMat K := (PMat.mulNum (PySS.D self) other)
    let dt : Dt := self.dt
    PySS.mk A B C D dt
  | .array other_r other_c other_M => do
    let other : PMat K := ⟨other_r, other_c, other_M⟩
    let other : PMat K := (PMat.atleast2d other)
    let self ← (do
      if (PySS.issiso self = true) then
        let self ← PySS.appendCopies ssAppend self other.r
        pure self
      else
        pure self
      : Except Err (DSS K))
    if (self.m ≠ other.r) then
      throw Err.shape
    else
      let A : PMat K := (PySS.A self)
      let C : PMat K := (PySS.C self)
      let B ← PMat.matmul (PySS.B self) other
      let D ← PMat.matmul (PySS.D self) other
      let dt : Dt := self.dt
      PySS.mk A B C D dt
  | .sys other => do
    let (other, self) ← (do
      if ((PySS.issiso self = true) ∧ (¬ (PySS.issiso other = true))) then
        let self ← PySS.appendCopies ssAppend self other.p
        pure (other, self)
      else
        let other ← (do
          if ((¬ (PySS.issiso self = true)) ∧ (PySS.issiso other = true)) then
            let other ← PySS.appendCopies ssAppend other self.m
            pure other
          else
            pure other
          : Except Err (DSS K))
        pure (other, self)
      : Except Err (DSS K × DSS K))
    if (self.m ≠ other.p) then
      throw Err.shape
    else
      let dt ← common self.dt other.dt
      let t1 ← PMat.hcat (PySS.A other) (PMat.zeros (PySS.A other).r (PySS.A self).c)
      let t2 ← PMat.matmul (PySS.B self) (PySS.C other)
      let t3 ← PMat.hcat t2 (PySS.A self)
      let A ← PMat.vcat t1 t3
      let t4 ← PMat.matmul (PySS.B self) (PySS.D other)
      let B ← PMat.vcat (PySS.B other) t4
      let t5 ← PMat.matmul (PySS.D self) (PySS.C other)
      let C ← PMat.hcat t5 (PySS.C self)
      let D ← PMat.matmul (PySS.D self) (PySS.D other)
      PySS.mk A B C D dt

/-- `control/statesp.py:StateSpace.__rmul__` as the source text says it (sha256 of the function text
5c62842598f112d8df85005743016d3062aa19e0b9098e6ed2e83d74fe6abfea).
Defaults: none. -/
def ssRmul (self : DSS K) (other : SOperand K) : Except Err (DSS K) :=
  match other with
  | .scalar other => do
    let B : PMat K := (PMat.smul other (PySS.B self))
    let D : PMat K := (PMat.smul other (PySS.D self))
    PySS.mk (PySS.A self) B (PySS.C self) D self.dt
  | .array other_r other_c other_M => do
    let other : PMat K := ⟨other_r, other_c, other_M⟩
    let other : PMat K := (PMat.atleast2d other)
    let self ← (do
      if (PySS.issiso self = true) then
        let self ← PySS.appendCopies ssAppend self other.c
        pure self
      else
        pure self
      : Except Err (DSS K))
    if (self.p ≠ other.c) then
      throw Err.shape
    else
      let C ← PMat.matmul other (PySS.C self)
      let D ← PMat.matmul other (PySS.D self)
      PySS.mk (PySS.A self) (PySS.B self) C D self.dt
  | .sys other => do
    let (other, self) ← (do
      if ((PySS.issiso self = true) ∧ (¬ (PySS.issiso other = true))) then
        let self ← PySS.appendCopies ssAppend self other.m
        pure (other, self)
      else
        let other ← (do
          if ((¬ (PySS.issiso self = true)) ∧ (PySS.issiso other = true)) then
            let other ← PySS.appendCopies ssAppend other self.p
            pure other
          else
            pure other
          : Except Err (DSS K))
        pure (other, self)
      : Except Err (DSS K × DSS K))
    ssMul other (SOperand.sys self)

end

end CtrlVerif.Generated
