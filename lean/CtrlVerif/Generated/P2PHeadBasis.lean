-- GENERATED on every run by harness/core/py2lean_p2phead.py from control/flatsys/flatsys.py (p2pHeadBasis 2a65e540af86b35a, sfoHeadBasis 2a65e540af86b35a).  Do not edit.
import CtrlVerif.Model.PyP2PHead

namespace CtrlVerif.Generated

open CtrlVerif

variable {K : Type} [Field K]

/-- block `p2pHeadBasis` of `control/flatsys/flatsys.py:point_to_point` as the source text says it (sha256 of the text of the translated
statements 2a65e540af86b35a43980f28bcb584ff6b2cbca4dbc473ba14910df16546caed). -/
def p2pHeadBasis (sys_nstates sys_ninputs : Nat) (basis : Option (Basis K)) :
    Except Err (Basis K) :=
  do
    let basis : Basis K := (match basis with | none => (PyHead.polyFamily ((2 : Nat) * (sys_nstates + sys_ninputs))) | some basis => basis)
    let _ ← (if (((PyHead.basisNvars basis).isSome) && (decide ((PyHead.basisNvars basis) ≠ some sys_ninputs))) = true then (do
        throw Err.shape
        : Except Err (Unit)) else (do
        pure ()
        : Except Err (Unit)))
    pure (basis)

/-- block `sfoHeadBasis` of `control/flatsys/flatsys.py:solve_flat_optimal` as the source text says it (sha256 of the text of the translated
statements 2a65e540af86b35a43980f28bcb584ff6b2cbca4dbc473ba14910df16546caed). -/
def sfoHeadBasis (sys_nstates sys_ninputs : Nat) (basis : Option (Basis K)) :
    Except Err (Basis K) :=
  do
    let basis : Basis K := (match basis with | none => (PyHead.polyFamily ((2 : Nat) * (sys_nstates + sys_ninputs))) | some basis => basis)
    let _ ← (if (((PyHead.basisNvars basis).isSome) && (decide ((PyHead.basisNvars basis) ≠ some sys_ninputs))) = true then (do
        throw Err.shape
        : Except Err (Unit)) else (do
        pure ()
        : Except Err (Unit)))
    pure (basis)

end CtrlVerif.Generated
