-- GENERATED on every run by harness/core/py2lean_flat.py from control/flatsys/flatsys.py (_basis_flag_matrix 82a49f1d07f475f5).  Do not edit.
import CtrlVerif.Model.PyFlat
import CtrlVerif.Generated.PolyEvalDeriv
import CtrlVerif.Generated.BezierEvalDeriv
import CtrlVerif.Generated.FlatBasis

namespace CtrlVerif.Generated

open CtrlVerif

noncomputable section

variable {K : Type} [Field K] [DecidableEq K]

variable [LinearOrder K]

/-- `basis.eval_deriv(i, k, t, var=...)`: the method of the class of the basis object - `PolyFamily.eval_deriv`
or `BezierFamily.eval_deriv` as generated from control/flatsys/poly.py / bezier.py (both ignore `var`; `self.T`,
`self.N` are the constructor arguments of the object). -/
def basisEvalDeriv (basis : Basis K) (i : Int) (k : Int) (t : K) : Except Err K :=
  match basis with
  | .poly _ T => polyEvalDeriv T i k t
  | .bezier N T => bezierEvalDeriv (N : Int) T i k t

/-- `control/flatsys/flatsys.py:_basis_flag_matrix` as the source text says it (sha256 of the function text
82a49f1d07f475f58ac27d3ca296650ff1a94fd3eecdbd54186923c31f12e413).
Defaults: none. -/
def basisFlagMatrix (sys_ninputs : Nat) (basis : Basis K) (flag : List (List K)) (t : K) : Except Err (PMat K) :=
  do
    let flagshape : List Int := (List.map (fun (f : List K) => (f.length : Int)) flag)
    let t2 ← List.mapM (fun (i : Int) => ((do
        let t1 ← basisVarNcoefs basis i
        pure (t1 : Int)
        : Except Err Int))) (PyArith.range (0 : Int) (sys_ninputs : Int))
    let M ← PMat.zerosI (List.sum flagshape) (List.sum t2)
    let flag_off : Int := (0 : Int)
    let coef_off : Int := (0 : Int)
    let (M, flag_off, coef_off) ← List.foldlM (fun (t4 : PMat K × Int × Int) (t3 : Int × Int) => ((do
        let i : Int := t3.1
        let flag_len : Int := t3.2
        let M : PMat K := t4.1
        let flag_off : Int := t4.2.1
        let coef_off : Int := t4.2.2
        let coef_len ← basisVarNcoefs basis i
        let M ← List.foldlM (fun (M : PMat K) (t5 : Int × Int) => ((do
            let j : Int := t5.1
            let k : Int := t5.2
            let t6 ← basisEvalDeriv basis j k t
            let M ← PyCanon.setItem M (flag_off + k) (coef_off + j) t6
            pure M
            : Except Err (PMat K)))) M (PyFlat.product (PyArith.range (0 : Int) (coef_len : Int)) (PyArith.range (0 : Int) flag_len))
        let flag_off : Int := (flag_off + flag_len)
        let coef_off : Int := (coef_off + (coef_len : Int))
        pure (M, flag_off, coef_off)
        : Except Err (PMat K × Int × Int)))) (M, flag_off, coef_off) (PyFlat.enumerate flagshape)
    pure M

end

end CtrlVerif.Generated
