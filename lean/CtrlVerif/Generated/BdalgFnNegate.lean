-- GENERATED on every run by harness/core/py2lean_bdalgfn.py from control/bdalg.py (negate eb91b4245352fb1a904b81d7c4409bd4c972298ad11cad4898f5c1ee59bc857a).  Do not edit.
import CtrlVerif.Model.PyBdalg

namespace CtrlVerif.Generated.BdalgFn

open CtrlVerif

/-- `control/bdalg.py:negate` as the source text says it (sha256 of the function text
eb91b4245352fb1a904b81d7c4409bd4c972298ad11cad4898f5c1ee59bc857a).
`w`: what values do not determine (object identity, which model errors are TypeErrors);
a parameter with a default is an `Option` (`none`: not passed). -/
def negate {K : Type} [Field K] [DecidableEq K] (w : PyBdalg.World) (sys : PyBdalg.Val K) (kwargs : PyBdalg.Kw) :
    Except PyBdalg.Exc (PyBdalg.Val K) :=
  (do
    let sys ← PyBdalg.Val.neg sys
    PyBdalg.Val.updateNames sys kwargs
    pure sys)

end CtrlVerif.Generated.BdalgFn
