-- GENERATED on every run by harness/core/py2lean_bdalgfn.py from control/bdalg.py (parallel 33b889d5a32387a2fce8cfed1b21cad70cc7579f5f9a75da47ff1328d1facadf).  Do not edit.
import CtrlVerif.Model.PyBdalg

namespace CtrlVerif.Generated.BdalgFn

open CtrlVerif

/-- `control/bdalg.py:parallel` as the source text says it (sha256 of the function text
33b889d5a32387a2fce8cfed1b21cad70cc7579f5f9a75da47ff1328d1facadf).
`w`: what values do not determine (object identity, which model errors are TypeErrors);
a parameter with a default is an `Option` (`none`: not passed). -/
def parallel {K : Type} [Field K] [DecidableEq K] (w : PyBdalg.World) (sys : List (PyBdalg.Val K)) (kwargs : PyBdalg.Kw) :
    Except PyBdalg.Exc (PyBdalg.Val K) :=
  (do
    let syslist := sys
    let t1 ← PyBdalg.item syslist (0 : Int)
    let sys ← List.foldlM (fun (x y : PyBdalg.Val K) => (PyBdalg.Val.add x y)) t1 (PyBdalg.slice syslist (some (1 : Int)) none)
    let t2 ← PyBdalg.item syslist (0 : Int)
    let sys ← (if (PyBdalg.isObj w sys t2) then
        (do
          let sys := (PyBdalg.deepcopy sys)
          pure sys
        )
      else
        (do
          pure sys
        ) : Except PyBdalg.Exc (PyBdalg.Val K))
    PyBdalg.Val.updateNames sys kwargs
    pure sys)

end CtrlVerif.Generated.BdalgFn
