-- GENERATED on every run by harness/core/py2lean_arith.py from control/margins.py:_poly_z_real_crossing (sha256 3f9ee84af0ae766943f3e92c6870e7b6f24476c6b1d674fbb3eef83a656dae22).  Do not edit.
import CtrlVerif.Model.PyArith
import CtrlVerif.Model.Margins

namespace CtrlVerif.Generated

open CtrlVerif

/-- `control/margins.py:_poly_z_real_crossing` as the source text says it (sha256 of the function text
3f9ee84af0ae766943f3e92c6870e7b6f24476c6b1d674fbb3eef83a656dae22).
Defaults: none.
Translated up to the first call of `np.roots`: the result is its argument, `p2`; the rest of the body is outside this tie. -/
def polyZRealCrossing {K : Type} [Field K] [LinearOrder K] (num : List K) (den : List K) (num_inv_zp : List K) (den_inv_zq : List K) (p_q : Int) :
    Except Err (List K × List K) :=
  (do
    let p1 : List K := (Margins.npmul num den_inv_zq)
    let p2 : List K := (Margins.npmul num_inv_zp den)
    let t1 ← ((if (p_q < 0) then
        (do
          let x : List Int := (([1] : List Int) ++ (List.replicate (Int.toNat (-p_q)) 0))
          let p2 : List K := (Margins.npmul p2 (List.map (fun (c : Int) => (c : K)) x))
          pure (p2))
      else
        (pure (p2))) : Except Err (List K))
    let p2 : List K := t1
    pure ((Margins.npsub p1 p2), p2))

end CtrlVerif.Generated
