-- GENERATED on every run by harness/core/py2lean_meq.py from control/mateqn.py (dare a9d9a83c6a89adc3).  Do not edit.
import CtrlVerif.Model.PyMeq
import CtrlVerif.Generated.MatEqnCheck
import CtrlVerif.Generated.MatEqnMethod

namespace CtrlVerif.Generated

open CtrlVerif MatEqn

variable {K : Type} [Field K] [LinearOrder K] [DecidableEq K]

/-- `control/mateqn.py:dare` as the source text says it (sha256 of the function text
a9d9a83c6a89adc3698d463bf3db721f84c35e1899a441ce51eaf2ab454a97e2).
Defaults: E=None, S=None, _As='A', _Bs='B', _Es='E', _Qs='Q', _Rs='R', _Ss='S', method=None, stabilizing=True.
  note: `w, _ = eig(…)`: the eigenvectors are discarded, `w` are the eigenvalues
  note: `try: from slycot import … except ImportError: raise …`: Slycot is absent, the handler runs; the code after it is dead -/
def dare {L : Type} (Sv : Solvers K) (ev : PyMeq.EigFun K L) (eps : K) (A : DMat K) (B : DMat K) (Q : DMat K) (R : Option (DMat K)) (S : Option (DMat K)) (E : Option (DMat K)) (stabilizing : Bool) (method : PyMeq.Method) (_As : String) (_Bs : String) (_Qs : String) (_Rs : String) (_Ss : String) (_Es : String) : Except Err (PMat K × L × PMat K) := do
  let method ← Generated.slycotOrScipy method
  let A : DMat K := (PyMeq.array2d A)
  let B : DMat K := (PyMeq.array2d B)
  let Q : DMat K := (PyMeq.array2d Q)
  let R : DMat K := (PyMeq.ifNone R (PyMeq.eye eps B.q) fun R => (PyMeq.array2d R))
  let S ← (do
    match S with
    | some S => do
      let S : DMat K := (PyMeq.array2d S)
      pure (some S)
    | none => do
      pure none
    : Except Err (Option (DMat K)))
  let E ← (do
    match E with
    | some E => do
      let E : DMat K := (PyMeq.array2d E)
      pure (some E)
    | none => do
      pure none
    : Except Err (Option (DMat K)))
  let n : Nat := A.p
  let m : Nat := B.q
  let _ ← Generated.checkShape A (n : Int) (n : Int) true false _As
  let _ ← Generated.checkShape B (n : Int) (m : Int) false false _Bs
  let _ ← Generated.checkShape Q (n : Int) (n : Int) true true _Qs
  let _ ← Generated.checkShape R (m : Int) (m : Int) true true _Rs
  let _ ← (do
    match E with
    | some E => do
      let _ ← Generated.checkShape E (n : Int) (n : Int) true false _Es
      pure ()
    | none => do
      pure ()
    : Except Err (Unit))
  let _ ← (do
    match S with
    | some S => do
      let _ ← Generated.checkShape S (n : Int) (m : Int) false false _Ss
      pure ()
    | none => do
      pure ()
    : Except Err (Unit))
  if (method = PyMeq.Backend.scipy) then do
    if (¬ (stabilizing = true)) then do
      throw Err.badArg
    else do
      let X ← PyMeq.solveDiscreteAre Sv (PyMeq.toP A) (PyMeq.toP B) (PyMeq.toP Q) (PyMeq.toP R) (Option.map PyMeq.toP E) (Option.map PyMeq.toP S)
      let G ← (do
        match S with
        | none => do
          let t1 ← PMat.matmul (PMat.T (PyMeq.toP B)) X
          let t2 ← PMat.matmul t1 (PyMeq.toP B)
          let t3 ← PMat.add t2 (PyMeq.toP R)
          let t4 ← PMat.matmul (PMat.T (PyMeq.toP B)) X
          let t5 ← PMat.matmul t4 (PyMeq.toP A)
          let G ← PMat.solve t3 t5
          pure G
        | some S => do
          let t6 ← PMat.matmul (PMat.T (PyMeq.toP B)) X
          let t7 ← PMat.matmul t6 (PyMeq.toP B)
          let t8 ← PMat.add t7 (PyMeq.toP R)
          let t9 ← PMat.matmul (PMat.T (PyMeq.toP B)) X
          let t10 ← PMat.matmul t9 (PyMeq.toP A)
          let t11 ← PMat.add t10 (PMat.T (PyMeq.toP S))
          let G ← PMat.solve t8 t11
          pure G
        : Except Err (PMat K))
      let L_ ← (do
        match E with
        | none => do
          let t12 ← PMat.matmul (PyMeq.toP B) G
          let t13 ← PMat.sub (PyMeq.toP A) t12
          let L_ ← PyMeq.eig ev t13 none
          pure L_
        | some E => do
          let t14 ← PMat.matmul (PyMeq.toP B) G
          let t15 ← PMat.sub (PyMeq.toP A) t14
          let L_ ← PyMeq.eig ev t15 (some (PyMeq.toP E))
          pure L_
        : Except Err (L))
      pure (X, L_, G)
  else do
    throw Err.notImplemented

end CtrlVerif.Generated
