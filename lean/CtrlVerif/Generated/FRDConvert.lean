-- GENERATED on every run by harness/core/py2lean_frd.py from control/frdata.py (_convert_to_frd 36033285cac1ea7d).  Do not edit.
import CtrlVerif.Model.PyFRD

namespace CtrlVerif.Generated

open CtrlVerif

noncomputable section

variable {K : Type} [Field K] [DecidableEq K]

/-- `control/frdata.py:_convert_to_frd` as the source text says it (sha256 of the function text
36033285cac1ea7dd6863cb4bb7b12f3c36132fbb7f881917dbadde392938b91).
Defaults: inputs=1, outputs=1. -/
def convertToFrd (E : Env K) (sys : PyOpd K) (omega : FVec) (inputs : Nat) (outputs : Nat) : Except Err (PyFRD K) :=
  match sys with
  | .frd sys => do
    let t3 ← (do
      if (omega.n = (PyFRD.omega sys).n) then
        let t2 ← FVec.sub omega (PyFRD.omega sys)
        pure (decide ((PBVec.all (FVec.ltNum (FVec.abs t2) ((1 : ℚ) / 100000000))) = true))
      else
        pure false
      : Except Err Bool)
    if (t3 = true) then
      pure sys
    else
      throw Err.notImplemented
  | .scalar sys => do
    let frdata : PArr3 K := (PArr3.mulNum (PArr3.ones outputs inputs omega.n) sys)
    PyFRD.ctor frdata omega Dt.none true
  | .array sys_r sys_c sys_M => do
    let sys : PMat K := ⟨sys_r, sys_c, sys_M⟩
    match (do
        let sys : PMat K := sys
        let outputs : Nat := sys.r
        let inputs : Nat := sys.c
        let frdata : PArr3 K := (PArr3.empty outputs inputs omega.n)
        let frdata ← List.foldlM (fun (frdata : PArr3 K) (i : Nat) => (do
            let frdata ← List.foldlM (fun (frdata : PArr3 K) (j : Nat) => (do
                let t1 ← PMat.get sys i j
                let frdata ← PArr3.setFiber frdata i j t1
                pure frdata
                : Except Err (PArr3 K))) frdata (List.range inputs)
            pure frdata
            : Except Err (PArr3 K))) frdata (List.range outputs)
        PyFRD.ctor frdata omega Dt.none true
        : Except Err (PyFRD K)) with
    | .ok v => pure v
    | .error _ => do
      throw Err.notImplemented
  | .lti sys => do
    let omega : FVec := (FVec.sort omega)
    let frdata ← (do
      if (PyLTI.isctime sys = true) then
        let frdata ← PyLTI.call sys (FVec.jw E omega)
        pure frdata
      else
        let t1 ← FVec.expj E omega (LTI.dt sys)
        let frdata ← PyLTI.call sys t1
        pure frdata
      : Except Err (PArr3 K))
    PyFRD.ctor frdata omega (LTI.dt sys) true

end

end CtrlVerif.Generated
