-- GENERATED on every run by harness/core/py2lean_tf.py from control/xferfcn.py (__init__ 91f1fd8da8145777ed625923fe3aa6da090a9a5d4f3830b49d7fa55c14e086d8; _truncatecoeff 4fe031972da7abd954e3166d411330f7ec0444f8727d0a0a01c1d3c867bb4d90).  Do not edit.
import CtrlVerif.Model.PyTF

namespace CtrlVerif.Generated.TF

open CtrlVerif

/-- `control/xferfcn.py:TransferFunction.__init__` as the source text says it (sha256 of the function text
91f1fd8da8145777ed625923fe3aa6da090a9a5d4f3830b49d7fa55c14e086d8).
Defaults: none. -/
def initChecks {K : Type} [Field K] [DecidableEq K] (self_noutputs : Int) (self_ninputs : Int) (num : PyTF.PolyArr K) (den : PyTF.PolyArr K) :
    Except Err ((PyTF.PolyArr K × PyTF.PolyArr K)) :=
  (do
    let den ← List.foldlM (fun (t1 : PyTF.PolyArr K) (i : Int) =>
        ((do
          let den : PyTF.PolyArr K := t1
          let den ← List.foldlM (fun (t2 : PyTF.PolyArr K) (j : Int) =>
              ((do
                let den : PyTF.PolyArr K := t2
                let zeroden : Bool := true
                let t3 ← PyTF.PolyArr.getItem den i j
                let t5 ← List.foldlM (fun (t4 : Bool × Bool) (k : K) =>
                    ((do
                      let zeroden : Bool := t4.1
                      let brk_k : Bool := t4.2
                      (if (brk_k = true) then
                          (pure (zeroden, brk_k))
                        else
                          (if (k ≠ 0) then
                              (do
                                let zeroden : Bool := false
                                let brk_k : Bool := true
                                pure (zeroden, brk_k))
                            else
                              (pure (zeroden, brk_k))))) : Except Err (Bool × Bool))) (zeroden, false) t3
                let zeroden : Bool := t5.1
                (if (zeroden = true) then
                    (.error Err.zeroDen)
                  else
                    (do
                      let zeronum : Bool := true
                      let t6 ← PyTF.PolyArr.getItem num i j
                      let t8 ← List.foldlM (fun (t7 : Bool × Bool) (k : K) =>
                          ((do
                            let zeronum : Bool := t7.1
                            let brk_k : Bool := t7.2
                            (if (brk_k = true) then
                                (pure (zeronum, brk_k))
                              else
                                (if (k ≠ 0) then
                                    (do
                                      let zeronum : Bool := false
                                      let brk_k : Bool := true
                                      pure (zeronum, brk_k))
                                  else
                                    (pure (zeronum, brk_k))))) : Except Err (Bool × Bool))) (zeronum, false) t6
                      let zeronum : Bool := t8.1
                      (if (zeronum = true) then
                          (do
                            let den ← PyTF.PolyArr.setItem den i j ([(1 : K)] : List K)
                            pure (den))
                        else
                          (pure (den)))))) : Except Err (PyTF.PolyArr K))) (den) (PyArith.range 0 self_ninputs)
          pure (den)) : Except Err (PyTF.PolyArr K))) (den) (PyArith.range 0 self_noutputs)
    pure (num, den))

/-- `control/xferfcn.py:TransferFunction._truncatecoeff` as the source text says it (sha256 of the function text
4fe031972da7abd954e3166d411330f7ec0444f8727d0a0a01c1d3c867bb4d90).
Defaults: none. -/
def truncatecoeff {K : Type} [Field K] [DecidableEq K] (self_num_array : PyTF.PolyArr K) (self_den_array : PyTF.PolyArr K) (self_noutputs : Int) (self_ninputs : Int) :
    Except Err ((PyTF.PolyArr K × PyTF.PolyArr K)) :=
  (do
    let data : List (PyTF.PolyArr K) := [self_num_array, self_den_array]
    let data ← List.foldlM (fun (t1 : List (PyTF.PolyArr K)) (p : Int) =>
        ((do
          let data : List (PyTF.PolyArr K) := t1
          let data ← List.foldlM (fun (t2 : List (PyTF.PolyArr K)) (i : Int) =>
              ((do
                let data : List (PyTF.PolyArr K) := t2
                let data ← List.foldlM (fun (t3 : List (PyTF.PolyArr K)) (j : Int) =>
                    ((do
                      let data : List (PyTF.PolyArr K) := t3
                      let nonzero : Option Int := (none : Option Int)
                      let t4 ← PyArith.getItem data p
                      let t5 ← PyTF.PolyArr.getItem t4 i j
                      let t10 ← List.foldlM (fun (t6 : Option Int × Bool) (k : Int) =>
                          ((do
                            let nonzero : Option Int := t6.1
                            let brk_k : Bool := t6.2
                            (if (brk_k = true) then
                                (pure (nonzero, brk_k))
                              else
                                (do
                                  let t7 ← PyArith.getItem data p
                                  let t8 ← PyTF.PolyArr.getItem t7 i j
                                  let t9 ← PyArith.getItem t8 k
                                  (if (t9 ≠ 0) then
                                      (do
                                        let nonzero : Option Int := (some k)
                                        let brk_k : Bool := true
                                        pure (nonzero, brk_k))
                                    else
                                      (pure (nonzero, brk_k)))))) : Except Err (Option Int × Bool))) (nonzero, false) (PyArith.range 0 ((List.length t5 : Nat) : Int))
                      let nonzero : Option Int := t10.1
                      (match nonzero with
                        | none =>
                          (do
                            let t11 ← PyArith.getItem data p
                            let t12 ← PyTF.PolyArr.setItem t11 i j ([(0 : K)] : List K)
                            let data ← PyArith.setItem data p t12
                            pure (data))
                        | some nonzero =>
                          (do
                            let t13 ← PyArith.getItem data p
                            let t14 ← PyTF.PolyArr.getItem t13 i j
                            let t15 ← PyArith.getItem data p
                            let t16 ← PyTF.PolyArr.setItem t15 i j (PyTF.sliceFrom t14 nonzero)
                            let data ← PyArith.setItem data p t16
                            pure (data)))) : Except Err (List (PyTF.PolyArr K)))) (data) (PyArith.range 0 self_ninputs)
                pure (data)) : Except Err (List (PyTF.PolyArr K)))) (data) (PyArith.range 0 self_noutputs)
          pure (data)) : Except Err (List (PyTF.PolyArr K)))) (data) (PyArith.range 0 ((List.length data : Nat) : Int))
    PyTF.unpack2 data)

end CtrlVerif.Generated.TF
