-- GENERATED on every run by harness/core/py2lean_iolist.py from control/nlsys.py:interconnect (icxListNone 1efd033df917a05f).  Do not edit.
import CtrlVerif.Model.PyIOL
import CtrlVerif.Generated.ICParseSpec

namespace CtrlVerif.Generated

open CtrlVerif CtrlVerif.IC CtrlVerif.PyIC

variable {K : Type} [Field K] [DecidableEq K]


/-- `control/nlsys.py:interconnect`, `inplist` / `outlist` omitted: `inputs or []` / `outputs or []` stand in for them and the flags `inplist_none` / `outlist_none` ("rewrite `inputs` / `outputs` below") are set, as the source text says it (sha256 of the statement group
1efd033df917a05f5c7be5693fe682c22d30018750ccdb96c68be087a5d9bdd2). -/
def icxListNone (inplist : Val K) (inputs : Val K) (outlist : Val K) (outputs : Val K) :
    Except Err (Val K × Bool × Val K × Bool) :=
  do
    let inplist_none : Bool := false
    let outlist_none : Bool := false
    let (inplist, inplist_none) ← (do
      if (PyIC.isNone inplist) then
        let inplist : Val K := (if PyICX.truthy inputs then inputs else Val.list [])
        let inplist_none : Bool := true
        pure (inplist, inplist_none)
      else
        pure (inplist, inplist_none)
      : Except Err (Val K × Bool))
    let (outlist, outlist_none) ← (do
      if (PyIC.isNone outlist) then
        let outlist : Val K := (if PyICX.truthy outputs then outputs else Val.list [])
        let outlist_none : Bool := true
        pure (outlist, outlist_none)
      else
        pure (outlist, outlist_none)
      : Except Err (Val K × Bool))
    pure (inplist, inplist_none, outlist, outlist_none)

end CtrlVerif.Generated
