-- GENERATED on every run by harness/core/py2lean_disp.py from control/delay.py, control/dtime.py, control/statesp.py, control/xferfcn.py (sample_system 5c3407474d80b1b4, c2d 1fd89633688fd029, StateSpace.sample 18ed5f3624576e54, TransferFunction.sample 18ed5f3624576e54, pade d025d8616b6cd219).  Do not edit.
import CtrlVerif.Model.PySig

namespace CtrlVerif.Generated.Disp

open CtrlVerif

/-- signature of `control/dtime.py:sample_system` (sha256 of the text of its `ast.arguments`
5c3407474d80b1b43bcb915b54f5dce3e9228c4857d1ef5cd82527a834228c11):
`(sysc, Ts, method='zoh', alpha=None, prewarp_frequency=None, name=None, copy_names=True, **kwargs)` -/
def sampleSystemSig : PySig.Sig :=
  { posonly := [],
    params := ["sysc", "Ts", "method", "alpha", "prewarp_frequency", "name", "copy_names"],
    kwonly := [],
    vararg := false, varkw := true,
    defaults := [("method", .str "zoh"), ("alpha", .none), ("prewarp_frequency", .none), ("name", .none), ("copy_names", .bool true)] }

/-- Python's binding of a call of `control/dtime.py:sample_system` with `npos` positional arguments and the keywords `kws`. -/
def bindSampleSystem (npos : Nat) (kws : List String) : Except Err (List Slot) :=
  sampleSystemSig.bind npos kws

/-- `control/dtime.py:c2d` is bound by `c2d = sample_system`: the signature of `sample_system`. -/
def c2dSig : PySig.Sig := sampleSystemSig

/-- Python's binding of a call of `control/dtime.py:c2d` with `npos` positional arguments and the keywords `kws`. -/
def bindC2d (npos : Nat) (kws : List String) : Except Err (List Slot) :=
  c2dSig.bind npos kws

/-- signature of `control/statesp.py:StateSpace.sample` (sha256 of the text of its `ast.arguments`
18ed5f3624576e549c816b7852a5c87efdfd1afea176b18381219d27bdd009cb):
`(self, Ts, method='zoh', alpha=None, prewarp_frequency=None, name=None, copy_names=True, **kwargs)` without the leading `self` -/
def ssSampleSig : PySig.Sig :=
  { posonly := [],
    params := ["Ts", "method", "alpha", "prewarp_frequency", "name", "copy_names"],
    kwonly := [],
    vararg := false, varkw := true,
    defaults := [("method", .str "zoh"), ("alpha", .none), ("prewarp_frequency", .none), ("name", .none), ("copy_names", .bool true)] }

/-- Python's binding of a call of `control/statesp.py:StateSpace.sample` with `npos` positional arguments and the keywords `kws`. -/
def bindSsSample (npos : Nat) (kws : List String) : Except Err (List Slot) :=
  ssSampleSig.bind npos kws

/-- signature of `control/xferfcn.py:TransferFunction.sample` (sha256 of the text of its `ast.arguments`
18ed5f3624576e549c816b7852a5c87efdfd1afea176b18381219d27bdd009cb):
`(self, Ts, method='zoh', alpha=None, prewarp_frequency=None, name=None, copy_names=True, **kwargs)` without the leading `self` -/
def tfSampleSig : PySig.Sig :=
  { posonly := [],
    params := ["Ts", "method", "alpha", "prewarp_frequency", "name", "copy_names"],
    kwonly := [],
    vararg := false, varkw := true,
    defaults := [("method", .str "zoh"), ("alpha", .none), ("prewarp_frequency", .none), ("name", .none), ("copy_names", .bool true)] }

/-- Python's binding of a call of `control/xferfcn.py:TransferFunction.sample` with `npos` positional arguments and the keywords `kws`. -/
def bindTfSample (npos : Nat) (kws : List String) : Except Err (List Slot) :=
  tfSampleSig.bind npos kws

/-- signature of `control/delay.py:pade` (sha256 of the text of its `ast.arguments`
d025d8616b6cd219b2813e834878e6ed04a3fda5797b551b3dc7e6b307b17b25):
`(T, n=1, numdeg=None)` -/
def padeSig : PySig.Sig :=
  { posonly := [],
    params := ["T", "n", "numdeg"],
    kwonly := [],
    vararg := false, varkw := false,
    defaults := [("n", .int (1)), ("numdeg", .none)] }

/-- Python's binding of a call of `control/delay.py:pade` with `npos` positional arguments and the keywords `kws`. -/
def bindPade (npos : Nat) (kws : List String) : Except Err (List Slot) :=
  padeSig.bind npos kws

end CtrlVerif.Generated.Disp
