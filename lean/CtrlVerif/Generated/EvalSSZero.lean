-- GENERATED on every run by harness/core/py2lean_eval.py from the source text of the tree under check (StateSpace._has_zero_at 2019e3129ab1e642).  Do not edit.
import CtrlVerif.Model.PyEval

set_option linter.unusedVariables false

namespace CtrlVerif.Generated

open CtrlVerif

noncomputable section

variable {K : Type} [Field K] [DecidableEq K]

/-- `control/statesp.py:StateSpace._has_zero_at` as the source text says it (sha256 of the function text
2019e3129ab1e64218a2fa78bc42f373bb7fd7b887899ce1073f70bdae5d9d4b).
Defaults: none. -/
def ssHasZeroAt (self : DSS K) (x : K) :
    Except Err (Bool) :=
  do
    let t1 ← PMat.sub (PySS.A self) (PMat.smul x (PMat.eye self.n))
    let sysmat ← PMat.block [[t1, (PySS.B self)], [(PySS.C self), (PySS.D self)]]
    pure (decide ((PMat.rank sysmat) < (self.n + (min self.m self.p))))

end

end CtrlVerif.Generated
