-- GENERATED on every run by harness/core/py2lean_arith.py from control/margins.py:_poly_z_invz (sha256 935622b04e997d09d898d94e1c2fe286eff926ff2df3e8e697fa0a99c7a5fa43).  Do not edit.
import CtrlVerif.Model.PyArith
import CtrlVerif.Model.Margins

namespace CtrlVerif.Generated

open CtrlVerif

/-- `control/margins.py:_poly_z_invz` as the source text says it (sha256 of the function text
935622b04e997d09d898d94e1c2fe286eff926ff2df3e8e697fa0a99c7a5fa43).
Defaults: none. -/
def polyZInvz {K : Type} [Field K] [LinearOrder K] (num0 : List K) (den0 : List K) (dt0 : K) :
    Except Err (List K × List K × List K × List K × Int × K) :=
  (do
    let num : List K := num0
    let den : List K := den0
    let p_q : Int := (((List.length num : Nat) : Int) - ((List.length den : Nat) : Int))
    (if (0 < p_q) then
        (.error Err.nonProper)
      else
        (do
          let num_inv_zp : List K := (List.reverse num)
          let den_inv_zq : List K := (List.reverse den)
          pure (num, den, num_inv_zp, den_inv_zq, p_q, dt0))))

end CtrlVerif.Generated
