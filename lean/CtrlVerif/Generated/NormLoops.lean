-- GENERATED on every run by harness/core/py2lean_norm.py from control/sysnorm.py (normLinfCont f28c0fa4b33506f3).  Do not edit.
import CtrlVerif.Model.PyNorm
import CtrlVerif.Generated.NormHam

namespace CtrlVerif.Generated

open CtrlVerif

noncomputable section

variable {K : Type} [Field K] [LinearOrder K]

/-- `system_norm`: the statements after the nested function (bounds, identities, doubling loop, bisection loop) as the source text says it (sha256 of the translated text
f28c0fa4b33506f3c3207f7f27bc0d71102a98893fcb9f690431c6d193349e14). -/
def normLinfCont (eigvals : PMat K → List (Norm.Pole K)) (norm2 : PMat K → K) (fuel : Nat) (A B C D : PMat K) (tol : K) :
    Except Err (Norm.LinfVal K) :=
  do
    let gaml : K := (norm2 D)
    let gamu : K := (max (1 : K) ((2 : K) * gaml))
    let Ip : PMat K := (PMat.eye D.r)
    let Im : PMat K := (PMat.eye D.c)
    let t6 ← PyNorm.whileFuel
        (fun (st1 : K) => (do
            let gamu : K := st1
            let t1 ← normHamilton Im D A B C Ip gamu
            pure (decide (PyNorm.any (PyNorm.isclose (PyNorm.real (eigvals t1)) (0 : K)) = true))
            : Except Err Bool))
        (fun (st1 : K) => (do
            let gamu : K := st1
            let gamu : K := (gamu * (2 : K))
            pure gamu
            : Except Err (K)))
        fuel (gamu : K)
    match t6 with
    | none => pure Norm.LinfVal.diverged   -- out of fuel
    | some st1 => do
      let gamu : K := st1
      let t5 ← PyNorm.whileFuel
          (fun (st2 : Option K × K × K) => (do
              let gam : Option K := st2.1
              let gaml : K := st2.2.1
              let gamu : K := st2.2.2
              let t2 ← PyNum.div (gamu - gaml) gamu
              pure (decide (tol < t2))
              : Except Err Bool))
          (fun (st2 : Option K × K × K) => (do
              let gam : Option K := st2.1
              let gaml : K := st2.2.1
              let gamu : K := st2.2.2
              let gam ← PyNum.div (gamu + gaml) (2 : K)
              let t3 ← normHamilton Im D A B C Ip gam
              let (gaml, gamu) ← (do
                if (PyNorm.any (PyNorm.isclose (PyNorm.real (eigvals t3)) (0 : K)) = true) then
                  let gaml : K := gam
                  pure (gaml, gamu)
                else
                  let gamu : K := gam
                  pure (gaml, gamu)
                : Except Err (K × K))
              pure ((some gam), gaml, gamu)
              : Except Err (Option K × K × K)))
          fuel ((none, gaml, gamu) : Option K × K × K)
      match t5 with
      | none => pure Norm.LinfVal.diverged   -- out of fuel
      | some st2 => do
        let gam : Option K := st2.1
        let gaml : K := st2.2.1
        let gamu : K := st2.2.2
        let t4 ← PyNorm.bound gam
        pure (Norm.LinfVal.val t4)

end

end CtrlVerif.Generated
