-- GENERATED on every run by harness/core/py2lean_frd.py from control/frdata.py (__mul__ 3f9a3a66ac35b69e, __rmul__ f33e055b122ba41f).  Do not edit.
import CtrlVerif.Model.PyFRD
import CtrlVerif.Generated.FRDBasic

namespace CtrlVerif.Generated

open CtrlVerif

noncomputable section

variable {K : Type} [Field K] [DecidableEq K]

/-- the part of `__mul__` after `other = _convert_to_frd(other, ...)` (the same text for the operand kinds frd, array, lti). -/
def frdMulCore (E : Env K) (self : PyFRD K) (other : PyFRD K) : Except Err (PyFRD K) :=
  do
    let (other, self) ← (do
      if ((PyFRD.issiso self = true) ∧ (¬ (PyFRD.issiso other = true))) then
        let self ← PyFRD.appendCopies (frdAppend E) self (PyFRD.noutputs other)
        pure (other, self)
      else
        let other ← (do
          if ((¬ (PyFRD.issiso self = true)) ∧ (PyFRD.issiso other = true)) then
            let other ← PyFRD.appendCopies (frdAppend E) other (PyFRD.ninputs self)
            pure other
          else
            pure other
          : Except Err (PyFRD K))
        pure (other, self)
      : Except Err (PyFRD K × PyFRD K))
    if ((PyFRD.ninputs self) ≠ (PyFRD.noutputs other)) then
      throw Err.shape
    else
      let dt ← common self.dt other.dt
      let inputs : Nat := (PyFRD.ninputs other)
      let outputs : Nat := (PyFRD.noutputs self)
      let frdata : PArr3 K := (PArr3.empty outputs inputs (PyFRD.omega self).n)
      let frdata ← List.foldlM (fun (frdata : PArr3 K) (i : Nat) => (do
          let t1 ← PArr3.getFreq (PyFRD.frdata self) i
          let t2 ← PArr3.getFreq (PyFRD.frdata other) i
          let t3 ← PMat.matmul t1 t2
          let frdata ← PArr3.setFreq frdata i t3
          pure frdata
          : Except Err (PArr3 K))) frdata (List.range (PyFRD.omega self).n)
      PyFRD.ctor frdata (PyFRD.omega self) dt ((PyFRD.smooth self) && (PyFRD.smooth other))

/-- `control/frdata.py:FrequencyResponseData.__mul__` as the source text says it (sha256 of the function text
3f9a3a66ac35b69eba6e3c7570069a13293c8a1ecdc7a92df2c33c4534c6f66e).
Defaults: none. -/
def frdMul (E : Env K) (self : PyFRD K) (other : PyOpd K) : Except Err (PyFRD K) :=
  match other with
  | .frd other => do
    let other ← convertToFrd E (PyOpd.frd other) (PyFRD.omega self) (1 : Nat) (1 : Nat)
    frdMulCore E self other
  | .scalar other => do
    PyFRD.ctor (PArr3.mulNum (PyFRD.frdata self) other) (PyFRD.omega self) self.dt (PyFRD.smooth self)
  | .array other_r other_c other_M => do
    let other : PMat K := ⟨other_r, other_c, other_M⟩
    let other ← convertToFrd E (PyOpd.ofMat other) (PyFRD.omega self) (1 : Nat) (1 : Nat)
    frdMulCore E self other
  | .lti other => do
    let other ← convertToFrd E (PyOpd.lti other) (PyFRD.omega self) (1 : Nat) (1 : Nat)
    frdMulCore E self other

/-- the part of `__rmul__` after `other = _convert_to_frd(other, ...)` (the same text for the operand kinds frd, array, lti). -/
def frdRmulCore (E : Env K) (self : PyFRD K) (other : PyFRD K) : Except Err (PyFRD K) :=
  do
    let (other, self) ← (do
      if ((PyFRD.issiso self = true) ∧ (¬ (PyFRD.issiso other = true))) then
        let self ← PyFRD.appendCopies (frdAppend E) self (PyFRD.ninputs other)
        pure (other, self)
      else
        let other ← (do
          if ((¬ (PyFRD.issiso self = true)) ∧ (PyFRD.issiso other = true)) then
            let other ← PyFRD.appendCopies (frdAppend E) other (PyFRD.noutputs self)
            pure other
          else
            pure other
          : Except Err (PyFRD K))
        pure (other, self)
      : Except Err (PyFRD K × PyFRD K))
    if ((PyFRD.noutputs self) ≠ (PyFRD.ninputs other)) then
      throw Err.shape
    else
      let dt ← common self.dt other.dt
      let inputs : Nat := (PyFRD.ninputs self)
      let outputs : Nat := (PyFRD.noutputs other)
      let frdata : PArr3 K := (PArr3.empty outputs inputs (PyFRD.omega self).n)
      let frdata ← List.foldlM (fun (frdata : PArr3 K) (i : Nat) => (do
          let t1 ← PArr3.getFreq (PyFRD.frdata other) i
          let t2 ← PArr3.getFreq (PyFRD.frdata self) i
          let t3 ← PMat.matmul t1 t2
          let frdata ← PArr3.setFreq frdata i t3
          pure frdata
          : Except Err (PArr3 K))) frdata (List.range (PyFRD.omega self).n)
      PyFRD.ctor frdata (PyFRD.omega self) dt ((PyFRD.smooth self) && (PyFRD.smooth other))

/-- `control/frdata.py:FrequencyResponseData.__rmul__` as the source text says it (sha256 of the function text
f33e055b122ba41fbad714abbe8df75321906ff39cb5cf0cca7b03349227407d).
Defaults: none. -/
def frdRmul (E : Env K) (self : PyFRD K) (other : PyOpd K) : Except Err (PyFRD K) :=
  match other with
  | .frd other => do
    let other ← convertToFrd E (PyOpd.frd other) (PyFRD.omega self) (1 : Nat) (1 : Nat)
    frdRmulCore E self other
  | .scalar other => do
    PyFRD.ctor (PArr3.mulNum (PyFRD.frdata self) other) (PyFRD.omega self) self.dt (PyFRD.smooth self)
  | .array other_r other_c other_M => do
    let other : PMat K := ⟨other_r, other_c, other_M⟩
    let other ← convertToFrd E (PyOpd.ofMat other) (PyFRD.omega self) (1 : Nat) (1 : Nat)
    frdRmulCore E self other
  | .lti other => do
    let other ← convertToFrd E (PyOpd.lti other) (PyFRD.omega self) (1 : Nat) (1 : Nat)
    frdRmulCore E self other

end

end CtrlVerif.Generated
