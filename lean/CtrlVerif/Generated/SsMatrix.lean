-- GENERATED on every run by harness/core/py2lean_ssmat.py from control/statesp.py (_ssmatrix 782a7ad692296003).  Do not edit.
import CtrlVerif.Model.PySS

namespace CtrlVerif.Generated.SsMat

open CtrlVerif

variable {α : Type}

def ssmatrix (data : PyCCA.Arr α) (axis : Int) (square : Option Bool) (rows : Option Nat) (cols : Option Nat) :
    Except Err (PyCCA.Arr α) := do
  let arr := PySS.arrayFloat data
  let ndim := PyCCA.ndim arr
  let shape := arr.shape
  let shape ← (if ndim > 2 then
      .error Err.badArg
    else if (ndim == 2 && shape == [1, 0]) || (ndim == 1 && shape == [0]) then
      pure [0, 0]
    else if ndim == 1 then do
      let t1 ← PySS.item shape 0
      let t2 ← PySS.item shape 0
      pure (if axis == 1 then [1, t1] else [t2, 1])
    else if ndim == 0 then
      pure [1, 1]
    else
      pure shape)
  let c1 ← (if PySS.truthy square then do
      let t1 ← PySS.item shape 0
      let t2 ← PySS.item shape 1
      pure (t1 != t2)
    else pure false)
  if c1 then
    .error Err.shape
  else do
    let c2 ← (if rows.isSome then do
        let t1 ← PySS.item shape 0
        pure (some t1 != rows)
      else pure false)
    if c2 then
      .error Err.shape
    else do
      let c3 ← (if cols.isSome then do
          let t1 ← PySS.item shape 1
          pure (some t1 != cols)
        else pure false)
      if c3 then
        .error Err.shape
      else do
        PyCCA.reshape arr shape

end CtrlVerif.Generated.SsMat
