-- GENERATED on every run by harness/core/py2lean_select.py from the source text in /repo (sha256 of each function below).  Do not edit.
import CtrlVerif.Model.PyDict

namespace CtrlVerif.Generated

open CtrlVerif

/-- `DefaultDict._check_deprecation` (control/config.py, sha256 bf07368d05e7766b) as the source text says it.
  note: `self[k]` right after `self.__contains__(k)` is `self.data[k]`
  note: warnings.warn(...) skipped (no effect on the result)
-/
def checkDeprecation (key : String) : CfgM String := do
  if (← PyDict.contains ("deprecated." ++ key)) then
    let mut repl := (← PyDict.dataGet ("deprecated." ++ key))
    return repl
  else
    return key

/-- `DefaultDict.__missing__` (control/config.py, sha256 8480feff12589157) as the source text says it.
  note: `self[k]` right after `self.__contains__(k)` is `self.data[k]`
-/
def missing (key : String) : CfgM String := do
  let mut repl := (← checkDeprecation key)
  if (← PyDict.contains repl) then
    return (← PyDict.dataGet repl)
  else
    throw Err.unknownName

/-- `self[k]` (`UserDict.__getitem__`: the stored value, else `__missing__(k)`); fixed text, not
generated from /repo. -/
def getitem (k : String) : CfgM String := PyDict.getitemWith missing k

/-- `DefaultDict.__setitem__` (control/config.py, sha256 ce25bb747378c10c) as the source text says it.
-/
def setitem (key : String) (value : String) : CfgM Unit := do
  PyDict.dataSet (← checkDeprecation key) value
  pure ()

/-- `set_defaults` (control/config.py, sha256 7a9d2647e21bd1e4) as the source text says it.
  note: `isinstance(module, str)` is true: the parameter is a string in the model
-/
def setDefaults (module : String) (keywords : List (String × String)) : CfgM Unit := do
  if (!true) then
    throw Err.badArg
  for (key, val) in keywords do
    let mut keyname := ((module ++ (".")) ++ key)
    if (← (do if (!(← PyDict.contains keyname)) then pure (!(← PyDict.contains ("deprecated." ++ keyname))) else pure false)) then
      throw Err.badArg
    setitem ((module ++ (".")) ++ key) val
  pure ()

/-- `reset_defaults` (control/config.py, sha256 42bb899bca262abb) as the source text says it. `tbl` gives the contents of the module-level default tables by name.
  note: function-level `from .<module> import …` statements skipped
  note: reset_rcParams() (matplotlib rcParams of control.ctrlplot; does not touch config.defaults) skipped
-/
def resetDefaults (tbl : String → List (String × String)) : CfgM Unit := do
  for (k, v) in tbl "_control_defaults" do
    setitem k v
  for (k, v) in tbl "_ctrlplot_defaults" do
    setitem k v
  for (k, v) in tbl "_freqplot_defaults" do
    setitem k v
  for (k, v) in tbl "_nyquist_defaults" do
    setitem k v
  for (k, v) in tbl "_nichols_defaults" do
    setitem k v
  for (k, v) in tbl "_pzmap_defaults" do
    setitem k v
  for (k, v) in tbl "_rlocus_defaults" do
    setitem k v
  for (k, v) in tbl "_sisotool_defaults" do
    setitem k v
  for (k, v) in tbl "_iosys_defaults" do
    setitem k v
  for (k, v) in tbl "_xferfcn_defaults" do
    setitem k v
  for (k, v) in tbl "_statesp_defaults" do
    setitem k v
  for (k, v) in tbl "_optimal_defaults" do
    setitem k v
  for (k, v) in tbl "_timeplot_defaults" do
    setitem k v
  for (k, v) in tbl "_phaseplot_defaults" do
    setitem k v
  pure ()

end CtrlVerif.Generated
