-- GENERATED on every run by harness/core/py2lean_canon.py from control/modelsimp.py (model_reduction._process_elim_or_keep._expand_key 287bf2a4e0f0882b, model_reduction._process_elim_or_keep._resolve 8c0f82b7591a6470, model_reduction._process_elim_or_keep 2e93f25e4cf020bf).  Do not edit.
import CtrlVerif.Model.PyCanon

namespace CtrlVerif.Generated

open CtrlVerif

noncomputable section

variable {K : Type} [Field K] [DecidableEq K]

/-- `control/modelsimp.py:model_reduction._process_elim_or_keep._expand_key` as the source text says it (sha256 of the function text
287bf2a4e0f0882b185c00121d37647253764fe49e73c8d3bb0ba3e1fdb49325).
Defaults: none. -/
def expandKey (labels : List String) (fuel : Nat) (key : PyVal) : Except Err (PyVal) :=
  match fuel with
  | 0 => throw Err.notImplemented   -- nesting deeper than `fuel`
  | fuel + 1 =>
    do
      if (Py.isNone key = true) then
        pure (PyVal.list [])
      else
        if (Py.isinstance key [.str] = true) then
          let t1 ← Py.indexStr (PyVal.list (labels.map PyVal.str)) key
          pure (PyVal.int t1)
        else
          if (Py.isinstance key [.list] = true) then
            let t3 ← Py.iter key
            let t4 ← List.mapM (fun (k : PyVal) => ((do expandKey labels fuel k) : Except Err PyVal)) t3
            pure (PyVal.list t4)
          else
            if (Py.isinstance key [.slice] = true) then
              Py.getitem (Py.range1 (labels.length : Int)) key
            else
              pure key

/-- `control/modelsimp.py:model_reduction._process_elim_or_keep._resolve` as the source text says it (sha256 of the function text
8c0f82b7591a647037b3ba0523377d3a99a2db28b52f5d8a97bd10b9d584786b).
Defaults: none. -/
def resolve (labels : List String) (fuel : Nat) (key : PyVal) : Except Err (List Int) :=
  do
    let t1 ← expandKey labels fuel key
    let idx ← PyCanon.atleast1d t1
    let idx ← (do
      if (idx.length > (0 : Nat)) then
        let t2 ← PyCanon.arangeTake (labels.length : Int) idx
        let idx : List Int := (PyCanon.unique t2)
        pure idx
      else
        pure idx
      : Except Err (List Int))
    pure idx

/-- `control/modelsimp.py:model_reduction._process_elim_or_keep` as the source text says it (sha256 of the function text
2e93f25e4cf020bf92fa04606a8c29d2db89213ac5423978d07cba0df90902d7).
Defaults: none.
  note: `elim is None` is statically False -/
def processElimOrKeep (fuel : Nat) (elim : PyVal) (keep : PyVal) (labels : List String) : Except Err (List Int × List Int) :=
  do
    let elim ← resolve labels fuel elim
    let keep ← resolve labels fuel keep
    if ((elim.length > (0 : Nat)) ∧ (keep.length > (0 : Nat))) then
      throw Err.badArg
    else
      let (elim, keep) ← (do
        if (keep.length > (0 : Nat)) then
          let keep : List Int := (PyCanon.sortList keep)
          let elim : List Int := (PyCanon.rangeFilter (labels.length : Int) keep)
          pure (elim, keep)
        else
          let elim : List Int := (PyCanon.sortList elim)
          let keep : List Int := (PyCanon.rangeFilter (labels.length : Int) elim)
          pure (elim, keep)
        : Except Err (List Int × List Int))
      pure (elim, keep)

end

end CtrlVerif.Generated
