-- GENERATED on every run by harness/core/py2lean_bdalgfn.py from control/bdalg.py (append eebad06264c9c7cdd8328765c7de862649ce866497fc088332abfaeb7aac989c).  Do not edit.
import CtrlVerif.Model.PyBdalg

namespace CtrlVerif.Generated.BdalgFn

open CtrlVerif

/-- `control/bdalg.py:append` as the source text says it (sha256 of the function text
eebad06264c9c7cdd8328765c7de862649ce866497fc088332abfaeb7aac989c).
`w`: what values do not determine (object identity, which model errors are TypeErrors);
a parameter with a default is an `Option` (`none`: not passed). -/
def append {K : Type} [Field K] [DecidableEq K] (w : PyBdalg.World) (sys : List (PyBdalg.Val K)) (kwargs : PyBdalg.Kw) :
    Except PyBdalg.Exc (PyBdalg.Val K) :=
  (do
    let s1 ← PyBdalg.item sys (0 : Int)
    let s1 ← List.foldlM (fun (s1 : PyBdalg.Val K) (s : PyBdalg.Val K) =>
        ((do
          let s1 ← PyBdalg.Val.appendM s1 s
          pure s1
        ) : Except PyBdalg.Exc (PyBdalg.Val K))) s1 (PyBdalg.slice sys (some (1 : Int)) none)
    let t1 ← PyBdalg.item sys (0 : Int)
    let s1 ← (if (PyBdalg.isObj w s1 t1) then
        (do
          let s1 := (PyBdalg.deepcopy s1)
          pure s1
        )
      else
        (do
          pure s1
        ) : Except PyBdalg.Exc (PyBdalg.Val K))
    PyBdalg.Val.updateNames s1 kwargs
    pure s1)

end CtrlVerif.Generated.BdalgFn
