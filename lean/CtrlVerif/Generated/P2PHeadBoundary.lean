-- GENERATED on every run by harness/core/py2lean_p2phead.py from control/flatsys/flatsys.py (p2pHeadBoundary 44aa3e205081c2cd).  Do not edit.
import CtrlVerif.Model.PyP2PHead

namespace CtrlVerif.Generated

open CtrlVerif

variable {K : Type} [Field K]

/-- block `p2pHeadBoundary` of `control/flatsys/flatsys.py:point_to_point` as the source text says it (sha256 of the text of the translated
statements 44aa3e205081c2cd3799699d1eab9766c17a85ebbe246dbca2a236b4d2e7885a). -/
def p2pHeadBoundary (sys_nstates sys_ninputs : Nat) (x0 u0 xf uf : PyHead.BVal K) :
    Except Err (List K × List K × List K × List K) :=
  do
    let t1 ← PyHead.checkConvertArray x0 [[sys_nstates], [sys_nstates, (1 : Nat)]]
    let x0 : List K := t1
    let t2 ← PyHead.checkConvertArray u0 [[sys_ninputs], [sys_ninputs, (1 : Nat)]]
    let u0 : List K := t2
    let t3 ← PyHead.checkConvertArray xf [[sys_nstates], [sys_nstates, (1 : Nat)]]
    let xf : List K := t3
    let t4 ← PyHead.checkConvertArray uf [[sys_ninputs], [sys_ninputs, (1 : Nat)]]
    let uf : List K := t4
    pure (x0, u0, xf, uf)

end CtrlVerif.Generated
