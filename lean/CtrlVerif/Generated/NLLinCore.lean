-- GENERATED on every run by harness/core/py2lean_nl.py from control/nlsys.py (nlLinCore 98a736730ffef9b6).  Do not edit.
import CtrlVerif.Model.PyNL
import CtrlVerif.Generated.NLProcessVector

namespace CtrlVerif.Generated

open CtrlVerif

variable {K : Type} [Field K] [DecidableEq K]

/-- block `nlLinCore` of `control/nlsys.py` as the source text says it (sha256 of the text of the translated
statements 98a736730ffef9b67a9bbb72651b3931032d2a9217d62ee30db3a44db4e5c494).
  note: `self._update_params(...)` only passes the parameters on (the update / output functions are parameters)
  note: the values bound by the two `_process_vector_argument` calls are the parameters x0, nstates, u0, ninputs
  note: returns (A, B, C, D) -/
def nlLinCore (rhs out : K → List K → List K → Except Err (List K)) (sys_noutputs : Int) (t eps : K)
    (x0 : List K) (nstates : Int) (u0 : List K) (ninputs : Int) :
    Except Err (PyNL.CMat K × PyNL.CMat K × PyNL.CMat K × PyNL.CMat K) :=
  do
    let t1 ← out t x0 u0
    let t2 ← nlFindSizeVec sys_noutputs t1
    let noutputs : Int := t2
    let t3 ← rhs t x0 u0
    let F0 : List K := t3
    let t4 ← out t x0 u0
    let H0 : List K := t4
    let A : PyNL.CMat K := (PyNL.CMat.zeros nstates nstates)
    let B : PyNL.CMat K := (PyNL.CMat.zeros nstates ninputs)
    let C : PyNL.CMat K := (PyNL.CMat.zeros noutputs nstates)
    let D : PyNL.CMat K := (PyNL.CMat.zeros noutputs ninputs)
    let (A, C) ← List.foldlM (fun (t5 : PyNL.CMat K × PyNL.CMat K) (i : Int) => (do
        let A : PyNL.CMat K := t5.1
        let C : PyNL.CMat K := t5.2
        let dx : List K := (PyNL.vzeros nstates)
        let dx ← PyArith.setItem dx i eps
        let t6 ← PyNL.vadd x0 dx
        let t7 ← rhs t t6 u0
        let t8 ← PyNL.vsub t7 F0
        let t9 ← PyNL.vdiv t8 eps
        let A ← PyNL.CMat.setCol A i t9
        let t10 ← PyNL.vadd x0 dx
        let t11 ← out t t10 u0
        let t12 ← PyNL.vsub t11 H0
        let t13 ← PyNL.vdiv t12 eps
        let C ← PyNL.CMat.setCol C i t13
        pure (A, C)
        : Except Err (PyNL.CMat K × PyNL.CMat K))) (A, C) (PyArith.range (0 : Int) nstates)
    let (B, D) ← List.foldlM (fun (t14 : PyNL.CMat K × PyNL.CMat K) (i : Int) => (do
        let B : PyNL.CMat K := t14.1
        let D : PyNL.CMat K := t14.2
        let du : List K := (PyNL.vzeros ninputs)
        let du ← PyArith.setItem du i eps
        let t15 ← PyNL.vadd u0 du
        let t16 ← rhs t x0 t15
        let t17 ← PyNL.vsub t16 F0
        let t18 ← PyNL.vdiv t17 eps
        let B ← PyNL.CMat.setCol B i t18
        let t19 ← PyNL.vadd u0 du
        let t20 ← out t x0 t19
        let t21 ← PyNL.vsub t20 H0
        let t22 ← PyNL.vdiv t21 eps
        let D ← PyNL.CMat.setCol D i t22
        pure (B, D)
        : Except Err (PyNL.CMat K × PyNL.CMat K))) (B, D) (PyArith.range (0 : Int) ninputs)
    pure (A, B, C, D)

end CtrlVerif.Generated
