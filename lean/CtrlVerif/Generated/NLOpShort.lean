-- GENERATED on every run by harness/core/py2lean_nl.py from control/nlsys.py (nlOpShort b5be9f84d5c4a8e6).  Do not edit.
import CtrlVerif.Model.PyNL

namespace CtrlVerif.Generated

open CtrlVerif

variable {K : Type} [Field K] [DecidableEq K]

/-- block `nlOpShort` of `control/nlsys.py` as the source text says it (sha256 of the text of the translated
statements b5be9f84d5c4a8e68de2be76ef8c295164741c429d1f546f947a617f5bd522ed).
  note: the function handed to `root`, per `y0 is None` and per `sys.isdtime(strict=True)` (parameter `disc`) -/
def nlOpShort (rhs out : K → List K → List K → Except Err (List K)) (t : K) (disc : Bool) (y0 : Option (List K))
    (nstates : Int) (u0 : List K) (dx0 : Option (List K)) (z : List K) :
    Except Err (List K) :=
  do
    let dxdes : List K := (match dx0 with | some dx0 => dx0 | none => (PyNL.vzeros nstates))
    match y0 with
    | none => do
      if disc = true then
        let t1 ← rhs t z u0
        let t2 ← PyNL.vsub t1 dxdes
        let t3 ← PyNL.vsub t2 z
        pure t3
      else
        let t4 ← rhs t z u0
        let t5 ← PyNL.vsub t4 dxdes
        pure t5
    | some y0 => do
      if disc = true then
        let x : List K := (PyNL.sliceTo z nstates)
        let u : List K := (PyNL.sliceFrom z nstates)
        let t6 ← rhs t x u
        let t7 ← PyNL.vsub t6 dxdes
        let t8 ← PyNL.vsub t7 x
        let t9 ← out t x u
        let t10 ← PyNL.vsub t9 y0
        pure (t8 ++ t10)
      else
        let x : List K := (PyNL.sliceTo z nstates)
        let u : List K := (PyNL.sliceFrom z nstates)
        let t11 ← rhs t x u
        let t12 ← PyNL.vsub t11 dxdes
        let t13 ← out t x u
        let t14 ← PyNL.vsub t13 y0
        pure (t12 ++ t14)

end CtrlVerif.Generated
