-- GENERATED on every run by harness/core/py2lean_iolist.py from control/nlsys.py:interconnect (icxOutList d68878bc987bb0eb).  Do not edit.
import CtrlVerif.Model.PyIOL
import CtrlVerif.Generated.ICParseSpec

namespace CtrlVerif.Generated

open CtrlVerif CtrlVerif.IC CtrlVerif.PyIC

variable {K : Type} [Field K] [DecidableEq K]

/-- body of the 3rd loop of the group: `for osig in range(sys.noutputs):` -/
def icxOutList_loop3 (gain : Int) (osys : Int) (st : List (Val K)) (el : Int) :
    Except Err (List (Val K)) :=
  match st, el with
  | new_outlist, osig => do
    let new_outlist : List (Val K) := new_outlist ++ [(Val.tuple [(Val.int osys), (Val.int osig), (Val.int gain)])]
    pure new_outlist

/-- body of the 4th loop of the group: `for osig in indices:` -/
def icxOutList_loop4 (gain : Int) (osys : Int) (st : List (Val K)) (el : Val K) :
    Except Err (List (Val K)) :=
  match st, el with
  | new_connection, osig => do
    let new_connection : List (Val K) := new_connection ++ [(Val.tuple [(Val.int osys), osig, (Val.int gain)])]
    pure new_connection

/-- body of the 5th loop of the group: `for cnx in new_connection:` -/
def icxOutList_loop5  (st : List (List (Val K))) (el : Val K) :
    Except Err (List (List (Val K))) :=
  match st, el with
  | new_connections, cnx => do
    let new_connections : List (List (Val K)) := new_connections ++ [[cnx]]
    pure new_connections

/-- body of the 6th loop of the group: `for (i, cnx) in enumerate(new_connection):` -/
def icxOutList_loop6  (st : List (List (Val K))) (el : (Int) × (Val K)) :
    Except Err (List (List (Val K))) :=
  match st, el with
  | new_connections, (i, cnx) => do
    let new_connections ← PyIOL.appendAt new_connections i cnx
    pure new_connections

/-- body of the 2nd loop of the group: `for (osys, sys) in enumerate(syslist):` -/
def icxOutList_loop2 (gain : Int) (iout : Int) (outlist_none : Bool) (outputs : Val K) (sname : Val K) (st : Bool × Bool × List (List (Val K)) × List (Val K) × Val K) (el : (Int) × (SysSig)) :
    Except Err (Bool × Bool × List (List (Val K)) × List (Val K) × Val K) :=
  match st, el with
  | (found_signal, found_system, new_connections, new_outlist, new_outputs), (osys, sys) => do
    let t11 ← PyIC.findSignals (PyICX.outputIndex sys) sname
    let indices : Val K := t11
    let (new_outlist, found_system, new_connections, new_outputs, found_signal) ← (do
      if (PyIC.eqLit sname (SysSig.name sys)) then
        let new_outlist ← List.foldlM (icxOutList_loop3 gain osys) new_outlist (PyIC.rangeNat ((PyICX.outputIndex sys).length))
        let found_system : Bool := true
        pure (new_outlist, found_system, new_connections, new_outputs, found_signal)
      else
        let (new_connections, new_outputs, found_signal) ← (do
          if (PyICX.truthy indices) then
            let new_connection : List (Val K) := []
            let t12 ← PyIC.iter indices
            let new_connection ← List.foldlM (icxOutList_loop4 gain osys) new_connection t12
            let (new_connections, new_outputs) ← (do
              if (new_connections.length == (0 : Nat)) then
                let new_connections ← List.foldlM (icxOutList_loop5 ) new_connections new_connection
                let new_outputs ← (do
                  if outlist_none then
                    let new_outputs ← (do
                      if (!(new_connection.length == (1 : Nat))) then
                        let t13 ← PyIC.iter indices
                        let t15 ← List.mapM (fun (i : Val K) => (do let t14 ← PyIOL.labelAtVal (PyICX.outputIndex sys) i; pure t14 : Except Err (Val K))) t13
                        let new_outputs ← PyIOL.extend new_outputs t15
                        pure new_outputs
                      else
                        let t16 ← PyIC.getItem outputs iout
                        let new_outputs ← PyIOL.appendVal new_outputs t16
                        pure new_outputs
                      : Except Err (Val K))
                    pure new_outputs
                  else
                    pure new_outputs
                  : Except Err (Val K))
                pure (new_connections, new_outputs)
              else
                let new_connections ← List.foldlM (icxOutList_loop6 ) new_connections (PyIC.enumerate new_connection)
                pure (new_connections, new_outputs)
              : Except Err (List (List (Val K)) × Val K))
            let found_signal : Bool := true
            pure (new_connections, new_outputs, found_signal)
          else
            pure (new_connections, new_outputs, found_signal)
          : Except Err (List (List (Val K)) × Val K × Bool))
        pure (new_outlist, found_system, new_connections, new_outputs, found_signal)
      : Except Err (List (Val K) × Bool × List (List (Val K)) × Val K × Bool))
    pure (found_signal, found_system, new_connections, new_outlist, new_outputs)

/-- body of the 7th loop of the group: `for osig in indices:` -/
def icxOutList_loop7 (gain : K) (osys : Int) (st : List (Val K)) (el : Int) :
    Except Err (List (Val K)) :=
  match st, el with
  | signal_list, osig => do
    let signal_list : List (Val K) := signal_list ++ [(Val.tuple [(Val.int osys), (Val.int osig), (Val.num gain)])]
    pure signal_list

/-- body of the 8th loop of the group: `for isig in indices:` -/
def icxOutList_loop8 (gain : K) (isys : Int) (syslist : List (SysSig)) (st : List (Val K)) (el : Int) :
    Except Err (List (Val K)) :=
  match st, el with
  | signal_list, isig => do
    let t19 ← PyIOL.sysAt syslist isys
    let t20 ← PyIOL.sysAt syslist isys
    let t21 ← PyIOL.labelAtVal (PyICX.inputIndex t20) (Val.int isig)
    let signal_list : List (Val K) := signal_list ++ [(Val.tuple [(PyIOL.nameVal (SysSig.name t19)), t21, (Val.num gain)])]
    pure signal_list

/-- the local function `_find_output_or_input_signal` -/
def icxOutList_fn1 (syslist : List (SysSig)) (spec : Val K) :
    Except Err (List (Val K)) :=
  do
    let signal_list : List (Val K) := []
    let signal_list ← PyIC.tryExcept (do
        let t17 ← icParseSpec syslist spec "output" none
        let osys : Int := t17.1
        let indices : List (Int) := t17.2.1
        let gain : K := t17.2.2
        let signal_list ← List.foldlM (icxOutList_loop7 gain osys) signal_list indices
        pure signal_list
        : Except Err (List (Val K))) PyIC.isValueError (do
        let t18 ← icParseSpec syslist spec "input or output" (some "input_index")
        let isys : Int := t18.1
        let indices : List (Int) := t18.2.1
        let gain : K := t18.2.2
        let signal_list ← List.foldlM (icxOutList_loop8 gain isys syslist) signal_list indices
        pure signal_list
        : Except Err (List (Val K)))
    pure signal_list

/-- body of the 9th loop of the group: `for spec in connection:` -/
def icxOutList_loop9 (syslist : List (SysSig)) (st : List (Val K)) (el : Val K) :
    Except Err (List (Val K)) :=
  match st, el with
  | signal_list, spec => do
    let t23 ← icxOutList_fn1 syslist spec
    let signal_list : List (Val K) := signal_list ++ t23
    pure signal_list

/-- body of the 1st loop of the group: `for (iout, connection) in enumerate(outlist):` -/
def icxOutList_loop1 (outlist_none : Bool) (outputs : Val K) (syslist : List (SysSig)) (st : List (Val K) × Val K) (el : (Int) × (Val K)) :
    Except Err (List (Val K) × Val K) :=
  match st, el with
  | (new_outlist, new_outputs), (iout, connection) => do
    let new_connections : List (List (Val K)) := []
    let t6 ← (do
      if (PyIC.isinstance connection [.str]) then
        let t4 ← PyIC.reSplitDot connection
        let t5 ← PyIC.len t4
        pure ((t5 : Int) == ((1 : Nat) : Int))
      else
        pure false
      : Except Err Bool)
    let (new_outlist, new_connections, new_outputs) ← (do
      if t6 then
        let t7 ← PyIC.getItem connection (0 : Int)
        let t9 ← (do
          if (PyIC.eqLit t7 ("-")) then
            let t8 ← PyIC.dropFrom connection 1
            pure t8
          else
            pure connection
          : Except Err (Val K))
        let sname : Val K := t9
        let t10 ← PyIC.getItem connection (0 : Int)
        let gain : Int := (if (PyIC.eqLit t10 ("-")) then (-1 : Int) else (1 : Int))
        let found_system : Bool := false
        let found_signal : Bool := false
        let (found_signal, found_system, new_connections, new_outlist, new_outputs) ← List.foldlM (icxOutList_loop2 gain iout outlist_none outputs sname) (found_signal, found_system, new_connections, new_outlist, new_outputs) (PyIC.enumerate syslist)
        let new_outlist ← (do
          if (found_system && found_signal) then
            throw Err.badArg
          else
            let new_outlist ← (do
              if found_signal then
                let new_outlist : List (Val K) := new_outlist ++ new_connections.map Val.list
                pure new_outlist
              else
                let _ ← (do
                  if (!found_system) then
                    throw Err.unknownName
                  else
                    pure ()
                  : Except Err (Unit))
                pure new_outlist
              : Except Err (List (Val K)))
            pure new_outlist
          : Except Err (List (Val K)))
        pure (new_outlist, new_connections, new_outputs)
      else
        let new_outlist ← (do
          if (PyIC.isinstance connection [.list]) then
            let signal_list : List (Val K) := []
            let t22 ← PyIC.iter connection
            let signal_list ← List.foldlM (icxOutList_loop9 syslist) signal_list t22
            let new_outlist : List (Val K) := new_outlist ++ [(Val.list signal_list)]
            pure new_outlist
          else
            let t24 ← icxOutList_fn1 syslist connection
            let new_outlist : List (Val K) := new_outlist ++ t24
            pure new_outlist
          : Except Err (List (Val K)))
        pure (new_outlist, new_connections, new_outputs)
      : Except Err (List (Val K) × List (List (Val K)) × Val K))
    pure (new_outlist, new_outputs)

/-- `control/nlsys.py:interconnect`, the pre-processing of `outlist`: as for `inplist` on the subsystem OUTPUTS; a specification that is not a bare string is looked up among the outputs first and, if that raises ValueError, among the inputs, as the source text says it (sha256 of the statement group
d68878bc987bb0eb0c0c5925b84aa6b53c0e0f74ddeb90a1b8e33430e46d059e). -/
def icxOutList (syslist : List (SysSig)) (outlist : Val K) (outputs : Val K) (outlist_none : Bool) :
    Except Err (Val K × Val K) :=
  do
    let outlist ← (do
      if (!(PyIC.isinstance outlist [.list])) then
        let outlist : Val K := (Val.list ([outlist]))
        pure outlist
      else
        pure outlist
      : Except Err (Val K))
    let new_outlist : List (Val K) := []
    let new_outputs : Val K := (if outlist_none then (Val.list []) else outputs)
    let t1 ← PyIC.iter outlist
    let (new_outlist, new_outputs) ← List.foldlM (icxOutList_loop1 outlist_none outputs syslist) (new_outlist, new_outputs) (PyIC.enumerate t1)
    let outlist : Val K := (Val.list new_outlist)
    let outputs : Val K := new_outputs
    pure (outlist, outputs)

end CtrlVerif.Generated
