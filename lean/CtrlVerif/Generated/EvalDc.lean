-- GENERATED on every run by harness/core/py2lean_eval.py from the source text of the tree under check (LTI._dcgain 9360824bb8dfc79d, TransferFunction.dcgain 2eb3c79088cfb7be, StateSpace.dcgain 6b6a4371e886a85d).  Do not edit.
import CtrlVerif.Model.PyEval
import CtrlVerif.Generated.EvalCall
import CtrlVerif.Generated.DtPred

set_option linter.unusedVariables false

namespace CtrlVerif.Generated

open CtrlVerif

noncomputable section

variable {K : Type} [Field K] [DecidableEq K]

/-- `control/lti.py:LTI._dcgain` as the source text says it (sha256 of the function text
9360824bb8dfc79d1889cc0d9a3997ba84294ee05790f86bd8e59b76d45c8114).
Defaults: none.
  note: tf: `self.isctime(…)` is `Generated.ioIsctime` on the timebase (source-tied by C05Pred)
  note: tf: `np.isnan(z.imag)` is one primitive (`PyEval.isnanImag`)
  note: ss: `self.isctime(…)` is `Generated.ioIsctime` on the timebase (source-tied by C05Pred)
  note: ss: `np.isnan(z.imag)` is one primitive (`PyEval.isnanImag`) -/
def ltiDcgain (P : Eval.Parts K) (self : LTI K) (warn_infinite : Bool) :
    Except Err (PyEval.DcRes K) :=
  match self with
  | .tf p m e dt => do
    let self : DTF K := ⟨p, m, ⟨e⟩, dt⟩
    let t1 ← Generated.ioIsctime self.dt false
    let zeroresp ← tfCall P self (PyEval.XArg.scalar (((if (t1 = true) then (0 : Int) else (1 : Int)) : Int) : K)) none warn_infinite
    let t2 ← PyEval.logicalOr (PyEval.isreal P zeroresp) (PyEval.isnanImag zeroresp)
    let t3 ← PyEval.allB t2
    if (t3 = true) then
      pure (PyEval.DcRes.real (PyEval.realPart P zeroresp))
    else
      pure (PyEval.DcRes.cplx zeroresp)
  | .ss n p m G dt => do
    let self : DSS K := ⟨n, p, m, G, dt⟩
    let t1 ← Generated.ioIsctime self.dt false
    let zeroresp ← ssCall P self (PyEval.XArg.scalar (((if (t1 = true) then (0 : Int) else (1 : Int)) : Int) : K)) none warn_infinite
    let t2 ← PyEval.logicalOr (PyEval.isreal P zeroresp) (PyEval.isnanImag zeroresp)
    let t3 ← PyEval.allB t2
    if (t3 = true) then
      pure (PyEval.DcRes.real (PyEval.realPart P zeroresp))
    else
      pure (PyEval.DcRes.cplx zeroresp)

/-- `control/xferfcn.py:TransferFunction.dcgain` as the source text says it (sha256 of the function text
2eb3c79088cfb7beff471661058f36cf1e04133d4eddc3f0f73cf296c987dd43).
Defaults: warn_infinite=False. -/
def tfDcgain (P : Eval.Parts K) (self : DTF K) (warn_infinite : Bool) :
    Except Err (PyEval.DcRes K) :=
  do
    ltiDcgain P (LTI.tf self.p self.m self.sys.e self.dt) warn_infinite

/-- `control/statesp.py:StateSpace.dcgain` as the source text says it (sha256 of the function text
6b6a4371e886a85de95416fce0d089a5b5b48d83c07a7b364851226cf0b87e1b).
Defaults: warn_infinite=False. -/
def ssDcgain (P : Eval.Parts K) (self : DSS K) (warn_infinite : Bool) :
    Except Err (PyEval.DcRes K) :=
  do
    ltiDcgain P (LTI.ss self.n self.p self.m self.sys self.dt) warn_infinite

end

end CtrlVerif.Generated
