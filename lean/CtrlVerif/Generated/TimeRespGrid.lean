-- GENERATED on every run by harness/core/py2lean_tr.py from control/timeresp.py:forced_response (frGrid dff0feca455be276).  Do not edit.
import CtrlVerif.Model.PyTR

namespace CtrlVerif.Generated

open CtrlVerif

variable {K : Type} [Field K] [DecidableEq K]

/-- block `frGrid` of `control/timeresp.py:forced_response` as the source text says it (sha256 of the text of the translated
statements dff0feca455be276778b14968f4bd011967f58053cde8f325d79835ff1f81bc7).
  note: returns (n_steps, dt) -/
def frGrid (T : List K) :
    Except Err (Nat × K) :=
  do
    let n_steps : Nat := T.length
    let t1 ← PyArith.getItem T (-1 : Int)
    let t2 ← PyArith.getItem T (0 : Int)
    let dt ← PyArith.div (t1 - t2) ((((n_steps : Int) - (1 : Int)) : Int) : K)
    if (¬ (PyTR.allclose (PyTR.diff T) dt = true)) then
      throw Err.badArg
    else
      pure (n_steps, dt)

end CtrlVerif.Generated
