-- GENERATED on every run by harness/core/py2lean_arith.py from control/margins.py:_poly_iw_real_crossing (sha256 9f32848c74bd680603a035c09bb01d9cc037ff0c2e0fa9aad4919ec5bb2d34da).  Do not edit.
import CtrlVerif.Model.PyArith
import CtrlVerif.Model.Margins

namespace CtrlVerif.Generated

open CtrlVerif

/-- `control/margins.py:_poly_iw_real_crossing` as the source text says it (sha256 of the function text
9f32848c74bd680603a035c09bb01d9cc037ff0c2e0fa9aad4919ec5bb2d34da).
Defaults: none.
Translated up to the first call of `np.roots`: the result is its argument; the rest of the body is outside this tie. -/
def polyIwRealCrossing {K : Type} [Field K] [LinearOrder K] (num_iw : (List K × List K)) (den_iw : (List K × List K)) :
    Except Err (List K) :=
  (do
    let test_w : List K := (Margins.npsub (Margins.npmul num_iw.2 den_iw.1) (Margins.npmul num_iw.1 den_iw.2))
    pure test_w)

end CtrlVerif.Generated
