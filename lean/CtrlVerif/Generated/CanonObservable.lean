-- GENERATED on every run by harness/core/py2lean_canon.py from control/canonical.py (observable_form 31c24fe6c96aecbd).  Do not edit.
import CtrlVerif.Model.PyCanon

namespace CtrlVerif.Generated

open CtrlVerif

noncomputable section

variable {K : Type} [Field K] [DecidableEq K]

/-- `control/canonical.py:observable_form` as the source text says it (sha256 of the function text
31c24fe6c96aecbdf6ad86c7cff96128188b26d66576faef0ac1a69ee5fe7c72).
Defaults: none. -/
def observableForm (xsys : DSS K) : Except Err (DSS K × PMat K) :=
  do
    if (¬ (PySS.issiso xsys = true)) then
      throw Err.notImplemented
    else
      let zsys_A : PMat K := (PySS.A xsys)
      let zsys_B : PMat K := (PySS.B xsys)
      let zsys_C : PMat K := (PySS.C xsys)
      let zsys_D : PMat K := (PySS.D xsys)
      let zsys_dt : Dt := xsys.dt
      let zsys_C : PMat K := (PyCanon.zerosLike (PySS.C xsys))
      let zsys_C ← PyCanon.setItem zsys_C (0 : Int) (0 : Int) ((1 : Int) : K)
      let zsys_A : PMat K := (PyCanon.zerosLike (PySS.A xsys))
      let Apoly ← PyCanon.poly (PySS.A xsys)
      let zsys_A ← List.foldlM (fun (zsys_A : PMat K) (i : Int) => ((do
          let t1 ← PyArith.getItem Apoly (i + (1 : Int))
          let t2 ← PyArith.getItem Apoly (0 : Int)
          let t3 ← PyNum.div (-t1) t2
          let zsys_A ← PyCanon.setItem zsys_A i (0 : Int) t3
          let zsys_A ← (do
            if ((i + (1 : Int)) < (xsys.n : Int)) then
              let zsys_A ← PyCanon.setItem zsys_A i (i + (1 : Int)) ((1 : Int) : K)
              pure zsys_A
            else
              pure zsys_A
            : Except Err (PMat K))
          pure zsys_A
          : Except Err (PMat K)))) zsys_A (PyArith.range (0 : Int) (xsys.n : Int))
      let Wrx ← PyCanon.obsv (PySS.A xsys) (PySS.C xsys)
      let Wrz ← PyCanon.obsv zsys_A zsys_C
      let Tzx ← PMat.solve Wrz Wrx
      if ((PMat.rank Tzx) ≠ xsys.n) then
        throw Err.illPosed
      else
        let zsys_B ← PMat.matmul Tzx (PySS.B xsys)
        let t4 ← PySS.mk zsys_A zsys_B zsys_C zsys_D zsys_dt
        pure (t4, Tzx)

end

end CtrlVerif.Generated
