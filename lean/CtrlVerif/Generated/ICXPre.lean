-- GENERATED on every run by harness/core/py2lean_icx.py from control/nlsys.py:interconnect (icxImplicit 5e19ec0d5a22a3b2, icxNormalize ae308a49fb6c98cd, icxPreConnections 0a752b147fa99f86, icxCheckInputs a167c7a972f646d9, icxCheckOutputs 3aa58fbae5229dcb, icxAddUnused d120f6dcd7659f71).  Do not edit.
import CtrlVerif.Generated.ICXFind
import CtrlVerif.Generated.ICParseSpec

namespace CtrlVerif.Generated

open CtrlVerif CtrlVerif.IC CtrlVerif.PyIC

variable {K : Type} [Field K] [DecidableEq K]

/-- `control/nlsys.py:interconnect`, the body of `if connections is None:` (implicit connections: every subsystem input is fed by all outputs with the same label), as the source text says it (sha256 of the statement group
5e19ec0d5a22a3b248605c71e6fb81b96ee72e21ac749fb2871c0ba8b6cb7384).
  skipped (outside the model): `connection_type = 'implicit'` -/
def icxImplicit (syslist : List (SysSig)) :
    Except Err (List (List (Val K))) :=
  do
    let connections : List (List (Val K)) := []
    let connections ← List.foldlM (fun (connections : List (List (Val K))) (input_sys : SysSig) => (do
        let connections ← List.foldlM (fun (connections : List (List (Val K))) (input_name : Label) => (do
            let connect : List (Val K) := [(PyICX.dotted (SysSig.name input_sys) input_name)]
            let connect ← List.foldlM (fun (connect : List (Val K)) (output_sys : SysSig) => (do
                let connect ← (do
                  if (PyICX.labelIn input_name (PyICX.outputIndex output_sys)) then
                    let connect : List (Val K) := connect ++ [(PyICX.dotted (SysSig.name output_sys) input_name)]
                    pure connect
                  else
                    pure connect
                  : Except Err (List (Val K)))
                pure connect
                : Except Err (List (Val K)))) connect syslist
            let connections ← (do
              if (decide (connect.length > (1 : Nat))) then
                let connections : List (List (Val K)) := connections ++ [connect]
                pure connections
              else
                pure connections
              : Except Err (List (List (Val K))))
            pure connections
            : Except Err (List (List (Val K))))) connections (PyICX.inputIndex input_sys)
        pure connections
        : Except Err (List (List (Val K))))) connections syslist
    pure connections

/-- `control/nlsys.py:interconnect`, the `else:` branch after `elif connections is False:` (a flat non-empty list of str / tuple is ONE connection), as the source text says it (sha256 of the statement group
ae308a49fb6c98cd29b2654d1e7db8643e260f56fd2d2610e0de49fad3ed3de6).
  skipped (outside the model): `connection_type = 'explicit'` -/
def icxNormalize (connections : Val K) :
    Except Err (Val K) :=
  do
    let t4 ← (do
      if (PyIC.isinstance connections [.list]) then
        let t1 ← PyIC.len connections
        let t3 ← (do
          if (decide ((t1 : Int) > ((0 : Nat) : Int))) then
            let t2 ← PyIC.iter connections
            pure (t2.all fun (cnxn : Val K) => (PyIC.isinstance cnxn [.str, .tuple]))
          else
            pure false
          : Except Err Bool)
        pure t3
      else
        pure false
      : Except Err Bool)
    let connections ← (do
      if t4 then
        let connections : Val K := (Val.list ([connections]))
        pure connections
      else
        pure connections
      : Except Err (Val K))
    pure connections

/-- `control/nlsys.py:interconnect`, the loop that parses every connection (`new_connections`): the first specification as a subsystem input, the others as subsystem outputs, as the source text says it (sha256 of the statement group
0a752b147fa99f86d4fc58a6e1d6732cb60486df00fe68942c999f74a5252825). -/
def icxPreConnections (syslist : List (SysSig)) (connections : Val K) :
    Except Err ((List (List (Int × List Int × K)))) :=
  do
    let new_connections : List (List (Int × List Int × K)) := []
    let t1 ← PyIC.iter connections
    let new_connections ← List.foldlM (fun (new_connections : List (List (Int × List Int × K))) (connection : Val K) => (do
        let _ ← (do
          if (!(PyIC.isinstance connection [.list])) then
            throw Err.badArg
          else
            pure ()
          : Except Err (Unit))
        let t2 ← PyIC.getItem connection (0 : Int)
        let t3 ← icParseSpec syslist t2 "input" none
        let input_spec : Int × List Int × K := t3
        let input_spec_list : List (Int × List Int × K) := [input_spec]
        let output_specs_list : List (List (Int × List Int × K)) := (List.replicate input_spec_list.length [])
        let t4 ← PyIC.dropFrom connection 1
        let t5 ← PyIC.iter t4
        let output_specs_list ← List.foldlM (fun (output_specs_list : List (List (Int × List Int × K))) (spec : Val K) => (do
            let t6 ← icParseSpec syslist spec "output" none
            let output_spec : Int × List Int × K := t6
            let output_specs_list ← PyICX.aliasedAppend output_specs_list output_spec
            pure output_specs_list
            : Except Err (List (List (Int × List Int × K))))) output_specs_list t5
        let new_connections ← List.foldlM (fun (new_connections : List (List (Int × List Int × K))) ((input_spec, output_specs) : (Int × List Int × K) × (List (Int × List Int × K))) => (do
            let new_connection : List (Int × List Int × K) := ([input_spec] ++ output_specs)
            let new_connections : List (List (Int × List Int × K)) := new_connections ++ [new_connection]
            pure new_connections
            : Except Err (List (List (Int × List Int × K))))) new_connections (List.zip input_spec_list output_specs_list)
        pure new_connections
        : Except Err (List (List (Int × List Int × K))))) new_connections t1
    let connections : List (List (Int × List Int × K)) := new_connections
    pure connections

/-- `control/nlsys.py:interconnect`, the check "`inputs` incompatible with `inplist`", as the source text says it (sha256 of the statement group
a167c7a972f646d932a8d61259ab7a2970d7b5bf625bd9e3697a27e352fc1e7b). -/
def icxCheckInputs (inputs : Val K) (inplist : List (Val K)) :
    Except Err (Unit) :=
  do
    let t6 ← (do
      if (PyICX.truthy inputs) then
        let t2 ← (do
          if (PyIC.isinstance inputs [.list, .tuple]) then
            let t1 ← PyIC.len inputs
            pure (!((t1 : Int) == (inplist.length : Int)))
          else
            pure false
          : Except Err Bool)
        let t5 ← (do
          if (!t2) then
            let t4 ← (do
              if (PyIC.isinstance inputs [.int]) then
                let t3 ← PyIC.toInt inputs
                pure (!(t3 == (inplist.length : Int)))
              else
                pure false
              : Except Err Bool)
            pure t4
          else
            pure true
          : Except Err Bool)
        pure t5
      else
        pure false
      : Except Err Bool)
    let _ ← (do
      if t6 then
        throw Err.badArg
      else
        pure ()
      : Except Err (Unit))
    pure ()

/-- `control/nlsys.py:interconnect`, the check "`outputs` incompatible with `outlist`", as the source text says it (sha256 of the statement group
3aa58fbae5229dcb3e90bb0348ce6a8f4108d2f42b8ebf6ceb91ab5e61e8d23d). -/
def icxCheckOutputs (outputs : Val K) (outlist : List (Val K)) :
    Except Err (Unit) :=
  do
    let t6 ← (do
      if (PyICX.truthy outputs) then
        let t2 ← (do
          if (PyIC.isinstance outputs [.list, .tuple]) then
            let t1 ← PyIC.len outputs
            pure (!((t1 : Int) == (outlist.length : Int)))
          else
            pure false
          : Except Err Bool)
        let t5 ← (do
          if (!t2) then
            let t4 ← (do
              if (PyIC.isinstance outputs [.int]) then
                let t3 ← PyIC.toInt outputs
                pure (!(t3 == (outlist.length : Int)))
              else
                pure false
              : Except Err Bool)
            pure t4
          else
            pure true
          : Except Err Bool)
        pure t5
      else
        pure false
      : Except Err Bool)
    let _ ← (do
      if t6 then
        throw Err.badArg
      else
        pure ()
      : Except Err (Unit))
    pure ()

/-- `control/nlsys.py:interconnect`, the two loops of `if add_unused:` that append the dropped signals to `inplist` / `outlist` and their labels to `inputs` / `outputs` (`newsys.syslist` is `syslist`; `inputs` / `outputs` are lists of names), as the source text says it (sha256 of the statement group
d120f6dcd7659f7185a4e967f767157d9ea93b1bc4023ae14ed6b89143d4e834). -/
def icxAddUnused (syslist : List (SysSig)) (inplist : List (Val K)) (inputs : List (String)) (outlist : List (Val K)) (outputs : List (String)) (dropped_inputs : List (Nat × Nat)) (dropped_outputs : List (Nat × Nat)) :
    Except Err (List (Val K) × List (String) × List (Val K) × List (String)) :=
  do
    let (inplist, inputs) ← List.foldlM (fun ((inplist, inputs) : List (Val K) × List (String)) ((isys, isig) : Nat × Nat) => (do
        let inplist : List (Val K) := inplist ++ [(PyICX.pairVal (isys, isig))]
        let t1 ← PyICX.labelAt syslist .input (isys, isig)
        let inputs : List (String) := inputs ++ [t1]
        pure (inplist, inputs)
        : Except Err (List (Val K) × List (String)))) (inplist, inputs) dropped_inputs
    let (outlist, outputs) ← List.foldlM (fun ((outlist, outputs) : List (Val K) × List (String)) ((osys, osig) : Nat × Nat) => (do
        let outlist : List (Val K) := outlist ++ [(PyICX.pairVal (osys, osig))]
        let t2 ← PyICX.labelAt syslist .output (osys, osig)
        let outputs : List (String) := outputs ++ [t2]
        pure (outlist, outputs)
        : Except Err (List (Val K) × List (String)))) (outlist, outputs) dropped_outputs
    pure (inplist, inputs, outlist, outputs)

end CtrlVerif.Generated
