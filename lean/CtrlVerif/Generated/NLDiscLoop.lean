-- GENERATED on every run by harness/core/py2lean_nl.py from control/nlsys.py (nlDiscLoop 16fcd02cf84d025a).  Do not edit.
import CtrlVerif.Model.PyNL

namespace CtrlVerif.Generated

open CtrlVerif

variable {K : Type} [Field K] [DecidableEq K]

/-- block `nlDiscLoop` of `control/nlsys.py` as the source text says it (sha256 of the text of the translated
statements 16fcd02cf84d025aeaeb4b585690eac633fb0986dfabd854e9cce160ed354a2d).
  note: returns (soln.t, y, soln.y, u) -/
def nlDiscLoop (rhs out : K → List K → List K → Except Err (List K)) (ufun : K → Except Err (List K))
    (t_eval : List K) (X0 : List K) :
    Except Err (List K × List (List K) × List (List K) × List (List K)) :=
  do
    let soln_t : List K := t_eval
    let x : List K := X0
    let soln_y : List (List K) := []
    let u : List (List K) := []
    let y : List (List K) := []
    let (y, soln_y, u, x) ← List.foldlM (fun (t1 : List (List K) × List (List K) × List (List K) × List K) (t : K) => (do
        let y : List (List K) := t1.1
        let soln_y : List (List K) := t1.2.1
        let u : List (List K) := t1.2.2.1
        let x : List K := t1.2.2.2
        let soln_y : List (List K) := soln_y ++ [x]
        let t2 ← ufun t
        let u : List (List K) := u ++ [t2]
        let t3 ← PyArith.getItem u (-1 : Int)
        let t4 ← out t x t3
        let y : List (List K) := y ++ [t4]
        let t5 ← PyArith.getItem u (-1 : Int)
        let t6 ← rhs t x t5
        let x : List K := t6
        pure (y, soln_y, u, x)
        : Except Err (List (List K) × List (List K) × List (List K) × List K))) (y, soln_y, u, x) t_eval
    let t7 ← PyNL.transposeStack soln_y
    let soln_y : List (List K) := t7
    let t8 ← PyNL.transposeStack y
    let y : List (List K) := t8
    let t9 ← PyNL.transposeStack u
    let u : List (List K) := t9
    pure (soln_t, y, soln_y, u)

end CtrlVerif.Generated
