-- GENERATED on every run by harness/core/py2lean_conv.py from control/statesp.py, control/xferfcn.py (ssdata c6d64ba9c41cbc7f, tfdata 0b56ac5d8bc188c7).  Do not edit.
import CtrlVerif.Model.PyConv
import CtrlVerif.Generated.ConvToSS
import CtrlVerif.Generated.ConvToTF

namespace CtrlVerif.Generated.Conv

open CtrlVerif

variable {K : Type} [Field K] [DecidableEq K]

/-- `control/statesp.py:ssdata` as the source text says it (sha256 of the function text
c6d64ba9c41cbc7fe4e37358778224f329a94b50dcccd139897b1fdc21d1dd30). -/
def ssdata (tf2ss : List K → List K → Except Err (PMat K × PMat K × PMat K × PMat K)) (sys : PyConv.Opd K) : Except Err ((PMat K) × (PMat K) × (PMat K) × (PMat K)) :=
  do
    let t1 ← convertToStatespace tf2ss sys false none
    let ss : PyConv.SSObj K := t1
    pure ((PyConv.SSO.A ss), (PyConv.SSO.B ss), (PyConv.SSO.C ss), (PyConv.SSO.D ss))

/-- `control/xferfcn.py:tfdata` as the source text says it (sha256 of the function text
0b56ac5d8bc188c78e02341bb50d7136fc375ea9f2519760e1b65c3ae5521c96). -/
def tfdata (ss2tf : PMat K → PMat K → PMat K → PMat K → Nat → Except Err (List (List K) × List K)) (sys : PyConv.Opd K) : Except Err ((List (List (List K))) × (List (List (List K)))) :=
  do
    let t1 ← convertToTransferFunction ss2tf sys 1 1 false
    let tf : PyConv.TFObj K := t1
    pure ((PyConv.TF.num tf), (PyConv.TF.den tf))

end CtrlVerif.Generated.Conv
