-- GENERATED on every run by harness/core/py2lean_p2phead.py from control/config.py, control/optimal.py (optimalAliases 0c097b2524149e39, processParam 6fad59731c67c209).  Do not edit.
import CtrlVerif.Model.PyP2PHead

namespace CtrlVerif.Generated

open CtrlVerif

set_option linter.unusedVariables false

variable {ν : Type} [DecidableEq ν]

/-- block `optimalAliases` of `control/optimal.py:_optimal_aliases` as the source text says it (sha256 of the text of the translated
statements 0c097b2524149e39502f1af71c03e403a75c00cf8b7b81b7623be017a6e42fcd). -/
def optimalAliases :
    List (String × (List String × List String)) :=
  [("integral_cost", (["trajectory_cost", "cost"], [])),
   ("initial_state", (["x0", "X0"], [])),
   ("initial_input", (["u0", "U0"], [])),
   ("final_state", (["xf"], [])),
   ("final_input", (["uf"], [])),
   ("initial_time", (["T0"], [])),
   ("trajectory_constraints", (["constraints"], [])),
   ("return_states", (["return_x"], []))]

/-- body of loop 1 of `processParam` (`for kw in legacy`), state (kwargs, newval). -/
def processParam_loop1 (name : String) (defval : ν) (sigval : ν) (t2 : PyNL.Dict String ν × ν) (kw : String) :
    Except Err (PyNL.Dict String ν × ν) :=
  do
    let kwargs : PyNL.Dict String ν := t2.1
    let newval : ν := t2.2
    let (kwargs, newval) ← (if (PyHead.dictContains kwargs kw) = true then (do
        let t3 ← PyHead.dictPop kwargs kw
        let kwval : ν := t3.1
        let kwargs : PyNL.Dict String ν := t3.2
        let _ ← (if ((decide (newval ≠ defval)) && (decide (kwval ≠ newval))) = true then (do
            throw Err.badArg
            : Except Err (Unit)) else (do
            pure ()
            : Except Err (Unit)))
        let newval : ν := kwval
        pure (kwargs, newval)
        : Except Err (PyNL.Dict String ν × ν)) else (do
        pure (kwargs, newval)
        : Except Err (PyNL.Dict String ν × ν)))
    pure (kwargs, newval)

/-- body of loop 2 of `processParam` (`for kw in aliases`), state (kwargs, newval). -/
def processParam_loop2 (name : String) (defval : ν) (sigval : ν) (t4 : PyNL.Dict String ν × ν) (kw : String) :
    Except Err (PyNL.Dict String ν × ν) :=
  do
    let kwargs : PyNL.Dict String ν := t4.1
    let newval : ν := t4.2
    let (kwargs, newval) ← (if (PyHead.dictContains kwargs kw) = true then (do
        let t5 ← PyHead.dictPop kwargs kw
        let kwval : ν := t5.1
        let kwargs : PyNL.Dict String ν := t5.2
        let _ ← (if ((decide (newval ≠ defval)) && (decide (kwval ≠ newval))) = true then (do
            throw Err.badArg
            : Except Err (Unit)) else (do
            pure ()
            : Except Err (Unit)))
        let newval : ν := kwval
        pure (kwargs, newval)
        : Except Err (PyNL.Dict String ν × ν)) else (do
        pure (kwargs, newval)
        : Except Err (PyNL.Dict String ν × ν)))
    pure (kwargs, newval)

/-- block `processParam` of `control/config.py:_process_param` as the source text says it (sha256 of the text of the translated
statements 6fad59731c67c20959d4138caef982ab225757733fdbccadd446af5f0aaa5446).
  note: `alias_mapping[name]` is the parameter `alias_entry` (the table itself: `optimalAliases`, generated from control/optimal.py)
  note: `warnings.warn(f'alias `{kw}` is legacy name; use `{name}` instead', Pe` dropped: a warning does not change the result
  note: returns (the value returned, `kwargs` as the call leaves it) -/
def processParam (name : String) (defval : ν) (kwargs : PyNL.Dict String ν) (alias_entry : List String × List String) (sigval : ν) :
    Except Err (ν × PyNL.Dict String ν) :=
  do
    let (kwargs, newval) ← (if (PyHead.dictContains kwargs name) = true then (do
        let _ ← (if (decide (defval ≠ sigval)) = true then (do
            throw Err.badArg
            : Except Err (Unit)) else (do
            pure ()
            : Except Err (Unit)))
        let t1 ← PyHead.dictPop kwargs name
        let newval : ν := t1.1
        let kwargs : PyNL.Dict String ν := t1.2
        pure (kwargs, newval)
        : Except Err (PyNL.Dict String ν × ν)) else (do
        let newval : ν := defval
        pure (kwargs, newval)
        : Except Err (PyNL.Dict String ν × ν)))
    let aliases : List String := alias_entry.1
    let legacy : List String := alias_entry.2
    let (kwargs, newval) ← List.foldlM (processParam_loop1 name defval sigval) (kwargs, newval) legacy
    let (kwargs, newval) ← List.foldlM (processParam_loop2 name defval sigval) (kwargs, newval) aliases
    pure (newval, kwargs)

end CtrlVerif.Generated
