-- GENERATED on every run by harness/core/py2lean_grid.py from control/freqplot.py:nyquist_response (frequency grid) (sha256 21b8d8c11025635595a548e28ae5fbd0d929e88694f828ed4658aa82e2e44e87).  Do not edit.
import CtrlVerif.Model.PyGrid
import CtrlVerif.Generated.GridDetermine

namespace CtrlVerif.Generated

open CtrlVerif

/-- the statements of `control/freqplot.py:nyquist_response` that determine the common frequency grid (backward
slice of the call of `_determine_omega_vector` and of the `if` that lets the grid start at 0; sha256 of these and
of the per-system statements below
21b8d8c11025635595a548e28ae5fbd0d929e88694f828ed4658aa82e2e44e87):
    omega_num_given = omega_num is not None
    omega_num = config._get_param('freqplot', 'number_of_samples', omega_num)
    syslist = sysdata if isinstance(sysdata, (list, tuple)) else [sysdata]
    omega, omega_range_given = _determine_omega_vector(syslist, omega, omega_limits, omega_num, feature_periphery_decades=2)
    if not omega_range_given:
        if omega_num_given:
            omega[0] = 0.0
        else:
            omega = np.concatenate((np.linspace(0, omega[0], indent_points), omega[1:]))
Result: `(syslist, omega, omega_range_given)`.  `indent_points` is the value read from the keyword dictionary. -/
def nyquistGridCommon {K : Type} [Field K] [LinearOrder K] [IsStrictOrderedRing K] [FloorRing K] (E : PyGrid.Ext K)
    (sysdata : PyGrid.SysArg K) (omega : PyGrid.OmArg K) (omega_limits : PyGrid.OmArg K) (omega_num : Option ℕ) (indent_points : ℕ) :
    Except Err (PyGrid.SysArg K × List K × Bool) :=
  (do
    let omega_num_given : Bool := !(Option.isNone omega_num)
    let omega_num : Option ℕ := PyGrid.getParamO (E.cfgN "freqplot.number_of_samples") omega_num
    let t2 ← (if PyGrid.hasIter sysdata then (pure sysdata) else (do
      let t1 ← PyGrid.single sysdata
      pure t1) : Except Err (PyGrid.SysArg K))
    let syslist : PyGrid.SysArg K := t2
    let t3 ← determineOmegaVector E syslist omega omega_limits omega_num false (some (2 : K))
    let omega : List K := t3.1
    let omega_range_given : Bool := t3.2
    let t7 ← ((if !omega_range_given then
        (do
          let t6 ← ((if omega_num_given then
              (do
                let t4 ← PyGrid.setItem omega 0 (0 : K)
                let omega : List K := t4
                pure omega)
            else
              (do
                let t5 ← PyGrid.item omega 0
                let omega : List K := (PyGrid.linspace (0 : K) t5 indent_points) ++ (List.drop 1 omega)
                pure omega)) : Except Err (List K))
          let omega : List K := t6
          pure omega)
      else
        (pure omega)) : Except Err (List K))
    let omega : List K := t7
    pure (syslist, omega, omega_range_given))

/-- the statements of the loop over the systems up to `<contour> = 1j * omega_sys`: the frequencies of one system. -/
def nyquistOmegaSys {K : Type} [Field K] [LinearOrder K] [IsStrictOrderedRing K] [FloorRing K] (E : PyGrid.Ext K)
    (sys : PyGrid.Sys K) (omega : List K) (omega_range_given : Bool) (warn_nyquist : Bool) :
    Except Err (List K) :=
  (if !sys.siso then
    (.error Err.notImplemented)
  else
    (do
      let t1 : List K := (if (sys.frd && sys.ifuncNone) && (!omega_range_given) then
          (let omega_sys : List K := sys.omega
          omega_sys)
        else
          (let omega_sys : List K := omega
          omega_sys))
      let omega_sys : List K := t1
      let t6 ← ((if DtPred.isdtime true sys.dt then
          (do
            let t2 ← PyGrid.dtNum sys.dt
            let t3 ← PyGrid.pdiv E.pi t2
            let nyq_freq : K := t3
            let t4 : List K := (if !omega_range_given then
                (let omega_sys : List K := (List.filter (fun x => decide (x < nyq_freq)) omega_sys) ++ [nyq_freq]
                omega_sys)
              else
                (omega_sys))
            let omega_sys : List K := t4
            pure omega_sys)
        else
          (pure omega_sys)) : Except Err (List K))
      let omega_sys : List K := t6
      pure omega_sys))

/-- the frequencies of every system of the list: the common grid, then the loop `for .., sys in enumerate(syslist)`. -/
def nyquistOmegaAll {K : Type} [Field K] [LinearOrder K] [IsStrictOrderedRing K] [FloorRing K] (E : PyGrid.Ext K)
    (sysdata : PyGrid.SysArg K) (omega : PyGrid.OmArg K) (omega_limits : PyGrid.OmArg K) (omega_num : Option ℕ) (indent_points : ℕ) (warn_nyquist : Bool) :
    Except Err (List (List K)) :=
  (do
    let c ← nyquistGridCommon E sysdata omega omega_limits omega_num indent_points
    let l ← PyGrid.iter c.1
    List.mapM (fun s => nyquistOmegaSys E s c.2.1 c.2.2 warn_nyquist) l)

end CtrlVerif.Generated
