-- GENERATED on every run by harness/core/py2lean_nl.py from control/nlsys.py (nlLinArgs 562616ddcfef5d02).  Do not edit.
import CtrlVerif.Model.PyNL
import CtrlVerif.Generated.NLProcessVector

namespace CtrlVerif.Generated

open CtrlVerif

variable {K : Type} [Field K] [DecidableEq K]

/-- block `nlLinArgs` of `control/nlsys.py` as the source text says it (sha256 of the text of the translated
statements 562616ddcfef5d024797a3e6e95dd39296cb2eeeb1936eed612aa2b723f1bab5).
  note: a vector argument that is `None` is rejected where it is bound (it has to be an array when it is used)
  note: returns (x0, nstates, u0, ninputs) -/
def nlLinArgs (x0 u0 : PyNL.Arg K) (sys_nstates sys_ninputs : Int) :
    Except Err (List K × Int × List K × Int) :=
  do
    let t1 ← nlProcessVector x0 sys_nstates
    let t2 ← PyNL.asArray t1.1
    let x0 : List K := t2
    let nstates : Int := t1.2
    let t3 ← nlProcessVector u0 sys_ninputs
    let t4 ← PyNL.asArray t3.1
    let u0 : List K := t4
    let ninputs : Int := t3.2
    pure (x0, nstates, u0, ninputs)

end CtrlVerif.Generated
