-- GENERATED on every run by harness/core/py2lean_bdalgfn.py from control/bdalg.py (feedback c373f0c4554a7604f425df8807421bb67c3bb00c9ceef13caed7802b7ee08024).  Do not edit.
import CtrlVerif.Model.PyBdalg

namespace CtrlVerif.Generated.BdalgFn

open CtrlVerif

/-- `control/bdalg.py:feedback` as the source text says it (sha256 of the function text
c373f0c4554a7604f425df8807421bb67c3bb00c9ceef13caed7802b7ee08024).
`w`: what values do not determine (object identity, which model errors are TypeErrors);
a parameter with a default is an `Option` (`none`: not passed). -/
def feedback {K : Type} [Field K] [DecidableEq K] (w : PyBdalg.World) (sys1 : PyBdalg.Val K) (sys2 : Option (PyBdalg.Val K)) (sign : Option (K)) (kwargs : PyBdalg.Kw) :
    Except PyBdalg.Exc (PyBdalg.Val K) :=
  (do
    let sys2 := sys2.getD (PyBdalg.Val.num .pyInt (1 : K))
    let sign := sign.getD (-1 : K)
    match ((do
        PyBdalg.Val.feedbackM sys1 (some sys2) (some sign) kwargs
      ) : Except PyBdalg.Exc (PyBdalg.Val K)) with
    | .ok t1_v => pure t1_v
    | .error t1 =>
      if PyBdalg.excMatches w t1 [PyBdalg.ExcCls.AttributeError, PyBdalg.ExcCls.TypeError] then
        (do
          if (!(PyBdalg.isinstance sys1 [PyBdalg.Cls.int, PyBdalg.Cls.float, PyBdalg.Cls.complex, PyBdalg.Cls.npNumber, PyBdalg.Cls.ndarray, PyBdalg.Cls.InputOutputSystem])) then
            (do
              (Except.error PyBdalg.Exc.typeError)
            )
          else
            (do
              if (!(PyBdalg.isinstance sys2 [PyBdalg.Cls.int, PyBdalg.Cls.float, PyBdalg.Cls.complex, PyBdalg.Cls.npNumber, PyBdalg.Cls.ndarray, PyBdalg.Cls.InputOutputSystem])) then
                (do
                  (Except.error PyBdalg.Exc.typeError)
                )
              else
                (do
                  let sys1 ← (if (PyBdalg.isinstance sys1 [PyBdalg.Cls.int, PyBdalg.Cls.float, PyBdalg.Cls.complex, PyBdalg.Cls.npNumber, PyBdalg.Cls.ndarray]) then
                      (do
                        let sys1 ← (if (PyBdalg.isinstance sys2 [PyBdalg.Cls.int, PyBdalg.Cls.float, PyBdalg.Cls.complex, PyBdalg.Cls.npNumber, PyBdalg.Cls.ndarray, PyBdalg.Cls.TransferFunction]) then
                            (do
                              let sys1 ← PyBdalg.convertToTF sys1
                              pure sys1
                            )
                          else
                            (do
                              let sys1 ← (if (PyBdalg.isinstance sys2 [PyBdalg.Cls.FrequencyResponseData]) then
                                  (do
                                    let t2 ← PyBdalg.Val.omega sys2
                                    let sys1 ← PyBdalg.convertToFRD sys1 t2
                                    pure sys1
                                  )
                                else
                                  (do
                                    let sys1 ← PyBdalg.convertToSS sys1
                                    pure sys1
                                  ) : Except PyBdalg.Exc (PyBdalg.Val K))
                              pure sys1
                            ) : Except PyBdalg.Exc (PyBdalg.Val K))
                        pure sys1
                      )
                    else
                      (do
                        pure sys1
                      ) : Except PyBdalg.Exc (PyBdalg.Val K))
                  let sys ← PyBdalg.Val.feedbackM sys1 (some sys2) (some sign) []
                  PyBdalg.Val.updateNames sys kwargs
                  pure sys
                )
            )
        )
      else
      (Except.error t1))

end CtrlVerif.Generated.BdalgFn
