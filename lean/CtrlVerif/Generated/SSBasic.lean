-- GENERATED on every run by harness/core/py2lean_ss.py from control/statesp.py (__neg__ e3ed958dc361ea4a, append 44c96da297df344e).  Do not edit.
import CtrlVerif.Model.PyMat

namespace CtrlVerif.Generated

open CtrlVerif

noncomputable section

variable {K : Type} [Field K] [DecidableEq K]

/-- `control/statesp.py:StateSpace.__neg__` as the source text says it (sha256 of the function text
e3ed958dc361ea4a65a761e9aeb4d12ac48ae60bf8dce16e2d2d119cae39a290).
Defaults: none. -/
def ssNeg (self : DSS K) : Except Err (DSS K) :=
  do
    PySS.mk (PySS.A self) (PySS.B self) (PMat.neg (PySS.C self)) (PMat.neg (PySS.D self)) self.dt

/-- `control/statesp.py:StateSpace.append` as the source text says it (sha256 of the function text
44c96da297df344e3c02be06ce75beb305d78643d88848e10fe70ac02d71f4c0).
Defaults: none.
  note: `if not isinstance(other, StateSpace): other = _convert_to_statespace(other)` is read as `other = _convert_to_statespace(other)` (the function returns a StateSpace unchanged) -/
def ssAppend (self : DSS K) (other : SOperand K) : Except Err (DSS K) :=
  do
    let other : DSS K := (PySS.convert other)
    let dt ← common self.dt other.dt
    let n : Nat := (self.n + other.n)
    let m : Nat := (self.m + other.m)
    let p : Nat := (self.p + other.p)
    let A : PMat K := (PMat.zeros n n)
    let B : PMat K := (PMat.zeros n m)
    let C : PMat K := (PMat.zeros p n)
    let D : PMat K := (PMat.zeros p m)
    let A ← PMat.setSlice A none (some (self.n : Int)) none (some (self.n : Int)) (PySS.A self)
    let A ← PMat.setSlice A (some (self.n : Int)) none (some (self.n : Int)) none (PySS.A other)
    let B ← PMat.setSlice B none (some (self.n : Int)) none (some (self.m : Int)) (PySS.B self)
    let B ← PMat.setSlice B (some (self.n : Int)) none (some (self.m : Int)) none (PySS.B other)
    let C ← PMat.setSlice C none (some (self.p : Int)) none (some (self.n : Int)) (PySS.C self)
    let C ← PMat.setSlice C (some (self.p : Int)) none (some (self.n : Int)) none (PySS.C other)
    let D ← PMat.setSlice D none (some (self.p : Int)) none (some (self.m : Int)) (PySS.D self)
    let D ← PMat.setSlice D (some (self.p : Int)) none (some (self.m : Int)) none (PySS.D other)
    PySS.mk A B C D dt

end

end CtrlVerif.Generated
