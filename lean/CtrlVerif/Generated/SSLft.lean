-- GENERATED on every run by harness/core/py2lean_ss.py from control/statesp.py (lft c648614829f0d305).  Do not edit.
import CtrlVerif.Model.PyMat

namespace CtrlVerif.Generated

open CtrlVerif

noncomputable section

variable {K : Type} [Field K] [DecidableEq K]

/-- `control/statesp.py:StateSpace.lft` as the source text says it (sha256 of the function text
c648614829f0d3050221c82fa76ee4571cd4dfa80f3d422c7a859c0d7b2387ca).
Defaults: nu=-1, ny=-1. -/
def ssLft (self : DSS K) (other : SOperand K) (nu : Int) (ny : Int) : Except Err (DSS K) :=
  do
    let other : DSS K := (PySS.convert other)
    let ny ← (do
      if (ny = (-1 : Int)) then
        let ny : Nat := (min other.m self.p)
        pure (ny : Int)
      else
        pure ny
      : Except Err (Int))
    let nu ← (do
      if (nu = (-1 : Int)) then
        let nu : Nat := (min other.p self.m)
        pure (nu : Int)
      else
        pure nu
      : Except Err (Int))
    let dt ← common self.dt other.dt
    let A : PMat K := (PySS.A self)
    let B1 : PMat K := (PMat.sliceCols (PySS.B self) none (some ((self.m : Int) - nu)))
    let B2 : PMat K := (PMat.sliceCols (PySS.B self) (some ((self.m : Int) - nu)) none)
    let C1 : PMat K := (PMat.sliceRows (PySS.C self) none (some ((self.p : Int) - ny)))
    let C2 : PMat K := (PMat.sliceRows (PySS.C self) (some ((self.p : Int) - ny)) none)
    let D11 : PMat K := (PMat.sliceCols (PMat.sliceRows (PySS.D self) none (some ((self.p : Int) - ny))) none (some ((self.m : Int) - nu)))
    let D12 : PMat K := (PMat.sliceCols (PMat.sliceRows (PySS.D self) none (some ((self.p : Int) - ny))) (some ((self.m : Int) - nu)) none)
    let D21 : PMat K := (PMat.sliceCols (PMat.sliceRows (PySS.D self) (some ((self.p : Int) - ny)) none) none (some ((self.m : Int) - nu)))
    let D22 : PMat K := (PMat.sliceCols (PMat.sliceRows (PySS.D self) (some ((self.p : Int) - ny)) none) (some ((self.m : Int) - nu)) none)
    let Abar : PMat K := (PySS.A other)
    let Bbar1 : PMat K := (PMat.sliceCols (PySS.B other) none (some ny))
    let Bbar2 : PMat K := (PMat.sliceCols (PySS.B other) (some ny) none)
    let Cbar1 : PMat K := (PMat.sliceRows (PySS.C other) none (some nu))
    let Cbar2 : PMat K := (PMat.sliceRows (PySS.C other) (some nu) none)
    let Dbar11 : PMat K := (PMat.sliceCols (PMat.sliceRows (PySS.D other) none (some nu)) none (some ny))
    let Dbar12 : PMat K := (PMat.sliceCols (PMat.sliceRows (PySS.D other) none (some nu)) (some ny) none)
    let Dbar21 : PMat K := (PMat.sliceCols (PMat.sliceRows (PySS.D other) (some nu) none) none (some ny))
    let Dbar22 : PMat K := (PMat.sliceCols (PMat.sliceRows (PySS.D other) (some nu) none) (some ny) none)
    let t1 ← PMat.eyeI ny
    let t2 ← PMat.eyeI nu
    let F ← PMat.block [[t1, (PMat.neg D22)], [(PMat.neg Dbar11), t2]]
    if (((PMat.rank F) : Int) ≠ (ny + nu)) then
      throw Err.illPosed
    else
      let t3 ← PMat.zerosI ny (other.n : Int)
      let t4 ← PMat.zerosI ny ((other.m : Int) - ny)
      let t5 ← PMat.zerosI nu (self.n : Int)
      let t6 ← PMat.zerosI nu ((self.m : Int) - nu)
      let t7 ← PMat.block [[C2, t3, D21, t4], [t5, Cbar1, t6, Dbar12]]
      let TH ← PMat.solve F t7
      let T11 : PMat K := (PMat.sliceCols (PMat.sliceRows TH none (some ny)) none (some (self.n : Int)))
      let T12 : PMat K := (PMat.sliceCols (PMat.sliceRows TH none (some ny)) (some (self.n : Int)) (some ((self.n + other.n) : Int)))
      let T21 : PMat K := (PMat.sliceCols (PMat.sliceRows TH (some ny) none) none (some (self.n : Int)))
      let T22 : PMat K := (PMat.sliceCols (PMat.sliceRows TH (some ny) none) (some (self.n : Int)) (some ((self.n + other.n) : Int)))
      let H11 : PMat K := (PMat.sliceCols (PMat.sliceRows TH none (some ny)) (some ((self.n + other.n) : Int)) (some ((((self.n + other.n) + self.m) : Int) - nu)))
      let H12 : PMat K := (PMat.sliceCols (PMat.sliceRows TH none (some ny)) (some ((((self.n + other.n) + self.m) : Int) - nu)) none)
      let H21 : PMat K := (PMat.sliceCols (PMat.sliceRows TH (some ny) none) (some ((self.n + other.n) : Int)) (some ((((self.n + other.n) + self.m) : Int) - nu)))
      let H22 : PMat K := (PMat.sliceCols (PMat.sliceRows TH (some ny) none) (some ((((self.n + other.n) + self.m) : Int) - nu)) none)
      let t8 ← PMat.matmul B2 T21
      let t9 ← PMat.add A t8
      let t10 ← PMat.matmul B2 T22
      let t11 ← PMat.matmul Bbar1 T11
      let t12 ← PMat.matmul Bbar1 T12
      let t13 ← PMat.add Abar t12
      let Ares ← PMat.block [[t9, t10], [t11, t13]]
      let t14 ← PMat.matmul B2 H21
      let t15 ← PMat.add B1 t14
      let t16 ← PMat.matmul B2 H22
      let t17 ← PMat.matmul Bbar1 H11
      let t18 ← PMat.matmul Bbar1 H12
      let t19 ← PMat.add Bbar2 t18
      let Bres ← PMat.block [[t15, t16], [t17, t19]]
      let t20 ← PMat.matmul D12 T21
      let t21 ← PMat.add C1 t20
      let t22 ← PMat.matmul D12 T22
      let t23 ← PMat.matmul Dbar21 T11
      let t24 ← PMat.matmul Dbar21 T12
      let t25 ← PMat.add Cbar2 t24
      let Cres ← PMat.block [[t21, t22], [t23, t25]]
      let t26 ← PMat.matmul D12 H21
      let t27 ← PMat.add D11 t26
      let t28 ← PMat.matmul D12 H22
      let t29 ← PMat.matmul Dbar21 H11
      let t30 ← PMat.matmul Dbar21 H12
      let t31 ← PMat.add Dbar22 t30
      let Dres ← PMat.block [[t27, t28], [t29, t31]]
      PySS.mk Ares Bres Cres Dres dt

end

end CtrlVerif.Generated
