-- GENERATED on every run by harness/core/py2lean_tr.py from control/timeresp.py:forced_response (frDisc dfddb2466f3c004d).  Do not edit.
import CtrlVerif.Model.PyTR

namespace CtrlVerif.Generated

open CtrlVerif

/-- block `frDisc` of `control/timeresp.py:forced_response` as the source text says it (sha256 of the text of the translated
statements dfddb2466f3c004d459e2f9db55c9a93292fe794691ce2e9aff52b64fc293876).
  note: the test `isctime(sys, strict=True)` is taken as False
  note: `interpolate` is its default False -/
def frDisc (dlsim : DlsimFun ℚ) (nextafter : ℚ → ℚ) (fuel : Nat) (A B C D : PMat ℚ) (sysdt : Dt) (dt : ℚ) (n_steps : Nat) (T : List ℚ) (X0 : PVec ℚ) (U : PSig ℚ) :
    Except Err (List ℚ × PSig ℚ × PSig ℚ × PSig ℚ) :=
  match sysdt with
  | .disc h => do
    let n_states : Nat := A.r
    let n_inputs : Nat := B.c
    let n_outputs : Nat := C.r
    let xout : PSig ℚ := (PSig.zeros n_states n_steps)
    let xout ← PSig.setCol xout (0 : Int) X0
    let yout : PMat ℚ := (PMat.zeros n_outputs n_steps)
    let t1 ← PyArith.getItem T (0 : Int)
    let spT : List ℚ := (PyTR.subNum T t1)
    if ((dt < h) ∧ (¬ (PyTR.isclose dt h))) then
      throw Err.badArg
    else
      let t2 ← PyTR.fmod dt h
      let t4 ← (do
        if (PyTR.isclose t2 (0 : ℚ)) then
          pure true
        else
          let t3 ← PyTR.fmod dt h
          pure (decide (PyTR.isclose t3 h))
        : Except Err Bool)
      if (¬ (t4 = true)) then
        throw Err.badArg
      else
        let sys_dt : ℚ := h
        let t5 ← PyArith.div dt sys_dt
        let n_samples : Int := ((((n_steps : Int) - (1 : Int)) * (PyTR.roundInt t5)) + (1 : Int))
        let t6 ← PyArith.getItem spT (-1 : Int)
        let t7 ← PyArith.div t6 sys_dt
        let spT ← (do
          if (((PyTR.floorInt t7) + (1 : Int)) < n_samples) then
            let spT ← PyArith.setItem spT (-1 : Int) (sys_dt * (((n_samples - (1 : Int)) : Int) : ℚ))
            let spT ← PyTR.whileFuel
                (fun (spT : List ℚ) => (do
                    let t8 ← PyArith.getItem spT (-1 : Int)
                    let t9 ← PyArith.div t8 sys_dt
                    pure (decide (((PyTR.floorInt t9) + (1 : Int)) < n_samples))
                    : Except Err Bool))
                (fun (spT : List ℚ) => (do
                    let t10 ← PyArith.getItem spT (-1 : Int)
                    let spT ← PyArith.setItem spT (-1 : Int) (nextafter t10)
                    pure spT
                    : Except Err (List ℚ)))
                fuel spT
            pure spT
          else
            pure spT
          : Except Err (List ℚ))
        let (tout, yout, xout) ← PyTR.callDlsim dlsim A B C D sys_dt (PSig.T U) spT X0
        let t11 ← PyArith.getItem T (0 : Int)
        let tout : List ℚ := (PyTR.addNum tout t11)
        let t12 ← PyArith.div dt sys_dt
        let inc : Int := (PyTR.roundInt t12)
        let tout : List ℚ := T
        let yout ← PSigT.stepRows yout inc
        let xout ← PSigT.stepRows xout inc
        let xout : PSig ℚ := (PSigT.T xout)
        let yout : PSig ℚ := (PSigT.T yout)
        pure (tout, yout, xout, U)
  | .dtrue => do
    let n_states : Nat := A.r
    let n_inputs : Nat := B.c
    let n_outputs : Nat := C.r
    let xout : PSig ℚ := (PSig.zeros n_states n_steps)
    let xout ← PSig.setCol xout (0 : Int) X0
    let yout : PMat ℚ := (PMat.zeros n_outputs n_steps)
    let t1 ← PyArith.getItem T (0 : Int)
    let spT : List ℚ := (PyTR.subNum T t1)
    let sys_dt : ℚ := dt
    let t2 ← PyArith.div dt sys_dt
    let n_samples : Int := ((((n_steps : Int) - (1 : Int)) * (PyTR.roundInt t2)) + (1 : Int))
    let t3 ← PyArith.getItem spT (-1 : Int)
    let t4 ← PyArith.div t3 sys_dt
    let spT ← (do
      if (((PyTR.floorInt t4) + (1 : Int)) < n_samples) then
        let spT ← PyArith.setItem spT (-1 : Int) (sys_dt * (((n_samples - (1 : Int)) : Int) : ℚ))
        let spT ← PyTR.whileFuel
            (fun (spT : List ℚ) => (do
                let t5 ← PyArith.getItem spT (-1 : Int)
                let t6 ← PyArith.div t5 sys_dt
                pure (decide (((PyTR.floorInt t6) + (1 : Int)) < n_samples))
                : Except Err Bool))
            (fun (spT : List ℚ) => (do
                let t7 ← PyArith.getItem spT (-1 : Int)
                let spT ← PyArith.setItem spT (-1 : Int) (nextafter t7)
                pure spT
                : Except Err (List ℚ)))
            fuel spT
        pure spT
      else
        pure spT
      : Except Err (List ℚ))
    let (tout, yout, xout) ← PyTR.callDlsim dlsim A B C D sys_dt (PSig.T U) spT X0
    let t8 ← PyArith.getItem T (0 : Int)
    let tout : List ℚ := (PyTR.addNum tout t8)
    let t9 ← PyArith.div dt sys_dt
    let inc : Int := (PyTR.roundInt t9)
    let tout : List ℚ := T
    let yout ← PSigT.stepRows yout inc
    let xout ← PSigT.stepRows xout inc
    let xout : PSig ℚ := (PSigT.T xout)
    let yout : PSig ℚ := (PSigT.T yout)
    pure (tout, yout, xout, U)
  | .none => do
    let n_states : Nat := A.r
    let n_inputs : Nat := B.c
    let n_outputs : Nat := C.r
    let xout : PSig ℚ := (PSig.zeros n_states n_steps)
    let xout ← PSig.setCol xout (0 : Int) X0
    let yout : PMat ℚ := (PMat.zeros n_outputs n_steps)
    let t1 ← PyArith.getItem T (0 : Int)
    let spT : List ℚ := (PyTR.subNum T t1)
    let sys_dt : ℚ := dt
    let t2 ← PyArith.div dt sys_dt
    let n_samples : Int := ((((n_steps : Int) - (1 : Int)) * (PyTR.roundInt t2)) + (1 : Int))
    let t3 ← PyArith.getItem spT (-1 : Int)
    let t4 ← PyArith.div t3 sys_dt
    let spT ← (do
      if (((PyTR.floorInt t4) + (1 : Int)) < n_samples) then
        let spT ← PyArith.setItem spT (-1 : Int) (sys_dt * (((n_samples - (1 : Int)) : Int) : ℚ))
        let spT ← PyTR.whileFuel
            (fun (spT : List ℚ) => (do
                let t5 ← PyArith.getItem spT (-1 : Int)
                let t6 ← PyArith.div t5 sys_dt
                pure (decide (((PyTR.floorInt t6) + (1 : Int)) < n_samples))
                : Except Err Bool))
            (fun (spT : List ℚ) => (do
                let t7 ← PyArith.getItem spT (-1 : Int)
                let spT ← PyArith.setItem spT (-1 : Int) (nextafter t7)
                pure spT
                : Except Err (List ℚ)))
            fuel spT
        pure spT
      else
        pure spT
      : Except Err (List ℚ))
    let (tout, yout, xout) ← PyTR.callDlsim dlsim A B C D sys_dt (PSig.T U) spT X0
    let t8 ← PyArith.getItem T (0 : Int)
    let tout : List ℚ := (PyTR.addNum tout t8)
    let t9 ← PyArith.div dt sys_dt
    let inc : Int := (PyTR.roundInt t9)
    let tout : List ℚ := T
    let yout ← PSigT.stepRows yout inc
    let xout ← PSigT.stepRows xout inc
    let xout : PSig ℚ := (PSigT.T xout)
    let yout : PSig ℚ := (PSigT.T yout)
    pure (tout, yout, xout, U)
  | .cont => throw Err.badArg   -- not reached: `isctime(sys, strict=True)` holds for dt = 0

end CtrlVerif.Generated
