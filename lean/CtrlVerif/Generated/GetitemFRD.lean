-- GENERATED on every run by harness/core/py2lean_getitem.py from the source text in /repo (sha256 of the function below).  Do not edit.
import CtrlVerif.Model.PyGet
import CtrlVerif.Generated.SubsysIndex

namespace CtrlVerif.Generated

open CtrlVerif

/-- `FrequencyResponseData.__getitem__` (control/frdata.py, sha256 3cdafb665db7ece0) as the source text says it. `fuel` is the recursion budget handed to the generated `_parse_key`, `defaults` is `config.defaults`.
  note: `list(self.__iter__())[key]` (legacy tuple interface) is kept symbolic: FRDItem.legacy
-/
def frdGetitem {K β : Type} (fuel : Nat) (defaults : PyGet.Defaults) (self : PyGet.FRDObj K β) (key : PyVal) : Except Err (PyGet.FRDItem K β) := do
  if (← (do if (!(← PyGet.isIterable key)) then pure true else pure (decide ((← Py.len key) ≠ (2 : Int))))) then
    return PyGet.FRDItem.legacy key
  let mut iomap := PyGet.namedSignal (← PyGet.slice0Shape self.frdata) self.output_labels self.input_labels
  let mut indices := (← Generated.parseKey fuel iomap.signal_labels iomap.trace_labels iomap.data_shape key PyVal.none (1 : Int))
  let mut (outdx, outputs) ← Generated.processSubsysIndex (← Py.getitem indices (PyVal.int (0 : Int))) self.output_labels false
  let mut (inpdx, inputs) ← Generated.processSubsysIndex (← Py.getitem indices (PyVal.int (1 : Int))) self.input_labels false
  let mut sysname := (((← PyGet.Defaults.getStr defaults "iosys.indexed_system_name_prefix") ++ self.name) ++ (← PyGet.Defaults.getStr defaults "iosys.indexed_system_name_suffix"))
  return PyGet.FRDItem.sys (← PyGet.mkFRD (← PyGet.takeCols3 (← PyGet.takeRows3 self.frdata outdx) inpdx) self.omega self.dt inputs outputs sysname)

end CtrlVerif.Generated
