-- GENERATED on every run by harness/core/py2lean_p2phead.py from control/flatsys/flatsys.py (p2pHeadParams 9e3d93eead2e3755, sfoHeadParams 9e3d93eead2e3755).  Do not edit.
import CtrlVerif.Model.PyP2PHead

namespace CtrlVerif.Generated

open CtrlVerif

variable {κ ν : Type}

/-- block `p2pHeadParams` of `control/flatsys/flatsys.py:point_to_point` as the source text says it (sha256 of the text of the translated
statements 9e3d93eead2e37557953de1a7453911b0f872bc0a735cd23fb810ddf7f9b8539). -/
def p2pHeadParams (sys_params : PyNL.Dict κ ν) (params : Option (PyNL.Dict κ ν)) :
    Except Err (PyNL.Dict κ ν) :=
  do
    let params : PyNL.Dict κ ν := (match params with | none => sys_params | some params => (PyHead.dictDisplay [sys_params, params]))
    pure (params)

/-- block `sfoHeadParams` of `control/flatsys/flatsys.py:solve_flat_optimal` as the source text says it (sha256 of the text of the translated
statements 9e3d93eead2e37557953de1a7453911b0f872bc0a735cd23fb810ddf7f9b8539). -/
def sfoHeadParams (sys_params : PyNL.Dict κ ν) (params : Option (PyNL.Dict κ ν)) :
    Except Err (PyNL.Dict κ ν) :=
  do
    let params : PyNL.Dict κ ν := (match params with | none => sys_params | some params => (PyHead.dictDisplay [sys_params, params]))
    pure (params)

end CtrlVerif.Generated
