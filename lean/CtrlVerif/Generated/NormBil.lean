-- GENERATED on every run by harness/core/py2lean_norm.py from control/sysnorm.py (normLinfBilinear e833a1b59fd3943b).  Do not edit.
import CtrlVerif.Model.PyNorm

namespace CtrlVerif.Generated

open CtrlVerif

noncomputable section

variable {K : Type} [Field K] [LinearOrder K]

/-- `system_norm`: the body of the `if G.isdtime():` before the nested function (inverse bilinear transformation); returns the re-bound matrices (A, B, C, D) as the source text says it (sha256 of the translated text
e833a1b59fd3943be060594d98e4e09a1464a551cfef9fa1a82d69704fcc129e). -/
def normLinfBilinear (eigvals : PMat K → List (Norm.Pole K)) (A B C D : PMat K) :
    Except Err (PMat K × PMat K × PMat K × PMat K) :=
  do
    let Ad : PMat K := A
    let Bd : PMat K := B
    let Cd : PMat K := C
    let Dd : PMat K := D
    if (PyNorm.any (PyNorm.iscloseC (eigvals Ad) (0 : K)) = true) then
      throw Err.badArg
    else
      let In : PMat K := (PMat.eye Ad.r)
      let t1 ← PMat.add Ad In
      let Adinv ← PMat.inv t1
      let t2 ← PMat.sub Ad In
      let A ← PMat.matmul (PMat.smul (2 : K) t2) Adinv
      let B ← PMat.matmul (PMat.smul (2 : K) Adinv) Bd
      let C ← PMat.matmul (PMat.smul (2 : K) Cd) Adinv
      let t3 ← PMat.matmul Cd Adinv
      let t4 ← PMat.matmul t3 Bd
      let D ← PMat.sub Dd t4
      pure (A, B, C, D)

end

end CtrlVerif.Generated
