-- GENERATED on every run by harness/core/py2lean_getitem.py from the source text in /repo (sha256 of each function below).  Do not edit.
import CtrlVerif.Model.PyResp
import CtrlVerif.Generated.ProcessResponse

namespace CtrlVerif.Generated

open CtrlVerif

/-- `FrequencyResponseData.magnitude` (control/frdata.py, sha256 4cbd54a6fbe2b417) as the source text says it; `cfg` holds the package defaults.
-/
def frdMagnitude {α : Type} (cfg : Cfg) (self : PyResp.FRObj α) : Except Err (PyResp.FSignal α) := do
  let mut frdata := (← Generated.processFrequencyResponse (PyResp.FRObj.issiso self) (PyResp.omegaNdim self) self.core.frdata self.core.squeeze cfg.sqFreq)
  return PyResp.FSignal.mk (FItem.mag frdata) self.output_labels self.input_labels

/-- `FrequencyResponseData.phase` (control/frdata.py, sha256 1c07b137ffb6a0da) as the source text says it; `cfg` holds the package defaults.
-/
def frdPhase {α : Type} (cfg : Cfg) (self : PyResp.FRObj α) : Except Err (PyResp.FSignal α) := do
  let mut frdata := (← Generated.processFrequencyResponse (PyResp.FRObj.issiso self) (PyResp.omegaNdim self) self.core.frdata self.core.squeeze cfg.sqFreq)
  return PyResp.FSignal.mk (FItem.phase frdata) self.output_labels self.input_labels

/-- `FrequencyResponseData.frequency` (control/frdata.py, sha256 d45cad61ccdb127a) as the source text says it; `cfg` holds the package defaults.
-/
def frdFrequency {α : Type} (cfg : Cfg) (self : PyResp.FRObj α) : Except Err (FItem α) := do
  return FItem.omega

/-- `FrequencyResponseData.complex` (control/frdata.py, sha256 6823bbb43d4dd3fa) as the source text says it; `cfg` holds the package defaults.
-/
def frdComplex {α : Type} (cfg : Cfg) (self : PyResp.FRObj α) : Except Err (PyResp.FSignal α) := do
  let mut frdata := (← Generated.processFrequencyResponse (PyResp.FRObj.issiso self) (PyResp.omegaNdim self) self.core.frdata self.core.squeeze cfg.sqFreq)
  return PyResp.FSignal.mk (FItem.cplx frdata) self.output_labels self.input_labels

/-- `FrequencyResponseData.response` (control/frdata.py, sha256 1822870ff6700d75) as the source text says it; `cfg` holds the package defaults.
  note: warn(...) skipped (no effect on the result)
-/
def frdResponse {α : Type} (cfg : Cfg) (self : PyResp.FRObj α) : Except Err (PyResp.FSignal α) := do
  return (← Generated.frdComplex cfg self)

/-- `FrequencyResponseData.__iter__` (control/frdata.py, sha256 78a0a4ef034128b1) as the source text says it; `cfg` holds the package defaults.
-/
def frdIter {α : Type} (cfg : Cfg) (self : PyResp.FRObj α) : Except Err (List (FItem α)) := do
  let mut frdata := (← Generated.processFrequencyResponse (PyResp.FRObj.issiso self) (PyResp.omegaNdim self) self.core.frdata self.core.squeeze cfg.sqFreq)
  if self.return_singvals then
    return [FItem.cplx (← NDArr.dropTrace self.core.frdata), FItem.omega]
  else
    if (!self.core.returnMagphase) then
      return [FItem.omega, FItem.cplx frdata]
  return [FItem.mag frdata, FItem.phase frdata, FItem.omega]

end CtrlVerif.Generated
