-- GENERATED on every run by harness/core/py2lean_arith.py from control/margins.py:_poly_iw_sqr (sha256 6a51babe625064cc67e9eb0d370ebb9f8c0961958d6de32ffdb0dc5cae188ea6).  Do not edit.
import CtrlVerif.Model.PyArith
import CtrlVerif.Model.PyNumpy

namespace CtrlVerif.Generated

open CtrlVerif

/-- `control/margins.py:_poly_iw_sqr` as the source text says it (sha256 of the function text
6a51babe625064cc67e9eb0d370ebb9f8c0961958d6de32ffdb0dc5cae188ea6).
Defaults: none. -/
def polyIwSqr {K : Type} [Field K] [LinearOrder K] (pol_iw : (List K × List K)) :
    Except Err (List K) :=
  pure (Prod.fst (PyNumpy.cpolymul pol_iw (PyNumpy.cconj pol_iw)))

end CtrlVerif.Generated
