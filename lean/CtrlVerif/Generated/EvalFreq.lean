-- GENERATED on every run by harness/core/py2lean_eval.py from the source text of the tree under check (LTI.frequency_response 75a945b16e22964d, TransferFunction.freqresp 613a71f75aea3503, StateSpace.freqresp 31121c4e03f2b34a).  Do not edit.
import CtrlVerif.Model.PyEval
import CtrlVerif.Generated.EvalCall
import CtrlVerif.Generated.DtPred

set_option linter.unusedVariables false

namespace CtrlVerif.Generated

open CtrlVerif

noncomputable section

variable {K : Type} [Field K] [DecidableEq K]

/-- `control/lti.py:LTI.frequency_response` as the source text says it (sha256 of the function text
75a945b16e22964d7e390cc433e7e66b48b7d200df70a59be92bde121a7ab893).
Defaults: omega=None, squeeze=None.
  note: tf: `omega is None` decided statically (omega has static type QLIST)
  note: tf: `self.isdtime(…)` is `Generated.ioIsdtime` on the timebase (source-tied by C05Pred)
  note: tf: `if c: warn(…)` has no value: dropped (the condition is call-free up to np.any)
  note: tf: `np.exp(1j * w * h)` is `PyEval.expjArr E h w` (`h = 1` without the factor)
  note: tf: `1j * w` is `PyEval.jwArr E w`
  note: ss: `omega is None` decided statically (omega has static type QLIST)
  note: ss: `self.isdtime(…)` is `Generated.ioIsdtime` on the timebase (source-tied by C05Pred)
  note: ss: `if c: warn(…)` has no value: dropped (the condition is call-free up to np.any)
  note: ss: `np.exp(1j * w * h)` is `PyEval.expjArr E h w` (`h = 1` without the factor)
  note: ss: `1j * w` is `PyEval.jwArr E w` -/
def ltiFrequencyResponse (P : Eval.Parts K) (E : Env K) (self : LTI K) (omega : List ℚ) (squeeze : Option Bool) :
    Except Err (PyEval.FResp K) :=
  match self with
  | .tf p m e dt => do
    let self : DTF K := ⟨p, m, ⟨e⟩, dt⟩
    let omega : List ℚ := (PyEval.npSort omega)
    let t1 ← Generated.ioIsdtime self.dt true
    let s ← (do
      if (t1 = true) then
        let t2 ← PyEval.dtNum self.dt
        let s : List K := (PyEval.expjArr E t2 omega)
        pure s
      else
        let s : List K := (PyEval.jwArr E omega)
        pure s
      : Except Err (List K))
    let response ← tfCall P self (PyEval.XArg.arr s) (some false) true
    PyEval.mkFRD response omega self.dt
  | .ss n p m G dt => do
    let self : DSS K := ⟨n, p, m, G, dt⟩
    let omega : List ℚ := (PyEval.npSort omega)
    let t1 ← Generated.ioIsdtime self.dt true
    let s ← (do
      if (t1 = true) then
        let t2 ← PyEval.dtNum self.dt
        let s : List K := (PyEval.expjArr E t2 omega)
        pure s
      else
        let s : List K := (PyEval.jwArr E omega)
        pure s
      : Except Err (List K))
    let response ← ssCall P self (PyEval.XArg.arr s) (some false) true
    PyEval.mkFRD response omega self.dt

/-- `control/xferfcn.py:TransferFunction.freqresp` as the source text says it (sha256 of the function text
613a71f75aea3503dd7838bf050f3aacebcc24d5a2dd3cd7c5a4f79ec1117990).
Defaults: none.
  note: `warn(…)` has no value: dropped -/
def tfFreqresp (P : Eval.Parts K) (E : Env K) (self : DTF K) (omega : List ℚ) :
    Except Err (PyEval.FResp K) :=
  do
    ltiFrequencyResponse P E (LTI.tf self.p self.m self.sys.e self.dt) omega none

/-- `control/statesp.py:StateSpace.freqresp` as the source text says it (sha256 of the function text
31121c4e03f2b34a8808349bd3ea72a9e715bcf91ed048a3995c1ebc2e290c10).
Defaults: none.
  note: `warn(…)` has no value: dropped -/
def ssFreqresp (P : Eval.Parts K) (E : Env K) (self : DSS K) (omega : List ℚ) :
    Except Err (PyEval.FResp K) :=
  do
    ltiFrequencyResponse P E (LTI.ss self.n self.p self.m self.sys self.dt) omega none

end

end CtrlVerif.Generated
