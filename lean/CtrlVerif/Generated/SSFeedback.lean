-- GENERATED on every run by harness/core/py2lean_ss.py from control/statesp.py (feedback 277e90cf2e20c486).  Do not edit.
import CtrlVerif.Model.PyMat

namespace CtrlVerif.Generated

open CtrlVerif

noncomputable section

variable {K : Type} [Field K] [DecidableEq K]

/-- `control/statesp.py:StateSpace.feedback` as the source text says it (sha256 of the function text
277e90cf2e20c4867a68022bd5d8cbd9a24f3b7b6c1b2d3eac7c28d0aa7863f1).
Defaults: other=1, sign=-1.
  note: `try: other = _convert_to_statespace(other) except: pass`: the conversion cannot fail on the three kinds of operand -/
def ssFeedback (self : DSS K) (other : SOperand K) (sign : K) : Except Err (DSS K) :=
  do
    let other : DSS K := (PySS.convert other)
    if ((self.m ≠ other.p) ∨ (self.p ≠ other.m)) then
      throw Err.shape
    else
      let dt ← common self.dt other.dt
      let A1 : PMat K := (PySS.A self)
      let B1 : PMat K := (PySS.B self)
      let C1 : PMat K := (PySS.C self)
      let D1 : PMat K := (PySS.D self)
      let A2 : PMat K := (PySS.A other)
      let B2 : PMat K := (PySS.B other)
      let C2 : PMat K := (PySS.C other)
      let D2 : PMat K := (PySS.D other)
      let t1 ← PMat.matmul (PMat.smul sign D2) D1
      let F ← PMat.sub (PMat.eye self.m) t1
      if ((PMat.rank F) ≠ self.m) then
        throw Err.illPosed
      else
        let t2 ← PMat.hcat D2 C2
        let E_D2_C2 ← PMat.solve F t2
        let E_D2 : PMat K := (PMat.sliceCols E_D2_C2 none (some (other.m : Int)))
        let E_C2 : PMat K := (PMat.sliceCols E_D2_C2 (some (other.m : Int)) none)
        let t3 ← PMat.matmul (PMat.smul sign D1) E_D2
        let T1 ← PMat.add (PMat.eye self.p) t3
        let t4 ← PMat.matmul (PMat.smul sign E_D2) D1
        let T2 ← PMat.add (PMat.eye self.m) t4
        let t5 ← PMat.matmul (PMat.smul sign B1) E_D2
        let t6 ← PMat.matmul t5 C1
        let t7 ← PMat.add A1 t6
        let t8 ← PMat.matmul (PMat.smul sign B1) E_C2
        let t9 ← PMat.hcat t7 t8
        let t10 ← PMat.matmul B2 T1
        let t11 ← PMat.matmul t10 C1
        let t12 ← PMat.matmul (PMat.smul sign B2) D1
        let t13 ← PMat.matmul t12 E_C2
        let t14 ← PMat.add A2 t13
        let t15 ← PMat.hcat t11 t14
        let A ← PMat.vcat t9 t15
        let t16 ← PMat.matmul B1 T2
        let t17 ← PMat.matmul B2 D1
        let t18 ← PMat.matmul t17 T2
        let B ← PMat.vcat t16 t18
        let t19 ← PMat.matmul T1 C1
        let t20 ← PMat.matmul (PMat.smul sign D1) E_C2
        let C ← PMat.hcat t19 t20
        let D ← PMat.matmul D1 T2
        PySS.mk A B C D dt

end

end CtrlVerif.Generated
