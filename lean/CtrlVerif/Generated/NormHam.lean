-- GENERATED on every run by harness/core/py2lean_norm.py from control/sysnorm.py (normHamilton 9a0d35dc6f30ace5).  Do not edit.
import CtrlVerif.Model.PyNorm

namespace CtrlVerif.Generated

open CtrlVerif

noncomputable section

variable {K : Type} [Field K] [LinearOrder K]

/-- `system_norm`: the nested function that builds the Hamiltonian matrix (leading parameters = its free variables in the order of their first occurrence) as the source text says it (sha256 of the translated text
9a0d35dc6f30ace58121d7a131be913433ea6af2d0020a9e839bac1d04621ed5). -/
def normHamilton (Im D A B C Ip : PMat K) (gamma : K) :
    Except Err (PMat K) :=
  do
    let t1 ← PMat.matmul (PMat.T D) D
    let R ← PMat.sub (PMat.mulNum Im (gamma ^ 2)) t1
    let invR ← PMat.inv R
    let t2 ← PMat.matmul B invR
    let t3 ← PMat.matmul t2 (PMat.T D)
    let t4 ← PMat.matmul t3 C
    let t5 ← PMat.add A t4
    let t6 ← PMat.matmul B invR
    let t7 ← PMat.matmul t6 (PMat.T B)
    let t8 ← PMat.matmul D invR
    let t9 ← PMat.matmul t8 (PMat.T D)
    let t10 ← PMat.add Ip t9
    let t11 ← PMat.matmul (PMat.neg (PMat.T C)) t10
    let t12 ← PMat.matmul t11 C
    let t13 ← PMat.matmul B invR
    let t14 ← PMat.matmul t13 (PMat.T D)
    let t15 ← PMat.matmul t14 C
    let t16 ← PMat.add A t15
    PMat.block [[t5, t7], [t12, (PMat.neg (PMat.T t16))]]

end

end CtrlVerif.Generated
