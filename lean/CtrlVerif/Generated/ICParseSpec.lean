-- GENERATED on every run by harness/core/py2lean_ic.py from control/iosys.py (_parse_spec aa765421346fb6de).  Do not edit.
import CtrlVerif.Model.PyIC

namespace CtrlVerif.Generated

open CtrlVerif CtrlVerif.IC CtrlVerif.PyIC

variable {K : Type} [Field K] [DecidableEq K]

/-- `control/iosys.py:_parse_spec` as the source text says it (sha256 of the function text
aa765421346fb6dec67cea1bd9e75522b4bcbfa60649d743317eb488c5388f1a).
Returns `(system_index, signal_indices, gain)`; strings are `PyIC.Str` (tokenised by the harness).
  note: `_find_signals` is not translated: `PyIC.findSignals` (the model's `findSignals` on the groups the harness computed with the regular expressions) -/
def icParseSpec (syslist : List SysSig) (spec : Val K) (signame : String) (dictname : Option String) :
    Except Err (Int × List Int × K) :=
  do
    let (system_spec, signal_spec, gain) ← (do
      if (PyIC.isinstance spec [.int]) then
        let system_spec : Val K := spec
        let signal_spec : Val K := Val.none
        let gain : Val K := Val.none
        pure (system_spec, signal_spec, gain)
      else
        let (system_spec, gain, signal_spec) ← (do
          if (PyIC.isinstance spec [.str]) then
            let namelist ← PyIC.reSplitDot spec
            let system_spec ← PyIC.getItem namelist (0 : Int)
            let gain : Val K := Val.none
            let t3 ← PyIC.len namelist
            let signal_spec ← (do
              if (decide (t3 < (2 : Int))) then
                pure Val.none
              else
                let t4 ← PyIC.getItem namelist (1 : Int)
                pure t4
              : Except Err (Val K))
            let t6 ← PyIC.len namelist
            if (decide (t6 > (2 : Int))) then
              throw Err.badArg
            else
              pure ()
            pure (system_spec, gain, signal_spec)
          else
            let t8 ← (do
              if (PyIC.isinstance spec [.tuple]) then
                let t7 ← PyIC.len spec
                pure (decide (t7 ≤ (3 : Int)))
              else
                pure false
              : Except Err (Bool))
            let (system_spec, signal_spec, gain) ← (do
              if t8 then
                let system_spec ← PyIC.getItem spec (0 : Int)
                let t10 ← PyIC.len spec
                let signal_spec ← (do
                  if (decide (t10 < (2 : Int))) then
                    pure Val.none
                  else
                    let t11 ← PyIC.getItem spec (1 : Int)
                    pure t11
                  : Except Err (Val K))
                let t13 ← PyIC.len spec
                let gain ← (do
                  if (decide (t13 < (3 : Int))) then
                    pure Val.none
                  else
                    let t14 ← PyIC.getItem spec (2 : Int)
                    pure t14
                  : Except Err (Val K))
                pure (system_spec, signal_spec, gain)
              else
                throw Err.badArg
              : Except Err (Val K × Val K × Val K))
            pure (system_spec, gain, signal_spec)
          : Except Err (Val K × Val K × Val K))
        pure (system_spec, signal_spec, gain)
      : Except Err (Val K × Val K × Val K))
    let t17 ← (do
      if (PyIC.isinstance system_spec [.str]) then
        let t16 ← PyIC.getItem system_spec (0 : Int)
        pure (PyIC.eqLit t16 "-")
      else
        pure false
      : Except Err (Bool))
    let t26 ← (do
      if (t17 && (!PyIC.isNone gain)) then
        pure true
      else
        let t19 ← (do
          if (PyIC.isinstance signal_spec [.str]) then
            let t18 ← PyIC.getItem signal_spec (0 : Int)
            pure (PyIC.eqLit t18 "-")
          else
            pure false
          : Except Err (Bool))
        let t25 ← (do
          if (t19 && (!PyIC.isNone gain)) then
            pure true
          else
            let t21 ← (do
              if (PyIC.isinstance system_spec [.str]) then
                let t20 ← PyIC.getItem system_spec (0 : Int)
                pure (PyIC.eqLit t20 "-")
              else
                pure false
              : Except Err (Bool))
            let t24 ← (do
              if t21 then
                let t23 ← (do
                  if (PyIC.isinstance signal_spec [.str]) then
                    let t22 ← PyIC.getItem signal_spec (0 : Int)
                    pure (PyIC.eqLit t22 "-")
                  else
                    pure false
                  : Except Err (Bool))
                pure t23
              else
                pure false
              : Except Err (Bool))
            pure t24
          : Except Err (Bool))
        pure t25
      : Except Err (Bool))
    let (gain, system_spec, signal_spec) ← (do
      if t26 then
        throw Err.badArg
      else
        let t28 ← (do
          if (PyIC.isinstance system_spec [.str]) then
            let t27 ← PyIC.getItem system_spec (0 : Int)
            pure (PyIC.eqLit t27 "-")
          else
            pure false
          : Except Err (Bool))
        let (gain, system_spec, signal_spec) ← (do
          if t28 then
            let gain : Int := (-1 : Int)
            let system_spec ← PyIC.dropFrom system_spec 1
            pure ((Val.int gain), system_spec, signal_spec)
          else
            let t31 ← (do
              if (PyIC.isinstance signal_spec [.str]) then
                let t30 ← PyIC.getItem signal_spec (0 : Int)
                pure (PyIC.eqLit t30 "-")
              else
                pure false
              : Except Err (Bool))
            let (gain, signal_spec) ← (do
              if t31 then
                let gain : Int := (-1 : Int)
                let signal_spec ← PyIC.dropFrom signal_spec 1
                pure ((Val.int gain), signal_spec)
              else
                let gain ← (do
                  if (PyIC.isNone gain) then
                    let gain : Int := (1 : Int)
                    pure (Val.int gain)
                  else
                    pure gain
                  : Except Err (Val K))
                pure (gain, signal_spec)
              : Except Err (Val K × Val K))
            pure (gain, system_spec, signal_spec)
          : Except Err (Val K × Val K × Val K))
        pure (gain, system_spec, signal_spec)
      : Except Err (Val K × Val K × Val K))
    let system_index ← (do
      if (PyIC.isinstance system_spec [.int]) then
        let system_index : Val K := system_spec
        pure system_index
      else
        let (syslist_index, system_index) ← (do
          if (PyIC.isinstance system_spec [.str]) then
            let syslist_index : PyIC.Dict := ((PyIC.enumerate syslist).map fun ((i, sys) : Int × SysSig) => (sys.name, i))
            let system_index ← PyIC.dictGet syslist_index system_spec
            if (PyIC.isNone system_index) then
              throw Err.unknownName
            else
              pure ()
            pure (syslist_index, system_index)
          else
            throw Err.badArg
          : Except Err (PyIC.Dict × Val K))
        pure system_index
      : Except Err (Val K))
    let t34 ← PyIC.toInt system_index
    if ((decide (t34 < (0 : Int))) || (decide (t34 ≥ (syslist.length : Int)))) then
      throw Err.indexRange
    else
      pure ()
    let dictname ← (do
      if (dictname.isNone) then
        pure (signame ++ "_index")
      else
        let t35 ← PyIC.optStr dictname
        pure t35
      : Except Err (String))
    let t37 ← PyIC.toInt system_index
    let t38 ← PyIC.seqGet syslist t37
    let signal_dict ← PyIC.getattrIndex t38 dictname
    let nsignals : Nat := signal_dict.length
    let signal_indices ← (do
      if (PyIC.isNone signal_spec) then
        let signal_indices : Val K := (PyIC.listRange (nsignals : Int))
        pure signal_indices
      else
        let signal_indices ← (do
          if (PyIC.isinstance signal_spec [.int]) then
            let signal_indices : Val K := (Val.list [signal_spec])
            pure signal_indices
          else
            let t41 ← (do
              if (PyIC.isinstance signal_spec [.list]) then
                let t40 ← PyIC.allIsinstance signal_spec [.int]
                pure t40
              else
                pure false
              : Except Err (Bool))
            let signal_indices ← (do
              if t41 then
                let signal_indices : Val K := signal_spec
                pure signal_indices
              else
                let t42 ← PyIC.toInt system_index
                let t43 ← PyIC.seqGet syslist t42
                let signal_indices ← PyIC.findSignals signal_dict signal_spec
                if (PyIC.isNone signal_indices) then
                  throw Err.unknownName
                else
                  pure ()
                pure signal_indices
              : Except Err (Val K))
            pure signal_indices
          : Except Err (Val K))
        pure signal_indices
      : Except Err (Val K))
    let t45 ← PyIC.iter signal_indices
    List.forM t45 fun (index : Val K) => (do
        let t46 ← PyIC.toInt index
        if ((decide (t46 < (0 : Int))) || (decide (t46 ≥ (nsignals : Int)))) then
          throw Err.indexRange
        else
          pure ()
        pure ()
        : Except Err Unit)
    let t47 ← PyIC.toInt system_index
    let t48 ← PyIC.toInts signal_indices
    let t49 ← PyIC.toNum gain
    pure (t47, t48, t49)

end CtrlVerif.Generated
