-- GENERATED on every run by harness/core/py2lean_canon.py from control/modelsimp.py (model_reduction d3cac615cea175c4).  Do not edit.
import CtrlVerif.Model.PyCanon
import CtrlVerif.Generated.CanonReduceKeys

namespace CtrlVerif.Generated

open CtrlVerif

noncomputable section

variable {K : Type} [Field K] [DecidableEq K]

/-- `control/modelsimp.py:model_reduction` as the source text says it (sha256 of the function text
d3cac615cea175c493b0694b71a87fc36cbefaeb707c1328cd0e46375bccfc59).
Defaults: elim_inputs=None, elim_outputs=None, elim_states=None, keep_inputs=None, keep_outputs=None, keep_states=None, method='matchdc', warn_unstable=True.
  note: `if warn_unstable: ... warnings.warn(...)` dropped: a warning does not change the result (its tests are assumed not to raise) -/
def modelReduction (fuel : Nat) (sys : DSS K) (sys_state_labels : List String) (sys_input_labels : List String) (sys_output_labels : List String) (elim_states : PyVal) (method : String) (elim_inputs : PyVal) (elim_outputs : PyVal) (keep_states : PyVal) (keep_inputs : PyVal) (keep_outputs : PyVal) (warn_unstable : Bool) : Except Err (DSS K) :=
  do
    let (elim_states, keep_states) ← processElimOrKeep fuel elim_states keep_states sys_state_labels
    let (elim_inputs, keep_inputs) ← processElimOrKeep fuel elim_inputs keep_inputs sys_input_labels
    let (elim_outputs, keep_outputs) ← processElimOrKeep fuel elim_outputs keep_outputs sys_output_labels
    let t1 ← PyCanon.takeCols (PySS.A sys) keep_states
    let A11 ← PyCanon.takeRows t1 keep_states
    let t2 ← PyCanon.takeCols (PySS.A sys) elim_states
    let A12 ← PyCanon.takeRows t2 keep_states
    let t3 ← PyCanon.takeCols (PySS.A sys) keep_states
    let A21 ← PyCanon.takeRows t3 elim_states
    let t4 ← PyCanon.takeCols (PySS.A sys) elim_states
    let A22 ← PyCanon.takeRows t4 elim_states
    let B1 ← PyCanon.takeRows (PySS.B sys) keep_states
    let B2 ← PyCanon.takeRows (PySS.B sys) elim_states
    let C1 ← PyCanon.takeCols (PySS.C sys) keep_states
    let C2 ← PyCanon.takeCols (PySS.C sys) elim_states
    let (Ar, Br, Cr, Dr) ← (do
      if ((method = "matchdc") ∧ ((PyCanon.size A22) > (0 : Nat))) then
        if (PyCanon.isdtime sys.dt true = true) then
          throw Err.notImplemented
        else
          if ((PMat.rank A22) ≠ elim_states.length) then
            throw Err.illPosed
          else
            let t5 ← PMat.hcat A21 B2
            let A22I_A21_B2 ← PMat.solve A22 t5
            let A22I_A21 : PMat K := (PMat.sliceCols A22I_A21_B2 none (some (A21.c : Int)))
            let A22I_B2 : PMat K := (PMat.sliceCols A22I_A21_B2 (some (A21.c : Int)) none)
            let t6 ← PMat.matmul A12 A22I_A21
            let Ar ← PMat.sub A11 t6
            let t7 ← PMat.matmul A12 A22I_B2
            let Br ← PMat.sub B1 t7
            let t8 ← PMat.matmul C2 A22I_A21
            let Cr ← PMat.sub C1 t8
            let t9 ← PMat.matmul C2 A22I_B2
            let Dr ← PMat.sub (PySS.D sys) t9
            pure (Ar, Br, Cr, Dr)
      else
        if ((method = "truncate") ∨ ((PyCanon.size A22) = (0 : Nat))) then
          let Ar : PMat K := A11
          let Br : PMat K := B1
          let Cr : PMat K := C1
          let Dr : PMat K := (PySS.D sys)
          pure (Ar, Br, Cr, Dr)
        else
          throw Err.badArg
      : Except Err (PMat K × PMat K × PMat K × PMat K))
    let Br ← PyCanon.takeCols Br keep_inputs
    let Cr ← PyCanon.takeRows Cr keep_outputs
    let t10 ← PyCanon.takeRows Dr keep_outputs
    let Dr ← PyCanon.takeCols t10 keep_inputs
    let rsys ← PySS.mk Ar Br Cr Dr sys.dt
    pure rsys

end

end CtrlVerif.Generated
