-- GENERATED on every run by harness/core/py2lean_ss.py from control/statesp.py (__pow__ 3bec0161e3a5b75b, __rtruediv__ 411ed4742e2793a1, __truediv__ 4d893a90d6a12f26).  Do not edit.
import CtrlVerif.Model.PyMat
import CtrlVerif.Generated.SSMul

namespace CtrlVerif.Generated

open CtrlVerif

noncomputable section

variable {K : Type} [Field K] [DecidableEq K]

/-- `control/statesp.py:StateSpace.__pow__` as the source text says it (sha256 of the function text
3bec0161e3a5b75b1630c406a8bb048c67a481c88e955ea29e36c8596d7bec91).
Defaults: none.
  note: a path falls off the end of the method (Python returns None): `throw Err.badArg` -/
def ssPow (self : DSS K) (other : Int) : Except Err (DSS K) :=
  do
    if h1 : (self.m ≠ self.p) then
      throw Err.notImplemented
    else
      if h2 : (other < (-1 : Int)) then
        let t1 ← ssPow self (-1 : Int)
        ssPow t1 (-other)
      else
        if h3 : (other = (-1 : Int)) then
          let Di ← (match (do
              let Di ← PMat.inv (PySS.D self)
              pure Di
              : Except Err (PMat K)) with
            | .ok v => pure v
            | .error e => if PySS.isLinAlgError e then throw Err.notImplemented else throw e)
          let t3 ← PMat.matmul (PySS.B self) Di
          let t4 ← PMat.matmul t3 (PySS.C self)
          let Ai ← PMat.sub (PySS.A self) t4
          let Bi ← PMat.matmul (PySS.B self) Di
          let Ci ← PMat.matmul (PMat.neg Di) (PySS.C self)
          PySS.mk Ai Bi Ci Di self.dt
        else
          if h4 : (other = (0 : Int)) then
            pure (PySS.mkStatic (PMat.eye self.m) self.dt)
          else
            if h5 : (other = (1 : Int)) then
              pure self
            else
              if h6 : (other > (1 : Int)) then
                let t6 ← ssPow self (other - (1 : Int))
                ssMul self (SOperand.sys t6)
              else
                throw Err.badArg
termination_by 2 * other.natAbs + min 1 (-other).toNat
decreasing_by all_goals (simp_wf; omega)

/-- `control/statesp.py:StateSpace.__rtruediv__` as the source text says it (sha256 of the function text
411ed4742e2793a133ae212ffe6181d67fae97c0a69ca792eea2d01e801f9cb3).
Defaults: none. -/
def ssRtruediv (self : DSS K) (other : SOperand K) : Except Err (DSS K) :=
  match other with
  | .scalar other => do
    let t1 ← ssPow self (-1 : Int)
    ssRmul t1 (SOperand.scalar other)
  | .array other_r other_c other_M => do
    let other : PMat K := ⟨other_r, other_c, other_M⟩
    let t1 ← ssPow self (-1 : Int)
    ssRmul t1 (PMat.toOperand other)
  | .sys other => do
    let t1 ← ssPow self (-1 : Int)
    ssMul other (SOperand.sys t1)

/-- `control/statesp.py:StateSpace.__truediv__` as the source text says it (sha256 of the function text
4d893a90d6a12f26e4e863099e0bddaf5f1ec8b58e739144e8109f896b0973f0).
Defaults: none.
  note: kind array: `1 / ndarray` (element-wise reciprocal, inf for a zero entry) is not modelled -/
def ssTruediv (self : DSS K) (other : SOperand K) : Except Err (DSS K) :=
  match other with
  | .scalar other => do
    match (do
        let t1 ← PyNum.div ((1 : Int) : K) other
        ssMul self (SOperand.scalar t1)
        : Except Err (DSS K)) with
    | .ok v => pure v
    | .error e => if PySS.isValueError e then throw Err.notImplemented else throw e
  | .array other_r other_c other_M => throw Err.notImplemented   -- not modelled: `1 / ndarray` (element-wise reciprocal, inf for a zero entry) is not modelled
  | .sys other => do
    match (do
        let t1 ← ssRtruediv other (SOperand.scalar ((1 : Int) : K))
        ssMul self (SOperand.sys t1)
        : Except Err (DSS K)) with
    | .ok v => pure v
    | .error e => if PySS.isValueError e then throw Err.notImplemented else throw e

end

end CtrlVerif.Generated
