-- GENERATED on every run by harness/core/py2lean_frd.py from control/frdata.py (__neg__ 61199c018c75c95d, append 6d79479002b2af37).  Do not edit.
import CtrlVerif.Model.PyFRD
import CtrlVerif.Generated.FRDConvert

namespace CtrlVerif.Generated

open CtrlVerif

noncomputable section

variable {K : Type} [Field K] [DecidableEq K]

/-- `control/frdata.py:FrequencyResponseData.__neg__` as the source text says it (sha256 of the function text
61199c018c75c95d4d71eb1783beeb38a6659bbde8bfbcedd302d53bacfd4f83).
Defaults: none. -/
def frdNeg (self : PyFRD K) : Except Err (PyFRD K) :=
  do
    PyFRD.ctor (PArr3.neg (PyFRD.frdata self)) (PyFRD.omega self) self.dt false

/-- the part of `append` after `other = _convert_to_frd(other, ...)` (the same text for the operand kinds frd, lti). -/
def frdAppendCore (E : Env K) (self : PyFRD K) (other : PyFRD K) : Except Err (PyFRD K) :=
  do
    let dt ← common self.dt other.dt
    let new_frdata : PArr3 K := (PArr3.zeros ((PyFRD.noutputs self) + (PyFRD.noutputs other)) ((PyFRD.ninputs self) + (PyFRD.ninputs other)) (PyFRD.omega self).n)
    let t1 ← PArr3.reshape (PyFRD.frdata self) (PyFRD.noutputs self) (PyFRD.ninputs self)
    let new_frdata ← PArr3.setBlock new_frdata none (some ((PyFRD.noutputs self) : Int)) none (some ((PyFRD.ninputs self) : Int)) t1
    let t2 ← PArr3.reshape (PyFRD.frdata other) (PyFRD.noutputs other) (PyFRD.ninputs other)
    let new_frdata ← PArr3.setBlock new_frdata (some ((PyFRD.noutputs self) : Int)) none (some ((PyFRD.ninputs self) : Int)) none t2
    PyFRD.ctor new_frdata (PyFRD.omega self) dt (PyFRD.smooth self)

/-- `control/frdata.py:FrequencyResponseData.append` as the source text says it (sha256 of the function text
6d79479002b2af379bc8c8d6d78c67cda378d91dcea6b1d035060f8133ac0f71).
Defaults: none.
  note: kind scalar: AttributeError: a NUM operand has no attribute ninputs
  note: kind array: AttributeError: a MAT operand has no attribute ninputs -/
def frdAppend (E : Env K) (self : PyFRD K) (other : PyOpd K) : Except Err (PyFRD K) :=
  match other with
  | .frd other => do
    let other ← convertToFrd E (PyOpd.frd other) (PyFRD.omega self) (PyFRD.ninputs other) (PyFRD.noutputs other)
    frdAppendCore E self other
  | .scalar other => do
    throw Err.badArg
  | .array other_r other_c other_M => do
    let other : PMat K := ⟨other_r, other_c, other_M⟩
    throw Err.badArg
  | .lti other => do
    let other ← convertToFrd E (PyOpd.lti other) (PyFRD.omega self) (LTI.m other) (LTI.p other)
    frdAppendCore E self other

end

end CtrlVerif.Generated
