-- GENERATED on every run by harness/core/py2lean_sfb.py from control/stochsys.py (dlqe 0fdd0eaae5c51a53, lqe 72d2ce398b5b1a54).  Do not edit.
import CtrlVerif.Model.PySfb

namespace CtrlVerif.Generated

open CtrlVerif

noncomputable section

variable {K : Type} [Field K] [DecidableEq K]

/-- `control/stochsys.py:dlqe` as the source text says it (sha256 of the function text
0fdd0eaae5c51a53859b1605901b15c12e694cab58aa476f5073177553a8d2a0).
One arm per kind of `args[0]` (none, StateSpace, other LTI, array-like) and of `integral_action`. -/
def sfDlqe {ε : Type} (care dare : PySfb.RicFn K ε) (args : List (PySfb.Arg K)) (kw : PySfb.Kw K) : Except Err (PMat K × PMat K × ε) :=
  match args with
  | [] => (do
      if (PySfb.Kw.rest kw true false = true) then
        throw Err.badArg
      else
        if ((0 : Int) < (3 : Int)) then
          throw Err.badArg
        else
          throw Err.indexRange)
  | (.ss a0) :: _ => (do
      if (PySfb.Kw.rest kw true false = true) then
        throw Err.badArg
      else
        if (args.length < (3 : Nat)) then
          throw Err.badArg
        else
          if (DtPred.isctime true a0.dt = true) then
            throw Err.badArg
          else
            let A : PMat K := (PySS.A a0)
            let G : PMat K := (PySS.B a0)
            let C : PMat K := (PySS.C a0)
            let index : Int := (1 : Int)
            let t1 ← PySfb.argAt args 1
            let QN ← PySfb.Arg.toArray t1
            let t2 ← PySfb.argAt args 2
            let RN ← PySfb.Arg.toArray t2
            if (args.length > (3 : Nat)) then
              throw Err.notImplemented
            else
              PySfb.checkShape QN G.c G.c
              let t3 ← PMat.matmul G QN
              let t4 ← PMat.matmul t3 (PMat.T G)
              let t5 ← dare (PMat.T A) (PMat.T C) t4 RN none
              let P : PMat K := t5.1
              let E : ε := t5.2.1
              let LT : PMat K := t5.2.2
              pure ((PMat.T LT), P, E))
  | (.lti a0) :: _ => (do
      if (PySfb.Kw.rest kw true false = true) then
        throw Err.badArg
      else
        if (args.length < (3 : Nat)) then
          throw Err.badArg
        else
          if (DtPred.isctime true a0 = true) then
            throw Err.badArg
          else
            throw Err.badArg)
  | (.arr a0) :: _ => (do
      if (PySfb.Kw.rest kw true false = true) then
        throw Err.badArg
      else
        if (args.length < (3 : Nat)) then
          throw Err.badArg
        else
          let A : PMat K := a0
          let t1 ← PySfb.argAt args 1
          let G ← PySfb.Arg.toArray t1
          let t2 ← PySfb.argAt args 2
          let C ← PySfb.Arg.toArray t2
          let index : Int := (3 : Int)
          let t3 ← PySfb.argAt args 3
          let QN ← PySfb.Arg.toArray t3
          let t4 ← PySfb.argAt args 4
          let RN ← PySfb.Arg.toArray t4
          if (args.length > (5 : Nat)) then
            throw Err.notImplemented
          else
            PySfb.checkShape QN G.c G.c
            let t5 ← PMat.matmul G QN
            let t6 ← PMat.matmul t5 (PMat.T G)
            let t7 ← dare (PMat.T A) (PMat.T C) t6 RN none
            let P : PMat K := t7.1
            let E : ε := t7.2.1
            let LT : PMat K := t7.2.2
            pure ((PMat.T LT), P, E))

/-- `control/stochsys.py:lqe` as the source text says it (sha256 of the function text
72d2ce398b5b1a54fa7a7ee848fc7410f7384e7afa6bc41b56479307e026c03f).
One arm per kind of `args[0]` (none, StateSpace, other LTI, array-like) and of `integral_action`. -/
def sfLqe {ε : Type} (care dare : PySfb.RicFn K ε) (args : List (PySfb.Arg K)) (kw : PySfb.Kw K) : Except Err (PMat K × PMat K × ε) :=
  match args with
  | [] => (do
      throw Err.indexRange)
  | (.ss a0) :: _ => (do
      if (DtPred.isdtime true a0.dt = true) then
        sfDlqe care dare args kw
      else
        if (PySfb.Kw.rest kw true false = true) then
          throw Err.badArg
        else
          if (args.length < (3 : Nat)) then
            throw Err.badArg
          else
            let A : PMat K := (PySS.A a0)
            let G : PMat K := (PySS.B a0)
            let C : PMat K := (PySS.C a0)
            let index : Int := (1 : Int)
            let t2 ← PySfb.argAt args 1
            let QN ← PySfb.Arg.toArray t2
            let t3 ← PySfb.argAt args 2
            let RN ← PySfb.Arg.toArray t3
            if (args.length > (3 : Nat)) then
              throw Err.notImplemented
            else
              PySfb.checkShape QN G.c G.c
              let t4 ← PMat.matmul G QN
              let t5 ← PMat.matmul t4 (PMat.T G)
              let t6 ← care (PMat.T A) (PMat.T C) t5 RN none
              let P : PMat K := t6.1
              let E : ε := t6.2.1
              let LT : PMat K := t6.2.2
              pure ((PMat.T LT), P, E))
  | (.lti a0) :: _ => (do
      if (DtPred.isdtime true a0 = true) then
        sfDlqe care dare args kw
      else
        if (PySfb.Kw.rest kw true false = true) then
          throw Err.badArg
        else
          if (args.length < (3 : Nat)) then
            throw Err.badArg
          else
            throw Err.badArg)
  | (.arr a0) :: _ => (do
      if (PySfb.Kw.rest kw true false = true) then
        throw Err.badArg
      else
        if (args.length < (3 : Nat)) then
          throw Err.badArg
        else
          let A : PMat K := a0
          let t1 ← PySfb.argAt args 1
          let G ← PySfb.Arg.toArray t1
          let t2 ← PySfb.argAt args 2
          let C ← PySfb.Arg.toArray t2
          let index : Int := (3 : Int)
          let t3 ← PySfb.argAt args 3
          let QN ← PySfb.Arg.toArray t3
          let t4 ← PySfb.argAt args 4
          let RN ← PySfb.Arg.toArray t4
          if (args.length > (5 : Nat)) then
            throw Err.notImplemented
          else
            PySfb.checkShape QN G.c G.c
            let t5 ← PMat.matmul G QN
            let t6 ← PMat.matmul t5 (PMat.T G)
            let t7 ← care (PMat.T A) (PMat.T C) t6 RN none
            let P : PMat K := t7.1
            let E : ε := t7.2.1
            let LT : PMat K := t7.2.2
            pure ((PMat.T LT), P, E))

end

end CtrlVerif.Generated
