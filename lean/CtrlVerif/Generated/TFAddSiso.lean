-- GENERATED on every run by harness/core/py2lean_tf.py from control/xferfcn.py (_add_siso 030a73f2a869bdd18086a5a833c5c0556471bf9b155d12e5bc73d848c9f7f1b9).  Do not edit.
import CtrlVerif.Model.PyTF

namespace CtrlVerif.Generated.TF

open CtrlVerif

/-- `control/xferfcn.py:_add_siso` as the source text says it (sha256 of the function text
030a73f2a869bdd18086a5a833c5c0556471bf9b155d12e5bc73d848c9f7f1b9).
Defaults: none. -/
def addSiso {K : Type} [Field K] [DecidableEq K] (num1 : List K) (den1 : List K) (num2 : List K) (den2 : List K) :
    Except Err ((List K × List K)) :=
  (do
    let num : List K := (polyadd (polymul num1 den2) (polymul num2 den1))
    let den : List K := (polymul den1 den2)
    pure (num, den))

end CtrlVerif.Generated.TF
