-- GENERATED on every run by harness/core/py2lean_nl.py from control/nlsys.py (nlUfun df6d62b50d68d806).  Do not edit.
import CtrlVerif.Model.PyNL

namespace CtrlVerif.Generated

open CtrlVerif

variable {K : Type} [Field K] [LinearOrder K]

/-- block `nlUfun` of `control/nlsys.py` as the source text says it (sha256 of the text of the translated
statements df6d62b50d68d806b27049450f80caf2db065c4523ade7f0f76d490eaadd8b65). -/
def nlUfun (T : List K) (U : List (List K)) (t : K) :
    Except Err (List K) :=
  do
    let idx : Int := (PyNL.clip (PyNL.searchsortedLeft T t) (1 : Int) ((T.length : Int) - (1 : Int)))
    let t1 ← PyArith.getItem T (idx - (1 : Int))
    let t2 ← PyArith.getItem T idx
    let t3 ← PyArith.getItem T (idx - (1 : Int))
    let t4 ← PyArith.div (t - t1) (t2 - t3)
    let dt : K := t4
    let t5 ← PyArith.getItem U (idx - (1 : Int))
    let t6 ← PyArith.getItem U idx
    let t7 ← PyNL.vadd (PyNL.vscale t5 ((1 : K) - dt)) (PyNL.vscale t6 dt)
    pure t7

end CtrlVerif.Generated
