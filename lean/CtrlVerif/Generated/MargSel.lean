-- GENERATED on every run by harness/core/py2lean_marg.py from control/margins.py:stability_margins (transfer-function branch and return) (sha256 871d4794088c49f9052ffdde83e69977d6f06e700e73a0485fd0dc352d33b117).  Do not edit.
import CtrlVerif.Model.PyMarg
import CtrlVerif.Generated.PolyZInvz
import CtrlVerif.Generated.MargIwSel
import CtrlVerif.Generated.MargZSel

namespace CtrlVerif.Generated

open CtrlVerif CtrlVerif.Margins

/-- piece `smCand` of `control/margins.py:stability_margins` (statements at the lines 99-125 of the function text; sha256 of their text
85fc2e387eabadce16856eb0d69a7ceef3c782e0de0d4b96ab536d06ee20cfc7) -/
def smCand {K : Type} [Field K] [LinearOrder K] [IsStrictOrderedRing K] [FloorRing K] (P : PyMarg.Prims K) (sysEval : Cx K → Option (Cx K)) (ctime : Bool) (polyIwSys : (List K × List K) × (List K × List K)) (num0 : List K) (den0 : List K) (dt0 : K) (zWstab : List (Cx K) × List K) (epsw : K) :
    Except Err (List K × List K × List K × List (Option (Cx K)) × List (Option (Cx K)) × List (Option (Cx K))) :=
  (if (ctime = true) then
      (do
        let num_iw : (List K × List K) := polyIwSys.1
        let den_iw : (List K × List K) := polyIwSys.2
        let w_180 ← polyIwRealCrossingSel P num_iw den_iw epsw
        let w180_resp : List (Option (Cx K)) := (List.map sysEval (List.map Margins.jw w_180))
        let wc ← polyIwMag1CrossingSel P num_iw den_iw epsw
        let wc_resp : List (Option (Cx K)) := (List.map sysEval (List.map Margins.jw wc))
        let wstab ← polyIwWstabSel P num_iw den_iw epsw
        let ws_resp : List (Option (Cx K)) := (List.map sysEval (List.map Margins.jw wstab))
        pure (w_180, wc, wstab, w180_resp, wc_resp, ws_resp))
    else
      (do
        let zargs ← polyZInvz num0 den0 dt0
        let t5 ← polyZRealCrossingSel P zargs.1 zargs.2.1 zargs.2.2.1 zargs.2.2.2.1 zargs.2.2.2.2.1 zargs.2.2.2.2.2 epsw
        let z : List (Cx K) := t5.1
        let w_180 : List K := t5.2
        let w180_resp : List (Option (Cx K)) := (List.map sysEval z)
        let t6 ← polyZMag1CrossingSel P zargs.1 zargs.2.1 zargs.2.2.1 zargs.2.2.2.1 zargs.2.2.2.2.1 zargs.2.2.2.2.2 epsw
        let z : List (Cx K) := t6.1
        let wc : List K := t6.2
        let wc_resp : List (Option (Cx K)) := (List.map sysEval z)
        let z : List (Cx K) := zWstab.1
        let wstab : List K := zWstab.2
        let ws_resp : List (Option (Cx K)) := (List.map sysEval z)
        pure (w_180, wc, wstab, w180_resp, wc_resp, ws_resp)))

/-- piece `smSelect` of `control/margins.py:stability_margins` (statements at the lines 128-186 of the function text; sha256 of their text
def50cef14fe09ca022b624e377cd8166fe1379a881412dd7c3e84084a91024c) -/
def smSelect {K : Type} [Field K] [LinearOrder K] [IsStrictOrderedRing K] [FloorRing K] (P : PyMarg.Prims K) (w_180 : List K) (wc : List K) (wstab : List K) (w180_resp : List (Option (Cx K))) (wc_resp : List (Option (Cx K))) (ws_resp : List (Option (Cx K))) :
    Except Err (List (PyMarg.XF K) × List (PyMarg.XF K) × List (PyMarg.XF K) × List K × List K × List K) :=
  (do
    let w_180 ← PyMarg.mask w_180 (List.map PyMarg.cle0 w180_resp)
    let w180_resp ← PyMarg.mask w180_resp (List.map PyMarg.cle0 w180_resp)
    let idx : List Nat := (PyMarg.argsort w_180)
    let w_180 ← PyMarg.take w_180 idx
    let w180_resp ← PyMarg.take w180_resp idx
    let idx : List Nat := (PyMarg.argsort wc)
    let wc ← PyMarg.take wc idx
    let wc_resp ← PyMarg.take wc_resp idx
    let idx : List Nat := (PyMarg.argsort wstab)
    let wstab ← PyMarg.take wstab idx
    let ws_resp ← PyMarg.take ws_resp idx
    let GM : List (PyMarg.XF K) := (List.map (fun x => (PyMarg.XF.div (PyMarg.XF.fin (1 : K)) x)) (List.map (PyMarg.rabs P.cabs) w180_resp))
    let PM : List (PyMarg.XF K) := (List.map (fun x => (PyMarg.XF.sub x (PyMarg.XF.fin (180 : K)))) (List.map (fun x => PyMarg.XF.remainder x (360 : K)) (List.map (PyMarg.rangle P.angleDeg) wc_resp)))
    let SM : List (PyMarg.XF K) := (List.map (PyMarg.rabs P.cabs) (List.map (fun r => PyMarg.raddS r (1 : K)) ws_resp))
    pure (GM, PM, SM, w_180, wc, wstab))

/-- piece `smReturn` of `control/margins.py:stability_margins` (statements at the lines 188-206 of the function text; sha256 of their text
bc0cd5c93294f6ac2a1bc8aff561558a1bb69e51532b9890b21f14b7a91c2194) -/
def smReturn {K : Type} [Field K] [LinearOrder K] [IsStrictOrderedRing K] [FloorRing K] (P : PyMarg.Prims K) (returnall : Bool) (GM : List (PyMarg.XF K)) (PM : List (PyMarg.XF K)) (SM : List (PyMarg.XF K)) (w_180 : List K) (wc : List K) (wstab : List K) :
    Except Err (PyMarg.SmOut K) :=
  (if (returnall = true) then
      (pure (PyMarg.SmOut.all GM PM SM w_180 wc wstab))
    else
      (do
        let t16 ← ((if ((((List.length GM : Nat) : Int) ≠ 0) ∧ (¬ ((List.all (List.map PyMarg.XF.isInf GM) id) = true))) then
            (do
              let t15 ← PyMarg.amin (List.map PyMarg.XF.abs (List.map (PyMarg.XF.log P.log) GM))
              let gmidx : List Nat := (PyMarg.whereTrue (List.map (fun x => PyMarg.XF.beq x t15) (List.map PyMarg.XF.abs (List.map (PyMarg.XF.log P.log) GM))))
              pure ((PyMarg.WIdx.tup gmidx)))
          else
            (do
              let gmidx : Int := (-1)
              pure ((PyMarg.WIdx.int gmidx)))) : Except Err (PyMarg.WIdx))
        let gmidx : PyMarg.WIdx := t16
        let t18 ← ((if (((List.length PM : Nat) : Int) ≠ 0) then
            (do
              let t17 ← PyMarg.amin (List.map PyMarg.XF.abs PM)
              let pmidx : List Nat := (PyMarg.whereTrue (List.map (fun x => PyMarg.XF.beq x t17) (List.map PyMarg.XF.abs PM)))
              pure ((some pmidx)))
          else
            (pure (none))) : Except Err (Option (List Nat)))
        let pmidx : Option (List Nat) := t18
        let t20 ← ((if (¬ ((PyMarg.WIdx.neInt gmidx (-1)) = true)) then (pure PyMarg.XF.pinf)
          else (do
            let t19 ← PyMarg.itemW0 GM gmidx
            pure t19)) : Except Err (PyMarg.XF K))
        let t24 ← ((if (¬ (((List.length PM : Nat) : Int) ≠ 0)) then (pure PyMarg.XF.pinf)
          else (do
            let t21 ← PyMarg.bound pmidx
            let t22 ← PyMarg.take PM t21
            let t23 ← PyMarg.first t22
            pure t23)) : Except Err (PyMarg.XF K))
        let t26 ← ((if (¬ (((List.length SM : Nat) : Int) ≠ 0)) then (pure PyMarg.XF.pinf)
          else (do
            let t25 ← PyMarg.amin SM
            pure t25)) : Except Err (PyMarg.XF K))
        let t28 ← ((if (¬ ((PyMarg.WIdx.neInt gmidx (-1)) = true)) then (pure PyMarg.XF.nan)
          else (do
            let t27 ← PyMarg.itemW0 w_180 gmidx
            pure (PyMarg.XF.fin t27))) : Except Err (PyMarg.XF K))
        let t32 ← ((if (¬ (((List.length wc : Nat) : Int) ≠ 0)) then (pure PyMarg.XF.nan)
          else (do
            let t29 ← PyMarg.bound pmidx
            let t30 ← PyMarg.take wc t29
            let t31 ← PyMarg.first t30
            pure (PyMarg.XF.fin t31))) : Except Err (PyMarg.XF K))
        let t36 ← ((if (¬ (((List.length wstab : Nat) : Int) ≠ 0)) then (pure PyMarg.XF.nan)
          else (do
            let t33 ← PyMarg.amin SM
            let t34 ← PyMarg.mask wstab (List.map (fun x => PyMarg.XF.beq x t33) SM)
            let t35 ← PyMarg.first t34
            pure (PyMarg.XF.fin t35))) : Except Err (PyMarg.XF K))
        pure (PyMarg.SmOut.mins t20 t24 t26 t28 t32 t36)))

/-- `control/margins.py:stability_margins`: the branch for a transfer function `sys` (the unique top-level
`if isinstance(sys, xferfcn.TransferFunction):`) and everything after it, as the source text says it
(sha256 of these statements 871d4794088c49f9052ffdde83e69977d6f06e700e73a0485fd0dc352d33b117).
`sysEval` is `sys(·)`, `ctime` is `sys.isctime()`, `polyIwSys` is `_poly_iw(sys)`, `num0 den0 dt0` are
`sys.num[0][0]`, `sys.den[0][0]`, `sys.dt` (read by `_poly_z_invz`), `zWstab` is `_poly_z_wstab(*zargs, epsw=epsw)`.
The FRD branch (`else:`) and the statements before (conversion, `method`) are outside this tie. -/
def stabilityMarginsSel {K : Type} [Field K] [LinearOrder K] [IsStrictOrderedRing K] [FloorRing K] (P : PyMarg.Prims K) (sysEval : Cx K → Option (Cx K)) (ctime : Bool) (polyIwSys : (List K × List K) × (List K × List K)) (num0 : List K) (den0 : List K) (dt0 : K) (zWstab : List (Cx K) × List K) (returnall : Bool) (epsw : K) :
    Except Err (PyMarg.SmOut K) :=
  (do
    let t37 ← smCand P sysEval ctime polyIwSys num0 den0 dt0 zWstab epsw
    let w_180 : List K := t37.1
    let wc : List K := t37.2.1
    let wstab : List K := t37.2.2.1
    let w180_resp : List (Option (Cx K)) := t37.2.2.2.1
    let wc_resp : List (Option (Cx K)) := t37.2.2.2.2.1
    let ws_resp : List (Option (Cx K)) := t37.2.2.2.2.2
    let t38 ← smSelect P w_180 wc wstab w180_resp wc_resp ws_resp
    let GM : List (PyMarg.XF K) := t38.1
    let PM : List (PyMarg.XF K) := t38.2.1
    let SM : List (PyMarg.XF K) := t38.2.2.1
    let w_180 : List K := t38.2.2.2.1
    let wc : List K := t38.2.2.2.2.1
    let wstab : List K := t38.2.2.2.2.2
    smReturn P returnall GM PM SM w_180 wc wstab)

end CtrlVerif.Generated
