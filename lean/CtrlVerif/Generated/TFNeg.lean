-- GENERATED on every run by harness/core/py2lean_tf.py from control/xferfcn.py (__neg__ ea5a9b1b0b03db835afa4387a59cf3e9157747c24679d8effd1347cfcf0e8bbd).  Do not edit.
import CtrlVerif.Model.PyTF

namespace CtrlVerif.Generated.TF

open CtrlVerif

/-- `control/xferfcn.py:TransferFunction.__neg__` as the source text says it (sha256 of the function text
ea5a9b1b0b03db835afa4387a59cf3e9157747c24679d8effd1347cfcf0e8bbd).
Defaults: none. -/
def neg {K : Type} [Field K] [DecidableEq K] (self : DTF K) :
    Except Err (DTF K) :=
  (do
    let num : PyTF.PolyArr K := (PyTF.numArray self)
    let num ← List.foldlM (fun (t1 : PyTF.PolyArr K) (i : Int) =>
        ((do
          let num : PyTF.PolyArr K := t1
          let num ← List.foldlM (fun (t2 : PyTF.PolyArr K) (j : Int) =>
              ((do
                let num : PyTF.PolyArr K := t2
                let t3 ← PyTF.PolyArr.getItem num i j
                let num ← PyTF.PolyArr.setItem num i j (scale (-1 : K) t3)
                pure (num)) : Except Err (PyTF.PolyArr K))) (num) (PyArith.range 0 (PyTF.ninputs self))
          pure (num)) : Except Err (PyTF.PolyArr K))) (num) (PyArith.range 0 (PyTF.noutputs self))
    PyTF.mkTF num (PyTF.denArray self) self.dt)

end CtrlVerif.Generated.TF
