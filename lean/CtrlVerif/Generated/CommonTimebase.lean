-- GENERATED on every run by harness/core/py2lean.py from control/iosys.py:common_timebase (sha256 ad0a2ddbc9d9c433).  Do not edit.
import CtrlVerif.Model.PyDt

namespace CtrlVerif.Generated

/-- `common_timebase` as the source text says it, on abstract timebases (arguments that are systems
are replaced by their `dt`: dt1, dt2). -/
def commonTimebase (dt1 : Dt) (dt2 : Dt) : Except Err Dt :=
  if PyDt.isNone dt1 then
    .ok dt2
  else
    if PyDt.isNone dt2 then
      .ok dt1
    else
      if PyDt.isTrue dt1 then
        if PyDt.gtZero dt2 then
          .ok dt2
        else
          .error .timebase
      else
        if PyDt.isTrue dt2 then
          if PyDt.gtZero dt1 then
            .ok dt1
          else
            .error .timebase
        else
          if PyDt.isclose dt1 dt2 then
            .ok dt1
          else
            .error .timebase

end CtrlVerif.Generated
