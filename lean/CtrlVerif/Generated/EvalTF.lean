-- GENERATED on every run by harness/core/py2lean_eval.py from the source text of the tree under check (TransferFunction.horner 21b8728e4734b05d).  Do not edit.
import CtrlVerif.Model.PyEval

set_option linter.unusedVariables false

namespace CtrlVerif.Generated

open CtrlVerif

noncomputable section

variable {K : Type} [Field K] [DecidableEq K]

/-- `control/xferfcn.py:TransferFunction.horner` as the source text says it (sha256 of the function text
21b8728e4734b05dc921ac08c550eb39b978ccca463682cf04ae3d6bd95111bc).
Defaults: warn_infinite=True.
  note: `with np.errstate(…):` only changes how floating-point events are reported: the body is translated in place -/
def tfHorner (P : Eval.Parts K) (self : DTF K) (x : PyEval.XArg K) (warn_infinite : Bool) :
    Except Err (PyEval.Arr3 K) :=
  do
    let x_arr : List K := (PyEval.atleast1dComplex x)
    if ((PyEval.ndim x_arr) > (1 : Nat)) then
      throw Err.shape
    else
      let out : PyEval.Arr3 K := (PyEval.empty3 self.p self.m x_arr.length)
      let out ← List.foldlM (fun (out : PyEval.Arr3 K) (i : Int) => ((do
          let out ← List.foldlM (fun (out : PyEval.Arr3 K) (j : Int) => ((do
              let t1 ← PyTF.PolyArr.getItem (PyTF.numArray self) i j
              let t2 ← PyTF.PolyArr.getItem (PyTF.denArray self) i j
              let t3 ← PyEval.cdivArr P (PyEval.polyvalArr t1 x_arr) (PyEval.polyvalArr t2 x_arr)
              let out ← PyEval.Arr3.setRow out i j t3
              pure out
              : Except Err (PyEval.Arr3 K)))) out (PyArith.range 0 (self.m : Int))
          pure out
          : Except Err (PyEval.Arr3 K)))) out (PyArith.range 0 (self.p : Int))
      pure out

end

end CtrlVerif.Generated
