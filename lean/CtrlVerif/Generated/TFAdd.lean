-- GENERATED on every run by harness/core/py2lean_tf.py from control/xferfcn.py (__add__ a57801fba45af16d91ccb51863f9b6c672d7214be85d4d374d0aa43fc5afe208).  Do not edit.
import CtrlVerif.Model.PyTF
import CtrlVerif.Generated.TFAddSiso

namespace CtrlVerif.Generated.TF

open CtrlVerif

/-- `control/xferfcn.py:TransferFunction.__add__` as the source text says it (sha256 of the function text
a57801fba45af16d91ccb51863f9b6c672d7214be85d4d374d0aa43fc5afe208).
Defaults: none. -/
def add {K : Type} [Field K] [DecidableEq K] (self : DTF K) (other : PyTF.Operand K) :
    Except Err (DTF K) :=
  (do
    let other ← ((match other with
      | .tf other =>
        (pure ((PyTF.Operand.tf other)))
      | other@(.ss _ _) =>
        (do
          let other ← PyTF.convert other 1 1
          pure ((PyTF.Operand.tf other)))
      | .scalar other =>
        (do
          let other ← PyTF.convert (PyTF.Operand.scalar other) (PyTF.ninputs self) (PyTF.noutputs self)
          pure ((PyTF.Operand.tf other)))
      | other@(.array _ _ _) =>
        (do
          let other ← PyTF.convert other (PyTF.ninputs self) (PyTF.noutputs self)
          pure ((PyTF.Operand.tf other)))
      | other@(.foreign) =>
        (pure (other))) : Except Err (PyTF.Operand K))
    (match other with
      | .tf other =>
        (do
          let t6 ← ((if ((self.isSiso = true) ∧ (¬ (other.isSiso = true))) then
              (do
                let self ← PyTF.onesTimes (PyTF.noutputs other) (PyTF.ninputs other) self
                pure (self, other))
            else
              (if ((¬ (self.isSiso = true)) ∧ (other.isSiso = true)) then
                  (do
                    let other ← PyTF.onesTimes (PyTF.noutputs self) (PyTF.ninputs self) other
                    pure (self, other))
                else
                  (pure (self, other)))) : Except Err (DTF K × DTF K))
          let self : DTF K := t6.1
          let other : DTF K := t6.2
          (if ((PyTF.ninputs self) ≠ (PyTF.ninputs other)) then
              (.error Err.shape)
            else
              (if ((PyTF.noutputs self) ≠ (PyTF.noutputs other)) then
                  (.error Err.shape)
                else
                  (do
                    let dt ← common self.dt other.dt
                    let num ← PyTF.createPolyArray (PyTF.noutputs self) (PyTF.ninputs self) none
                    let den ← PyTF.createPolyArray (PyTF.noutputs self) (PyTF.ninputs self) none
                    let t18 ← List.foldlM (fun (t10 : PyTF.PolyArr K × PyTF.PolyArr K) (i : Int) =>
                        ((do
                          let num : PyTF.PolyArr K := t10.1
                          let den : PyTF.PolyArr K := t10.2
                          let t17 ← List.foldlM (fun (t11 : PyTF.PolyArr K × PyTF.PolyArr K) (j : Int) =>
                              ((do
                                let num : PyTF.PolyArr K := t11.1
                                let den : PyTF.PolyArr K := t11.2
                                let t12 ← PyTF.PolyArr.getItem (PyTF.numArray self) i j
                                let t13 ← PyTF.PolyArr.getItem (PyTF.denArray self) i j
                                let t14 ← PyTF.PolyArr.getItem (PyTF.numArray other) i j
                                let t15 ← PyTF.PolyArr.getItem (PyTF.denArray other) i j
                                let t16 ← Generated.TF.addSiso t12 t13 t14 t15
                                let num ← PyTF.PolyArr.setItem num i j t16.1
                                let den ← PyTF.PolyArr.setItem den i j t16.2
                                pure (num, den)) : Except Err (PyTF.PolyArr K × PyTF.PolyArr K))) (num, den) (PyArith.range 0 (PyTF.ninputs self))
                          let num : PyTF.PolyArr K := t17.1
                          let den : PyTF.PolyArr K := t17.2
                          pure (num, den)) : Except Err (PyTF.PolyArr K × PyTF.PolyArr K))) (num, den) (PyArith.range 0 (PyTF.noutputs self))
                    let num : PyTF.PolyArr K := t18.1
                    let den : PyTF.PolyArr K := t18.2
                    PyTF.mkTF num den dt))))
      | other@(.ss _ _) =>
        (.error Err.notImplemented)
      | .scalar other =>
        (.error Err.notImplemented)
      | other@(.array _ _ _) =>
        (.error Err.notImplemented)
      | other@(.foreign) =>
        (.error Err.notImplemented)))

end CtrlVerif.Generated.TF
