-- GENERATED on every run by harness/core/py2lean_norm.py from control/sysnorm.py (normLinf 004856f01de27b51).  Do not edit.
import CtrlVerif.Model.PyNorm
import CtrlVerif.Generated.NormBil
import CtrlVerif.Generated.NormLoops

namespace CtrlVerif.Generated

open CtrlVerif

noncomputable section

variable {K : Type} [Field K] [LinearOrder K]

/-- `system_norm`: the matrix assignments and the body of `elif p == "inf":`, the three blocks above as calls as the source text says it (sha256 of the translated text
004856f01de27b51bd97f0d57569c8d7b4268df64be6a74b70d59c6d7e0a75b1). -/
def normLinf (eigvals : PMat K → List (Norm.Pole K)) (norm2 : PMat K → K) (fuel : Nat) (G : DSS K) (poles : List (Norm.Pole K)) (tol : K) :
    Except Err (Norm.LinfVal K) :=
  do
    let A : PMat K := (PySS.A G)
    let B : PMat K := (PySS.B G)
    let C : PMat K := (PySS.C G)
    let D : PMat K := (PySS.D G)
    let poles_py : List (Norm.Pole K) := poles
    if (DtPred.isdtime false G.dt = true) then
      if (PyNorm.any (PyNorm.absIsclose (PyNorm.abs poles_py) (1 : K)) = true) then
        pure Norm.LinfVal.inf
      else
        let (A, B, C, D) ← (do
          if (DtPred.isdtime false G.dt = true) then
            normLinfBilinear eigvals A B C D
          else
            pure (A, B, C, D)
          : Except Err (PMat K × PMat K × PMat K × PMat K))
        normLinfCont eigvals norm2 fuel A B C D tol
    else
      if (PyNorm.any (PyNorm.isclose (PyNorm.real poles_py) (0 : K)) = true) then
        pure Norm.LinfVal.inf
      else
        let (A, B, C, D) ← (do
          if (DtPred.isdtime false G.dt = true) then
            normLinfBilinear eigvals A B C D
          else
            pure (A, B, C, D)
          : Except Err (PMat K × PMat K × PMat K × PMat K))
        normLinfCont eigvals norm2 fuel A B C D tol

end

end CtrlVerif.Generated
