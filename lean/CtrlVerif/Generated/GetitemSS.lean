-- GENERATED on every run by harness/core/py2lean_getitem.py from the source text in /repo (sha256 of the function below).  Do not edit.
import CtrlVerif.Model.PyGet
import CtrlVerif.Generated.SubsysIndex

namespace CtrlVerif.Generated

open CtrlVerif

/-- `StateSpace.__getitem__` (control/statesp.py, sha256 52f15bbfd0f7eac3) as the source text says it. `fuel` is the recursion budget handed to the generated `_parse_key`, `defaults` is `config.defaults`.
-/
def ssGetitem {K : Type} [Field K] (fuel : Nat) (defaults : PyGet.Defaults) (self : PyGet.SSObj K) (key : PyVal) : Except Err (PyGet.SSObj K) := do
  if (← (do if (!(← PyGet.isIterable key)) then pure true else pure (decide ((← Py.len key) ≠ (2 : Int))))) then
    throw Err.badArg
  let mut iomap := PyGet.namedSignal (PyGet.shape2 (PySS.D self.sys)) self.output_labels self.input_labels
  let mut indices := (← Generated.parseKey fuel iomap.signal_labels iomap.trace_labels iomap.data_shape key PyVal.none (1 : Int))
  let mut (outdx, output_labels) ← Generated.processSubsysIndex (← Py.getitem indices (PyVal.int (0 : Int))) self.output_labels false
  let mut (inpdx, input_labels) ← Generated.processSubsysIndex (← Py.getitem indices (PyVal.int (1 : Int))) self.input_labels false
  let mut sysname := (((← PyGet.Defaults.getStr defaults "iosys.indexed_system_name_prefix") ++ self.name) ++ (← PyGet.Defaults.getStr defaults "iosys.indexed_system_name_suffix"))
  return (← PyGet.mkStateSpace (PySS.A self.sys) (← PyGet.takeCols (PySS.B self.sys) inpdx) (← PyGet.takeRows (PySS.C self.sys) outdx) (← PyGet.takeCols (← PyGet.takeRows (PySS.D self.sys) outdx) inpdx) self.sys.dt sysname input_labels output_labels)

end CtrlVerif.Generated
