-- GENERATED on every run by harness/core/py2lean_marg.py from control/margins.py (_z_filter, _poly_z_* after np.roots) (sha256 8bc316be534e3a057205bbea733b0995758fb890d2907892de595ed78e7659a0).  Do not edit.
import CtrlVerif.Model.PyMarg
import CtrlVerif.Generated.PolyZRealCrossing
import CtrlVerif.Generated.PolyZMag1Crossing

namespace CtrlVerif.Generated

open CtrlVerif CtrlVerif.Margins

/-- `control/margins.py:_z_filter` as the source text says it (sha256 of the function text
eb79a3ceed7e560de09bcf6f64f2d7db293aa5cf820c871edfe2aea93291f87f). -/
def zFilter {K : Type} [Field K] [LinearOrder K] (P : PyMarg.Prims K) (z : List (Cx K)) (dt : K) (eps : K) :
    Except Err (List (Cx K) × List K) :=
  (do
    let z ← PyMarg.mask z (List.map (fun x => decide (x < eps)) (List.map (fun x => |x|) (List.map (fun x => x - (1 : K)) (List.map P.cabs z))))
    let zarg : List K := (List.map P.angle z)
    let zidx ← PyMarg.zipB (fun a b => a && b) (List.map (fun x => decide ((0 : K) ≤ x)) zarg) (List.map (fun x => decide (x < P.pi)) zarg)
    let t3 ← PyMarg.mask zarg zidx
    let omega ← List.mapM (fun x => PyArith.div x dt) t3
    let t5 ← PyMarg.mask z zidx
    pure (t5, omega))

/-- `control/margins.py:_poly_z_real_crossing` as the source text says it (sha256 of the function text
3f9ee84af0ae766943f3e92c6870e7b6f24476c6b1d674fbb3eef83a656dae22); the statements before `np.roots` are `Generated.polyZRealCrossing`, `np.roots` is `P.npRoots`. -/
def polyZRealCrossingSel {K : Type} [Field K] [LinearOrder K] (P : PyMarg.Prims K) (num : List K) (den : List K) (num_inv_zp : List K) (den_inv_zq : List K) (p_q : Int) (dt : K) (epsw : K) :
    Except Err (List (Cx K) × List K) :=
  (do
    let t1 ← polyZRealCrossing num den num_inv_zp den_inv_zq p_q
    let z : List (Cx K) := (P.npRoots t1.1)
    let t2 ← PyArith.div (1 : K) ((((List.length t1.2 : Nat) : Int) : Int) : K)
    let eps : K := (P.epsPow t2)
    let t3 ← zFilter P z dt eps
    let z : List (Cx K) := t3.1
    let w : List K := t3.2
    let z ← PyMarg.mask z (List.map (fun x => decide (epsw ≤ x)) w)
    let w ← PyMarg.mask w (List.map (fun x => decide (epsw ≤ x)) w)
    pure (z, w))

/-- `control/margins.py:_poly_z_mag1_crossing` as the source text says it (sha256 of the function text
3fb966390bbf830a5add93442ff1d027966c2e80279d7e88c478376303c18be8); the statements before `np.roots` are `Generated.polyZMag1Crossing`, `np.roots` is `P.npRoots`. -/
def polyZMag1CrossingSel {K : Type} [Field K] [LinearOrder K] (P : PyMarg.Prims K) (num : List K) (den : List K) (num_inv_zp : List K) (den_inv_zq : List K) (p_q : Int) (dt : K) (epsw : K) :
    Except Err (List (Cx K) × List K) :=
  (do
    let t1 ← polyZMag1Crossing num den num_inv_zp den_inv_zq p_q
    let z : List (Cx K) := (P.npRoots t1.1)
    let t2 ← PyArith.div (1 : K) ((((List.length t1.2 : Nat) : Int) : Int) : K)
    let eps : K := (P.epsPow t2)
    let t3 ← zFilter P z dt eps
    let z : List (Cx K) := t3.1
    let w : List K := t3.2
    let z ← PyMarg.mask z (List.map (fun x => decide (epsw < x)) w)
    let w ← PyMarg.mask w (List.map (fun x => decide (epsw < x)) w)
    pure (z, w))

end CtrlVerif.Generated
