-- GENERATED on every run by harness/core/py2lean_nyq.py from control/ctrlutil.py:unwrap (sha256 dfad8416d8c09b8af769f2cf7762c168bd7ad2e4e77ad8fc79e582fdeadf345a).  Do not edit.
import CtrlVerif.Model.PyNyq

namespace CtrlVerif.Generated

open CtrlVerif

/-- default value of `period` in `control/ctrlutil.py:unwrap`: `2 * math.pi` (`math.pi` = `np.pi` is the parameter `pi`). -/
def unwrapDefaultPeriod {K : Type} [Field K] [LinearOrder K] [IsStrictOrderedRing K] [FloorRing K] (pi : K) : K := ((2 : K) * pi)

/-- `control/ctrlutil.py:unwrap` as the source text says it (sha256 of the function text
dfad8416d8c09b8af769f2cf7762c168bd7ad2e4e77ad8fc79e582fdeadf345a). -/
def unwrap {K : Type} [Field K] [LinearOrder K] [IsStrictOrderedRing K] [FloorRing K] (angle : List K) (period : K) :
    Except Err (List K) :=
  (do
    let angle : List K := (PyNyq.arrayCopy angle)
    let dangle : List K := (PyNyq.diff angle)
    let t1 ← PyNyq.modS (List.map (fun x => x + (period / (2 : K))) dangle) period
    let dangle_desired : List K := (List.map (fun x => x - (period / (2 : K))) t1)
    let t2 ← PyNyq.zipB (fun x y => x - y) dangle_desired dangle
    let correction : List K := (PyNyq.cumsum t2)
    let angle ← PyNyq.iaddFrom 1 angle correction
    pure angle)

end CtrlVerif.Generated
