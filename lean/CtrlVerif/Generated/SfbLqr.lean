-- GENERATED on every run by harness/core/py2lean_sfb.py from control/statefbk.py (dlqr c6f6802f9c243297, lqr aa385dc0c542e89c).  Do not edit.
import CtrlVerif.Model.PySfb

namespace CtrlVerif.Generated

open CtrlVerif

noncomputable section

variable {K : Type} [Field K] [DecidableEq K]

/-- `control/statefbk.py:dlqr` as the source text says it (sha256 of the function text
c6f6802f9c2432973b16639185792fa507d8edc8117073f4d9463a604a181382).
One arm per kind of `args[0]` (none, StateSpace, other LTI, array-like) and of `integral_action`. -/
def sfDlqr {ε : Type} (care dare : PySfb.RicFn K ε) (args : List (PySfb.Arg K)) (kw : PySfb.Kw K) : Except Err (PMat K × PMat K × ε) :=
  match args with
  | [] => (do
      if ((0 : Int) < (3 : Int)) then
        throw Err.badArg
      else
        throw Err.indexRange)
  | (.ss a0) :: _ => (do
      if (args.length < (3 : Nat)) then
        throw Err.badArg
      else
        if (DtPred.isctime true a0.dt = true) then
          throw Err.badArg
        else
          let A : PMat K := (PySS.A a0)
          let B : PMat K := (PySS.B a0)
          let index : Int := (1 : Int)
          let t1 ← PySfb.argAt args 1
          let Q ← PySfb.Arg.toArray t1
          let t2 ← PySfb.argAt args 2
          let R ← PySfb.Arg.toArray t2
          let N ← (do
            if (args.length > (3 : Nat)) then
              let t3 ← PySfb.argAt args 3
              let N ← PySfb.Arg.toArray t3
              pure N
            else
              let N : PMat K := (PMat.zeros Q.r R.c)
              pure N
            : Except Err (PMat K))
          let integral_action : Option (PySfb.KwVal K) := kw.integralAction
          match integral_action with
          | none => (do
              if (PySfb.Kw.rest kw true true = true) then
                throw Err.badArg
              else
                let t4 ← dare A B Q R (some N)
                let S : PMat K := t4.1
                let E : ε := t4.2.1
                let K_v : PMat K := t4.2.2
                pure (K_v, S, E))
          | some (.arr integral_action) => (do
              let nstates : Nat := A.r
              let ninputs : Nat := B.c
              if (integral_action.c ≠ nstates) then
                throw Err.badArg
              else
                let nintegrators : Nat := integral_action.r
                let C : PMat K := integral_action
                let A ← PMat.block [[A, (PMat.zeros nstates nintegrators)], [C, (PMat.eye nintegrators)]]
                let B ← PMat.vcat B (PMat.zeros nintegrators ninputs)
                if (PySfb.Kw.rest kw true true = true) then
                  throw Err.badArg
                else
                  let t4 ← dare A B Q R (some N)
                  let S : PMat K := t4.1
                  let E : ε := t4.2.1
                  let K_v : PMat K := t4.2.2
                  pure (K_v, S, E))
          | some .notArray => (do
              let nstates : Nat := A.r
              let ninputs : Nat := B.c
              throw Err.badArg))
  | (.lti a0) :: _ => (do
      if (args.length < (3 : Nat)) then
        throw Err.badArg
      else
        if (DtPred.isctime true a0 = true) then
          throw Err.badArg
        else
          throw Err.badArg)
  | (.arr a0) :: _ => (do
      if (args.length < (3 : Nat)) then
        throw Err.badArg
      else
        let A : PMat K := a0
        let t1 ← PySfb.argAt args 1
        let B ← PySfb.Arg.toArray t1
        let index : Int := (2 : Int)
        let t2 ← PySfb.argAt args 2
        let Q ← PySfb.Arg.toArray t2
        let t3 ← PySfb.argAt args 3
        let R ← PySfb.Arg.toArray t3
        let N ← (do
          if (args.length > (4 : Nat)) then
            let t4 ← PySfb.argAt args 4
            let N ← PySfb.Arg.toArray t4
            pure N
          else
            let N : PMat K := (PMat.zeros Q.r R.c)
            pure N
          : Except Err (PMat K))
        let integral_action : Option (PySfb.KwVal K) := kw.integralAction
        match integral_action with
        | none => (do
            if (PySfb.Kw.rest kw true true = true) then
              throw Err.badArg
            else
              let t5 ← dare A B Q R (some N)
              let S : PMat K := t5.1
              let E : ε := t5.2.1
              let K_v : PMat K := t5.2.2
              pure (K_v, S, E))
        | some (.arr integral_action) => (do
            let nstates : Nat := A.r
            let ninputs : Nat := B.c
            if (integral_action.c ≠ nstates) then
              throw Err.badArg
            else
              let nintegrators : Nat := integral_action.r
              let C : PMat K := integral_action
              let A ← PMat.block [[A, (PMat.zeros nstates nintegrators)], [C, (PMat.eye nintegrators)]]
              let B ← PMat.vcat B (PMat.zeros nintegrators ninputs)
              if (PySfb.Kw.rest kw true true = true) then
                throw Err.badArg
              else
                let t5 ← dare A B Q R (some N)
                let S : PMat K := t5.1
                let E : ε := t5.2.1
                let K_v : PMat K := t5.2.2
                pure (K_v, S, E))
        | some .notArray => (do
            let nstates : Nat := A.r
            let ninputs : Nat := B.c
            throw Err.badArg))

/-- `control/statefbk.py:lqr` as the source text says it (sha256 of the function text
aa385dc0c542e89c1b955029dacc5243f36dfa30a150ec663fa0df7c7037ad28).
One arm per kind of `args[0]` (none, StateSpace, other LTI, array-like) and of `integral_action`. -/
def sfLqr {ε : Type} (care dare : PySfb.RicFn K ε) (args : List (PySfb.Arg K)) (kw : PySfb.Kw K) : Except Err (PMat K × PMat K × ε) :=
  match args with
  | [] => (do
      throw Err.indexRange)
  | (.ss a0) :: _ => (do
      if (DtPred.isdtime true a0.dt = true) then
        sfDlqr care dare args kw
      else
        if (args.length < (3 : Nat)) then
          throw Err.badArg
        else
          let A : PMat K := (PySS.A a0)
          let B : PMat K := (PySS.B a0)
          let index : Int := (1 : Int)
          let t2 ← PySfb.argAt args 1
          let Q ← PySfb.Arg.toArray t2
          let t3 ← PySfb.argAt args 2
          let R ← PySfb.Arg.toArray t3
          let N ← (do
            if (args.length > (3 : Nat)) then
              let t4 ← PySfb.argAt args 3
              let N ← PySfb.Arg.toArray t4
              pure (some N)
            else
              pure none
            : Except Err (Option (PMat K)))
          let integral_action : Option (PySfb.KwVal K) := kw.integralAction
          match integral_action with
          | none => (do
              if (PySfb.Kw.rest kw true true = true) then
                throw Err.badArg
              else
                let t5 ← care A B Q R N
                let X : PMat K := t5.1
                let L_v : ε := t5.2.1
                let G : PMat K := t5.2.2
                pure (G, X, L_v))
          | some (.arr integral_action) => (do
              let nstates : Nat := A.r
              let ninputs : Nat := B.c
              if (integral_action.c ≠ nstates) then
                throw Err.badArg
              else
                let nintegrators : Nat := integral_action.r
                let C : PMat K := integral_action
                let A ← PMat.block [[A, (PMat.zeros nstates nintegrators)], [C, (PMat.zeros nintegrators nintegrators)]]
                let B ← PMat.vcat B (PMat.zeros nintegrators ninputs)
                if (PySfb.Kw.rest kw true true = true) then
                  throw Err.badArg
                else
                  let t5 ← care A B Q R N
                  let X : PMat K := t5.1
                  let L_v : ε := t5.2.1
                  let G : PMat K := t5.2.2
                  pure (G, X, L_v))
          | some .notArray => (do
              let nstates : Nat := A.r
              let ninputs : Nat := B.c
              throw Err.badArg))
  | (.lti a0) :: _ => (do
      if (DtPred.isdtime true a0 = true) then
        sfDlqr care dare args kw
      else
        if (args.length < (3 : Nat)) then
          throw Err.badArg
        else
          throw Err.badArg)
  | (.arr a0) :: _ => (do
      if (args.length < (3 : Nat)) then
        throw Err.badArg
      else
        let A : PMat K := a0
        let t1 ← PySfb.argAt args 1
        let B ← PySfb.Arg.toArray t1
        let index : Int := (2 : Int)
        let t2 ← PySfb.argAt args 2
        let Q ← PySfb.Arg.toArray t2
        let t3 ← PySfb.argAt args 3
        let R ← PySfb.Arg.toArray t3
        let N ← (do
          if (args.length > (4 : Nat)) then
            let t4 ← PySfb.argAt args 4
            let N ← PySfb.Arg.toArray t4
            pure (some N)
          else
            pure none
          : Except Err (Option (PMat K)))
        let integral_action : Option (PySfb.KwVal K) := kw.integralAction
        match integral_action with
        | none => (do
            if (PySfb.Kw.rest kw true true = true) then
              throw Err.badArg
            else
              let t5 ← care A B Q R N
              let X : PMat K := t5.1
              let L_v : ε := t5.2.1
              let G : PMat K := t5.2.2
              pure (G, X, L_v))
        | some (.arr integral_action) => (do
            let nstates : Nat := A.r
            let ninputs : Nat := B.c
            if (integral_action.c ≠ nstates) then
              throw Err.badArg
            else
              let nintegrators : Nat := integral_action.r
              let C : PMat K := integral_action
              let A ← PMat.block [[A, (PMat.zeros nstates nintegrators)], [C, (PMat.zeros nintegrators nintegrators)]]
              let B ← PMat.vcat B (PMat.zeros nintegrators ninputs)
              if (PySfb.Kw.rest kw true true = true) then
                throw Err.badArg
              else
                let t5 ← care A B Q R N
                let X : PMat K := t5.1
                let L_v : ε := t5.2.1
                let G : PMat K := t5.2.2
                pure (G, X, L_v))
        | some .notArray => (do
            let nstates : Nat := A.r
            let ninputs : Nat := B.c
            throw Err.badArg))

end

end CtrlVerif.Generated
