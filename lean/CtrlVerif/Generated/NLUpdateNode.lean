-- GENERATED on every run by harness/core/py2lean_nl.py from control/nlsys.py (nlUpdateNode 230b7f2caf5f5ecd).  Do not edit.
import CtrlVerif.Model.PyNL

namespace CtrlVerif.Generated

open CtrlVerif

variable {κ ν : Type}

/-- block `nlUpdateNode` of `control/nlsys.py` as the source text says it (sha256 of the text of the translated
statements 230b7f2caf5f5ecd468f6be513cf1a1a83c377701926acecc2f3a15c8d5798cb).
  note: a subsystem is given by its `params`; returns the dictionaries handed to `sub._update_params`, in order -/
def nlUpdateNode (self_params : PyNL.Dict κ ν) (sub_params : List (PyNL.Dict κ ν)) (params : Option (PyNL.Dict κ ν)) :
    Except Err (List (PyNL.Dict κ ν)) :=
  do
    let calls : List (PyNL.Dict κ ν) := []
    let __calls__ ← List.foldlM (fun (__calls__ : List (PyNL.Dict κ ν)) (sys : PyNL.Dict κ ν) => (do
        let local_py : PyNL.Dict κ ν := sys
        let local_py : PyNL.Dict κ ν := PyNL.Dict.update local_py self_params
        let local_py ← (if PyNL.Dict.truthy params = true then (do
            let local_py : PyNL.Dict κ ν := PyNL.Dict.updateOpt local_py params
            pure local_py
            : Except Err (PyNL.Dict κ ν)) else (do
            pure local_py
            : Except Err (PyNL.Dict κ ν)))
        let __calls__ : List (PyNL.Dict κ ν) := __calls__ ++ [local_py]
        pure __calls__
        : Except Err (List (PyNL.Dict κ ν)))) calls sub_params
    pure __calls__

end CtrlVerif.Generated
