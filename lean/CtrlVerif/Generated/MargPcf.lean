-- GENERATED on every run by harness/core/py2lean_marg.py from control/margins.py:phase_crossover_frequencies (sha256 3c801b12d532cd29220318fd04310ffc8ea4276a61ceefd7322e50af50c9c7fb).  Do not edit.
import CtrlVerif.Model.PyMarg
import CtrlVerif.Generated.PolyZInvz
import CtrlVerif.Generated.MargIwSel
import CtrlVerif.Generated.MargZSel

namespace CtrlVerif.Generated

open CtrlVerif CtrlVerif.Margins

/-- `control/margins.py:phase_crossover_frequencies` as the source text says it (sha256 of the function
text 3c801b12d532cd29220318fd04310ffc8ea4276a61ceefd7322e50af50c9c7fb).
`tf` is the converted transfer function: `siso` is `issiso(tf)`, `polyIwSys` is `_poly_iw(tf)`,
`num0 den0 dt0` are `tf.num[0][0]`, `tf.den[0][0]`, `tf.dt` (read by `_poly_z_invz`); `ctime` is `sys.isctime()`,
`sysEval` is `sys(·, warn_infinite=False)`. -/
def phaseCrossoverFrequencies {K : Type} [Field K] [LinearOrder K] (P : PyMarg.Prims K) (sysEval : Cx K → Option (Cx K)) (siso : Bool) (ctime : Bool) (polyIwSys : (List K × List K) × (List K × List K)) (num0 : List K) (den0 : List K) (dt0 : K) :
    Except Err (List K × List (PyMarg.XF K)) :=
  (if (¬ (siso = true)) then
      (.error Err.notImplemented)
    else
      (do
        let t4 ← ((if (ctime = true) then
            (do
              let num_iw : (List K × List K) := polyIwSys.1
              let den_iw : (List K × List K) := polyIwSys.2
              let omega ← polyIwRealCrossingSel P num_iw den_iw (0 : K)
              let gains : List (PyMarg.XF K) := (List.map PyMarg.rreal (List.map sysEval (List.map Margins.jw omega)))
              pure (omega, gains))
          else
            (do
              let zargs ← polyZInvz num0 den0 dt0
              let t3 ← polyZRealCrossingSel P zargs.1 zargs.2.1 zargs.2.2.1 zargs.2.2.2.1 zargs.2.2.2.2.1 zargs.2.2.2.2.2 (0 : K)
              let z : List (Cx K) := t3.1
              let omega : List K := t3.2
              let gains : List (PyMarg.XF K) := (List.map PyMarg.rreal (List.map sysEval z))
              pure (omega, gains))) : Except Err (List K × List (PyMarg.XF K)))
        let omega : List K := t4.1
        let gains : List (PyMarg.XF K) := t4.2
        pure (omega, gains)))

end CtrlVerif.Generated
