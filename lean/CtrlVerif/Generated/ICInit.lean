-- GENERATED on every run by harness/core/py2lean_ic.py from control/nlsys.py (_parse_input_spec bcc85a69fcb6dce8, _parse_output_spec 8f32b03d9c947250, __init__ dcdf155de4323024).  Do not edit.
import CtrlVerif.Generated.ICParseSpec

namespace CtrlVerif.Generated

open CtrlVerif CtrlVerif.IC CtrlVerif.PyIC

variable {K : Type} [Field K] [DecidableEq K]

/-- `control/nlsys.py:InterconnectedSystem._parse_input_spec` as the source text says it (sha256 of the function text
bcc85a69fcb6dce8a9bd8e9c4ede81c2bd63904689aaa416aede46d7be22e1ec). `self` is given by the attributes the method reads. -/
def icParseInputSpec (self_syslist : List SysSig) (self_input_offset : List Int) (spec : Val K) :
    Except Err (List Int) :=
  do
    let (subsys_index, input_indices, gain) ← icParseSpec self_syslist spec "input" none
    if (decide (gain ≠ (1 : K))) then
      throw Err.badArg
    else
      pure ()
    let t2 ← input_indices.mapM fun (i : Int) => (do
        let t1 ← PyIC.seqGet self_input_offset subsys_index
        pure (t1 + i)
        : Except Err (Int))
    pure t2

/-- `control/nlsys.py:InterconnectedSystem._parse_output_spec` as the source text says it (sha256 of the function text
8f32b03d9c947250a52421f27bcbe6f1a852d843863e7b85451696b77063bec8). `self` is given by the attributes the method reads. -/
def icParseOutputSpec (self_syslist : List SysSig) (self_input_offset : List Int) (self_output_offset : List Int) (spec : Val K) :
    Except Err (List Int × K) :=
  do
    let (subsys_index, output_indices, gain, output_offset) ← PyIC.tryExcept
        (do
          let (subsys_index, output_indices, gain) ← icParseSpec self_syslist spec "output" none
          let output_offset ← PyIC.seqGet self_output_offset subsys_index
          pure (subsys_index, output_indices, gain, output_offset)
          : Except Err (Int × List Int × K × Int))
        PyIC.isValueError
        (do
          let (subsys_index, output_indices, gain) ← icParseSpec self_syslist spec "input or output" (some "input_index")
          let t2 ← PyIC.seqGet self_input_offset subsys_index
          let output_offset : Int := (((self_syslist.map fun (sys : SysSig) => sys.nout).sum : Int) + t2)
          pure (subsys_index, output_indices, gain, output_offset)
          : Except Err (Int × List Int × K × Int))
    pure ((output_indices.map fun (i : Int) => (output_offset + i)), gain)

/-- `control/nlsys.py:InterconnectedSystem.__init__` as the source text says it (sha256 of the function text
dcdf155de432302498ed7c66ce5c5cc5eff2b4b6a2903719d21420021d35fe04). The SLICE that computes the offsets and the three maps (see `InitSlice` in the translator); `inputs` / `outputs` are the values of the keywords of that name after `_process_iosys_keywords` (`None` when absent).  Returns `(connect_map, input_map, output_map)`.
  statements outside the slice (skipped): `from .statesp import _convert_to_statespace`; `from .xferfcn import TransferFunction`; `self.connection_type = connection_type`; `dt = kwargs.pop('dt', None)`; `self.syslist_index = {}`; `nstates, self.state_offset = (0, [])`; `sysobj_name_dct = {}`; `sysname_count_dct = {}`; `dt = common_timebase(dt, sys.dt)`; `self.state_offset.append(nstates)`; `nstates += sys.nstates`; `if sys in sysobj_name_dct:`; `if sys.name is not None and sys.name in sysname_count_dct:`; `if states is None:`; `if isinstance(states, list) and len(states) != nstates:`; `if params is None:`; `def updfcn(t, x, u, params):`; `def outfcn(t, x, u, params):`; `if self.connect_map[input_index, output_index] != 0:`; `if self.input_map[ulist_index, index] != 0:`; `if self.output_map[index, ylist_index] != 0:`
  note: `name, inputs, outputs, states, _ = _process_iosys_keywords(kwargs)`: `inputs` / `outputs` are the parameters of the generated function from here on
  note: `isinstance(sys, TransferFunction)` is False: transfer functions are outside the model (subsystems are given by their signal lists)
  note: the test `isinstance(sys, TransferFunction)` is False
  note: `sys.ninputs is None` is False: the value is a NAT
  note: `sys.noutputs is None` is False: the value is a NAT
  note: the test `sys.ninputs is None or sys.noutputs is None` is False
  note: `sys.nstates is None` is False: the value is a NAT
  note: the test `sys.nstates is None` is False
  note: `super().__init__(..., inputs=inputs, outputs=outputs, ...)` sets `self.ninputs` / `self.noutputs` (`PyIC.signalCount`) -/
def icInit (syslist : List SysSig) (connections : Val K) (inplist : Val K) (outlist : Val K) (inputs : Val K) (outputs : Val K) :
    Except Err (PMat K × PMat K × PMat K) :=
  do
    let inplist ← (do
      if ((!PyIC.isNone inplist) && (!(PyIC.isinstance inplist [.list]))) then
        let inplist : Val K := (Val.list [inplist])
        pure inplist
      else
        pure inplist
      : Except Err (Val K))
    let outlist ← (do
      if ((!PyIC.isNone outlist) && (!(PyIC.isinstance outlist [.list]))) then
        let outlist : Val K := (Val.list [outlist])
        pure outlist
      else
        pure outlist
      : Except Err (Val K))
    let self_syslist : List SysSig := syslist
    let ninputs : Int := (0 : Int)
    let self_input_offset : List Int := ([] : List Int)
    let noutputs : Int := (0 : Int)
    let self_output_offset : List Int := ([] : List Int)
    let (self_syslist, self_input_offset, self_output_offset, ninputs, noutputs) ← List.foldlM (fun (st : List SysSig × List Int × List Int × Int × Int) ((sysidx, sys) : Int × SysSig) => (do
        let (self_syslist, self_input_offset, self_output_offset, ninputs, noutputs) := st
        let self_input_offset : List Int := self_input_offset ++ [ninputs]
        let self_output_offset : List Int := self_output_offset ++ [noutputs]
        let ninputs : Int := (ninputs + (sys.nin : Int))
        let noutputs : Int := (noutputs + (sys.nout : Int))
        pure (self_syslist, self_input_offset, self_output_offset, ninputs, noutputs)
        : Except Err (List SysSig × List Int × List Int × Int × Int))) (self_syslist, self_input_offset, self_output_offset, ninputs, noutputs) (PyIC.enumerate self_syslist)
    let inputs ← (do
      if ((PyIC.isNone inputs) && (!PyIC.isNone inplist)) then
        let inputs ← PyIC.len inplist
        pure (Val.int inputs)
      else
        pure inputs
      : Except Err (Val K))
    let outputs ← (do
      if ((PyIC.isNone outputs) && (!PyIC.isNone outlist)) then
        let outputs ← PyIC.len outlist
        pure (Val.int outputs)
      else
        pure outputs
      : Except Err (Val K))
    let self_ninputs ← PyIC.signalCount inputs
    let self_noutputs ← PyIC.signalCount outputs
    let self_connect_map ← PMat.zerosI ninputs noutputs
    let t6 ← PyIC.iterOrEmpty connections
    let self_connect_map ← List.foldlM (fun (self_connect_map : PMat K) (connection : Val K) => (do
        let t7 ← PyIC.getItem connection (0 : Int)
        let input_indices ← icParseInputSpec self_syslist self_input_offset t7
        let t9 ← PyIC.dropFrom connection 1
        let t10 ← PyIC.iter t9
        let self_connect_map ← List.foldlM (fun (self_connect_map : PMat K) (output_spec : Val K) => (do
            let (output_indices, gain) ← icParseOutputSpec self_syslist self_input_offset self_output_offset output_spec
            if (decide (output_indices.length ≠ input_indices.length)) then
              throw Err.shape
            else
              pure ()
            let self_connect_map ← List.foldlM (fun (self_connect_map : PMat K) ((input_index, output_index) : Int × Int) => (do
                let self_connect_map ← PyIC.addAt self_connect_map input_index output_index gain
                pure self_connect_map
                : Except Err (PMat K))) self_connect_map (List.zip input_indices output_indices)
            pure self_connect_map
            : Except Err (PMat K))) self_connect_map t10
        pure self_connect_map
        : Except Err (PMat K))) self_connect_map t6
    let self_input_map ← PMat.zerosI ninputs (self_ninputs : Int)
    let t12 ← PyIC.iterOrEmpty inplist
    let self_input_map ← List.foldlM (fun (self_input_map : PMat K) ((index, inpspec) : Int × Val K) => (do
        let inpspec ← (do
          if (PyIC.isinstance inpspec [.int, .str, .tuple]) then
            let inpspec : Val K := (Val.list [inpspec])
            pure inpspec
          else
            pure inpspec
          : Except Err (Val K))
        if (!(PyIC.isinstance inpspec [.list])) then
          throw Err.badArg
        else
          pure ()
        let t13 ← PyIC.iter inpspec
        let self_input_map ← List.foldlM (fun (self_input_map : PMat K) (spec : Val K) => (do
            let ulist_indices ← icParseInputSpec self_syslist self_input_offset spec
            let self_input_map ← List.foldlM (fun (self_input_map : PMat K) ((j, ulist_index) : Int × Int) => (do
                let self_input_map ← PyIC.addAt self_input_map ulist_index (index + j) (1 : K)
                pure self_input_map
                : Except Err (PMat K))) self_input_map (PyIC.enumerate ulist_indices)
            pure self_input_map
            : Except Err (PMat K))) self_input_map t13
        pure self_input_map
        : Except Err (PMat K))) self_input_map (PyIC.enumerate t12)
    let self_output_map ← PMat.zerosI (self_noutputs : Int) (noutputs + ninputs)
    let t16 ← PyIC.iterOrEmpty outlist
    let self_output_map ← List.foldlM (fun (self_output_map : PMat K) ((index, outspec) : Int × Val K) => (do
        let outspec ← (do
          if (PyIC.isinstance outspec [.int, .str, .tuple]) then
            let outspec : Val K := (Val.list [outspec])
            pure outspec
          else
            pure outspec
          : Except Err (Val K))
        if (!(PyIC.isinstance outspec [.list])) then
          throw Err.badArg
        else
          pure ()
        let t17 ← PyIC.iter outspec
        let self_output_map ← List.foldlM (fun (self_output_map : PMat K) (spec : Val K) => (do
            let (ylist_indices, gain) ← icParseOutputSpec self_syslist self_input_offset self_output_offset spec
            let self_output_map ← List.foldlM (fun (self_output_map : PMat K) ((j, ylist_index) : Int × Int) => (do
                let self_output_map ← PyIC.addAt self_output_map (index + j) ylist_index gain
                pure self_output_map
                : Except Err (PMat K))) self_output_map (PyIC.enumerate ylist_indices)
            pure self_output_map
            : Except Err (PMat K))) self_output_map t17
        pure self_output_map
        : Except Err (PMat K))) self_output_map (PyIC.enumerate t16)
    pure (self_connect_map, self_input_map, self_output_map)

end CtrlVerif.Generated
