-- GENERATED on every run by harness/core/py2lean_minreal.py from control/xferfcn.py (minreal 26e2bdb4df1c2e32).  Do not edit.
import CtrlVerif.Model.PyMin

namespace CtrlVerif.Generated.Minreal

open CtrlVerif

variable {K R : Type} [Field K] [DecidableEq K] [Field R] [LinearOrder R] [DecidableEq R]

/-- loop `for z in zeros:` re-binding `newzeros`, `poles`. -/
def zLoop (X : PyMin.Ext K R) (tol : Option R) (sqrt_eps : R) :
    List K → List K × List K → Except Err (List K × List K)
  | [], (newzeros, poles) => pure (newzeros, poles)
  | z :: rest, (newzeros, poles) => do
    let t := PyMin.tolOr tol (1000 * max X.eps (X.abs z * sqrt_eps))
    let idx := PyMin.whereLt (poles.map fun p => X.abs (z - p)) t
    if idx.length ≠ 0 then do
      let t1 ← PyMin.getIdx0 idx
      let poles := PyMin.delete poles t1
      zLoop X tol sqrt_eps rest (newzeros, poles)
    else do
      let newzeros := newzeros ++ [z]
      zLoop X tol sqrt_eps rest (newzeros, poles)

/-- body of the `for i … for j` loop of `control/xferfcn.py:TransferFunction.minreal` for one entry, as the source text says it
(sha256 of the method text 26e2bdb4df1c2e328600503c39c776feccedd4643fde67bb9c5da36e7070381e). -/
def entryBody (X : PyMin.Ext K R) (tol : Option R) (sqrt_eps : R) (num_ij den_ij : List K) :
    Except Err (List K × List K) := do
  let newzeros : List K := []
  let zeros := X.roots num_ij
  let poles := X.roots den_ij
  let t1 ← PyMin.getItem0 num_ij
  let t2 ← PyMin.getItem0 den_ij
  let t3 ← PyMin.div t1 t2
  let gain := t3
  let (newzeros, poles) ← zLoop X tol sqrt_eps zeros (newzeros, poles)
  let num_ij' := scale gain (X.real (polyFromRoots newzeros))
  let den_ij' := X.real (polyFromRoots poles)
  pure (num_ij', den_ij')

end CtrlVerif.Generated.Minreal
