-- GENERATED on every run by harness/core/py2lean_arith.py from control/flatsys/bezier.py:BezierFamily.eval_deriv (sha256 a2b07f4d8ac7fa2a78f9bcc0b161c62f7de0d2d86c29ddb2c9146966059f7fc1).  Do not edit.
import CtrlVerif.Model.PyArith

namespace CtrlVerif.Generated

open CtrlVerif

/-- `control/flatsys/bezier.py:BezierFamily.eval_deriv` as the source text says it (sha256 of the function text
a2b07f4d8ac7fa2a78f9bcc0b161c62f7de0d2d86c29ddb2c9146966059f7fc1).
Defaults: var=None. -/
def bezierEvalDeriv {K : Type} [Field K] [LinearOrder K] (N : Int) (T : K) (i : Int) (k : Int) (t : K) :
    Except Err (K) :=
  (if (N ≤ i) then
      (.error Err.badArg)
    else
      (if (N ≤ k) then
          (pure ((0 : K) * t))
        else
          (do
            let n : Int := (N - 1)
            let u ← PyArith.div t T
            (if (k = 0) then
                (do
                  let t2 ← (PyArith.binom n i : Except Err K)
                  let t3 ← PyArith.pow u i
                  let t4 ← PyArith.pow ((1 : K) - u) (n - i)
                  pure ((t2 * t3) * t4))
              else
                (do
                  let t5 ← (PyArith.binom n i : Except Err K)
                  let t12 ← List.mapM (fun (j : Int) => ((do
                    let t6 ← PyArith.pow (-1 : K) (j - i)
                    let t7 ← (PyArith.binom (n - i) (j - i) : Except Err K)
                    let t8 ← PyArith.div ((t6 * t7) * (PyArith.factorial j : K)) (PyArith.factorial (j - k) : K)
                    let t9 ← PyArith.pow u (j - k)
                    let t10 ← PyArith.pow T k
                    let t11 ← PyArith.div (t8 * t9) t10
                    pure t11) : Except Err K)) (PyArith.range (max i k) (n + 1))
                  pure (t5 * (List.sum t12)))))))

end CtrlVerif.Generated
