-- GENERATED on every run by harness/core/py2lean_meq.py from control/mateqn.py (lyap 3226b8fe3322a698).  Do not edit.
import CtrlVerif.Model.PyMeq
import CtrlVerif.Generated.MatEqnCheck
import CtrlVerif.Generated.MatEqnMethod

namespace CtrlVerif.Generated

open CtrlVerif MatEqn

variable {K : Type} [Field K] [LinearOrder K] [DecidableEq K]

/-- `control/mateqn.py:lyap` as the source text says it (sha256 of the function text
3226b8fe3322a6985f3be86444d8ba5d423a9e62bf15fb77757e66b7206f015a).
Defaults: C=None, E=None, method=None.
  note: `sb03md` is None: Slycot is absent (module-level `try: from slycot import … except ImportError: … = None`) -/
def lyap (Sv : Solvers K) (A : DMat K) (Q : DMat K) (C : Option (DMat K)) (E : Option (DMat K)) (method : PyMeq.Method) : Except Err (PMat K) := do
  let method ← Generated.slycotOrScipy method
  if (method = PyMeq.Backend.slycot) then do
    throw Err.notImplemented
  else do
    let A : DMat K := (PyMeq.array2d A)
    let Q : DMat K := (PyMeq.array2d Q)
    let C ← (do
      match C with
      | some C => do
        let C : DMat K := (PyMeq.array2d C)
        pure (some C)
      | none => do
        pure none
      : Except Err (Option (DMat K)))
    let E ← (do
      match E with
      | some E => do
        let E : DMat K := (PyMeq.array2d E)
        pure (some E)
      | none => do
        pure none
      : Except Err (Option (DMat K)))
    let n : Nat := A.p
    let m : Nat := Q.p
    let _ ← Generated.checkShape A (n : Int) (n : Int) true false "A"
    match C, E with
    | none, none => do
      let _ ← Generated.checkShape Q (n : Int) (n : Int) true true "Q"
      PyMeq.solveContinuousLyapunov Sv (PyMeq.toP A) (PMat.neg (PyMeq.toP Q))
    | _, _ => do
      match C, E with
      | some C, none => do
        let _ ← Generated.checkShape Q (m : Int) (m : Int) true false "Q"
        let _ ← Generated.checkShape C (n : Int) (m : Int) false false "C"
        PyMeq.solveSylvester Sv (PyMeq.toP A) (PyMeq.toP Q) (PMat.neg (PyMeq.toP C))
      | _, _ => do
        match C, E with
        | none, some E => do
          let _ ← Generated.checkShape Q (n : Int) (n : Int) true true "Q"
          let _ ← Generated.checkShape E (n : Int) (n : Int) true false "E"
          throw Err.badArg
        | _, _ => do
          throw Err.badArg

end CtrlVerif.Generated
