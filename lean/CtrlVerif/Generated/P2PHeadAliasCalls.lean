-- GENERATED on every run by harness/core/py2lean_p2phead.py from control/flatsys/flatsys.py (p2pAliasCalls 3e78076acec316c5, sfoAliasCalls 419f6bf6a474b61f).  Do not edit.
import CtrlVerif.Model.PyP2PHead

namespace CtrlVerif.Generated

open CtrlVerif

/-- block `p2pAliasCalls` of `control/flatsys/flatsys.py:point_to_point` as the source text says it (sha256 of the text of the translated
statements 3e78076acec316c5c259b68db4766b9345afff1ab26b65f8e69c962c37bd46be). -/
def p2pAliasCalls :
    List (String × String × String × Option Int × Option Int) :=
  [("x0", "initial_state", "initial_state", (some 0), (some 0)),
   ("u0", "initial_input", "initial_input", (some 0), (some 0)),
   ("xf", "final_state", "final_state", (some 0), (some 0)),
   ("uf", "final_input", "final_input", (some 0), (some 0)),
   ("T0", "initial_time", "initial_time", (some 0), (some 0)),
   ("cost", "integral_cost", "integral_cost", none, none),
   ("trajectory_constraints", "trajectory_constraints", "trajectory_constraints", none, none)]

/-- block `sfoAliasCalls` of `control/flatsys/flatsys.py:solve_flat_optimal` as the source text says it (sha256 of the text of the translated
statements 419f6bf6a474b61fd4652e877396f19787bcd02f64ecfae1503c61762a448418). -/
def sfoAliasCalls :
    List (String × String × String × Option Int × Option Int) :=
  [("x0", "initial_state", "initial_state", (some 0), (some 0)),
   ("u0", "initial_input", "initial_input", (some 0), (some 0)),
   ("trajectory_cost", "integral_cost", "integral_cost", none, none),
   ("trajectory_constraints", "trajectory_constraints", "trajectory_constraints", none, none)]

end CtrlVerif.Generated
