-- GENERATED on every run by harness/core/py2lean_ic.py from control/nlsys.py (set_connect_map ae1385cd96e4e9d1, __add__ 2601ad3b3d595ebe, __radd__ 5dce64e74f6a9ef0, __sub__ 7b4efafe682faf60, __rsub__ acb4b733263cbd3f, __mul__ b1a30fff7f204a4f, __rmul__ b5acd2f404d26b7e, __neg__ 9c59b33a7c8fd765, feedback 677fad2118b44460).  Do not edit.
import CtrlVerif.Generated.ICInit

namespace CtrlVerif.Generated

open CtrlVerif CtrlVerif.IC CtrlVerif.PyIC

variable {K : Type} [Field K] [DecidableEq K]

/-- `control/nlsys.py:InterconnectedSystem.set_connect_map` as the source text says it (sha256 of the function text
ae1385cd96e4e9d1d6bb90a63c6746999e5ea13edb04181a147f9e74a26ad0ff). Returns the new value of `self.connect_map`.
  note: `if connect_map.shape != self.connect_map.shape: ValueError(...)` skipped (a warning / an exception object that is not raised has no effect on the result) -/
def icSetConnectMap (self_connect_map : PMat K) (connect_map : PMat K) :
    Except Err (PMat K) :=
  do
    let self_connect_map : PMat K := connect_map
    pure self_connect_map

/-- `control/nlsys.py:NonlinearIOSystem.__add__` as the source text says it (sha256 of the function text
2601ad3b3d595ebe413f6cc1f7fccf142cfa5f9f57291c4f9cdcbe5a4cb9f2cb).
  note: `_convert_to_iosystem(other)`: the operand is an I/O system already (numbers, arrays and StateSpace operands are outside the model)
  note: `isinstance(other, InputOutputSystem)` is True: the operand is an I/O system
  note: the test `not isinstance(other, InputOutputSystem)` is False -/
def icAdd (self : SysSig) (other : SysSig) :
    Except Err (PMat K × PMat K × PMat K) :=
  do
    let other : SysSig := other
    if ((decide (self.nin ≠ other.nin)) || (decide (self.nout ≠ other.nout))) then
      throw Err.shape
    else
      pure ()
    let inplist : List (Val K) := ((PyIC.rangeNat self.nin).map fun (i : Int) => (Val.list [(Val.tuple [(Val.int (0 : Int)), (Val.int i)]), (Val.tuple [(Val.int (1 : Int)), (Val.int i)])]))
    let outlist : List (Val K) := ((PyIC.rangeNat self.nout).map fun (i : Int) => (Val.list [(Val.tuple [(Val.int (0 : Int)), (Val.int i)]), (Val.tuple [(Val.int (1 : Int)), (Val.int i)])]))
    let newsys ← icInit [self, other] Val.none (Val.list inplist) (Val.list outlist) Val.none Val.none
    pure newsys

/-- `control/nlsys.py:NonlinearIOSystem.__radd__` as the source text says it (sha256 of the function text
5dce64e74f6a9ef0cd41f70645a7926d66871b397760731b4ac76653b7ad94f5).
  note: `_convert_to_iosystem(other)`: the operand is an I/O system already (numbers, arrays and StateSpace operands are outside the model)
  note: `isinstance(other, InputOutputSystem)` is True: the operand is an I/O system
  note: the test `not isinstance(other, InputOutputSystem)` is False -/
def icRadd (self : SysSig) (other : SysSig) :
    Except Err (PMat K × PMat K × PMat K) :=
  do
    let other : SysSig := other
    if ((decide (self.nin ≠ other.nin)) || (decide (self.nout ≠ other.nout))) then
      throw Err.shape
    else
      pure ()
    let inplist : List (Val K) := ((PyIC.rangeNat other.nin).map fun (i : Int) => (Val.list [(Val.tuple [(Val.int (0 : Int)), (Val.int i)]), (Val.tuple [(Val.int (1 : Int)), (Val.int i)])]))
    let outlist : List (Val K) := ((PyIC.rangeNat other.nout).map fun (i : Int) => (Val.list [(Val.tuple [(Val.int (0 : Int)), (Val.int i)]), (Val.tuple [(Val.int (1 : Int)), (Val.int i)])]))
    let newsys ← icInit [other, self] Val.none (Val.list inplist) (Val.list outlist) Val.none Val.none
    pure newsys

/-- `control/nlsys.py:NonlinearIOSystem.__sub__` as the source text says it (sha256 of the function text
7b4efafe682faf6015e1119c22e90b303c281289f6f93f5f77805c068e82b5fc).
  note: `_convert_to_iosystem(other)`: the operand is an I/O system already (numbers, arrays and StateSpace operands are outside the model)
  note: `isinstance(other, InputOutputSystem)` is True: the operand is an I/O system
  note: the test `not isinstance(other, InputOutputSystem)` is False -/
def icSub (self : SysSig) (other : SysSig) :
    Except Err (PMat K × PMat K × PMat K) :=
  do
    let other : SysSig := other
    if ((decide (self.nin ≠ other.nin)) || (decide (self.nout ≠ other.nout))) then
      throw Err.shape
    else
      pure ()
    let ninputs : Nat := self.nin
    let noutputs : Nat := self.nout
    let inplist : List (Val K) := ((PyIC.rangeNat ninputs).map fun (i : Int) => (Val.list [(Val.tuple [(Val.int (0 : Int)), (Val.int i)]), (Val.tuple [(Val.int (1 : Int)), (Val.int i)])]))
    let outlist : List (Val K) := ((PyIC.rangeNat noutputs).map fun (i : Int) => (Val.list [(Val.tuple [(Val.int (0 : Int)), (Val.int i)]), (Val.tuple [(Val.int (1 : Int)), (Val.int i), (Val.int (-1 : Int))])]))
    let newsys ← icInit [self, other] Val.none (Val.list inplist) (Val.list outlist) Val.none Val.none
    pure newsys

/-- `control/nlsys.py:NonlinearIOSystem.__rsub__` as the source text says it (sha256 of the function text
acb4b733263cbd3fc897818cc308ca3ac019c33c5eb9bbe5a216efb9ab130640).
  note: `_convert_to_iosystem(other)`: the operand is an I/O system already (numbers, arrays and StateSpace operands are outside the model)
  note: `isinstance(other, InputOutputSystem)` is True: the operand is an I/O system
  note: the test `not isinstance(other, InputOutputSystem)` is False -/
def icRsub (self : SysSig) (other : SysSig) :
    Except Err (PMat K × PMat K × PMat K) :=
  do
    let other : SysSig := other
    let t1 ← icSub other self
    pure t1

/-- `control/nlsys.py:NonlinearIOSystem.__mul__` as the source text says it (sha256 of the function text
b1a30fff7f204a4f685a91b3d84c6696d23f9652c379c569b881cbf9dee7a55e).
  note: `_convert_to_iosystem(other)`: the operand is an I/O system already (numbers, arrays and StateSpace operands are outside the model)
  note: `isinstance(other, InputOutputSystem)` is True: the operand is an I/O system
  note: the test `not isinstance(other, InputOutputSystem)` is False
  note: `common_timebase(other.dt, self.dt)`: timebases are outside the model (C05) -/
def icMul (self : SysSig) (other : SysSig) :
    Except Err (PMat K × PMat K × PMat K) :=
  do
    let other : SysSig := other
    if (decide (other.nout ≠ self.nin)) then
      throw Err.shape
    else
      pure ()
    let inplist : List (Val K) := ((PyIC.rangeNat other.nin).map fun (i : Int) => (Val.tuple [(Val.int (0 : Int)), (Val.int i)]))
    let outlist : List (Val K) := ((PyIC.rangeNat self.nout).map fun (i : Int) => (Val.tuple [(Val.int (1 : Int)), (Val.int i)]))
    let newsys ← icInit [other, self] Val.none (Val.list inplist) (Val.list outlist) Val.none Val.none
    let t2 ← PMat.block [[(PMat.zeros other.nin other.nout), (PMat.zeros other.nin self.nout)], [(PyIC.eyeRect self.nin other.nout), (PMat.zeros self.nin self.nout)]]
    let t3 ← icSetConnectMap newsys.1 t2
    let newsys : PMat K × PMat K × PMat K := (t3, newsys.2.1, newsys.2.2)
    pure newsys

/-- `control/nlsys.py:NonlinearIOSystem.__rmul__` as the source text says it (sha256 of the function text
b5acd2f404d26b7e7b3f493cc5fa32f2caf14d3c9f792a5926afa1d2cd68f0f9).
  note: `_convert_to_iosystem(other)`: the operand is an I/O system already (numbers, arrays and StateSpace operands are outside the model)
  note: `isinstance(other, InputOutputSystem)` is True: the operand is an I/O system
  note: the test `not isinstance(other, InputOutputSystem)` is False
  note: `common_timebase(self.dt, other.dt)`: timebases are outside the model (C05) -/
def icRmul (self : SysSig) (other : SysSig) :
    Except Err (PMat K × PMat K × PMat K) :=
  do
    let other : SysSig := other
    if (decide (self.nout ≠ other.nin)) then
      throw Err.shape
    else
      pure ()
    let inplist : List (Val K) := ((PyIC.rangeNat self.nin).map fun (i : Int) => (Val.tuple [(Val.int (0 : Int)), (Val.int i)]))
    let outlist : List (Val K) := ((PyIC.rangeNat other.nout).map fun (i : Int) => (Val.tuple [(Val.int (1 : Int)), (Val.int i)]))
    let newsys ← icInit [self, other] Val.none (Val.list inplist) (Val.list outlist) Val.none Val.none
    let t2 ← PMat.block [[(PMat.zeros self.nin self.nout), (PMat.zeros self.nin other.nout)], [(PyIC.eyeRect other.nin self.nout), (PMat.zeros other.nin other.nout)]]
    let t3 ← icSetConnectMap newsys.1 t2
    let newsys : PMat K × PMat K × PMat K := (t3, newsys.2.1, newsys.2.2)
    pure newsys

/-- `control/nlsys.py:NonlinearIOSystem.__neg__` as the source text says it (sha256 of the function text
9c59b33a7c8fd765bba8ebbaab3d3e02128df638eda819d872e1ced07e7c7279).
  note: `self.ninputs is None` is False: the value is a NAT
  note: `self.noutputs is None` is False: the value is a NAT
  note: the test `self.ninputs is None or self.noutputs is None` is False
  note: keyword(s) dt of InterconnectedSystem(...) ignored (outside the model) -/
def icNeg (self : SysSig) :
    Except Err (PMat K × PMat K × PMat K) :=
  do
    let inplist : List (Val K) := ((PyIC.rangeNat self.nin).map fun (i : Int) => (Val.tuple [(Val.int (0 : Int)), (Val.int i)]))
    let outlist : List (Val K) := ((PyIC.rangeNat self.nout).map fun (i : Int) => (Val.tuple [(Val.int (0 : Int)), (Val.int i), (Val.int (-1 : Int))]))
    let newsys ← icInit [self] Val.none (Val.list inplist) (Val.list outlist) Val.none Val.none
    pure newsys

/-- `control/nlsys.py:NonlinearIOSystem.feedback` as the source text says it (sha256 of the function text
677fad2118b44460925d92b1be6edeebe2aab7b8285695e13d8096e8035a9bd8). `other` is an I/O system (its default `1` is outside the model), `params` is not modelled.
  note: `_convert_to_iosystem(other)`: the operand is an I/O system already (numbers, arrays and StateSpace operands are outside the model)
  note: `common_timebase(self.dt, other.dt)`: timebases are outside the model (C05)
  note: keyword(s) dt, params of InterconnectedSystem(...) ignored (outside the model) -/
def icFeedback (self : SysSig) (other : SysSig) (sign : K) :
    Except Err (PMat K × PMat K × PMat K) :=
  do
    let other : SysSig := other
    if ((decide (self.nout ≠ other.nin)) || (decide (other.nout ≠ self.nin))) then
      throw Err.shape
    else
      pure ()
    let inplist : List (Val K) := ((PyIC.rangeNat self.nin).map fun (i : Int) => (Val.tuple [(Val.int (0 : Int)), (Val.int i)]))
    let outlist : List (Val K) := ((PyIC.rangeNat self.nout).map fun (i : Int) => (Val.tuple [(Val.int (0 : Int)), (Val.int i)]))
    let newsys ← icInit [self, other] Val.none (Val.list inplist) (Val.list outlist) Val.none Val.none
    let t2 ← PMat.block [[(PMat.zeros self.nin self.nout), (PMat.smul sign (PyIC.eyeRect self.nin other.nout))], [(PyIC.eyeRect other.nin self.nout), (PMat.zeros other.nin other.nout)]]
    let t3 ← icSetConnectMap newsys.1 t2
    let newsys : PMat K × PMat K × PMat K := (t3, newsys.2.1, newsys.2.2)
    pure newsys

end CtrlVerif.Generated
