-- GENERATED on every run by harness/core/py2lean_nyq.py from control/freqplot.py:nyquist_response (P, Z, consistency test) (sha256 f54962220ad13e20e6c915629f6b2bf585f68c8adf56d9d58bdb69fa9cb68f27).  Do not edit.
import CtrlVerif.Model.PyNyq

namespace CtrlVerif.Generated

open CtrlVerif

/-- the statement of `control/freqplot.py:nyquist_response` that counts `P` and `Z` (the unique
`if sys.isctime():` binding exactly two names; sha256 of its text and of the test below
f54962220ad13e20e6c915629f6b2bf585f68c8adf56d9d58bdb69fa9cb68f27).
`ctime` is `sys.isctime()`, `poles` is `sys.poles()`, `clpoles` is `sys.feedback().poles()`, `dir` is `indent_direction`;
the result is the pair (P, Z). -/
def nyquistPZ {K : Type} [Field K] [LinearOrder K] [IsStrictOrderedRing K] [FloorRing K] (ctime : Bool) (dir : String)
    (poles clpoles : List (K × K)) : Except Err (Int × Int) :=
  (do
    let t3 ← ((if (ctime = true) then
        (do
          let t1 ← ((if (dir = "right") then
              (do
                let P : Int := (PyNyq.countTrue (PyNyq.gtS (PyNyq.real poles) (0 : K)))
                pure (P))
            else
              (do
                let P : Int := (PyNyq.countTrue (PyNyq.geS (PyNyq.real poles) (0 : K)))
                pure (P))) : Except Err (Int))
          let P : Int := t1
          let Z : Int := (PyNyq.countTrue (PyNyq.geS (PyNyq.real clpoles) (0 : K)))
          pure (P, Z))
      else
        (do
          let t2 ← ((if (dir = "right") then
              (do
                let P : Int := (PyNyq.countTrue (PyNyq.absGtS poles (1 : K)))
                pure (P))
            else
              (do
                let P : Int := (PyNyq.countTrue (PyNyq.absGeS poles (1 : K)))
                pure (P))) : Except Err (Int))
          let P : Int := t2
          let Z : Int := (PyNyq.countTrue (PyNyq.absGeS clpoles (1 : K)))
          pure (P, Z))) : Except Err (Int × Int))
    let P : Int := t3.1
    let Z : Int := t3.2
    pure (P, Z))

/-- the test of the unique `if` that reads `P`, `Z` and `count` (the consistency warning):
`Z != count + P and warn_encirclements`, with `warn` for `warn_encirclements`. -/
def nyquistCriterionWarn (Z count P : Int) (warn : Bool) : Bool :=
  decide ((Z ≠ (count + P)) ∧ (warn = true))

end CtrlVerif.Generated
