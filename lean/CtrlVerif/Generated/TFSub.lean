-- GENERATED on every run by harness/core/py2lean_tf.py from control/xferfcn.py (__radd__ 74046bb9592b89cf0b86fc1389fc79c0231bc83ea0374ff87697106d89010726; __sub__ 9678efdc9b647b6664c1232b24264e355f54fb18e37000a531b12d6fc19fec31; __rsub__ f085b074028a3a62d1c1da1ffc3e5e25e92ef9ee215a605ef9b268e7068237fc).  Do not edit.
import CtrlVerif.Model.PyTF
import CtrlVerif.Generated.TFAdd
import CtrlVerif.Generated.TFNeg

namespace CtrlVerif.Generated.TF

open CtrlVerif

/-- `control/xferfcn.py:TransferFunction.__radd__` as the source text says it (sha256 of the function text
74046bb9592b89cf0b86fc1389fc79c0231bc83ea0374ff87697106d89010726).
Defaults: none. -/
def radd {K : Type} [Field K] [DecidableEq K] (self : DTF K) (other : PyTF.Operand K) :
    Except Err (DTF K) :=
  Generated.TF.add self other

/-- `control/xferfcn.py:TransferFunction.__sub__` as the source text says it (sha256 of the function text
9678efdc9b647b6664c1232b24264e355f54fb18e37000a531b12d6fc19fec31).
Defaults: none. -/
def sub {K : Type} [Field K] [DecidableEq K] (self : DTF K) (other : PyTF.Operand K) :
    Except Err (DTF K) :=
  (do
    let t1 ← PyTF.negOperand Generated.TF.neg other
    Generated.TF.add self t1)

/-- `control/xferfcn.py:TransferFunction.__rsub__` as the source text says it (sha256 of the function text
f085b074028a3a62d1c1da1ffc3e5e25e92ef9ee215a605ef9b268e7068237fc).
Defaults: none. -/
def rsub {K : Type} [Field K] [DecidableEq K] (self : DTF K) (other : PyTF.Operand K) :
    Except Err (DTF K) :=
  (do
    let t1 ← Generated.TF.neg self
    PyTF.addLeft Generated.TF.add Generated.TF.radd other t1)

end CtrlVerif.Generated.TF
