-- GENERATED on every run by harness/core/py2lean_select.py from the source text in /repo (sha256 of each function below).  Do not edit.
import CtrlVerif.Model.PyVal

namespace CtrlVerif.Generated

open CtrlVerif

/-- `_process_subsys_index` (control/iosys.py, sha256 5df97ef19a4b6cab) as the source text says it. Returns `(idx, labels)`.
-/
def processSubsysIndex (idx : PyVal) (sys_labels : PyVal) (slice_to_list : Bool) : Except Err (PyVal × PyVal) := do
  let mut idx := idx
  if (!(Py.isinstance idx [.slice, .list, .int])) then
    throw Err.badArg
  if (← (do if Py.isinstance idx [.list, .tuple] then pure (decide ((← Py.len idx) = (1 : Int))) else pure false)) then
    idx := (← Py.getitem idx (PyVal.int (0 : Int)))
  if Py.isinstance idx [.int] then
    if (← (do if decide ((← Py.toInt idx) < (-(← Py.len sys_labels))) then pure true else pure (decide ((← Py.toInt idx) ≥ (← Py.len sys_labels))))) then
      throw Err.indexRange
    if decide ((← Py.toInt idx) < (0 : Int)) then
      idx := PyVal.int ((← Py.toInt idx) + (← Py.len sys_labels))
    idx := (← Py.mkSlice idx (PyVal.int ((← Py.toInt idx) + (1 : Int))) (PyVal.int (1 : Int)))
  let mut labels := (← (do if Py.isinstance idx [.list] then pure (PyVal.list (← (← Py.iter idx).mapM (fun i => (do pure (← Py.getitem sys_labels i) : Except Err PyVal)))) else pure (← Py.getitem sys_labels idx)))
  if (slice_to_list && (Py.isinstance idx [.slice])) then
    idx := (← Py.getitem (Py.range1 (← Py.len sys_labels)) idx)
  return (idx, labels)

/-- `NamedSignal._parse_key` (control/iosys.py, sha256 fee508c0242b9c4a) as the source text says it. `self` is given by the three attributes the method reads.
  note: `item := …` only feeds an error message: the binding is dropped
  note: try/except ValueError, ControlIndexError: the handlers re-raise with another message (same Err kind, checked)
-/
def parseKey (fuel : Nat) (signal_labels : PyVal) (trace_labels : PyVal) (data_shape : PyVal) (key : PyVal) (labels : PyVal) (level : Int) : Except Err PyVal :=
  match fuel with
  | 0 => throw Err.notImplemented
  | fuel + 1 => do
    let mut key := key
    let mut labels := labels
    if Py.isNone labels then
      labels := signal_labels
    if Py.isinstance key [.str] then
      key := PyVal.int (← Py.indexStr labels key)
      if (← (do if decide (level = (0 : Int)) then pure (decide ((← Py.len data_shape) < (2 : Int))) else pure false)) then
        return PyVal.tuple []
    else
      if Py.isinstance key [.list] then
        let mut keylist := PyVal.list []
        keylist := (← Py.extend keylist (← (← Py.iter key).mapM (fun item => (do pure (← parseKey fuel signal_labels trace_labels data_shape item labels (level + (1 : Int))) : Except Err PyVal))))
        if (← (do if decide (level = (0 : Int)) then pure (← (do if (← Py.ne key keylist) then pure (decide ((← Py.len data_shape) < (2 : Int))) else pure false)) else pure false)) then
          throw Err.indexRange
        key := keylist
      else
        if (← (do if Py.isinstance key [.tuple] then pure (decide ((← Py.len key) > (0 : Int))) else pure false)) then
          let mut keylist := PyVal.list []
          keylist := (← Py.append keylist (← parseKey fuel signal_labels trace_labels data_shape (← Py.getitem key (PyVal.int (0 : Int))) signal_labels (level + (1 : Int))))
          if decide ((← Py.len key) > (1 : Int)) then
            keylist := (← Py.append keylist (← parseKey fuel signal_labels trace_labels data_shape (← Py.getitem key (PyVal.int (1 : Int))) trace_labels (level + (1 : Int))))
          if (← (do if decide (level = (0 : Int)) then pure (← (do if (← Py.ne (← Py.getitem key (← Py.mkSlice PyVal.none (PyVal.int (← Py.len keylist)) PyVal.none)) (← Py.tupleOf keylist)) then pure (decide ((← Py.len keylist) > ((← Py.len data_shape) - (1 : Int)))) else pure false)) else pure false)) then
            throw Err.indexRange
          for i in Py.rangeInts (2 : Int) (← Py.len key) do
            keylist := (← Py.append keylist (← Py.getitem key (PyVal.int i)))
          key := (← Py.tupleOf keylist)
    return key

end CtrlVerif.Generated
