-- GENERATED on every run by harness/core/py2lean_nl.py from control/nlsys.py (nlRootfun e841c5e999513284).  Do not edit.
import CtrlVerif.Model.PyNL

namespace CtrlVerif.Generated

open CtrlVerif

variable {K : Type} [Field K] [DecidableEq K]

/-- block `nlRootfun` of `control/nlsys.py` as the source text says it (sha256 of the text of the translated
statements e841c5e99951328446c231011462d2a5ee7e2e82415eda5deb1462ea9ac77f98).
  note: the arrays the root function writes into (closure state) are parameters; every call overwrites the same entries
  note: `sys.isdtime(strict=True)` is the parameter `disc` -/
def nlRootfun (rhs out : K → List K → List K → Except Err (List K)) (t : K) (disc : Bool) (y0 : Option (List K))
    (state_vars input_vars output_vars deriv_vars : List Int) (x u dx0 : List K) (nstate_vars : Int) (z : List K) :
    Except Err (List K) :=
  do
    let x ← PyNL.scatter x state_vars (PyNL.sliceTo z nstate_vars)
    let u ← PyNL.scatter u input_vars (PyNL.sliceFrom z nstate_vars)
    let t1 ← rhs t x u
    let t2 ← PyNL.vsub t1 dx0
    let dx : List K := t2
    let dx ← (if disc = true then (do
        let t3 ← PyNL.vsub dx x
        let dx : List K := t3
        pure dx
        : Except Err (List K)) else (do
        pure dx
        : Except Err (List K)))
    match y0 with
    | some y0 => do
      let t4 ← out t x u
      let t5 ← PyNL.vsub t4 y0
      let dy : List K := t5
      let t6 ← PyNL.gather dx deriv_vars
      let t7 ← PyNL.gather dy output_vars
      pure (t6 ++ t7)
    | none => do
      let t8 ← PyNL.gather dx deriv_vars
      pure t8

end CtrlVerif.Generated
