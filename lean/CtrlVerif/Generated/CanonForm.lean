-- GENERATED on every run by harness/core/py2lean_canon.py from control/canonical.py (canonical_form 8979bd42a88bf2e5).  Do not edit.
import CtrlVerif.Model.PyCanon
import CtrlVerif.Generated.CanonReachable
import CtrlVerif.Generated.CanonObservable

namespace CtrlVerif.Generated

open CtrlVerif

noncomputable section

variable {K : Type} [Field K] [DecidableEq K]

/-- `control/canonical.py:canonical_form` as the source text says it (sha256 of the function text
8979bd42a88bf2e5cb82975d4236bf143682f1c491b71b423fe11c5c5722751d).
Defaults: form='reachable'. -/
def canonicalForm (modal_form : DSS K → Except Err (DSS K × PMat K)) (xsys : DSS K) (form : String) : Except Err (DSS K × PMat K) :=
  do
    if (form = "reachable") then
      reachableForm xsys
    else
      if (form = "observable") then
        observableForm xsys
      else
        if (form = "modal") then
          modal_form xsys
        else
          throw Err.notImplemented

end

end CtrlVerif.Generated
