-- GENERATED on every run by harness/core/py2lean_heads.py from control/margins.py:stability_margins (dispatch on sysdata) (sha256 9bd9dca484c4a29a5b0569cb7a74c9f8fbb345ec23942c33596ec08fcc982698).  Do not edit.
import CtrlVerif.Model.PyHeads

namespace CtrlVerif.Generated.Heads

open CtrlVerif CtrlVerif.Margins CtrlVerif.Generated

/-- the dispatch statement (`try: … except Exception …`) of `control/margins.py:stability_margins` as the
source text says it (sha256 of its text 9bd9dca484c4a29a5b0569cb7a74c9f8fbb345ec23942c33596ec08fcc982698): the value of `sys` and the caller's `sysdata` after it. -/
def smDispatch {K TF FRD Oth : Type} [Field K] [LinearOrder K] (E : PyHeads.Env K TF FRD Oth) (P : PyMarg.Prims K) (sysdata : PyHeads.SysData K TF FRD Oth) :
    Except Err (PyHeads.Sys TF FRD × PyHeads.SysData K TF FRD Oth) :=
  match sysdata with
  | .frd f0 =>
      PyHeads.tryExcept
        (do
          let sys : FRD := (E.frdCopy f0 true)
          pure (PyHeads.Sys.frd sys, (PyHeads.SysData.frd f0)))
        (.error Err.badArg)
  | .tf g0 =>
      PyHeads.tryExcept
        (do
          let sys : TF := g0
          pure (PyHeads.Sys.tf sys, (PyHeads.SysData.tf g0)))
        (.error Err.badArg)
  | .seq items0 =>
      PyHeads.tryExcept
        (if (List.length items0 = 3) then
            (do
              let t1 ← PyHeads.unpack3 items0
              let c0 : List K := t1.1
              let c1 : List K := t1.2.1
              let c2 : List K := t1.2.2
              let mag : List K := c0
              let phase : List K := c1
              let omega : List K := c2
              let t2 ← PyMarg.zipB PyHeads.rmulc mag (List.map P.expj (List.map (fun x => x / (180 : K)) (List.map (fun x => x * P.pi) phase)))
              let t3 ← E.frdOfData t2 omega true
              let sys : FRD := t3
              pure (PyHeads.Sys.frd sys, (PyHeads.SysData.seq [c0, c1, c2])))
        else
            (do
              let t4 ← E.convertSeq items0
              let sys : TF := t4
              pure (PyHeads.Sys.tf sys, (PyHeads.SysData.seq items0))))
        (.error Err.badArg)
  | .iterNoLen o0 =>
      PyHeads.tryExcept
        (.error Err.notImplemented)
        (.error Err.badArg)
  | .other o0 =>
      PyHeads.tryExcept
        (do
          let t5 ← E.convertOther o0
          let sys : TF := t5
          pure (PyHeads.Sys.tf sys, (PyHeads.SysData.other o0)))
        (.error Err.badArg)

end CtrlVerif.Generated.Heads
