-- GENERATED on every run by harness/core/py2lean_tr.py from control/timeresp.py:forced_response (frCont 35e9d98f2c3d3cbc).  Do not edit.
import CtrlVerif.Model.PyTR

namespace CtrlVerif.Generated

open CtrlVerif

variable {K : Type} [Field K] [DecidableEq K]

/-- block `frCont` of `control/timeresp.py:forced_response` as the source text says it (sha256 of the text of the translated
statements 35e9d98f2c3d3cbc3961638fccb54b031e73178ccd4cc2f1b6b18638ab004de4).
  note: the test `isctime(sys, strict=True)` is taken as True -/
def frCont (expm : SqFun K) (A B C D : PMat K) (dt : K) (n_steps : Nat) (T : List K) (X0 : PVec K) (U : PSig K) :
    Except Err (List K × PSig K × PSig K × PSig K) :=
  do
    let n_states : Nat := A.r
    let n_inputs : Nat := B.c
    let n_outputs : Nat := C.r
    let xout : PSig K := (PSig.zeros n_states n_steps)
    let xout ← PSig.setCol xout (0 : Int) X0
    let yout : PMat K := (PMat.zeros n_outputs n_steps)
    if (PSig.allZero U = true) then
      let expAdt ← PMat.applySq expm (PMat.mulNum A dt)
      let xout ← List.foldlM (fun (xout : PSig K) (i : Int) => (do
          let t1 ← PSig.getCol xout (i - (1 : Int))
          let t2 ← PMat.matvec expAdt t1
          let xout ← PSig.setCol xout i t2
          pure xout
          : Except Err (PSig K))) xout (PyArith.range (1 : Int) (n_steps : Int))
      let yout ← PMat.matsig C xout
      let tout : List K := T
      pure (tout, yout, xout, U)
    else
      let M ← PMat.block [[(PMat.mulNum A dt), (PMat.mulNum B dt), (PMat.zeros n_states n_inputs)], [(PMat.zeros n_inputs (n_states + n_inputs)), (PMat.identity n_inputs)], [(PMat.zeros n_inputs (n_states + ((2 : Nat) * n_inputs)))]]
      let expM ← PMat.applySq expm M
      let Ad : PMat K := (PMat.sliceCols (PMat.sliceRows expM none (some (n_states : Int))) none (some (n_states : Int)))
      let Bd1 : PMat K := (PMat.sliceCols (PMat.sliceRows expM none (some (n_states : Int))) (some ((n_states + n_inputs) : Int)) none)
      let Bd0 ← PMat.sub (PMat.sliceCols (PMat.sliceRows expM none (some (n_states : Int))) (some (n_states : Int)) (some ((n_states + n_inputs) : Int))) Bd1
      let xout ← List.foldlM (fun (xout : PSig K) (i : Int) => (do
          let t3 ← PSig.getCol xout (i - (1 : Int))
          let t4 ← PMat.matvec Ad t3
          let t5 ← PSig.getCol U (i - (1 : Int))
          let t6 ← PMat.matvec Bd0 t5
          let t7 ← PVec.add t4 t6
          let t8 ← PSig.getCol U i
          let t9 ← PMat.matvec Bd1 t8
          let t10 ← PVec.add t7 t9
          let xout ← PSig.setCol xout i t10
          pure xout
          : Except Err (PSig K))) xout (PyArith.range (1 : Int) (n_steps : Int))
      let t11 ← PMat.matsig C xout
      let t12 ← PMat.matsig D U
      let yout ← PSig.add t11 t12
      let tout : List K := T
      pure (tout, yout, xout, U)

end CtrlVerif.Generated
