-- GENERATED on every run by harness/core/py2lean.py from the source text in /repo.  Do not edit.
import CtrlVerif.Model.PyDt
import CtrlVerif.Model.DtOps

namespace CtrlVerif.Generated

open CtrlVerif

/-- `_process_dt_keyword` (control/iosys.py, sha256 61b1d5c5dc0fe483) as the source text says it: `kw` / `dflt` are the
values under the key 'dt' of the two dictionaries (if present), `cfg` is
`config.defaults['control.default_dt']`; returns the raw value. -/
def processDtKeyword (kw dflt : Option DtArg) (static : Bool) (cfg : DtArg) : Except Err DtArg := do
  let mut dt := DtArg.none
  if (static && (!Option.isSome kw) && (!Option.isSome dflt)) then
    dt := DtArg.none
  else
    if Option.isSome kw then
      dt ← PyDtArg.pop kw
    else
      if Option.isSome dflt then
        dt ← PyDtArg.pop dflt
      else
        dt := cfg
  if (((!PyDtArg.isNone dt) && (!PyDtArg.isNumber dt)) || (PyDtArg.isNumber dt && PyDtArg.ltZero dt)) then
    throw Err.badArg
  return dt

end CtrlVerif.Generated
