-- GENERATED on every run by harness/core/py2lean_select.py from the source text in /repo (sha256 of each function below).  Do not edit.
import CtrlVerif.Model.DtPred

namespace CtrlVerif.Generated

open CtrlVerif

/-- `InputOutputSystem.isctime` (control/iosys.py, sha256 97bbc0909b9f606b) as the source text says it. `self` is the timebase `self.dt` of the receiver.
-/
def ioIsctime (self : Dt) (strict : Bool) : Except Err Bool := do
  if PyDt.isNone self then
    return (if (!strict) then true else false)
  return PyDt.eqZero self

/-- `InputOutputSystem.isdtime` (control/iosys.py, sha256 d404ac62d2381c62) as the source text says it. `self` is the timebase `self.dt` of the receiver.
  note: `dt == None` read as `dt is None` (the same on None / bool / numbers)
-/
def ioIsdtime (self : Dt) (strict : Bool) : Except Err Bool := do
  if PyDt.isNone self then
    return (if (!strict) then true else false)
  return PyDt.gtZero self

/-- `isdtime` (control/iosys.py, sha256 790046d3c4fca59b) as the source text says it.
-/
def isdtime (sys : SysArg) (strict : Bool) (dt : Dt) : Except Err Bool := do
  if PySys.isNone sys then
    if PyDt.isNone dt then
      return (if (!strict) then true else false)
    else
      return PyDt.gtZero dt
  else
    if (!(PyDt.isNone dt)) then
      throw Err.badArg
  if PySys.isNumber sys then
    return (if (!strict) then true else false)
  else
    return (← ioIsdtime (← PySys.dt sys) strict)

/-- `isctime` (control/iosys.py, sha256 9fb2af5c9794fbb1) as the source text says it.
-/
def isctime (sys : SysArg) (dt : Dt) (strict : Bool) : Except Err Bool := do
  if PySys.isNone sys then
    if PyDt.isNone dt then
      return (if (!strict) then true else false)
    else
      return PyDt.eqZero dt
  else
    if (!(PyDt.isNone dt)) then
      throw Err.badArg
  if PySys.isNumber sys then
    return (if (!strict) then true else false)
  else
    return (← ioIsctime (← PySys.dt sys) strict)

/-- `timebase` (control/iosys.py, sha256 5c33527327141c7b) as the source text says it.
  note: `dt == None` read as `dt is None` (the same on None / bool / numbers)
-/
def timebase (sys : SysArg) (strict : Bool) : Except Err Dt := do
  if PySys.isNumber sys then
    return Dt.none
  else
    if (!(PySys.isSystem sys)) then
      throw Err.badArg
  if PyDt.isNone (← PySys.dt sys) then
    return Dt.none
  else
    if strict then
      return PyDt.toFloat (← PySys.dt sys)
  return (← PySys.dt sys)

end CtrlVerif.Generated
