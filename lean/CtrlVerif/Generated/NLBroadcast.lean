-- GENERATED on every run by harness/core/py2lean_nl.py from control/nlsys.py (nlBroadcast 32faf757b68ad1ba).  Do not edit.
import CtrlVerif.Model.PyNL

namespace CtrlVerif.Generated

open CtrlVerif

variable {K : Type} [Field K] [DecidableEq K]

/-- block `nlBroadcast` of `control/nlsys.py` as the source text says it (sha256 of the text of the translated
statements 32faf757b68ad1baf490b0b9c0d7ccfb9c7c40fb451e93bb0413cc4e36098e93).
  note: a 1-D array appended to a list that is given to np.vstack is stored as the one-row array vstack makes of it
  note: returns U -/
def nlBroadcast (T : List K) (U : List (PyNL.UElem K)) :
    Except Err (PyNL.RMat K) :=
  do
    let U_elements : List (PyNL.RMat K) := []
    let U_elements ← List.foldlM (fun (U_elements : List (PyNL.RMat K)) (u : PyNL.UElem K) => (do
        match u with
        | .scalar u_c => do
          let u : K := u_c
          let u : PyNL.RMat K := (PyNL.outer [u] (PyNL.vones (T.length : Int)))
          let U_elements : List (PyNL.RMat K) := U_elements ++ [u]
          pure U_elements
        | .vec u_v => do
          let u : List K := u_v
          if (((u.length : Int) ≠ (T.length : Int))) then
            let u : PyNL.RMat K := (PyNL.outer u (PyNL.vones (T.length : Int)))
            let U_elements : List (PyNL.RMat K) := U_elements ++ [u]
            pure U_elements
          else
            if ¬ ((((u.length : Int) = (T.length : Int)))) then
              throw Err.shape
            let U_elements : List (PyNL.RMat K) := U_elements ++ [(PyNL.RMat.ofVec u)]
            pure U_elements
        | .mat u_m => do
          let u : PyNL.RMat K := u_m
          if ¬ ((((u.c : Int) = (T.length : Int)))) then
            throw Err.shape
          let U_elements : List (PyNL.RMat K) := U_elements ++ [u]
          pure U_elements
        : Except Err (List (PyNL.RMat K)))) U_elements U
    let t1 ← PyNL.vstack U_elements
    let U : PyNL.RMat K := t1
    pure U

end CtrlVerif.Generated
