-- GENERATED on every run by harness/core/py2lean_meq.py from control/mateqn.py (_slycot_or_scipy fbbe26122f390508).  Do not edit.
import CtrlVerif.Model.PyMeq

namespace CtrlVerif.Generated

open CtrlVerif MatEqn

variable {K : Type} [Field K] [LinearOrder K] [DecidableEq K]

/-- `control/mateqn.py:_slycot_or_scipy` as the source text says it (sha256 of the function text
fbbe26122f390508c33463b8c0b1c199f773d27b08327ae02c334a33d4f946f5).
Defaults: none.
  note: `slycot_check()` is `PyMeq.slycotCheck` (False: Slycot is absent) -/
def slycotOrScipy (method : PyMeq.Method) : Except Err (PyMeq.Backend) := do
  if ((method = PyMeq.Method.slycot) ∨ ((method = PyMeq.Method.none) ∧ (PyMeq.slycotCheck = true))) then do
    pure PyMeq.Backend.slycot
  else do
    if ((method = PyMeq.Method.scipy) ∨ ((method = PyMeq.Method.none) ∧ (¬ (PyMeq.slycotCheck = true)))) then do
      pure PyMeq.Backend.scipy
    else do
      throw Err.badArg

end CtrlVerif.Generated
