-- GENERATED on every run by harness/core/py2lean_nl.py from control/nlsys.py (nlOpSetup c1b32ff395302c11).  Do not edit.
import CtrlVerif.Model.PyNL

namespace CtrlVerif.Generated

open CtrlVerif

variable {K : Type} [Field K] [DecidableEq K]

/-- block `nlOpSetup` of `control/nlsys.py` as the source text says it (sha256 of the text of the translated
statements c1b32ff395302c111e1caeb0f1036622845782ec9862e54b87497bcd6f16c715).
  note: the entries of an array made by np.unique are NumPy integers: `isinstance(x, int)` is False
  note: returns (state_vars, input_vars, output_vars, deriv_vars, x, u, dx0, nstate_vars) -/
def nlOpSetup (iu iy ix idx : Option (List Int)) (nstates ninputs noutputs : Int) (x0 u0 : List K)
    (dx0 : Option (List K)) :
    Except Err (List Int × List Int × List Int × List Int × List K × List K × List K × Int) :=
  do
    let iu ← (match iu with
      | some iu => (do
          let iu : List Int := (PyNL.unique iu)
          let t3 ← (do
              if iu ≠ [] then
                pure true
              else
                if (iu.length : Int) > (0 : Int) then
                  let t4 ← PyNL.minInt iu
                  if t4 < (0 : Int) then
                    pure true
                  else
                    let t5 ← PyNL.maxInt iu
                    pure (decide (t5 ≥ ninputs))
                else
                  pure false
              : Except Err Bool)
          pure iu
          : Except Err (List Int))
      | none => (do
          pure []
          : Except Err (List Int)))
    let iy ← (match iy with
      | some iy => (do
          let iy : List Int := (PyNL.unique iy)
          let t7 ← (do
              if iy ≠ [] then
                pure true
              else
                let t8 ← PyNL.minInt iy
                if t8 < (0 : Int) then
                  pure true
                else
                  let t9 ← PyNL.maxInt iy
                  pure (decide (t9 ≥ noutputs))
              : Except Err Bool)
          pure iy
          : Except Err (List Int))
      | none => (do
          let iy : List Int := (PyArith.range (0 : Int) noutputs)
          pure iy
          : Except Err (List Int)))
    let ix ← (match ix with
      | some ix => (do
          let ix : List Int := (PyNL.unique ix)
          let t11 ← (do
              if ix ≠ [] then
                pure true
              else
                let t12 ← PyNL.minInt ix
                if t12 < (0 : Int) then
                  pure true
                else
                  let t13 ← PyNL.maxInt ix
                  pure (decide (t13 ≥ nstates))
              : Except Err Bool)
          pure ix
          : Except Err (List Int))
      | none => (do
          pure []
          : Except Err (List Int)))
    let idx ← (match idx with
      | some idx => (do
          let idx : List Int := (PyNL.unique idx)
          let t15 ← (do
              if idx ≠ [] then
                pure true
              else
                let t16 ← PyNL.minInt idx
                if t16 < (0 : Int) then
                  pure true
                else
                  let t17 ← PyNL.maxInt idx
                  pure (decide (t17 ≥ nstates))
              : Except Err Bool)
          pure idx
          : Except Err (List Int))
      | none => (do
          let idx : List Int := (PyArith.range (0 : Int) nstates)
          pure idx
          : Except Err (List Int)))
    let t19 ← (if ¬ ((ix.length : Int) ≠ 0) then (do
        pure (PyArith.range (0 : Int) nstates)
        : Except Err (List Int)) else (do
        let t18 ← PyNL.deleteIdx (PyArith.range (0 : Int) nstates) ix
        pure t18
        : Except Err (List Int)))
    let state_vars : List Int := t19
    let t21 ← (if ¬ ((iu.length : Int) ≠ 0) then (do
        pure (PyArith.range (0 : Int) ninputs)
        : Except Err (List Int)) else (do
        let t20 ← PyNL.deleteIdx (PyArith.range (0 : Int) ninputs) iu
        pure t20
        : Except Err (List Int)))
    let input_vars : List Int := t21
    let output_vars : List Int := iy
    let deriv_vars : List Int := idx
    let num_freedoms : Int := ((state_vars.length : Int) + (input_vars.length : Int))
    let num_constraints : Int := ((output_vars.length : Int) + (deriv_vars.length : Int))
    let x : List K := x0
    let u : List K := u0
    let dx0 : List K := (match dx0 with | some dx0 => dx0 | none => (PyNL.vzeros (x.length : Int)))
    let nstate_vars : Int := (state_vars.length : Int)
    pure (state_vars, input_vars, output_vars, deriv_vars, x, u, dx0, nstate_vars)

end CtrlVerif.Generated
