-- GENERATED on every run by harness/core/py2lean_sfb.py from control/statefbk.py (ctrb 887fff6a79aa9948, obsv 808b5df2f60bda0b).  Do not edit.
import CtrlVerif.Model.PySfb

namespace CtrlVerif.Generated

open CtrlVerif

noncomputable section

variable {K : Type} [Field K] [DecidableEq K]

/-- `control/statefbk.py:ctrb` as the source text says it (sha256 of the function text
887fff6a79aa99483b812d0ad6dae54eb99ab742c9983cc436265c685f8b6878).
Defaults: t=None. -/
def sfCtrb (A : PMat K) (B : PMat K) (t : Option Int) : Except Err (PMat K) :=
  do
    let A ← PySfb.ssmatrix A true none none
    let n : Nat := A.r
    let B ← PySfb.ssmatrix B false (some n) none
    let m : Nat := B.c
    let t ← ((match t with
      | none => (do
        let t : Nat := n
        pure (t : Int))
      | some t => (do
        if (t > (n : Int)) then
          let t : Nat := n
          pure (t : Int)
        else
          pure t)) : Except Err Int)
    let ctrb ← PMat.zerosI (n : Int) (t * (m : Int))
    let ctrb ← PySfb.setSliceB ctrb none none none (some (m : Int)) B
    let ctrb ← List.foldlM (fun (ctrb : PMat K) (k : Int) => ((do
        let t1 ← PMat.matmul A (PMat.sliceCols ctrb (some ((k - (1 : Int)) * (m : Int))) (some (k * (m : Int))))
        let ctrb ← PySfb.setSliceB ctrb none none (some (k * (m : Int))) (some ((k + (1 : Int)) * (m : Int))) t1
        pure ctrb) : Except Err (PMat K))) ctrb (PyArith.range (1 : Int) t)
    pure ctrb

/-- `control/statefbk.py:obsv` as the source text says it (sha256 of the function text
808b5df2f60bda0be0346bee4b3036bc2d6af4ecdc34e570d9da2df57f986d05).
Defaults: t=None. -/
def sfObsv (A : PMat K) (C : PMat K) (t : Option Int) : Except Err (PMat K) :=
  do
    let A ← PySfb.ssmatrix A true none none
    let n : Nat := A.r
    let C ← PySfb.ssmatrix C false none (some n)
    let p : Nat := C.r
    let t ← ((match t with
      | none => (do
        let t : Nat := n
        pure (t : Int))
      | some t => (do
        if (t > (n : Int)) then
          let t : Nat := n
          pure (t : Int)
        else
          pure t)) : Except Err Int)
    let obsv ← PMat.zerosI (t * (p : Int)) (n : Int)
    let obsv ← PySfb.setSliceB obsv none (some (p : Int)) none none C
    let obsv ← List.foldlM (fun (obsv : PMat K) (k : Int) => ((do
        let t1 ← PMat.matmul (PMat.sliceRows obsv (some ((k - (1 : Int)) * (p : Int))) (some (k * (p : Int)))) A
        let obsv ← PySfb.setSliceB obsv (some (k * (p : Int))) (some ((k + (1 : Int)) * (p : Int))) none none t1
        pure obsv) : Except Err (PMat K))) obsv (PyArith.range (1 : Int) t)
    pure obsv

end

end CtrlVerif.Generated
