-- GENERATED on every run by harness/core/py2lean_frdctor.py from control/frdata.py (__init__ eb216159ab3474e3, frd 8b80a915049fe8c0).  Do not edit.
import CtrlVerif.Model.PyFrdCtor

namespace CtrlVerif.Generated

open CtrlVerif

variable {K : Type} [Field K] [DecidableEq K]

/-- `control/frdata.py:FrequencyResponseData.__init__` as the source text says it (sha256 of the
function text without docstring eb216159ab3474e38e91dab44b9be8c923f22eb2179a61d860460e91de2e419e).
Reading rules used: R1, R2, R3, R4, R5 (harness/core/py2lean_frdctor.py). -/
def frdCtor (E : Env K) (args : List (PyArg K)) (kwargs : PyKw) : Except Err (PyFrdObj K) := do
  let mut args := args
  let mut kwargs := kwargs
  let mut arg_dt : Dt := Dt.none
  let mut dt : PyArg K := PyArg.dt Dt.none
  let mut self_frdata : PArr3 K := PArr3.zeros 0 0 0
  let mut self_omega : FVec := FVec.ofList []
  let smooth := (PyKw.pop_smooth_val kwargs false)
  kwargs := PyKw.pop_smooth_rest kwargs
  if (decide (args.length = 3)) then
    let t1 ← PyArgs.last args
    dt := t1
    let t2 ← PyArg.asDt dt
    kwargs := PyKw.set_dt kwargs t2
    args := (PyArgs.dropLast args)
  if (decide (args.length = 2)) then
    let t3 ← PyArgs.get args 0
    let t5 ← (do
      if (!(PyArg.isFRD t3)) then
        let t4 ← PyArgs.get args 0
        pure (PyArg.isLTI t4)
      else
        pure false
      : Except Err Bool)
    if t5 then
      let t6 ← PyArgs.get args 0
      let otherlti := t6
      let t7 ← PyArgs.get args 1
      let t8 ← PyArg.asVec t7
      self_omega := (FVec.sort t8)
      let t9 ← PyArg.isctime otherlti
      if t9 then
        let s := (FVec.jw E self_omega)
        let t10 ← PyArg.call otherlti s
        self_frdata := t10
      else
        let t11 ← PyArg.dt_attr otherlti
        let t12 ← FVec.expj E self_omega t11
        let z := t12
        let t13 ← PyArg.call otherlti z
        self_frdata := t13
      let t14 ← PyArg.dt_attr otherlti
      arg_dt := t14
      let t15 ← PyArg.input_labels otherlti
      kwargs := PyKw.set_inputs kwargs (PyKw.get_inputs kwargs t15)
      let t16 ← PyArg.output_labels otherlti
      kwargs := PyKw.set_outputs kwargs (PyKw.get_outputs kwargs t16)
      let t17 ← PyArg.generic_name_check otherlti
      if (!t17) then
        let t18 ← PyArg.name otherlti
        kwargs := PyKw.set_name kwargs (PyKw.get_name kwargs (PyName.extended t18 "sampled"))
    else
      let t19 ← PyArgs.get args 0
      let t20 ← PyArg.asData t19
      self_frdata := t20
      let t21 ← PyArgs.get args 1
      let t22 ← PyArg.asVec t21
      self_omega := t22
      if (decide (self_frdata.n ≠ self_omega.n)) then
        throw Err.notImplemented
      arg_dt := Dt.none
  else
    if (decide (args.length = 1)) then
      let t23 ← PyArgs.get args 0
      if (!(PyArg.isFRD t23)) then
        throw Err.notImplemented
      let t24 ← PyArgs.get args 0
      let t25 ← PyArg.omega t24
      self_omega := t25
      let t26 ← PyArgs.get args 0
      let t27 ← PyArg.frdata t26
      self_frdata := t27
      let t28 ← PyArgs.get args 0
      let t29 ← PyArg.dt_attr t28
      arg_dt := t29
      let t30 ← PyArgs.get args 0
      let t31 ← PyArg.input_labels t30
      kwargs := PyKw.set_inputs kwargs (PyKw.get_inputs kwargs t31)
      let t32 ← PyArgs.get args 0
      let t33 ← PyArg.output_labels t32
      kwargs := PyKw.set_outputs kwargs (PyKw.get_outputs kwargs t33)
    else
      throw Err.shape
  let defaults := (PyIODefaults.mk (PySig.count self_frdata.m) (PySig.count self_frdata.p) none)
  if (decide (arg_dt ≠ Dt.none)) then
    let t34 ← PyArgs.get args 0
    if (PyArg.isLTI t34) then
      let t35 ← PyArgs.get args 0
      let t36 ← PyArg.dt_attr t35
      let t37 ← common t36 arg_dt
      arg_dt := t37
    kwargs := PyKw.set_dt kwargs arg_dt
  else
    let t38 ← PyArgs.get args 0
    if ((PyArg.isLTI t38) && (!(PyKw.has_dt kwargs))) then
      kwargs := PyKw.set_dt kwargs Dt.none
  PyIOSys.initFrd self_omega self_frdata kwargs defaults smooth

/-- `control/frdata.py:frd` as the source text says it (sha256 of the function text without
docstring 8b80a915049fe8c0d10bc50ee8450b5d54aeda7877a51ddda5dfa618106c5494). -/
def frd (E : Env K) (args : List (PyArg K)) (kwargs : PyKw) : Except Err (PyFrdObj K) :=
  frdCtor E args kwargs

end CtrlVerif.Generated
