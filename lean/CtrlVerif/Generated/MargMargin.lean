-- GENERATED on every run by harness/core/py2lean_marg.py from control/margins.py:margin (sha256 23cb2802e739b7a0483dc21741aed0145bd1ebaa6b9dcf8dc063f8e3c4c314db).  Do not edit.
import CtrlVerif.Model.PyMarg

namespace CtrlVerif.Generated

open CtrlVerif CtrlVerif.Margins

/-- `control/margins.py:margin` as the source text says it (sha256 of the function text
23cb2802e739b7a0483dc21741aed0145bd1ebaa6b9dcf8dc063f8e3c4c314db).
`stabilityMargins` is `stability_margins` called with one argument (default `returnall=False`): the
argument is one object (`SysData.obj`) or the sequence `args` itself (`SysData.seq`). -/
def smMargin {α : Type} {K : Type} [Field K] [LinearOrder K] (P : PyMarg.Prims K) (stabilityMargins : PyMarg.SysData α → Except Err (PyMarg.XF K × PyMarg.XF K × PyMarg.XF K × PyMarg.XF K × PyMarg.XF K × PyMarg.XF K)) (args : List α) :
    Except Err (PyMarg.XF K × PyMarg.XF K × PyMarg.XF K × PyMarg.XF K) :=
  (do
    let t4 ← ((if (((List.length args : Nat) : Int) = 1) then
        (do
          let sys ← PyArith.getItem args 0
          let margin' ← stabilityMargins (PyMarg.SysData.obj sys)
          pure (margin'))
      else
        (if (((List.length args : Nat) : Int) = 3) then
            (do
              let margin' ← stabilityMargins (PyMarg.SysData.seq args)
              pure (margin'))
          else
            (.error Err.badArg))) : Except Err ((PyMarg.XF K × PyMarg.XF K × PyMarg.XF K × PyMarg.XF K × PyMarg.XF K × PyMarg.XF K)))
    let margin' : (PyMarg.XF K × PyMarg.XF K × PyMarg.XF K × PyMarg.XF K × PyMarg.XF K × PyMarg.XF K) := t4
    pure ((margin').1, (margin').2.1, (margin').2.2.2.1, (margin').2.2.2.2.1))

end CtrlVerif.Generated
