-- GENERATED on every run by harness/core/py2lean_arith.py from control/margins.py:_poly_iw_mag1_crossing (sha256 89477a481a4134b98cec1d51b481d0dcb7470f685922f942553ab320ad5e991e).  Do not edit.
import CtrlVerif.Model.PyArith
import CtrlVerif.Model.PyNumpy
import CtrlVerif.Generated.PolyIwSqr

namespace CtrlVerif.Generated

open CtrlVerif

/-- `control/margins.py:_poly_iw_mag1_crossing` as the source text says it (sha256 of the function text
89477a481a4134b98cec1d51b481d0dcb7470f685922f942553ab320ad5e991e).
Defaults: none.
Translated up to the first call of `np.roots`: the result is its argument; the rest of the body is outside this tie. -/
def polyIwMag1Crossing {K : Type} [Field K] [LinearOrder K] (num_iw : (List K × List K)) (den_iw : (List K × List K)) :
    Except Err (List K) :=
  (do
    let t1 ← polyIwSqr num_iw
    let t2 ← polyIwSqr den_iw
    pure (Margins.npsub t1 t2))

end CtrlVerif.Generated
