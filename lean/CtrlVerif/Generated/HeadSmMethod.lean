-- GENERATED on every run by harness/core/py2lean_heads.py from control/margins.py:stability_margins (SISO check, method resolution, builders) (sha256 9986543f1d162f29609ab706ee9df1e32c82e749af33aef7f98aafe9e8f72844).  Do not edit.
import CtrlVerif.Model.PyHeads
import CtrlVerif.Generated.HeadSmDispatch

namespace CtrlVerif.Generated.Heads

open CtrlVerif CtrlVerif.Margins CtrlVerif.Generated

/-- the statements of `control/margins.py:stability_margins` between the dispatch and the polynomial builders
(SISO check, `method` resolution, pivot `isinstance` test, time-domain test; sha256 of their text
9986543f1d162f29609ab706ee9df1e32c82e749af33aef7f98aafe9e8f72844). -/
def smMethod {K TF FRD Oth : Type} [Field K] [LinearOrder K] (E : PyHeads.Env K TF FRD Oth) (P : PyMarg.Prims K) (sys : PyHeads.Sys TF FRD) (method : String) :
    Except Err (PyHeads.Route TF FRD) :=
  match sys with
  | .tf sys0 =>
      (if (¬ (E.issisoTF sys0 = true)) then
          (.error Err.notImplemented)
      else
          (if (method = "frd") then
              (do
                let omega_sys : List K := (E.defaultRange sys0)
                (if (E.isctime sys0 = true) then
                    (do
                      let sys : FRD := (E.frdOfTF sys0 omega_sys false)
                      pure (PyHeads.Route.frd sys))
                else
                    (do
                      let t1 ← PyArith.div P.pi (E.dt sys0)
                      let t2 ← PyMarg.mask omega_sys (List.map (fun x => decide (x < t1)) omega_sys)
                      let omega_sys : List K := t2
                      let sys : FRD := (E.frdOfTF sys0 omega_sys true)
                      pure (PyHeads.Route.frd sys))))
          else
              (if (method = "best") then
                  (if (¬ (E.isctime sys0 = true)) then
                      (do
                        let t3 ← E.likely sys0
                        (if (t3 = true) then
                            (do
                              let omega_sys : List K := (E.defaultRange sys0)
                              let t4 ← PyArith.div P.pi (E.dt sys0)
                              let t5 ← PyMarg.mask omega_sys (List.map (fun x => decide (x < t4)) omega_sys)
                              let omega_sys : List K := t5
                              let sys : FRD := (E.frdOfTF sys0 omega_sys true)
                              pure (PyHeads.Route.frd sys))
                        else
                            (if (E.isctime sys0 = true) then
                                pure (PyHeads.Route.poly PyHeads.Builders.iw sys0)
                              else
                                pure (PyHeads.Route.poly PyHeads.Builders.zinvz sys0))))
                  else
                      (if (E.isctime sys0 = true) then
                          pure (PyHeads.Route.poly PyHeads.Builders.iw sys0)
                        else
                          pure (PyHeads.Route.poly PyHeads.Builders.zinvz sys0)))
              else
                  (if (method ≠ "poly") then
                      (.error Err.badArg)
                  else
                      (if (E.isctime sys0 = true) then
                          pure (PyHeads.Route.poly PyHeads.Builders.iw sys0)
                        else
                          pure (PyHeads.Route.poly PyHeads.Builders.zinvz sys0))))))
  | .frd sys0 =>
      (if (¬ (E.issisoFRD sys0 = true)) then
          (.error Err.notImplemented)
      else
          (if (method = "frd") then
              (pure (PyHeads.Route.frd sys0))
          else
              (if (method = "best") then
                  (pure (PyHeads.Route.frd sys0))
              else
                  (if (method ≠ "poly") then
                      (.error Err.badArg)
                  else
                      (pure (PyHeads.Route.frd sys0))))))

/-- the default value of `method` in the signature -/
def smDefaultMethod : String :=
  "best"

/-- the head of `stability_margins`: dispatch, then method resolution -/
def smHead {K TF FRD Oth : Type} [Field K] [LinearOrder K] (E : PyHeads.Env K TF FRD Oth) (P : PyMarg.Prims K) (sysdata : PyHeads.SysData K TF FRD Oth) (method : String) :
    Except Err (PyHeads.Route TF FRD × PyHeads.SysData K TF FRD Oth) :=
  (do
    let r ← smDispatch E P sysdata
    let route ← smMethod E P r.1 method
    pure (route, r.2))

end CtrlVerif.Generated.Heads
