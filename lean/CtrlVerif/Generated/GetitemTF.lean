-- GENERATED on every run by harness/core/py2lean_getitem.py from the source text in /repo (sha256 of the function below).  Do not edit.
import CtrlVerif.Model.PyGet
import CtrlVerif.Generated.SubsysIndex

namespace CtrlVerif.Generated

open CtrlVerif

/-- `TransferFunction.__getitem__` (control/xferfcn.py, sha256 168f904943fe180f) as the source text says it. `fuel` is the recursion budget handed to the generated `_parse_key`, `defaults` is `config.defaults`.
  note: `col += 1` at the end of the loop body is a dead store (the loop re-binds col): dropped
  note: `row += 1` at the end of the loop body is a dead store (the loop re-binds row): dropped
-/
def tfGetitem {K : Type} [Field K] [DecidableEq K] (fuel : Nat) (defaults : PyGet.Defaults) (self : PyGet.TFObj K) (key : PyVal) : Except Err (PyGet.TFObj K) := do
  if (← (do if (!(← PyGet.isIterable key)) then pure true else pure (decide ((← Py.len key) ≠ (2 : Int))))) then
    throw Err.badArg
  let mut iomap := PyGet.namedSignal (← PyGet.npEmptyShape (PyTF.noutputs self.sys) (PyTF.ninputs self.sys)) self.output_labels self.input_labels
  let mut indices := (← Generated.parseKey fuel iomap.signal_labels iomap.trace_labels iomap.data_shape key PyVal.none (1 : Int))
  let mut (outdx, outputs) ← Generated.processSubsysIndex (← Py.getitem indices (PyVal.int (0 : Int))) self.output_labels true
  let mut (inpdx, inputs) ← Generated.processSubsysIndex (← Py.getitem indices (PyVal.int (1 : Int))) self.input_labels true
  let mut num := (← PyTF.createPolyArray (K := K) (← Py.len outputs) (← Py.len inputs) none)
  let mut den := (← PyTF.createPolyArray (K := K) (num.p : Int) (num.m : Int) none)
  (num, den) ← List.foldlM (fun (st : PyTF.PolyArr K × PyTF.PolyArr K) (it : Int × PyVal) => do
      let row := it.1
      let i := it.2
      let mut num := st.1
      let mut den := st.2
      (num, den) ← List.foldlM (fun (st : PyTF.PolyArr K × PyTF.PolyArr K) (it : Int × PyVal) => do
          let col := it.1
          let j := it.2
          let mut num := st.1
          let mut den := st.2
          num := (← PyTF.PolyArr.setItem num row col (← PyTF.PolyArr.getItem (PyTF.numArray self.sys) (← PyGet.asIndex i) (← PyGet.asIndex j)))
          den := (← PyTF.PolyArr.setItem den row col (← PyTF.PolyArr.getItem (PyTF.denArray self.sys) (← PyGet.asIndex i) (← PyGet.asIndex j)))
          pure (num, den)) (num, den) (← PyGet.enumerate inpdx)
      pure (num, den)) (num, den) (← PyGet.enumerate outdx)
  let mut sysname := (((← PyGet.Defaults.getStr defaults "iosys.indexed_system_name_prefix") ++ self.name) ++ (← PyGet.Defaults.getStr defaults "iosys.indexed_system_name_suffix"))
  return (← PyGet.mkTransferFunction num den self.sys.dt inputs outputs sysname)

end CtrlVerif.Generated
