-- GENERATED on every run by harness/core/py2lean.py from the source text in /repo.  Do not edit.
import CtrlVerif.Model.Shape

namespace CtrlVerif.Generated

open CtrlVerif

/-- `_process_time_response` (control/timeresp.py, sha256 cd2a1b04cfb07bc6) as the source text says it; configuration keys read: control.squeeze_time_response. -/
def processTimeResponse {α : Type} (signal : NDArr α) (issiso : Bool) (transpose : Bool) (squeeze : Sq) (cfg : Sq) : Except Err (NDArr α) := do
  let mut squeeze := squeeze
  let mut signal := signal
  if decide (squeeze = Sq.none) then
    squeeze := cfg
  if decide (squeeze = Sq.true) then
    signal := NDArr.squeeze signal
  else
    if decide (squeeze = Sq.false) then
      pure ()
    else
      if decide (squeeze = Sq.none) then
        if issiso then
          if decide (NDArr.ndim signal = 3) then
            signal ← (NDArr.index signal 0).bind (NDArr.index · 0)
          else
            signal ← NDArr.index signal 0
      else
        throw Err.badArg
  if transpose then
    signal ← NDArr.timeFirst signal
  return signal

/-- `_process_frequency_response` (control/lti.py, sha256 cc98f0fc80145006) as the source text says it; configuration keys read: control.squeeze_frequency_response. -/
def processFrequencyResponse {α : Type} (issiso : Bool) (omegaNdim : Nat) (out : NDArr α) (squeeze : Sq) (cfg : Sq) : Except Err (NDArr α) := do
  let mut squeeze := squeeze
  let mut out := out
  if decide (squeeze = Sq.none) then
    squeeze := cfg
  if decide (omegaNdim < 1) then
    out ← NDArr.squeezeAxis out 2
  if decide (squeeze = Sq.true) then
    return NDArr.squeeze out
  else
    if (decide (squeeze = Sq.none) && issiso) then
      return (← (NDArr.index out 0).bind (NDArr.index · 0))
    else
      if (decide (squeeze = Sq.false) || decide (squeeze = Sq.none)) then
        return out
      else
        throw Err.badArg

end CtrlVerif.Generated
