-- GENERATED on every run by harness/core/py2lean_tf.py from control/xferfcn.py (__rmul__ 80c1f7543a0e81080d5f396374e8852ac462e1fa05cdf20538552b5712b6c32b).  Do not edit.
import CtrlVerif.Model.PyTF
import CtrlVerif.Generated.TFAddSiso

namespace CtrlVerif.Generated.TF

open CtrlVerif

/-- `control/xferfcn.py:TransferFunction.__rmul__` as the source text says it (sha256 of the function text
80c1f7543a0e81080d5f396374e8852ac462e1fa05cdf20538552b5712b6c32b).
Defaults: none. -/
def rmul {K : Type} [Field K] [DecidableEq K] (self : DTF K) (other : PyTF.Operand K) :
    Except Err (DTF K) :=
  (do
    let other ← ((match other with
      | .tf other =>
        (do
          let other ← PyTF.convert (PyTF.Operand.tf other) 1 1
          pure (other))
      | other@(.ss _ _) =>
        (do
          let other ← PyTF.convert other 1 1
          pure (other))
      | .scalar other =>
        (do
          let other ← PyTF.convert (PyTF.scaledEye (PyTF.noutputs self) other) 1 1
          pure (other))
      | other@(.array _ _ _) =>
        (do
          let other ← PyTF.convert other 1 1
          pure (other))
      | other@(.foreign) =>
        (do
          let other ← PyTF.convert other 1 1
          pure (other))) : Except Err (DTF K))
    let t8 ← ((if ((self.isSiso = true) ∧ (¬ (other.isSiso = true))) then
        (do
          let self ← PyTF.appendCopies self (PyTF.ninputs other)
          pure (self, other))
      else
        (if ((¬ (self.isSiso = true)) ∧ (other.isSiso = true)) then
            (do
              let other ← PyTF.appendCopies other (PyTF.noutputs self)
              pure (self, other))
          else
            (pure (self, other)))) : Except Err (DTF K × DTF K))
    let self : DTF K := t8.1
    let other : DTF K := t8.2
    (if ((PyTF.ninputs other) ≠ (PyTF.noutputs self)) then
        (.error Err.shape)
      else
        (do
          let ninputs : Int := (PyTF.ninputs self)
          let noutputs : Int := (PyTF.noutputs other)
          let dt ← common self.dt other.dt
          let num ← PyTF.createPolyArray noutputs ninputs (some ([(0 : K)] : List K))
          let den ← PyTF.createPolyArray noutputs ninputs (some ([(1 : K)] : List K))
          let num_summand : List (List K) := (List.map (fun (_ : Int) => ([] : List K)) (PyArith.range 0 (PyTF.ninputs other)))
          let den_summand : List (List K) := (List.map (fun (_ : Int) => ([] : List K)) (PyArith.range 0 (PyTF.ninputs other)))
          let t26 ← List.foldlM (fun (t12 : List (List K) × List (List K) × PyTF.PolyArr K × PyTF.PolyArr K) (i : Int) =>
              ((do
                let num_summand : List (List K) := t12.1
                let den_summand : List (List K) := t12.2.1
                let num : PyTF.PolyArr K := t12.2.2.1
                let den : PyTF.PolyArr K := t12.2.2.2
                let t25 ← List.foldlM (fun (t13 : List (List K) × List (List K) × PyTF.PolyArr K × PyTF.PolyArr K) (j : Int) =>
                    ((do
                      let num_summand : List (List K) := t13.1
                      let den_summand : List (List K) := t13.2.1
                      let num : PyTF.PolyArr K := t13.2.2.1
                      let den : PyTF.PolyArr K := t13.2.2.2
                      let t24 ← List.foldlM (fun (t14 : List (List K) × List (List K) × PyTF.PolyArr K × PyTF.PolyArr K) (k : Int) =>
                          ((do
                            let num_summand : List (List K) := t14.1
                            let den_summand : List (List K) := t14.2.1
                            let num : PyTF.PolyArr K := t14.2.2.1
                            let den : PyTF.PolyArr K := t14.2.2.2
                            let t15 ← PyTF.PolyArr.getItem (PyTF.numArray other) i k
                            let t16 ← PyTF.PolyArr.getItem (PyTF.numArray self) k j
                            let num_summand ← PyArith.setItem num_summand k (polymul t15 t16)
                            let t17 ← PyTF.PolyArr.getItem (PyTF.denArray other) i k
                            let t18 ← PyTF.PolyArr.getItem (PyTF.denArray self) k j
                            let den_summand ← PyArith.setItem den_summand k (polymul t17 t18)
                            let t19 ← PyTF.PolyArr.getItem num i j
                            let t20 ← PyTF.PolyArr.getItem den i j
                            let t21 ← PyArith.getItem num_summand k
                            let t22 ← PyArith.getItem den_summand k
                            let t23 ← Generated.TF.addSiso t19 t20 t21 t22
                            let num ← PyTF.PolyArr.setItem num i j t23.1
                            let den ← PyTF.PolyArr.setItem den i j t23.2
                            pure (num_summand, den_summand, num, den)) : Except Err (List (List K) × List (List K) × PyTF.PolyArr K × PyTF.PolyArr K))) (num_summand, den_summand, num, den) (PyArith.range 0 (PyTF.ninputs other))
                      let num_summand : List (List K) := t24.1
                      let den_summand : List (List K) := t24.2.1
                      let num : PyTF.PolyArr K := t24.2.2.1
                      let den : PyTF.PolyArr K := t24.2.2.2
                      pure (num_summand, den_summand, num, den)) : Except Err (List (List K) × List (List K) × PyTF.PolyArr K × PyTF.PolyArr K))) (num_summand, den_summand, num, den) (PyArith.range 0 ninputs)
                let num_summand : List (List K) := t25.1
                let den_summand : List (List K) := t25.2.1
                let num : PyTF.PolyArr K := t25.2.2.1
                let den : PyTF.PolyArr K := t25.2.2.2
                pure (num_summand, den_summand, num, den)) : Except Err (List (List K) × List (List K) × PyTF.PolyArr K × PyTF.PolyArr K))) (num_summand, den_summand, num, den) (PyArith.range 0 noutputs)
          let num_summand : List (List K) := t26.1
          let den_summand : List (List K) := t26.2.1
          let num : PyTF.PolyArr K := t26.2.2.1
          let den : PyTF.PolyArr K := t26.2.2.2
          PyTF.mkTF num den dt)))

end CtrlVerif.Generated.TF
