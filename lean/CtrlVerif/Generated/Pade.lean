-- GENERATED on every run by harness/core/py2lean_arith.py from control/delay.py:pade (sha256 df9e26bf0f3f02ebdeec68925eb24b9dd57dfd31f6ec9e5e595f0c7b6fec50cc).  Do not edit.
import CtrlVerif.Model.PyArith

namespace CtrlVerif.Generated

open CtrlVerif

/-- `control/delay.py:pade` as the source text says it (sha256 of the function text
df9e26bf0f3f02ebdeec68925eb24b9dd57dfd31f6ec9e5e595f0c7b6fec50cc).
Defaults: n=1, numdeg=None. -/
def pade {K : Type} [Field K] [LinearOrder K] (T : K) (n : Int) (numdeg : Option Int) :
    Except Err (List K × List K) :=
  (do
    let t1 ← ((match numdeg with
      | none =>
        (do
          let numdeg : Int := n
          pure (numdeg))
      | some numdeg =>
        (if (numdeg < 0) then
            (do
              let numdeg : Int := (numdeg + n)
              pure (numdeg))
          else
            (pure (numdeg)))) : Except Err (Int))
    let numdeg : Int := t1
    (if (¬ ((0 : K) ≤ T)) then
        (.error Err.badArg)
      else
        (if (¬ (0 ≤ n)) then
            (.error Err.badArg)
          else
            (if (¬ (0 ≤ numdeg ∧ numdeg ≤ n)) then
                (.error Err.badArg)
              else
                (do
                  let t16 ← ((if (T = (0 : K)) then
                      (do
                        let num : List Int := ([1] : List Int)
                        let den : List Int := ([1] : List Int)
                        pure ((List.map (fun (c : Int) => (c : K)) num), (List.map (fun (c : Int) => (c : K)) den)))
                    else
                      (do
                        let num : List K := (List.map (fun (i : Int) => (0 : K)) (PyArith.range 0 (numdeg + 1)))
                        let num ← PyArith.setItem num (-1) (1 : K)
                        let cn : K := (1 : K)
                        let t5 ← List.foldlM (fun (t2 : K × List K) (k : Int) =>
                            ((do
                              let cn : K := t2.1
                              let num : List K := t2.2
                              let t3 ← PyArith.div ((-T) * ((((numdeg - k) + 1) : Int) : K)) (((((numdeg + n) - k) + 1) : Int) : K)
                              let t4 ← PyArith.div t3 ((k : Int) : K)
                              let cn : K := (cn * t4)
                              let num ← PyArith.setItem num (numdeg - k) cn
                              pure (cn, num)) : Except Err (K × List K))) (cn, num) (PyArith.range 1 (numdeg + 1))
                        let cn : K := t5.1
                        let num : List K := t5.2
                        let den : List K := (List.map (fun (i : Int) => (0 : K)) (PyArith.range 0 (n + 1)))
                        let den ← PyArith.setItem den (-1) (1 : K)
                        let cd : K := (1 : K)
                        let t9 ← List.foldlM (fun (t6 : K × List K) (k : Int) =>
                            ((do
                              let cd : K := t6.1
                              let den : List K := t6.2
                              let t7 ← PyArith.div (T * ((((n - k) + 1) : Int) : K)) (((((numdeg + n) - k) + 1) : Int) : K)
                              let t8 ← PyArith.div t7 ((k : Int) : K)
                              let cd : K := (cd * t8)
                              let den ← PyArith.setItem den (n - k) cd
                              pure (cd, den)) : Except Err (K × List K))) (cd, den) (PyArith.range 1 (n + 1))
                        let cd : K := t9.1
                        let den : List K := t9.2
                        let num ← List.mapM (fun (coeff : K) => ((do
                          let t10 ← PyArith.getItem den 0
                          let t11 ← PyArith.div coeff t10
                          pure t11) : Except Err K)) num
                        let den ← List.mapM (fun (coeff : K) => ((do
                          let t13 ← PyArith.getItem den 0
                          let t14 ← PyArith.div coeff t13
                          pure t14) : Except Err K)) den
                        pure (num, den))) : Except Err (List K × List K))
                  let num : List K := t16.1
                  let den : List K := t16.2
                  pure (num, den))))))

end CtrlVerif.Generated
