-- GENERATED on every run by harness/core/py2lean_eval.py from the source text of the tree under check (StateSpace.horner 2e230dbebe9ab69e).  Do not edit.
import CtrlVerif.Model.PyEval
import CtrlVerif.Generated.EvalSSZero

set_option linter.unusedVariables false

namespace CtrlVerif.Generated

open CtrlVerif

noncomputable section

variable {K : Type} [Field K] [DecidableEq K]

/-- `control/statesp.py:StateSpace.horner` as the source text says it (sha256 of the function text
2e230dbebe9ab69e0018d19b95b45f6160a42a7f4a9d462a938155c132f5f2f4).
Defaults: warn_infinite=True.
  note: `with np.errstate(…):` only changes how floating-point events are reported: the body is translated in place
  note: `self.slycot_laub(…)`: Slycot is absent, the call raises ImportError (`PyEval.slycotLaub`)
  note: `if c: warn(…)` has no value: dropped (the condition is call-free up to np.any) -/
def ssHorner (P : Eval.Parts K) (self : DSS K) (x : PyEval.XArg K) (warn_infinite : Bool) :
    Except Err (PyEval.Arr3 K) :=
  do
    let x_arr : List K := (PyEval.atleast1dComplex x)
    if (self.n = (0 : Nat)) then
      PyEval.Arr3.mul (PyEval.Arr3.ofMat (PySS.D self)) (PyEval.Arr3.ofVec (PyEval.onesLike x_arr))
    else
      if (self.n = (1 : Nat)) then
        let t2 ← PyEval.matItem (PySS.A self) (0 : Int) (0 : Int)
        let t3 ← PyEval.Arr3.div P (PyEval.Arr3.ofMat (PySS.C self)) (PyEval.Arr3.ofVec (PyEval.subNum x_arr t2))
        let t4 ← PyEval.Arr3.mul t3 (PyEval.Arr3.ofMat (PySS.B self))
        let out ← PyEval.Arr3.add t4 (PyEval.Arr3.ofMat (PySS.D self))
        let t5 ← PyEval.matItem (PySS.A self) (0 : Int) (0 : Int)
        let at_pole : List Bool := (PyEval.eqNum x_arr t5)
        let out ← (do
          if ((PyEval.anyB at_pole) = true) then
            let t6 ← PyEval.matItem (PySS.A self) (0 : Int) (0 : Int)
            let t7 ← ssHasZeroAt self t6
            let out ← PyEval.Arr3.setMask out at_pole (if (t7 = true) then (PyEval.cplx false false) else (PyEval.cplx true false))
            pure out
          else
            pure out
          : Except Err (PyEval.Arr3 K))
        pure out
      else
        let out ← (match ((do
            let out ← PyEval.slycotLaub self x_arr
            pure out
            : Except Err (PyEval.Arr3 K))) with
          | .ok v => pure v
          | .error _ => (do
              if ((PyEval.ndim x_arr) > (1 : Nat)) then
                throw Err.shape
              else
                let out : PyEval.Arr3 K := (PyEval.empty3 self.p self.m x_arr.length)
                let out ← List.foldlM (fun (out : PyEval.Arr3 K) (it1 : Nat × K) => ((do
                    let idx : Nat := it1.1
                    let x_idx : K := it1.2
                    let out ← (match ((do
                        let t8 ← PMat.sub (PMat.smul x_idx (PMat.eye self.n)) (PySS.A self)
                        let xr ← PMat.solve t8 (PySS.B self)
                        let t9 ← PMat.matmul (PySS.C self) xr
                        let t10 ← PMat.add t9 (PySS.D self)
                        let out ← PyEval.Arr3.setSlab out (idx : Int) t10
                        pure out
                        : Except Err (PyEval.Arr3 K))) with
                      | .ok v => pure v
                      | .error e => (if (PySS.isLinAlgError e) = true then (do
                          let t11 ← ssHasZeroAt self x_idx
                          let out ← (do
                            if (t11 = true) then
                              let out ← PyEval.Arr3.setSlabConst out (idx : Int) (PyEval.cplx false false)
                              pure out
                            else
                              let out ← PyEval.Arr3.setSlabConst out (idx : Int) (PyEval.cplx true false)
                              pure out
                            : Except Err (PyEval.Arr3 K))
                          pure out
                          : Except Err (PyEval.Arr3 K)) else throw e))
                    pure out
                    : Except Err (PyEval.Arr3 K)))) out (PyEval.enumerate x_arr)
                pure out
              : Except Err (PyEval.Arr3 K)))
        pure out

end

end CtrlVerif.Generated
