-- GENERATED on every run by harness/core/py2lean_meq.py from control/mateqn.py (care cce9a966f0cfab4b).  Do not edit.
import CtrlVerif.Model.PyMeq
import CtrlVerif.Generated.MatEqnCheck
import CtrlVerif.Generated.MatEqnMethod

namespace CtrlVerif.Generated

open CtrlVerif MatEqn

variable {K : Type} [Field K] [LinearOrder K] [DecidableEq K]

/-- `control/mateqn.py:care` as the source text says it (sha256 of the function text
cce9a966f0cfab4bc8a7aec8efa717890432c540806da27073c19f771c00bcd9).
Defaults: E=None, R=None, S=None, _As='A', _Bs='B', _Es='E', _Qs='Q', _Rs='R', _Ss='S', method=None, stabilizing=True.
  note: `w, _ = eig(…)`: the eigenvectors are discarded, `w` are the eigenvalues
  note: `try: from slycot import … except ImportError: raise …`: Slycot is absent, the handler runs; the code after it is dead -/
def care {L : Type} (Sv : Solvers K) (ev : PyMeq.EigFun K L) (eps : K) (A : DMat K) (B : DMat K) (Q : DMat K) (R : Option (DMat K)) (S : Option (DMat K)) (E : Option (DMat K)) (stabilizing : Bool) (method : PyMeq.Method) (_As : String) (_Bs : String) (_Qs : String) (_Rs : String) (_Ss : String) (_Es : String) : Except Err (PMat K × L × PMat K) := do
  let method ← Generated.slycotOrScipy method
  let A : DMat K := (PyMeq.array2d A)
  let B : DMat K := (PyMeq.array2d B)
  let Q : DMat K := (PyMeq.array2d Q)
  let R : DMat K := (PyMeq.ifNone R (PyMeq.eye eps B.q) fun R => (PyMeq.array2d R))
  let S ← (do
    match S with
    | some S => do
      let S : DMat K := (PyMeq.array2d S)
      pure (some S)
    | none => do
      pure none
    : Except Err (Option (DMat K)))
  let E ← (do
    match E with
    | some E => do
      let E : DMat K := (PyMeq.array2d E)
      pure (some E)
    | none => do
      pure none
    : Except Err (Option (DMat K)))
  let n : Nat := A.p
  let m : Nat := B.q
  let _ ← Generated.checkShape A (n : Int) (n : Int) true false _As
  let _ ← Generated.checkShape B (n : Int) (m : Int) false false _Bs
  let _ ← Generated.checkShape Q (n : Int) (n : Int) true true _Qs
  let _ ← Generated.checkShape R (m : Int) (m : Int) true true _Rs
  match S, E with
  | none, none => do
    if (method = PyMeq.Backend.scipy) then do
      if (¬ (stabilizing = true)) then do
        throw Err.badArg
      else do
        let X ← PyMeq.solveContinuousAre Sv (PyMeq.toP A) (PyMeq.toP B) (PyMeq.toP Q) (PyMeq.toP R) none none
        let t1 ← PMat.matmul (PMat.T (PyMeq.toP B)) X
        let K_ ← PMat.solve (PyMeq.toP R) t1
        let t2 ← PMat.matmul (PyMeq.toP B) K_
        let t3 ← PMat.sub (PyMeq.toP A) t2
        let E ← PyMeq.eig ev t3 none
        pure (X, E, K_)
    else do
      throw Err.notImplemented
  | _, _ => do
    let S : DMat K := (PyMeq.ifNone S (PyMeq.zeros eps n m) fun S => (PyMeq.array2d S))
    let E : DMat K := (PyMeq.ifNone E (PyMeq.eye eps A.p) fun E => (PyMeq.array2d E))
    let _ ← Generated.checkShape E (n : Int) (n : Int) true false _Es
    let _ ← Generated.checkShape S (n : Int) (m : Int) false false _Ss
    if (method = PyMeq.Backend.scipy) then do
      if (¬ (stabilizing = true)) then do
        throw Err.badArg
      else do
        let X ← PyMeq.solveContinuousAre Sv (PyMeq.toP A) (PyMeq.toP B) (PyMeq.toP Q) (PyMeq.toP R) (some (PyMeq.toP E)) (some (PyMeq.toP S))
        let t1 ← PMat.matmul (PMat.T (PyMeq.toP B)) X
        let t2 ← PMat.matmul t1 (PyMeq.toP E)
        let t3 ← PMat.add t2 (PMat.T (PyMeq.toP S))
        let K_ ← PMat.solve (PyMeq.toP R) t3
        let t4 ← PMat.matmul (PyMeq.toP B) K_
        let t5 ← PMat.sub (PyMeq.toP A) t4
        let eigs ← PyMeq.eig ev t5 (some (PyMeq.toP E))
        pure (X, eigs, K_)
    else do
      throw Err.notImplemented

end CtrlVerif.Generated
