-- GENERATED on every run by harness/core/py2lean_p2phead.py from control/flatsys/flatsys.py (p2pHeadKwargs 17894bcbce67752a, sfoHeadKwargs c2587988108e4609).  Do not edit.
import CtrlVerif.Model.PyP2PHead

namespace CtrlVerif.Generated

open CtrlVerif

variable {ν : Type}

/-- block `p2pHeadKwargs` of `control/flatsys/flatsys.py:point_to_point` as the source text says it (sha256 of the text of the translated
statements 17894bcbce67752a7647c2966dccd24fffe600dc0cb3db0e5bc524b06f9d3953).
  note: the values popped from kwargs go into `minimize_kwargs` (handed to scipy.optimize.minimize; not modelled) -/
def p2pHeadKwargs (kwargs : PyNL.Dict String ν) :
    Except Err Unit :=
  do
    let kwargs : PyNL.Dict String ν := (PyHead.dictErase kwargs "minimize_method")
    let kwargs : PyNL.Dict String ν := (PyHead.dictErase kwargs "minimize_options")
    let kwargs : PyNL.Dict String ν := (PyHead.dictErase kwargs "minimize_kwargs")
    let _ ← (if (!kwargs.isEmpty) = true then (do
        throw Err.badArg
        : Except Err (Unit)) else (do
        pure ()
        : Except Err (Unit)))
    pure ()

/-- block `sfoHeadKwargs` of `control/flatsys/flatsys.py:solve_flat_optimal` as the source text says it (sha256 of the text of the translated
statements c2587988108e46094fbdeafc9516addc15684ccefcb3076fc9dd7414f4ac9d89).
  note: the values popped from kwargs go into `minimize_kwargs` (handed to scipy.optimize.minimize; not modelled) -/
def sfoHeadKwargs (kwargs : PyNL.Dict String ν) (trajectory_cost terminal_cost : Option Unit) :
    Except Err Unit :=
  do
    let kwargs : PyNL.Dict String ν := (PyHead.dictErase kwargs "minimize_method")
    let kwargs : PyNL.Dict String ν := (PyHead.dictErase kwargs "minimize_options")
    let kwargs : PyNL.Dict String ν := (PyHead.dictErase kwargs "minimize_kwargs")
    let _ ← (if ((trajectory_cost.isNone) && (terminal_cost.isNone)) = true then (do
        throw Err.badArg
        : Except Err (Unit)) else (do
        pure ()
        : Except Err (Unit)))
    let _ ← (if (!kwargs.isEmpty) = true then (do
        throw Err.badArg
        : Except Err (Unit)) else (do
        pure ()
        : Except Err (Unit)))
    pure ()

end CtrlVerif.Generated
