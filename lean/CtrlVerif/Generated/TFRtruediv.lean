-- GENERATED on every run by harness/core/py2lean_tf.py from control/xferfcn.py (__rtruediv__ 4f293966563f9d5b9e09a1691858991bb5387cc323cc70ce39a895becb61f42e).  Do not edit.
import CtrlVerif.Model.PyTF
import CtrlVerif.Generated.TFDivPow

namespace CtrlVerif.Generated.TF

open CtrlVerif

/-- `control/xferfcn.py:TransferFunction.__rtruediv__` as the source text says it (sha256 of the function text
4f293966563f9d5b9e09a1691858991bb5387cc323cc70ce39a895becb61f42e).
Defaults: none. -/
def rtruediv {K : Type} [Field K] [DecidableEq K] (self : DTF K) (other : PyTF.Operand K) :
    Except Err (DTF K) :=
  (do
    let other ← ((match other with
      | .tf other =>
        (do
          let other ← PyTF.convert (PyTF.Operand.tf other) 1 1
          pure (other))
      | other@(.ss _ _) =>
        (do
          let other ← PyTF.convert other 1 1
          pure (other))
      | .scalar other =>
        (do
          let other ← PyTF.convert (PyTF.Operand.scalar other) (PyTF.ninputs self) (PyTF.ninputs self)
          pure (other))
      | other@(.array _ _ _) =>
        (do
          let other ← PyTF.convert other 1 1
          pure (other))
      | other@(.foreign) =>
        (do
          let other ← PyTF.convert other 1 1
          pure (other))) : Except Err (DTF K))
    (if ((self.isSiso = true) ∧ (¬ (other.isSiso = true))) then
        (do
          let t6 ← Generated.TF.pow self (PyTF.Exponent.int (-1))
          let self ← PyTF.appendCopies t6 (PyTF.ninputs other)
          Generated.TF.mul other (PyTF.Operand.tf self))
      else
        (if ((1 < (PyTF.ninputs self)) ∨ (1 < (PyTF.noutputs self)) ∨ (1 < (PyTF.ninputs other)) ∨ (1 < (PyTF.noutputs other))) then
            (.error Err.notImplemented)
          else
            (Generated.TF.truediv other (PyTF.Operand.tf self)))))

end CtrlVerif.Generated.TF
