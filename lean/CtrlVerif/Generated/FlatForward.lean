-- GENERATED on every run by harness/core/py2lean_flat.py from control/flatsys/linflat.py (LinearFlatSystem.forward ea60c3fb153409d5).  Do not edit.
import CtrlVerif.Model.PyFlat

namespace CtrlVerif.Generated

open CtrlVerif

noncomputable section

variable {K : Type} [Field K] [DecidableEq K]

/-- `control/flatsys/linflat.py:LinearFlatSystem.forward` as the source text says it (sha256 of the function text
ea60c3fb153409d54eb4fc7b34b859cb1f696e5057b32f12082703db6027d8a1).
Defaults: none. -/
def linflatForward (self : PyLinFlat K) (x : List K) (u : List K) : Except Err (List (List K)) :=
  do
    let x : PMat K := (PyFlat.colOf x)
    let u : PMat K := (PyFlat.rowOf u)
    let t1 ← PyFlat.zeros1 ((self.sys.n : Int) + (1 : Int))
    let zflag : List (List K) := [t1]
    let t2 ← PMat.matmul self.Cf x
    let t3 ← PyFlat.item t2
    let t4 ← PyArith.getItem zflag (0 : Int)
    let t5 ← PyArith.setItem t4 (0 : Int) t3
    let zflag ← PyArith.setItem zflag (0 : Int) t5
    let H : PMat K := self.Cf
    let (zflag, H) ← List.foldlM (fun (t6 : List (List K) × PMat K) (i : Int) => ((do
        let zflag : List (List K) := t6.1
        let H : PMat K := t6.2
        let t7 ← PMat.matmul (PySS.A self.sys) x
        let t8 ← PMat.matmul (PySS.B self.sys) u
        let t9 ← PMat.add t7 t8
        let t10 ← PMat.matmul H t9
        let t11 ← PyFlat.item t10
        let t12 ← PyArith.getItem zflag (0 : Int)
        let t13 ← PyArith.setItem t12 i t11
        let zflag ← PyArith.setItem zflag (0 : Int) t13
        let H ← PMat.matmul H (PySS.A self.sys)
        pure (zflag, H)
        : Except Err (List (List K) × PMat K)))) (zflag, H) (PyArith.range (1 : Int) ((self.sys.n : Int) + (1 : Int)))
    pure zflag

end

end CtrlVerif.Generated
