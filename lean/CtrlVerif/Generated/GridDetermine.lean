-- GENERATED on every run by harness/core/py2lean_grid.py from control/freqplot.py:_determine_omega_vector (sha256 6f43696d36b29b6afa2b109671dbe4b0df0bda2e5212085c583e129eb322b5d4).  Do not edit.
import CtrlVerif.Model.PyGrid
import CtrlVerif.Generated.GridRange

namespace CtrlVerif.Generated

open CtrlVerif

/-- `control/freqplot.py:_determine_omega_vector` as the source text says it (sha256 of the function text
6f43696d36b29b6afa2b109671dbe4b0df0bda2e5212085c583e129eb322b5d4). -/
def determineOmegaVector {K : Type} [Field K] [LinearOrder K] [IsStrictOrderedRing K] [FloorRing K] (E : PyGrid.Ext K)
    (syslist : PyGrid.SysArg K) (omega_in : PyGrid.OmArg K) (omega_limits : PyGrid.OmArg K) (omega_num : Option ℕ) (Hz : Bool) (feature_periphery_decades : Option K) :
    Except Err (List K × Bool) :=
  (do
    let t4 ← ((if (!(PyGrid.OmArg.isNone omega_in)) && (!(PyGrid.OmArg.isNone omega_limits)) then
        (pure (omega_limits, omega_in))
      else
        (do
          let t2 ← (if PyGrid.OmArg.isSeq omega_in then (do
            let t1 ← PyGrid.OmArg.len omega_in
            pure (decide (t1 = (2)))) else (pure false) : Except Err Bool)
          let t3 : PyGrid.OmArg K × PyGrid.OmArg K := (if t2 then
              (let omega_limits : PyGrid.OmArg K := omega_in
              let omega_in : PyGrid.OmArg K := PyGrid.OmArg.none
              (omega_limits, omega_in))
            else
              ((omega_limits, omega_in)))
          let omega_limits : PyGrid.OmArg K := t3.1
          let omega_in : PyGrid.OmArg K := t3.2
          pure (omega_limits, omega_in))) : Except Err (PyGrid.OmArg K × PyGrid.OmArg K))
    let omega_limits : PyGrid.OmArg K := t4.1
    let omega_in : PyGrid.OmArg K := t4.2
    let omega_range_given : Bool := true
    let t12 ← ((if PyGrid.OmArg.isNone omega_in then
        (do
          let t10 ← ((if PyGrid.OmArg.isNone omega_limits then
              (do
                let omega_range_given : Bool := false
                let t5 ← defaultFrequencyRange E syslist Hz omega_num feature_periphery_decades
                let omega_out : List K := t5
                pure (omega_range_given, omega_out))
            else
              (do
                let t6 ← PyGrid.OmArg.toArr omega_limits
                let omega_limits : List K := t6
                if decide ((List.length omega_limits) ≠ (2)) then
                  (.error Err.badArg)
                else
                  (do
                    let t7 ← PyGrid.item omega_limits 0
                    let t8 ← PyGrid.item omega_limits 1
                    let t9 ← PyGrid.natOf omega_num
                    let omega_out : List K := PyGrid.logspace E.pow10 (E.log10 t7) (E.log10 t8) t9
                    pure (omega_range_given, omega_out)))) : Except Err (Bool × List K))
          let omega_range_given : Bool := t10.1
          let omega_out : List K := t10.2
          pure (omega_range_given, omega_out))
      else
        (do
          let t11 ← PyGrid.OmArg.toArr omega_in
          let omega_out : List K := t11
          pure (omega_range_given, omega_out))) : Except Err (Bool × List K))
    let omega_range_given : Bool := t12.1
    let omega_out : List K := t12.2
    pure (omega_out, omega_range_given))

end CtrlVerif.Generated
