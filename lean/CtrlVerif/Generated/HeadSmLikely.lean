-- GENERATED on every run by harness/core/py2lean_heads.py from control/margins.py:_likely_numerical_inaccuracy (sha256 421cf29af6c3050f24e84d37b78436fe7d30134d72cc5e01aeb5f6ad7ca30227).  Do not edit.
import CtrlVerif.Model.PyHeads
import CtrlVerif.Generated.PolyZInvz

namespace CtrlVerif.Generated.Heads

open CtrlVerif CtrlVerif.Margins CtrlVerif.Generated

/-- `control/margins.py:_likely_numerical_inaccuracy` as the source text says it (sha256 of the function text
421cf29af6c3050f24e84d37b78436fe7d30134d72cc5e01aeb5f6ad7ca30227); `np.linalg.norm` is the parameter `norm`. -/
def likelyNumericalInaccuracy {K : Type} [Field K] [LinearOrder K] (norm : List K → K) (num0 : List K) (den0 : List K) (dt0 : K) :
    Except Err Bool :=
  (do
    let zargs ← polyZInvz num0 den0 dt0
    let num : List K := zargs.1
    let den : List K := zargs.2.1
    let num_inv_zp : List K := zargs.2.2.1
    let den_inv_zq : List K := zargs.2.2.2.1
    let p_q : Int := zargs.2.2.2.2.1
    let dt : K := zargs.2.2.2.2.2
    let p1 : List K := (Margins.npmul num num_inv_zp)
    let p2 : List K := (Margins.npmul den den_inv_zq)
    (if (p_q < 0) then
        (do
          let x : List Int := (([1] : List Int) ++ (List.replicate (Int.toNat (-p_q)) 0))
          let p1 : List K := (Margins.npmul p1 (List.map (fun (c : Int) => (c : K)) x))
          pure (decide ((norm p1) < ((PyHeads.decimal 1 10000 : K) * (norm p2)))))
      else
        (pure (decide ((norm p1) < ((PyHeads.decimal 1 10000 : K) * (norm p2)))))))

end CtrlVerif.Generated.Heads
