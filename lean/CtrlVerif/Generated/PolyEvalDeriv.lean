-- GENERATED on every run by harness/core/py2lean_arith.py from control/flatsys/poly.py:PolyFamily.eval_deriv (sha256 36c93ba95d8887f4060c70b523efbff9695571a86dfc76b87ab38e5dc80374d3).  Do not edit.
import CtrlVerif.Model.PyArith

namespace CtrlVerif.Generated

open CtrlVerif

/-- `control/flatsys/poly.py:PolyFamily.eval_deriv` as the source text says it (sha256 of the function text
36c93ba95d8887f4060c70b523efbff9695571a86dfc76b87ab38e5dc80374d3).
Defaults: var=None. -/
def polyEvalDeriv {K : Type} [Field K] [LinearOrder K] (T : K) (i : Int) (k : Int) (t : K) :
    Except Err (K) :=
  (if (i < k) then
      (pure ((0 : K) * t))
    else
      (do
        let t1 ← PyArith.div (PyArith.factorial i : K) (PyArith.factorial (i - k) : K)
        let t2 ← PyArith.div t T
        let t3 ← PyArith.pow t2 (i - k)
        let t4 ← PyArith.pow T k
        let t5 ← PyArith.div (t1 * t3) t4
        pure t5))

end CtrlVerif.Generated
