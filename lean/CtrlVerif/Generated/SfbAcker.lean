-- GENERATED on every run by harness/core/py2lean_sfb.py from control/statefbk.py (place_acker f5420c90460f2723).  Do not edit.
import CtrlVerif.Model.PySfb
import CtrlVerif.Generated.SfbGram

namespace CtrlVerif.Generated

open CtrlVerif

noncomputable section

variable {K : Type} [Field K] [DecidableEq K]

/-- `control/statefbk.py:place_acker` as the source text says it (sha256 of the function text
f5420c90460f272378e8418786bf09ee4ee76c3c0acce676677d923e38878089).
Defaults: none. -/
def sfPlaceAcker {L : Type} [Field L] (re : L → K) (A : PMat K) (B : PMat K) (poles : List L) : Except Err (List K) :=
  do
    let A ← PySfb.ssmatrix A true none none
    let B ← PySfb.ssmatrix B false (some A.r) none
    let ct ← sfCtrb A B none
    if ((PMat.rank ct) ≠ A.r) then
      throw Err.illPosed
    else
      if (poles.length ≠ A.r) then
        throw Err.badArg
      else
        let p : List K := (PySfb.real re (PySfb.poly poles))
        let n : Nat := p.length
        let t3 ← PyArith.getItem p ((n : Int) - (1 : Int))
        let t4 ← PySfb.matrixPower A (0 : Int)
        let pmat : PMat K := (PMat.smul t3 t4)
        let pmat ← List.foldlM (fun (pmat : PMat K) (i : Int) => ((do
            let t7 ← PyArith.getItem p (((n : Int) - i) - (1 : Int))
            let t8 ← PySfb.matrixPower A i
            let pmat ← PMat.add pmat (PMat.smul t7 t8)
            pure pmat) : Except Err (PMat K))) pmat (PyArith.range (1 : Int) (n : Int))
        let K_v ← PMat.solve ct pmat
        let K_v ← PySfb.row K_v (-1 : Int)
        pure K_v

/-- `acker = place_acker` (module level of control/statefbk.py). -/
def sfAcker {L : Type} [Field L] (re : L → K) (A : PMat K) (B : PMat K) (poles : List L) : Except Err (List K) :=
  sfPlaceAcker re A B poles

end

end CtrlVerif.Generated
