-- GENERATED on every run by harness/core/py2lean_conv.py from control/statesp.py, control/xferfcn.py (_convert_to_statespace 307b8cd178d31804).  Do not edit.
import CtrlVerif.Model.PyConv

namespace CtrlVerif.Generated.Conv

open CtrlVerif

variable {K : Type} [Field K] [DecidableEq K]

/-- `control/statesp.py:_convert_to_statespace` as the source text says it (sha256 of the function text
307b8cd178d318041f7574b5842f1a063a60015bf33581a229b91eed65d61dab).
Defaults: use_prefix_suffix=False, method=None. -/
def convertToStatespace (tf2ss : List K → List K → Except Err (PMat K × PMat K × PMat K × PMat K)) (sys : PyConv.Opd K) (use_prefix_suffix : Bool) (method : Option String) : Except Err (PyConv.SSObj K) :=
  match sys with
  | .ss sys =>
    pure sys
  | .tf sys =>
    do
      let _ ← (if (PyConv.npAny (PyConv.listGt (PyConv.listGt PyConv.natGt) ((PyConv.TF.num sys).map fun (col : List (List K)) => (col.map fun (num : List K) => (List.length num))) ((PyConv.TF.den sys).map fun (col : List (List K)) => (col.map fun (num : List K) => (List.length num))))) = true then
        throw Err.nonProper
      else
        pure ()
        : Except Err (Unit))
      let newsys ← (if ((method = none) ∧ (PyConv.slycotCheck = true)) ∨ (method = some "slycot") then
        do
          let _ ← (if ¬ (PyConv.slycotCheck = true) then
            throw Err.badArg
          else
            pure ()
            : Except Err (Unit))
          PyConv.importSlycot
      else
        do
          let newsys ← (if method ∈ [none, some "scipy"] then
            do
              let t2 ← (PyConv.TF.num sys).mapM fun (nrow : List (List K)) => (do
                  let t1 ← PyConv.maxNat (nrow.map fun (n : List K) => (List.length n))
                  pure t1
                : Except Err Nat)
              let t3 ← PyConv.maxNat t2
              let maxn : Nat := t3
              let t5 ← (PyConv.TF.den sys).mapM fun (drow : List (List K)) => (do
                  let t4 ← PyConv.maxNat (drow.map fun (d : List K) => (List.length d))
                  pure t4
                : Except Err Nat)
              let t6 ← PyConv.maxNat t5
              let maxd : Nat := t6
              let newsys ← (if (1 = maxn) ∧ (1 = maxd) then
                do
                  let D : PyConv.EArr K := (PyConv.EArr.empty (PyConv.TF.noutputs sys) (PyConv.TF.ninputs sys))
                  let D ← List.foldlM (fun (D : (PyConv.EArr K)) (ij : Nat × Nat) => (do
                      let i : Nat := ij.1
                      let j : Nat := ij.2
                      let t7 ← PyConv.TF.numAt sys i j
                      let t8 ← PyConv.getNat t7 0
                      let t9 ← PyConv.TF.denAt sys i j
                      let t10 ← PyConv.getNat t9 0
                      let t11 ← PyConv.npDiv t8 t10
                      let D ← PyConv.EArr.setItem D i j t11
                      pure D
                    : Except Err ((PyConv.EArr K)))) D (PyConv.product (List.range (PyConv.TF.noutputs sys)) (List.range (PyConv.TF.ninputs sys)))
                  let t12 ← PyConv.EArr.freeze D
                  let newsys : PyConv.SSObj K := (PyConv.mkStaticSS t12 (PyConv.TF.dt sys))
                  pure newsys
              else
                do
                  let _ ← (if ¬ ((PyConv.TF.issiso sys) = true) then
                    throw Err.notImplemented
                  else
                    pure ()
                    : Except Err (Unit))
                  let t13 ← PyConv.squeezeSiso (PyConv.TF.num sys)
                  let t14 ← PyConv.squeezeSiso (PyConv.TF.den sys)
                  let t15 ← tf2ss t13 t14
                  let (A, B, C, D) := t15
                  let t16 ← PyConv.mkSS A B C D (PyConv.TF.dt sys)
                  let newsys : PyConv.SSObj K := t16
                  pure newsys
                : Except Err ((PyConv.SSObj K)))
              pure newsys
          else
            throw Err.badArg
            : Except Err ((PyConv.SSObj K)))
          pure newsys
        : Except Err ((PyConv.SSObj K)))
      let newsys ← PyConv.SSObj.copyNames newsys sys.names (if use_prefix_suffix = true then some "converted" else none)
      pure newsys
  | .frd =>
    throw Err.notImplemented
  | .scalar sys =>
    match (do
        let D : PMat K := (PyConv.ssmatrix (PyConv.scalar2d sys))
        pure (PyConv.mkStaticSS D Dt.none)
      : Except Err (PyConv.SSObj K)) with
    | .ok v => pure v
    | .error _ =>
      throw Err.notImplemented
  | .array sys =>
    match (do
        let D : PMat K := (PyConv.ssmatrix sys)
        pure (PyConv.mkStaticSS D Dt.none)
      : Except Err (PyConv.SSObj K)) with
    | .ok v => pure v
    | .error _ =>
      throw Err.notImplemented
  | .foreign =>
    match (do
        let t17 ← (PyConv.foreign2d : Except Err (PMat K))
        let D : PMat K := (PyConv.ssmatrix t17)
        pure (PyConv.mkStaticSS D Dt.none)
      : Except Err (PyConv.SSObj K)) with
    | .ok v => pure v
    | .error _ =>
      throw Err.notImplemented

end CtrlVerif.Generated.Conv
