-- GENERATED on every run by harness/core/py2lean_select.py from the source text in /repo (sha256 of each function below).  Do not edit.
import CtrlVerif.Model.PyArr

namespace CtrlVerif.Generated

open CtrlVerif MatEqn

/-- `_is_symmetric` (control/mateqn.py, sha256 7ff8baafb6fa56b2) as the source text says it.
-/
def isSymmetric {K : Type} [Field K] [LinearOrder K] (M : DMat K) : Except Err Bool := do
  let mut M := M
  M := PyArr.atleast2d M
  if (← PyArr.item00Inexact M) then
    let mut eps := (← PyArr.eps M)
    return (← PyArr.allDiffTLt M eps)
  else
    return (← PyArr.allEqT M)

/-- `_check_shape` (control/mateqn.py, sha256 9a89cb3dee3a8ecd) as the source text says it.
-/
def checkShape {K : Type} [Field K] [LinearOrder K] (M : DMat K) (n m : Int) (square symmetric : Bool) (name : String) : Except Err (DMat K) := do
  let mut M := M
  M := PyArr.atleast2d M
  if ((square || symmetric) && (decide ((PyArr.shape0 M) ≠ (PyArr.shape1 M)))) then
    throw Err.shape
  if (← (do if symmetric then pure (!(← isSymmetric M)) else pure false)) then
    throw Err.badArg
  if ((decide ((PyArr.shape0 M) ≠ n)) || (decide ((PyArr.shape1 M) ≠ m))) then
    throw Err.shape
  return M

end CtrlVerif.Generated
