-- GENERATED on every run by harness/core/py2lean_flat.py from control/flatsys/basis.py (BasisFamily.var_ncoefs 566be589d6c757cc).  Do not edit.
import CtrlVerif.Model.PyFlat

namespace CtrlVerif.Generated

open CtrlVerif

noncomputable section

variable {K : Type} [Field K] [DecidableEq K]

/-- `control/flatsys/basis.py:BasisFamily.var_ncoefs` as the source text says it (sha256 of the function text
566be589d6c757cc2c2f20d1b85474608b70b61ad1f49ceb947ed7d18ec34cdd).
Defaults: none.
  note: `self.nvars` is None (PolyFamily / BezierFamily objects)
  note: `self.nvars is None` is statically True -/
def basisVarNcoefs (self : Basis K) (var : Int) : Except Err (Nat) :=
  do
    pure (PyFlat.basisN self)

end

end CtrlVerif.Generated
