-- GENERATED on every run by harness/core/py2lean_nl.py from control/nlsys.py (nlDiscGrid 245e54ed5b059f81).  Do not edit.
import CtrlVerif.Model.PyNL

namespace CtrlVerif.Generated

open CtrlVerif

/-- block `nlDiscGrid` of `control/nlsys.py` as the source text says it (sha256 of the text of the translated
statements 245e54ed5b059f818240ee7b70e4b865827f28b1d91dc9368157b49c17c69400).
  note: returns dt
  note: `t_eval is None` is False (the evaluation times are an array here; `np.arange` default not translated) -/
def nlDiscGrid (sysdt : Dt) (t_eval : List ℚ) :
    Except Err ℚ :=
  match sysdt with
  | .disc h => do
    let t1 ← PyArith.getItem t_eval (1 : Int)
    let t2 ← PyArith.getItem t_eval (0 : Int)
    let dt : ℚ := (t1 - t2)
    let t3 ← PyNL.vsub (PyNL.sliceFrom t_eval (1 : Int)) (PyNL.sliceTo t_eval (-1 : Int))
    if ¬ (PyNL.allcloseNum t3 dt = true) then
      throw Err.timebase
    if ¬ (close dt h = true) then
      throw Err.timebase
    pure dt
  | .dtrue => do
    let t1 ← PyArith.getItem t_eval (1 : Int)
    let t2 ← PyArith.getItem t_eval (0 : Int)
    let dt : ℚ := (t1 - t2)
    let t3 ← PyNL.vsub (PyNL.sliceFrom t_eval (1 : Int)) (PyNL.sliceTo t_eval (-1 : Int))
    if ¬ (PyNL.allcloseNum t3 dt = true) then
      throw Err.timebase
    pure dt
  | _ => throw Err.notImplemented   -- not reached: the branch is taken for dt = True / dt > 0 only

end CtrlVerif.Generated
