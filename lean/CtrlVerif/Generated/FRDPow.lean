-- GENERATED on every run by harness/core/py2lean_frd.py from control/frdata.py (__pow__ ba6d0fb6caf8202f).  Do not edit.
import CtrlVerif.Model.PyFRD
import CtrlVerif.Generated.FRDMul
import CtrlVerif.Generated.FRDDiv

namespace CtrlVerif.Generated

open CtrlVerif

noncomputable section

variable {K : Type} [Field K] [DecidableEq K]

/-- `control/frdata.py:FrequencyResponseData.__pow__` as the source text says it (sha256 of the function text
ba6d0fb6caf8202f425456fb06a30b3de3f933345850f25afb40f16dd8bc3b7e).
Defaults: none.
  note: a path falls off the end of the method (Python returns None): `throw Err.badArg` -/
def frdPow (E : Env K) (self : PyFRD K) (other : Int) : Except Err (PyFRD K) :=
  do
    if h1 : (other = (0 : Int)) then
      let unity ← PArr3.mulKVec (PArr3.ofMat (PMat.eyeRect (PyFRD.noutputs self) (PyFRD.ninputs self))) (PKVec.ones (PyFRD.omega self).n)
      PyFRD.ctor unity (PyFRD.omega self) self.dt (PyFRD.smooth self)
    else
      if h2 : (other > (0 : Int)) then
        let t2 ← frdPow E self (other - (1 : Int))
        frdMul E self (PyOpd.frd t2)
      else
        if h3 : (other < (0 : Int)) then
          let t4 ← PyFRD.ctor (PArr3.ones (PyFRD.frdata self).p (PyFRD.frdata self).m (PyFRD.frdata self).n) (PyFRD.omega self) self.dt false
          let t5 ← frdTruediv E t4 (PyOpd.frd self)
          let t6 ← frdPow E self (other + (1 : Int))
          frdMul E t5 (PyOpd.frd t6)
        else
          throw Err.badArg
termination_by other.natAbs
decreasing_by all_goals omega

end

end CtrlVerif.Generated
