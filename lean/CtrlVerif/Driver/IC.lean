/-
Driver for the interconnect family.  One line = one call of `interconnect`:

  ic <nsys> SYS*  CONNS  <inplistNone 0|1> IOLIST <inputs _|n>  <outlistNone> IOLIST <outputs _|n>  <addUnused 0|1>

  SYS    := <name> <nin> LABEL* <nout> LABEL* ( L <n> A… B… C… D…  |  X )
  LABEL  := <raw> ( 0 | 1 <base> <k> )
  CONNS  := I | F | E <count> ( A SPEC | L <count> SPEC* )*
  IOLIST := <count> ( B <neg 0|1> <raw> NAMETOK | S SPEC | L <count> SPEC* )*
  SPEC   := X | S (i <int> | n <name>) <sysNeg 0|1> SIG <sigNeg 0|1> (_ | <rat>)
  SIG    := a | i <int> | l <count> <int>* | n <count> NAMETOK*
  NAMETOK:= sl <base> (_|<nat>) (_|<nat>) | bs <name> | ex <name>

or one operator expression on I/O systems (`NonlinearIOSystem.__add__`, … , `feedback`):

  ic op EXPR
  EXPR   := s SYS | k <p> <m> <rat>*            (leaf; number / array as `_convert_to_iosystem` makes it)
          | add EXPR EXPR | sub EXPR EXPR | mul EXPR EXPR | neg EXPR | fb EXPR EXPR <sign rat>

(every inner node is evaluated to its linear system, which is the subsystem of the node above).

Either form may be followed by evaluation requests (the interconnected system used: its `_rhs` /
`_out` at given points, a discrete-time simulation):

  EVAL   := ev <k> ( POOL POOL )^k        -- k points: state values, external input values
          | tr <N> POOL ( POOL )^N        -- initial state, then the input sample of each step
  POOL   := <count> <rat>*                -- entry i of the vector = i-th value (0 beyond the end)

Answer: `ok <nin> <nout> cm MAT im MAT om MAT [un <k> LABEL* <k> LABEL*] (lin <n> A B C D | nl)`
(`un …` only with addUnused = 1: names of the appended inputs / outputs) or `err <Err>`; for each
request ` ev RHS OUT` (`n x k` and `nout x k`, one column per point) / ` tr XS YS` (`n x N`,
`nout x N`) or ` ev err <Err>` / ` tr err <Err>`.  The evaluations run `Wiring.eval`'s loop
(`evalBatch`, in the tabulated form) and `IC.dtTraj`.
The maps come from `IC.interconnect`; the linear part runs `IC.staticLoop` on the batch of unit
perturbations with `Wiring.stepN` (= `Wiring.step`, tabulated between cycles) and reads A, B, C, D off
`Wiring.rhs` / `Wiring.out`.
-/
import CtrlVerif.Driver.Mat
import CtrlVerif.Driver.SS
import CtrlVerif.Model.Interconnect

namespace CtrlVerif.Driver.IC

open CtrlVerif CtrlVerif.Driver CtrlVerif.IC

def pBool : P Bool := do
  let t ← tok
  if t == "0" then pure false else if t == "1" then pure true else throw s!"bool:{t}"

def pOptNat : P (Option Nat) := do
  let t ← tok
  if t == "_" then pure none
  else match t.toNat? with
    | some n => pure (some n)
    | none => throw s!"optnat:{t}"

def pOptRat : P (Option Q) := do
  let t ← tok
  if t == "_" then pure none
  else match parseRat t with
    | some q => pure (some q)
    | none => throw s!"optrat:{t}"

def pLabel : P Label := do
  let raw ← tok
  let f ← tok
  if f == "0" then pure ⟨raw, none⟩
  else if f == "1" then
    let b ← tok
    let k ← pNat
    pure ⟨raw, some (b, k)⟩
  else throw s!"label:{f}"

def pNameTok : P NameTok := do
  let t ← tok
  match t with
  | "sl" => do
    let b ← tok
    let lo ← pOptNat
    let hi ← pOptNat
    pure (.slice b lo hi)
  | "bs" => do pure (.base (← tok))
  | "ex" => do pure (.exact (← tok))
  | _ => throw s!"nametok:{t}"

def pSpec : P (Spec Q) := do
  let t ← tok
  match t with
  | "X" => pure .malformed
  | "S" => do
    let st ← tok
    let sys ← (match st with
      | "i" => do pure (SysRef.idx (← pInt))
      | "n" => do pure (SysRef.name (← tok))
      | _ => throw s!"sysref:{st}")
    let sneg ← pBool
    let gt ← tok
    let sig ← (match gt with
      | "a" => pure SigRef.all
      | "i" => do pure (SigRef.idx (← pInt))
      | "l" => do pure (SigRef.idxs (← pList pInt))
      | "n" => do pure (SigRef.names (← pList pNameTok))
      | _ => throw s!"sig:{gt}")
    let gneg ← pBool
    let gain ← pOptRat
    pure (.mk sys sneg sig gneg gain)
  | _ => throw s!"spec:{t}"

/-- numeric part of a subsystem (`none` = not a `StateSpace` object). -/
structure SysData where
  sig : SysSig
  lin : Option (DSS Q)

def pSys : P SysData := do
  let name ← tok
  let ins ← pList pLabel
  let outs ← pList pLabel
  let k ← tok
  let m := ins.length
  let p := outs.length
  match k with
  | "X" => pure ⟨⟨name, ins, outs⟩, none⟩
  | "L" => do
    let n ← pNat
    let A ← pMatSized n n
    let B ← pMatSized n m
    let C ← pMatSized p n
    let D ← pMatSized p m
    pure ⟨⟨name, ins, outs⟩, some ⟨n, p, m, ⟨A, B, C, D⟩, .cont⟩⟩
  | _ => throw s!"syskind:{k}"

def pConns : P (ConnArg Q) := do
  let t ← tok
  match t with
  | "I" => pure .implicit
  | "F" => pure .off
  | "E" => do
    let l ← pList (do
      let k ← tok
      match k with
      | "A" => do pure (ConnEntry.atom (← pSpec))
      | "L" => do pure (ConnEntry.list (← pList pSpec))
      | _ => throw s!"conn:{k}")
    pure (.explicit l)
  | _ => throw s!"conns:{t}"

def pIOList : P (List (IOEntry Q)) :=
  pList (do
    let k ← tok
    match k with
    | "B" => do
      let neg ← pBool
      let raw ← tok
      let nt ← pNameTok
      pure (IOEntry.bare neg raw nt)
    | "S" => do pure (IOEntry.single (← pSpec))
    | "L" => do pure (IOEntry.list (← pList pSpec))
    | _ => throw s!"io:{k}")

/-- stack the subsystems block-diagonally (`append`), tabulating after every step. -/
def stack (l : List (DSS Q)) : Except Err (DSS Q) := do
  let mut acc : DSS Q := ⟨0, 0, 0, ⟨0, 0, 0, 0⟩, .cont⟩
  for g in l do
    let r ← acc.append g
    acc := SS.force r
  pure acc

def colsL {r a b : Nat} (M : Matrix (Fin r) (Fin (a + b)) Q) : Matrix (Fin r) (Fin a) Q :=
  fun i j => M i (Fin.castAdd b j)

def colsR {r a b : Nat} (M : Matrix (Fin r) (Fin (a + b)) Q) : Matrix (Fin r) (Fin b) Q :=
  fun i j => M i (Fin.natAdd a j)

/-- the linear interconnection: batch of unit perturbations of the `N` states and `nin`
external inputs, propagation loop, then `_rhs` / `_out`. -/
def evalBatch (nsys : Nat) (m : Maps Q) (G : DSS Q) (h : G.m = m.nu ∧ G.p = m.ny) (k : Nat)
    (Xs : Matrix (Fin G.n) (Fin k) Q) (Ws : Matrix (Fin m.nin) (Fin k) Q) :
    Except Err (Matrix (Fin G.n) (Fin k) Q × Matrix (Fin m.nout) (Fin k) Q) :=
    let g : SS (Fin G.n) (Fin m.nu) (Fin m.ny) Q := G.sys.castIO h.2 h.1
    let kc := tabulate (toMat m.nu m.ny m.connect)
    let im := tabulate (toMat m.nu m.nin m.inp)
    let om := tabulate (toMat m.nout (m.ny + m.nu) m.out)
    let omM : Matrix (Fin m.nout) (Fin (m.ny + m.nu)) Q := ofTable om
    let oy := tabulate (colsL omM)
    let ou := tabulate (colsR omM)
    let W : Wiring (Fin m.nu) (Fin m.ny) (Fin m.nin) (Fin m.nout) Q :=
      ⟨ofTable kc, ofTable im, ofTable oy, ofTable ou⟩
    let u0 := tabulate (W.M * Ws)
    let nn := tabulate (W.Kc * g.D)
    let cx := tabulate (g.C * Xs)
    let rr := tabulate (W.Kc * (ofTable cx : Matrix (Fin m.ny) (Fin k) Q)
      + (ofTable u0 : Matrix (Fin m.nu) (Fin k) Q))
    let step : Array Q → Array Q := fun t =>
      tabulate (Wiring.stepN (ofTable nn : Matrix (Fin m.nu) (Fin m.nu) Q)
        (ofTable rr : Matrix (Fin m.nu) (Fin k) Q)
        (ofTable t : Matrix (Fin m.nu) (Fin k) Q))
    match staticLoop step (nsys + 1) u0 with
    | .error e => .error e
    | .ok u =>
      let U : Matrix (Fin m.nu) (Fin k) Q := ofTable u
      let ab := tabulate (Wiring.rhs g Xs U)
      let cd := tabulate (W.out g Xs U)
      .ok (ofTable ab, ofTable cd)

def linearSys (nsys : Nat) (m : Maps Q) (G : DSS Q) : Except String (Except Err (DSS Q)) :=
  if h : G.m = m.nu ∧ G.p = m.ny then
    let Xs : Matrix (Fin G.n) (Fin (G.n + m.nin)) Q :=
      fun i j => if j.val = i.val then 1 else 0
    let Ws : Matrix (Fin m.nin) (Fin (G.n + m.nin)) Q :=
      fun i j => if j.val = G.n + i.val then 1 else 0
    match evalBatch nsys m G h (G.n + m.nin) Xs Ws with
    | .error e => .ok (.error e)
    | .ok (AB, CD) =>
      .ok (.ok (SS.force ⟨G.n, m.nout, m.nin, ⟨colsL AB, colsR AB, colsL CD, colsR CD⟩, .cont⟩))
  else .error "stack-shape"

/-! evaluation requests -/

/-- the call raised: there is no system to evaluate, the requests are not read. -/
def dropRequests : P Unit := set ([] : List String)

def pPool : P (Array Q) := do pure (← pList pRat).toArray

/-- column `j` of the batch = the first `n` values of pool `j` (0 beyond its end). -/
def poolMat (n : Nat) (pools : Array (Array Q)) : Matrix (Fin n) (Fin pools.size) Q :=
  fun i j => (pools.getD j.val #[]).getD i.val 0

def evalRequests (nsys : Nat) (m : Maps Q) (G : DSS Q) : P String := do
  if h : G.m = m.nu ∧ G.p = m.ny then
    let mut out := ""
    while !(← atEnd) do
      let t ← tok
      match t with
      | "ev" =>
        let pts ← pList (do
          let x ← pPool
          let w ← pPool
          pure (x, w))
        let xs := (pts.map (·.1)).toArray
        let ws := (pts.map (·.2)).toArray
        if hk : ws.size = xs.size then
          let xt := tabulate (poolMat G.n xs)
          let wt := tabulate (poolMat m.nin ws)
          match evalBatch nsys m G h xs.size (ofTable xt) (ofTable wt) with
          | .error e => out := out ++ " ev " ++ showErr e
          | .ok (F, H) => out := out ++ " ev " ++ showMat F ++ " " ++ showMat H
        else throw "ev-sizes"
      | "tr" =>
        let N ← pNat
        let x0 ← pPool
        let ws ← pArray N pPool
        let f : Array Q → Array Q → Except Err (Array Q × Array Q) := fun x w =>
          (evalBatch nsys m G h 1 (ofTable x) (ofTable w)).map
            fun FH => (tabulate FH.1, tabulate FH.2)
        let x0t := tabulate (poolMat G.n #[x0])
        let wl := ws.toList.map fun w => tabulate (poolMat m.nin #[w])
        match IC.dtTraj f x0t wl with
        | .error e => out := out ++ " tr " ++ showErr e
        | .ok l =>
          let la := l.toArray
          let XS : Matrix (Fin G.n) (Fin la.size) Q :=
            fun i j => ((la.getD j.val (#[], #[])).1).getD i.val 0
          let YS : Matrix (Fin m.nout) (Fin la.size) Q :=
            fun i j => ((la.getD j.val (#[], #[])).2).getD i.val 0
          out := out ++ " tr " ++ showMat XS ++ " " ++ showMat YS
      | _ => throw s!"eval-request:{t}"
    pure out
  else throw "stack-shape"

def showLin (T : DSS Q) : String :=
  s!"lin {T.n} " ++ showMat T.sys.A ++ " " ++ showMat T.sys.B ++ " "
    ++ showMat T.sys.C ++ " " ++ showMat T.sys.D

def linearPart (nsys : Nat) (m : Maps Q) (G : DSS Q) : Except String (Except Err String) :=
  (linearSys nsys m G).map fun r => r.map showLin

def showMaps (m : Maps Q) : String :=
  s!"ok {m.nin} {m.nout} cm " ++ showMat (toMat m.nu m.ny m.connect)
    ++ " im " ++ showMat (toMat m.nu m.nin m.inp)
    ++ " om " ++ showMat (toMat m.nout (m.ny + m.nu) m.out)

/-- `add_unused=True`: the labels of the appended external inputs / outputs (`IC.addedLabels`),
in the order of the appended columns of `input_map` / rows of `output_map`:
` un <k> <label>* <k> <label>*`. -/
def showAdded (a : Args Q) : String :=
  if !a.addUnused then ""
  else
    match addedLabels a with
    | .error e => " un " ++ showErr e
    | .ok (li, lo) =>
      let sh := fun (l : List String) => s!"{l.length}" ++ String.join (l.map fun x => " " ++ x)
      " un " ++ sh li ++ " " ++ sh lo

/-! operator expressions -/

inductive OpExpr where
  | leaf (s : SysData)
  | const (p m : Nat) (D : Matrix (Fin p) (Fin m) Q)
  | add (a b : OpExpr)
  | sub (a b : OpExpr)
  | mul (a b : OpExpr)
  | neg (a : OpExpr)
  | fb (a b : OpExpr) (sign : Q)

partial def pOpExpr : P OpExpr := do
  let t ← tok
  match t with
  | "s" => do pure (.leaf (← pSys))
  | "k" => do
    let p ← pNat
    let m ← pNat
    let D ← pMatSized p m
    pure (.const p m D)
  | "add" => do
    let a ← pOpExpr
    let b ← pOpExpr
    pure (.add a b)
  | "sub" => do
    let a ← pOpExpr
    let b ← pOpExpr
    pure (.sub a b)
  | "mul" => do
    let a ← pOpExpr
    let b ← pOpExpr
    pure (.mul a b)
  | "neg" => do pure (.neg (← pOpExpr))
  | "fb" => do
    let a ← pOpExpr
    let b ← pOpExpr
    let sg ← pRat
    pure (.fb a b sg)
  | _ => throw s!"opexpr:{t}"

/-- a node of an operator expression: what the node above sees of it (signal counts, linear
dynamics) and, for an operator node, its three maps. -/
structure Node where
  sig : SysSig
  lin : DSS Q
  maps : Option (Maps Q)
  /-- for an operator node: number of subsystems and their block-diagonal stack -/
  inner : Option (Nat × DSS Q) := none

def anonSig (m p : Nat) : SysSig :=
  ⟨"_", List.replicate m ⟨"_", none⟩, List.replicate p ⟨"_", none⟩⟩

/-- the `InterconnectedSystem` an operator returns, from its subsystems and its maps. -/
def combine (kids : List Node) (r : Except Err (Maps Q)) : Except String (Except Err Node) :=
  match r with
  | .error e => .ok (.error e)
  | .ok m =>
    match stack (kids.map (·.lin)) with
    | .error e => .error s!"stack:{e}"
    | .ok G =>
      match linearSys kids.length m G with
      | .error e => .error e
      | .ok (.error e) => .ok (.error e)
      | .ok (.ok T) => .ok (.ok ⟨anonSig m.nin m.nout, T, some m, some (kids.length, G)⟩)

def bin (ra rb : Except Err Node) (f : Node → Node → Except String (Except Err Node)) :
    Except String (Except Err Node) :=
  match ra, rb with
  | .error e, _ => .ok (.error e)
  | _, .error e => .ok (.error e)
  | .ok x, .ok y => f x y

def evalOp : OpExpr → Except String (Except Err Node)
  | .leaf s =>
    match s.lin with
    | some g => .ok (.ok ⟨s.sig, g, none, none⟩)
    | none => .error "leaf-not-linear"
  | .const p m D => .ok (.ok ⟨anonSig m p, ⟨0, p, m, ⟨0, 0, 0, D⟩, .cont⟩, none, none⟩)
  | .add a b => do
    bin (← evalOp a) (← evalOp b) fun x y => combine [x, y] (opAdd x.sig y.sig)
  | .sub a b => do
    bin (← evalOp a) (← evalOp b) fun x y => combine [x, y] (opSub x.sig y.sig)
  | .mul a b => do
    bin (← evalOp a) (← evalOp b) fun x y => combine [y, x] (opSeries y.sig x.sig)
  | .neg a => do
    match (← evalOp a) with
    | .error e => pure (.error e)
    | .ok x => combine [x] (opNeg x.sig)
  | .fb a b sg => do
    bin (← evalOp a) (← evalOp b) fun x y => combine [x, y] (opFeedback x.sig y.sig sg)

def runOp : P String := do
  let e ← pOpExpr
  match evalOp e with
  | .error e => throw e
  | .ok (.error e) => do dropRequests; pure (showErr e)
  | .ok (.ok nd) =>
    match nd.maps, nd.inner with
    | some m, some (k, G) =>
      let ev ← evalRequests k m G
      pure (showMaps m ++ " " ++ showLin nd.lin ++ ev)
    | _, _ => throw "op-leaf"

def run : P String := do
  let syss ← pList pSys
  let conns ← pConns
  let inNone ← pBool
  let inl ← pIOList
  let inputs ← pOptNat
  let outNone ← pBool
  let outl ← pIOList
  let outputs ← pOptNat
  let addU ← pBool
  let sigs := syss.map (·.sig)
  let args : Args Q := ⟨sigs, conns, inNone, inl, inputs, outNone, outl, outputs, addU⟩
  match interconnect args with
  | .error e => do dropRequests; pure (showErr e)
  | .ok m =>
    let head := showMaps m ++ showAdded args
    match syss.mapM (·.lin) with
    | none => pure (head ++ " nl")
    | some lins =>
      match stack lins with
      | .error e => throw s!"stack:{e}"
      | .ok G =>
        match linearPart syss.length m G with
        | .error e => throw e
        | .ok (.error e) => do dropRequests; pure (showErr e)
        | .ok (.ok s) =>
          let ev ← evalRequests syss.length m G
          pure (head ++ " " ++ s ++ ev)

def handle (toks : List String) : String :=
  match toks with
  | "op" :: rest => runLine runOp rest
  | _ => runLine run toks

end CtrlVerif.Driver.IC
