/-
Line-protocol utilities: token parser monad, rational encoding.  Trusted glue.
-/
import CtrlVerif.Model.Err
import CtrlVerif.Model.Dt

namespace CtrlVerif.Driver

/-- token-stream parser. -/
abbrev P := StateT (List String) (Except String)

def tok : P String := do
  match (← get) with
  | [] => throw "eof"
  | t :: ts => set ts; pure t

def peek? : P (Option String) := do
  match (← get) with
  | [] => pure none
  | t :: _ => pure (some t)

def atEnd : P Bool := do pure (← get).isEmpty

def pNat : P Nat := do
  let t ← tok
  match t.toNat? with
  | some n => pure n
  | none => throw s!"nat:{t}"

def pInt : P Int := do
  let t ← tok
  match t.toInt? with
  | some n => pure n
  | none => throw s!"int:{t}"

def parseRat (t : String) : Option Rat :=
  match t.splitOn "/" with
  | [a] => a.toInt?.map fun n => (n : Rat)
  | [a, b] => do
    let n ← a.toInt?
    let d ← b.toNat?
    if d = 0 then none else some ((n : Rat) / (d : Rat))
  | _ => none

def pRat : P Rat := do
  let t ← tok
  match parseRat t with
  | some q => pure q
  | none => throw s!"rat:{t}"

def pList {α} (p : P α) : P (List α) := do
  let n ← pNat
  let mut out : Array α := #[]
  for _ in [0:n] do
    out := out.push (← p)
  pure out.toList

def pArray {α} (n : Nat) (p : P α) : P (Array α) := do
  let mut out : Array α := #[]
  for _ in [0:n] do
    out := out.push (← p)
  pure out

def pDt : P Dt := do
  let t ← tok
  if t == "N" then pure .none
  else if t == "C" then pure .cont
  else if t == "T" then pure .dtrue
  else if t.startsWith "D" then
    match parseRat (t.drop 1).toString with
    | some q => pure (.disc q)
    | none => throw s!"dt:{t}"
  else throw s!"dt:{t}"

def showRat (q : Rat) : String :=
  if q.den = 1 then toString q.num else s!"{q.num}/{q.den}"

def showDt : Dt → String
  | .none => "N" | .cont => "C" | .dtrue => "T" | .disc h => "D" ++ showRat h

def showRats (l : List Rat) : String :=
  toString l.length ++ String.join (l.map fun q => " " ++ showRat q)

def showErr (e : Err) : String := "err " ++ toString e

/-- run a parser-based handler on the tokens of one line. -/
def runLine (h : P String) (toks : List String) : String :=
  match (h.run toks) with
  | .ok (s, []) => s
  | .ok (_, r) => s!"bad-op trailing:{r.length}"
  | .error e => s!"bad-op {e}"

end CtrlVerif.Driver
