/-
Driver for the margins family (`mg`): runs `Model/Margins.lean` over `ℚ` / `ℚ(i)`.
Trusted glue (parsing / printing only).

  mg smc <num> <den> <epsw> <roots180> <roots1> <rootsStab>
  mg smd <num> <den> <epsTable> <tol2> <roots180> <roots1> <zstab> <witnesses>
     (witnesses: candidate points for the minimality check of the discrete stability margin; only
      those exactly on the unit circle count; output `M` = the best witness with its response,
      `R` = per reported minimiser `1` when it is refuted by the best witness)
  mg bw  <num> <den> <p0> <dbdrop> <thr> <grid> <rootpoint (0 or 1 entries)>
  mg frd <samples>      (sampled-data route: complex samples of the response on the frequency grid;
     output `Z` = 1 when a sample lies exactly on the real axis (phase brackets outside the model), `P` / `G` / `S` =
     indices of the grid intervals handed to the root finder for phase crossover / gain crossover / stability margin)

lists: `n v…`; complex lists: `n re im …`.
-/
import CtrlVerif.Driver.Util
import CtrlVerif.Model.Margins
import CtrlVerif.Model.MarginsFrd
import Mathlib.Algebra.Order.Field.Rat
import Mathlib.Algebra.Order.Ring.Rat

namespace CtrlVerif.Driver.Margins

open CtrlVerif CtrlVerif.Driver CtrlVerif.Margins

abbrev Q := Rat
abbrev QI := Cx Q

def pCx : P QI := do
  let re ← pRat
  let im ← pRat
  pure ⟨re, im⟩

def showCx (z : QI) : String := showRat z.re ++ " " ++ showRat z.im

def showOpt : Option QI → String
  | some r => "1 " ++ showCx r
  | none => "0"

def showListWith {α} (f : α → String) (l : List α) : String :=
  toString l.length ++ String.join (l.map fun a => " " ++ f a)

def idxOf {α} (o : Option (Nat × α)) : String :=
  match o with
  | some (i, _) => toString i
  | none => "-1"

def withIdx {α β} (l : List (α × β)) : List (Nat × β) :=
  (List.range l.length).zip (l.map (·.2))

/-- default indices `gi pi si` (`-1`: none, `-2`: a response does not exist). -/
def showDefaults {α} (A : List (α × QI)) (B S : List (α × Option QI)) : String :=
  let gi := idxOf (defaultGm (withIdx A))
  let pi := match allSome B with
    | some b => idxOf (defaultPm (withIdx b))
    | none => "-2"
  let si := match allSome S with
    | some s => idxOf (defaultSm (withIdx s))
    | none => "-2"
  s!"I {gi} {pi} {si}"

def handleSmc : P String := do
  let num ← pList pRat
  let den ← pList pRat
  let epsw ← pRat
  let r180 ← pList pCx
  let r1 ← pList pCx
  let rs ← pList pCx
  if num.isEmpty || den.isEmpty then throw "empty"
  let t180 := realCrossingPoly num den
  let t1 := mag1Poly num den
  let ts := wstabPoly num den
  let X := realAxisCandidates num den epsw r180
  let A := phaseCrossings num den epsw r180
  let B := gainCrossings num den epsw r1
  let S := stabCrossings num den epsw rs
  let dts := polyder ts
  let Dv := ((realRoots rs).filter (fun w => epsw < w)).map fun w => (w, polyval dts w)
  pure <| "ok P " ++ showRats t180 ++ " " ++ showRats t1 ++ " " ++ showRats ts
    ++ " X " ++ showListWith (fun c => showRat c.1 ++ " " ++ showOpt c.2) X
    ++ " A " ++ showListWith (fun c => showRat c.1 ++ " " ++ showCx c.2) A
    ++ " B " ++ showListWith (fun c => showRat c.1 ++ " " ++ showOpt c.2) B
    ++ " S " ++ showListWith (fun c => showRat c.1 ++ " " ++ showOpt c.2) S
    ++ " D " ++ showListWith (fun c => showRat c.1 ++ " " ++ showRat c.2) Dv
    ++ " " ++ showDefaults A B S

def handleSmd : P String := do
  let num ← pList pRat
  let den ← pList pRat
  let epsT ← pList pRat
  let tol2 ← pRat
  let r180 ← pList pCx
  let r1 ← pList pCx
  let zs ← pList pCx
  let ws ← pList pCx
  if num.isEmpty || den.isEmpty then throw "empty"
  match zProper num den with
  | .error e => pure (showErr e)
  | .ok () =>
    let t180 := zRealCrossingPoly num den
    let t1 := zMag1Poly num den
    let l180 := (zRealP2 num den).length
    let l1 := (zMag1P2 den).length
    match epsT[l180 - 1]?, epsT[l1 - 1]? with
    | some e180, some e1 =>
      let X := zRealAxisCandidates num den e180 r180
      let A := zPhaseCrossings num den e180 r180
      let B := zGainCrossings num den e1 r1
      let S : List (QI × Option QI) := zs.map fun z => (z, respAt num den z)
      let fb := likelyInaccurate num den tol2
      pure <| "ok P " ++ showRats t180 ++ " " ++ toString l180 ++ " " ++ showRats t1 ++ " " ++ toString l1
        ++ " F " ++ (if fb then "1" else "0") ++ " " ++ showRat (coeffNormSq (zMag1P1 num den))
        ++ " " ++ showRat (coeffNormSq (zMag1P2 den))
        ++ " X " ++ showListWith (fun c => showCx c.1 ++ " " ++ showOpt c.2) X
        ++ " A " ++ showListWith (fun c => showCx c.1 ++ " " ++ showCx c.2) A
        ++ " B " ++ showListWith (fun c => showCx c.1 ++ " " ++ showOpt c.2) B
        ++ " S " ++ showListWith (fun c => showCx c.1 ++ " " ++ showOpt c.2) S
        ++ " M " ++ (match bestWitness num den ws with
            | some w => "1 " ++ showCx w.1 ++ " " ++ showCx w.2
            | none => "0")
        ++ " R " ++ showListWith (fun c : QI × Option QI => match c.2 with
            | some r => if smRefuted num den ws r then "1" else "0"
            | none => "0") S
        ++ " " ++ showDefaults A B S
    | _, _ => throw "epsTable"

/-- smallest relative distance of a sampled squared gain from the threshold among the first
`n` samples (conditioning guard for the harness). -/
def minGap (num den : List Q) (t2 : Q) (grid : List QI) (n : Nat) : Q :=
  (grid.take n).foldl (fun acc z =>
    match respAt num den z with
    | some r => min acc (|normSq r - t2| / t2)
    | none => acc) 1

def handleBw : P String := do
  let num ← pList pRat
  let den ← pList pRat
  let p0 ← pRat
  let dbdrop ← pRat
  let thr ← pRat
  let grid ← pList pCx
  let rp ← pList pCx
  if num.isEmpty || den.isEmpty then throw "empty"
  match bandwidth num den p0 dbdrop thr grid with
  | .error e => pure (showErr e)
  | .ok .nan => pure "ok nan"
  | .ok r =>
    let (g, t2) : Q × Q := match dcGain num den p0 with
      | .finite g => (g, (|g| * thr) * (|g| * thr))
      | _ => (0, 0)
    let atRoot := showListWith (fun z => match respAt num den z with
      | some r => showRat (normSq r)
      | none => "nan") rp
    match r with
    | .bracket k =>
      pure s!"ok bracket {k} dc {showRat g} T2 {showRat t2} gap {showRat (minGap num den t2 grid (k+1))} R {atRoot}"
    | _ =>
      let gap := if t2 = 0 then 1 else minGap num den t2 grid grid.length
      pure s!"ok inf dc {showRat g} T2 {showRat t2} gap {showRat gap} R {atRoot}"

def showNats (l : List Nat) : String := showListWith toString l

def handleFrd : P String := do
  let rs ← pList pCx
  let (z, p) := match frdPhaseBrackets rs with
    | some l => ("0", l)
    | none => ("1", [])
  pure <| "ok Z " ++ z ++ " P " ++ showNats p ++ " G " ++ showNats (frdGainBrackets rs)
    ++ " S " ++ showNats (frdStabBrackets rs)

def handle (toks : List String) : String :=
  match toks with
  | "frd" :: rest => runLine handleFrd rest
  | "smc" :: rest => runLine handleSmc rest
  | "smd" :: rest => runLine handleSmd rest
  | "bw" :: rest => runLine handleBw rest
  | op :: _ => s!"bad-op mg:{op}"
  | [] => "bad-op mg:empty"

end CtrlVerif.Driver.Margins
