/-
Driver for user-defined flat systems with PARAMETERS (C20, `flat par …`).  One line:
  `<n> <m> len(m) <np> READ*np DICT ARG FWD REV <op> … [<op> …]*`     (results joined by ` | `)
  READ = `<key> G <fallback>` (`params.get(key, fallback)`) | `<key> S` (`params[key]`)
  DICT = `<k> (<key> <value>)*k`   — `sys.params`
  ARG  = `N` (`params=None`) | `D DICT` (`params={…}`)
  FWD  = one polynomial in the `n + m + np` variables `(x, u, ρ)` per flag entry (`hstack` order),
  REV  = one polynomial in the `Σ len + np` variables `(flag, ρ)` per state and input
  first result: `rho ρ(np)` — the parameter values the model's `p2pParams` resolution reads
                (`err unknownName` for the whole line when a strict read finds no value)
  ops: `fr x(n) u(m) z(Σ len)` and `p2p …` as in `Driver/FlatMulti.lean`, on `p2pPar` / `trajEvalPar`.
Trusted glue.
-/
import CtrlVerif.Driver.FlatMulti
import CtrlVerif.Model.FlatParams

namespace CtrlVerif.Driver.FlatParams

open CtrlVerif CtrlVerif.Driver CtrlVerif.Driver.FlatMulti

def pDict : P (PDict Q) := do
  let k ← pNat
  let mut d : PDict Q := []
  for _ in [0:k] do
    let key ← pNat
    let v ← pRat
    d := d ++ [(key, v)]
  pure d

def pRead : P (PRead Q) := do
  let key ← pNat
  let how ← tok
  match how with
  | "G" => do
    let v ← pRat
    pure ⟨key, some v⟩
  | "S" => pure ⟨key, none⟩
  | _ => throw s!"read:{how}"

def pArg : P (Option (PDict Q)) := do
  let how ← tok
  match how with
  | "N" => pure none
  | "D" => do
    let d ← pDict
    pure (some d)
  | _ => throw s!"arg:{how}"

def runOp {n m np : Nat} {len : Fin m → Nat} (S : ParFlatSys n m len np Q) (arg : Option (PDict Q)) :
    P String := do
  let op ← tok
  match op with
  | "fr" =>
    let x ← pVec n
    let u ← pVec m
    let zv ← pVec (∑ i, len i)
    match readAll S.reads (p2pParams S.sysP arg) with
    | none => pure (showFErr (.py .unknownName))
    | some ρ =>
      let M := S.maps ρ
      let z : Flags m len Q := unstack zv
      let fwd := M.forward x u
      let tf := tabV (hstack fwd)
      let rv := M.reverse z
      let rt1 := M.reverse (unstack (untabV tf))
      let trx := tabV rv.1
      let tru := tabV rv.2
      let rt2 := M.forward (untabV trx) (untabV tru)
      pure ("ok" ++ showVec (untabV tf : Fin (∑ i, len i) → Q)
        ++ showVec (untabV trx : Fin n → Q) ++ showVec (untabV tru : Fin m → Q)
        ++ showVec rt1.1 ++ showVec rt1.2 ++ showVec (hstack rt2))
  | "p2p" =>
    let bs ← pBasis
    let T0 ← pRat
    let Tf ← pRat
    let x0 ← pVec n
    let u0 ← pVec m
    let xf ← pVec n
    let uf ← pVec m
    let ts ← pList pRat
    match p2pPar S arg bs T0 Tf x0 u0 xf uf with
    | .error e => pure (showFErr e)
    | .ok none => pure "warn"
    | .ok (some α) =>
      let mut s := s!"ok {m * bs.N}" ++ showVec α
      for t in ts do
        match trajEvalPar S arg bs α t with
        | none => s := s ++ " keyerror"
        | some r => s := s ++ showVec r.1 ++ showVec r.2
      pure s
  | _ => throw s!"op:{op}"

partial def runOps {n m np : Nat} {len : Fin m → Nat} (S : ParFlatSys n m len np Q)
    (arg : Option (PDict Q)) (acc : String) : P String := do
  let r ← runOp S arg
  let acc' := acc ++ " | " ++ r
  if (← atEnd) then pure acc' else runOps S arg acc'

def run : P String := do
  let n ← pNat
  let m ← pNat
  let lenv ← pArray m pNat
  let len : Fin m → Nat := fun i => lenv.getD i.val 0
  let np ← pNat
  let rsv ← pArray np pRead
  let rs : Fin np → PRead Q := fun a => rsv.getD a.val ⟨0, none⟩
  let sysP ← pDict
  let arg ← pArg
  let fwd ← pPolys (∑ i, len i) (n + m + np)
  let rev ← pPolys (n + m) ((∑ i, len i) + np)
  let S : ParFlatSys n m len np Q := ⟨rs, sysP, fun ρ => FlatSys.ofPolyPar n m len fwd rev ρ⟩
  let head := match readAll rs (p2pParams sysP arg) with
    | none => "norho"
    | some ρ => "rho" ++ showVec ρ
  if (← atEnd) then pure head else runOps S arg head

def handle (toks : List String) : String := runLine run toks

end CtrlVerif.Driver.FlatParams
