/-
Driver for the `norm` family (C16): executes `Norm.h2` / `Norm.linf` of Model/Norm.lean over ℚ.

  norm h2   <dt> n p m A… B… C… D…  k <factor>…  P…(n×n)
  norm linf <dt> tol n p m A… B… C… D…  k <factor>…  gaml
  factor = `R a` (a real pole) | `C a b` (the pair a ± b i)

External routines are instantiated by *certified* data or exact decision procedures:
* the pole list is checked against `A`: `det(x I − A) = ∏ (x − λ)` at `x = 0 … n` (both monic of
  degree `n`), otherwise `model-error poles`;
* the Gramian candidate `P` (computed by the harness) is accepted only if it satisfies the
  Lyapunov equation the model passes to the solver exactly, otherwise `model-error gramian`;
* "P has an eigenvalue with negative real part" is decided for the symmetric `P` by the principal
  minors (`model-error` if `P` is not symmetric);
* `gaml` (NumPy's `la.norm(D, 2)`) is accepted if it encloses the largest singular value of the
  model's `D` within `1e-9 · max(1, gaml)` (Sylvester's criterion on `x² I − DᵀD`), otherwise
  `model-error sigma`;
* "H has an eigenvalue on the imaginary axis" is decided exactly: characteristic polynomial
  (Faddeev–LeVerrier), even/odd parts in `x = s²`, Sturm count of the common roots `x ≤ 0`.
Trusted glue (validated against NumPy on every run by the correspondence check).
-/
import CtrlVerif.Driver.Mat
import CtrlVerif.Model.Norm

namespace CtrlVerif.Driver.Norm

open CtrlVerif CtrlVerif.Driver CtrlVerif.Norm Matrix

/-! ### polynomials over ℚ, lowest power first -/

def ptrim (p : List Q) : List Q := (p.reverse.dropWhile (· == 0)).reverse

def pdeg (p : List Q) : Nat := (ptrim p).length - 1

def plead (p : List Q) : Q := (ptrim p).getLastD 0

def padd (p q : List Q) : List Q :=
  let n := max p.length q.length
  (List.range n).map fun i => p.getD i 0 + q.getD i 0

def pscaleShift (c : Q) (k : Nat) (p : List Q) : List Q :=
  List.replicate k 0 ++ p.map (c * ·)

/-- remainder of `a` by `b` (`b ≠ 0`). -/
partial def prem (a b : List Q) : List Q :=
  let a := ptrim a
  let b := ptrim b
  if b.isEmpty then a
  else if a.length < b.length then a
  else
    let c := plead a / plead b
    let a' := padd a (pscaleShift (-c) (a.length - b.length) b)
    -- the leading term cancels exactly
    prem (a'.take (a.length - 1)) b

partial def pgcd (a b : List Q) : List Q :=
  if (ptrim b).isEmpty then ptrim a else pgcd b (prem a b)

def pderiv (p : List Q) : List Q :=
  (p.zipIdx.drop 1).map fun (c, i) => c * (i : Q)

def sgn (q : Q) : Int := if q > 0 then 1 else if q < 0 then -1 else 0

def variations (l : List Int) : Nat :=
  let nz := l.filter (· ≠ 0)
  (nz.zip (nz.drop 1)).countP fun (a, b) => a ≠ b

/-- Sturm chain of `p`. -/
partial def sturmChain (p0 p1 : List Q) (acc : List (List Q)) : List (List Q) :=
  if (ptrim p1).isEmpty then (p0 :: acc).reverse
  else sturmChain p1 ((prem p0 p1).map (-·)) (p0 :: acc)

/-- number of distinct real roots of `g` in `(-∞, 0)`, for `g(0) ≠ 0`. -/
def negRoots (g : List Q) : Nat :=
  let g := ptrim g
  if g.length ≤ 1 then 0
  else
    let ch := sturmChain g (pderiv g) []
    let atNegInf := ch.map fun p => sgn (plead p) * (if pdeg p % 2 == 0 then 1 else -1)
    let atZero := ch.map fun p => sgn (p.getD 0 0)
    variations atNegInf - variations atZero

/-! ### matrices as arrays -/

abbrev AM := Array (Array Q)

def toAM {p m : Nat} (M : Matrix (Fin p) (Fin m) Q) : AM :=
  (Array.finRange p).map fun i => (Array.finRange m).map fun j => M i j

def amGet (a : AM) (i j : Nat) : Q := (a.getD i #[]).getD j 0

def amMul (N : Nat) (a b : AM) : AM :=
  (Array.range N).map fun i => (Array.range N).map fun j =>
    (List.range N).foldl (fun acc k => acc + amGet a i k * amGet b k j) 0

def amAddScalar (N : Nat) (a : AM) (c : Q) : AM :=
  (Array.range N).map fun i => (Array.range N).map fun j =>
    amGet a i j + (if i == j then c else 0)

def amTrace (N : Nat) (a : AM) : Q := (List.range N).foldl (fun acc i => acc + amGet a i i) 0

/-- characteristic polynomial `det(s I − H)` (lowest power first) by Faddeev–LeVerrier. -/
def charpoly (N : Nat) (h : AM) : List Q := Id.run do
  let mut M : AM := amAddScalar N ((Array.range N).map fun _ => (Array.range N).map fun _ => 0) 1
  let mut coeffs : List Q := [1]     -- c_N, then c_{N-1}, … prepended
  for k in [1:N+1] do
    let HM := amMul N h M
    let c := - amTrace N HM / (k : Q)
    coeffs := c :: coeffs
    M := amAddScalar N HM c
  pure coeffs

/-- does the `N × N` matrix have an eigenvalue with zero real part? (exact) -/
def imagEigA (N : Nat) (h : AM) : Bool :=
  if N == 0 then false
  else
    let c := charpoly N h
    if c.getD 0 0 == 0 then true
    else
      let ev := (c.zipIdx.filter fun (_, i) => i % 2 == 0).map (·.1)
      let od := (c.zipIdx.filter fun (_, i) => i % 2 == 1).map (·.1)
      -- p(iω) = E(−ω²) + iω O(−ω²)
      let g := if (ptrim od).isEmpty then ptrim ev else pgcd ev od
      negRoots g > 0

/-! ### certificates -/

/-- all principal minors of a symmetric matrix are ≥ 0  ⇔  positive semidefinite. -/
def subLists : List Nat → List (List Nat)
  | [] => [[]]
  | x :: xs => let r := subLists xs; r ++ r.map (x :: ·)

def minorDet {n : Nat} (P : Matrix (Fin n) (Fin n) Q) (idx : List Nat) : Q :=
  let k := idx.length
  let f : Fin k → Fin k → Q := fun i j =>
    if h : idx.getD i 0 < n ∧ idx.getD j 0 < n then P ⟨idx.getD i 0, h.1⟩ ⟨idx.getD j 0, h.2⟩ else 0
  Matrix.det (Matrix.of f)

def hasNegMinor {n : Nat} (P : Matrix (Fin n) (Fin n) Q) : Bool :=
  (subLists (List.range n)).any fun idx => !idx.isEmpty && decide (minorDet P idx < 0)

/-- Sylvester: leading principal minors > 0. -/
def posDef {n : Nat} (P : Matrix (Fin n) (Fin n) Q) : Bool :=
  (List.range n).all fun k => decide (0 < minorDet P (List.range (k + 1)))

def isSymm {n : Nat} (P : Matrix (Fin n) (Fin n) Q) : Bool :=
  (List.finRange n).all fun i => (List.finRange n).all fun j => P i j == P j i

def matEqZero {p m : Nat} (M : Matrix (Fin p) (Fin m) Q) : Bool :=
  (List.finRange p).all fun i => (List.finRange m).all fun j => M i j == 0

/-- pole factors. -/
inductive Factor where
  | real (a : Q)
  | pair (a b : Q)

def Factor.poles : Factor → List (Pole Q)
  | .real a => [⟨a, 0⟩]
  | .pair a b => [⟨a, b⟩, ⟨a, -b⟩]

def Factor.eval (x : Q) : Factor → Q
  | .real a => x - a
  | .pair a b => (x - a) * (x - a) + b * b

def Factor.degree : Factor → Nat
  | .real _ => 1
  | .pair _ _ => 2

def pFactor : P Factor := do
  let t ← tok
  if t == "R" then pure (.real (← pRat))
  else if t == "C" then
    let a ← pRat
    let b ← pRat
    pure (.pair a b)
  else throw s!"factor:{t}"

def polesOK {n : Nat} (A : Matrix (Fin n) (Fin n) Q) (fs : List Factor) : Bool :=
  (fs.foldl (fun acc f => acc + f.degree) 0 == n) &&
  (List.range (n + 1)).all fun k =>
    let x : Q := (k : Q)
    Matrix.det ((x • (1 : Matrix (Fin n) (Fin n) Q)) - A) == fs.foldl (fun acc f => acc * f.eval x) 1

/-- `|gaml − σmax(D)| ≤ δ` with `δ = 1e-9 max(1, gaml)`, decided exactly. -/
def sigmaOK {p m : Nat} (D : Matrix (Fin p) (Fin m) Q) (g : Q) : Bool :=
  let δ : Q := (1 / 1000000000) * max 1 g
  let DtD := tabulate (Dᵀ * D)
  let S : Matrix (Fin m) (Fin m) Q := ofTable DtD
  let up := g + δ
  let lo := g - δ
  decide (0 ≤ g) && posDef ((up * up) • (1 : Matrix (Fin m) (Fin m) Q) - S) &&
    (decide (lo ≤ 0) || !posDef ((lo * lo) • (1 : Matrix (Fin m) (Fin m) Q) - S))

/-! ### handlers -/

structure Sys where
  n : Nat
  p : Nat
  m : Nat
  G : SS (Fin n) (Fin m) (Fin p) Q
  dt : Dt
  factors : List Factor

def pSys : P (Nat × Nat × Nat) := do
  let n ← pNat
  let p ← pNat
  let m ← pNat
  pure (n, p, m)

def showH2 {n : Nat} (r : Except Err (H2Val Q)) (Qm : Matrix (Fin n) (Fin n) Q) (why : String) :
    String :=
  match r with
  | .error e => showErr e
  | .ok .inf => "ok inf " ++ why
  | .ok (.sqrt q) => "ok sqrt " ++ showRat q ++ " " ++ showMat Qm

def runH2 : P String := do
  let dt ← pDt
  let (n, p, m) ← pSys
  let A ← pMatSized n n
  let B ← pMatSized n m
  let C ← pMatSized p n
  let D ← pMatSized p m
  let fs ← pList pFactor
  let Pc ← pMatSized n n
  if !polesOK A fs then return "model-error poles"
  let poles := fs.flatMap Factor.poles
  let G : SS (Fin n) (Fin m) (Fin p) Q := ⟨A, B, C, D⟩
  let qt := tabulate (B * Bᵀ)
  let Qm : Matrix (Fin n) (Fin n) Q := ofTable qt
  let ct := isCtime dt
  let stable := if ct then !(onAxis poles || inRhp poles) else !(onCircle poles || outsideDisc poles)
  if stable then
    -- the certificate of the Gramian candidate, as the model passes (A, B Bᵀ) to the solver
    let res := if ct then A * Pc + Pc * Aᵀ + Qm else A * Pc * Aᵀ - Pc + Qm
    if !matEqZero res then return "model-error gramian"
    if !isSymm Pc then return "model-error gramian-symm"
  let E : H2Ext (Fin n) Q := ⟨fun _ _ => Pc, fun _ _ => Pc, hasNegMinor⟩
  let why :=
    if ct then
      (if onAxis poles then "boundary" else if inRhp poles then "unstable"
       else if hasDirect D then "direct" else "gramian")
    else (if onCircle poles then "boundary" else if outsideDisc poles then "unstable" else "gramian")
  pure (showH2 (h2 E dt G poles) Qm why)

def showLinf (r : Except Err (LinfVal Q)) : String :=
  match r with
  | .error e => showErr e
  | .ok .inf => "ok inf"
  | .ok .diverged => "ok diverged"
  | .ok (.val g) => "ok val " ++ showRat g

def runLinf : P String := do
  let dt ← pDt
  let tol ← pRat
  let (n, p, m) ← pSys
  let A ← pMatSized n n
  let B ← pMatSized n m
  let C ← pMatSized p n
  let D ← pMatSized p m
  let fs ← pList pFactor
  let gaml ← pRat
  if !polesOK A fs then return "model-error poles"
  let poles := fs.flatMap Factor.poles
  let G : SS (Fin n) (Fin m) (Fin p) Q := ⟨A, B, C, D⟩
  -- the system the continuous-time part works on (for the certificate of gaml and for H(γ₀))
  let disc := isDtime dt
  let early := if disc then (onCircle poles || atOrigin poles) else onAxis poles
  let imagEig : Matrix (Fin n ⊕ Fin n) (Fin n ⊕ Fin n) Q → Bool := fun H =>
    let Hf : Matrix (Fin (n + n)) (Fin (n + n)) Q := H.submatrix finSumFinEquiv.symm finSumFinEquiv.symm
    imagEigA (n + n) (toAM Hf)
  let inv : Matrix (Fin m) (Fin m) Q → Option (Matrix (Fin m) (Fin m) Q) := fun R =>
    if R.det == 0 then none
    else
      let t := tabulate (SS.invQ R)
      some (ofTable t)
  let invS : Matrix (Fin n) (Fin n) Q → Option (Matrix (Fin n) (Fin n) Q) := fun R =>
    if R.det == 0 then none
    else
      let t := tabulate (SS.invQ R)
      some (ofTable t)
  let E : LinfExt (Fin n) (Fin m) (Fin p) Q := ⟨fun _ => gaml, inv, invS, imagEig⟩
  if early then return showLinf (linf E tol 64 dt G poles)
  let M : Matrix (Fin n) (Fin n) Q := A + 1
  if disc && M.det == 0 then return showLinf (linf E tol 64 dt G poles)
  let Gc0 := if disc then invBilinear G (SS.invQ M) else G
  let ta := tabulate Gc0.A
  let tb := tabulate Gc0.B
  let tc := tabulate Gc0.C
  let td := tabulate Gc0.D
  let Gc : SS (Fin n) (Fin m) (Fin p) Q := ⟨ofTable ta, ofTable tb, ofTable tc, ofTable td⟩
  if !sigmaOK Gc.D gaml then return "model-error sigma"
  -- first Hamiltonian, at γ₀ = max(1, 2 gaml)
  let g0 : Q := max 1 (2 * gaml)
  let R0 := Rmat Gc g0
  let h0 :=
    if R0.det == 0 then "H0 none"
    else
      let ri := tabulate (SS.invQ R0)
      let H := hamiltonian Gc (ofTable ri)
      let Hf : Matrix (Fin (n + n)) (Fin (n + n)) Q :=
        H.submatrix finSumFinEquiv.symm finSumFinEquiv.symm
      "H0 " ++ showRat g0 ++ " " ++ showMat Hf
  -- the model itself (continuous-time part on the tabulated transformed system: the same
  -- function `linf` unfolds to, see `Norm.linf`)
  let r := if disc then linfCont E tol 64 Gc else linf E tol 64 dt G poles
  pure (showLinf r ++ " " ++ h0 ++ " D " ++ showMat Gc.D)

def handle (toks : List String) : String :=
  match toks with
  | "h2" :: rest => runLine runH2 rest
  | "linf" :: rest => runLine runLinf rest
  | t :: _ => s!"bad-op norm:{t}"
  | [] => "bad-op norm"

end CtrlVerif.Driver.Norm
