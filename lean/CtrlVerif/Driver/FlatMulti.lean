/-
Driver for user-defined flat systems with several flat outputs (C20, `flat multi …`).  One line:
  `<n> <m> len(m) FWD REV <op> … [<op> …]*`          (results joined by ` | `)
  FWD = one polynomial in the `n + m` variables `(x, u)` per flag entry (`hstack` order),
  REV = one polynomial in the `Σ len` flag entries per state and input;
  polynomial = `<#terms> (<coef> <exponent per variable>)*`
  ops: `fr x(n) u(m) z(Σ len)`  -> `ok fwd(Σ len) rev(n+m) rt1(n+m) rt2(Σ len)`
         (`rt1 = reverse (forward (x, u))`, `rt2 = forward (reverse z)`)
       `p2p <P|B> N T T0 Tf x0(n) u0(m) xf(n) uf(m) k t1..tk`
                               -> `ok <m*N> alpha(m*N) (x(n) u(m))*k` | `warn` | `err …`
Trusted glue.
-/
import CtrlVerif.Driver.Mat
import CtrlVerif.Model.FlatMulti

namespace CtrlVerif.Driver.FlatMulti

open CtrlVerif CtrlVerif.Driver

def pVec (n : Nat) : P (Fin n → Q) := do
  let v ← pArray n pRat
  pure (fun i => v.getD i.val 0)

def showVec {n : Nat} (v : Fin n → Q) : String :=
  String.join ((List.finRange n).map fun i => " " ++ showRat (v i))

def showFErr : FlatErr → String
  | .py e => showErr e
  | .cert w => "model-error " ++ w

def pPoly (nv : Nat) : P (MPoly Q) := do
  let k ← pNat
  let mut ts : Array (Q × List Nat) := #[]
  for _ in [0:k] do
    let c ← pRat
    let es ← pArray nv pNat
    ts := ts.push (c, es.toList)
  pure ⟨ts.toList⟩

def pPolys (cnt nv : Nat) : P (Fin cnt → MPoly Q) := do
  let v ← pArray cnt (pPoly nv)
  pure (fun i => v.getD i.val ⟨[]⟩)

def pBasis : P (Basis Q) := do
  let k ← tok
  let N ← pNat
  let T ← pRat
  match k with
  | "P" => pure (.poly N T)
  | "B" => pure (.bezier N T)
  | _ => throw s!"basis:{k}"

def runOp {n m : Nat} {len : Fin m → Nat} (S : FlatSys n m len Q) : P String := do
  let op ← tok
  match op with
  | "fr" =>
    let x ← pVec n
    let u ← pVec m
    let zv ← pVec (∑ i, len i)
    let z : Flags m len Q := unstack zv
    let fwd := S.forward x u
    let tf := tabV (hstack fwd)
    let rv := S.reverse z
    let rt1 := S.reverse (unstack (untabV tf))
    let trx := tabV rv.1
    let tru := tabV rv.2
    let rt2 := S.forward (untabV trx) (untabV tru)
    pure ("ok" ++ showVec (untabV tf : Fin (∑ i, len i) → Q)
      ++ showVec (untabV trx : Fin n → Q) ++ showVec (untabV tru : Fin m → Q)
      ++ showVec rt1.1 ++ showVec rt1.2 ++ showVec (hstack rt2))
  | "p2p" =>
    let bs ← pBasis
    let T0 ← pRat
    let Tf ← pRat
    let x0 ← pVec n
    let u0 ← pVec m
    let xf ← pVec n
    let uf ← pVec m
    let ts ← pList pRat
    match p2pM S bs T0 Tf x0 u0 xf uf with
    | .error e => pure (showFErr e)
    | .ok none => pure "warn"
    | .ok (some α) =>
      let mut s := s!"ok {m * bs.N}" ++ showVec α
      for t in ts do
        let r := trajEvalM S bs α t
        s := s ++ showVec r.1 ++ showVec r.2
      pure s
  | _ => throw s!"op:{op}"

partial def runOps {n m : Nat} {len : Fin m → Nat} (S : FlatSys n m len Q) (acc : String) :
    P String := do
  let r ← runOp S
  let acc' := if acc.isEmpty then r else acc ++ " | " ++ r
  if (← atEnd) then pure acc' else runOps S acc'

def run : P String := do
  let n ← pNat
  let m ← pNat
  let lenv ← pArray m pNat
  let len : Fin m → Nat := fun i => lenv.getD i.val 0
  let fwd ← pPolys (∑ i, len i) (n + m)
  let rev ← pPolys (n + m) (∑ i, len i)
  runOps (FlatSys.ofPoly n m len fwd rev) ""

def handle (toks : List String) : String := runLine run toks

end CtrlVerif.Driver.FlatMulti
