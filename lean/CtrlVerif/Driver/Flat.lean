/-
Driver for the flat-system family (C20).  One line:
  `<dt> <p> <m> <n> A(n*n) b(n) <op> … [<op> …]*`   (results joined by ` | `)
  ops: `sys`                                   -> `ok n F(n) T(n*n) Tinv(n*n) Cf(n)`
       `fr x(n) u z(n+1)`                      -> `ok fwd(n+1) revx(n) revu rtx(n) rtu rtz(n+1)`
       `p2p <P|B> N T T0 Tf x0(n) u0 xf(n) uf k t1..tk`
                                               -> `ok N alpha(N) (x(n) u)*k`
       `hist nS (x(n) u)*nS nF z(n+1)*nF k (<fwd|rev> idx)*k`   (a call history on registers,
                                               `Model/FlatHist.lean`; all registers at the end)
                                               -> `ok nS' (x(n) u)*nS' nF' z(n+1)*nF'`
When the kind checks (`isctime`, `issiso`) fail the line stops after `<dt> <p> <m>`.
Trusted glue.
-/
import CtrlVerif.Driver.Mat
import CtrlVerif.Model.Flat
import CtrlVerif.Model.FlatHist
import CtrlVerif.Driver.FlatMulti
import CtrlVerif.Driver.FlatParams

namespace CtrlVerif.Driver.Flat

open CtrlVerif CtrlVerif.Driver

def pVec (n : Nat) : P (Fin n → Q) := do
  let v ← pArray n pRat
  pure (fun i => v.getD i.val 0)

def showVec {n : Nat} (v : Fin n → Q) : String :=
  String.join ((List.finRange n).map fun i => " " ++ showRat (v i))

def showFErr : FlatErr → String
  | .py e => showErr e
  | .cert w => "model-error " ++ w

def showSq {n : Nat} (M : Matrix (Fin n) (Fin n) Q) : String :=
  String.join ((List.finRange n).map fun i => showVec (M i))

def pBasis : P (Basis Q) := do
  let k ← tok
  let N ← pNat
  let T ← pRat
  match k with
  | "P" => pure (.poly N T)
  | "B" => pure (.bezier N T)
  | _ => throw s!"basis:{k}"

def pCall : P HCall := do
  let k ← tok
  let i ← pNat
  match k with
  | "fwd" => pure (.fwd i)
  | "rev" => pure (.rev i)
  | _ => throw s!"call:{k}"

def runOp {n : Nat} (L : LinFlat n Q) : P String := do
  let op ← tok
  match op with
  | "hist" =>
    let S ← pList (do let x ← pVec n; let u ← pRat; pure (x, u))
    let F ← pList (pVec (n + 1))
    let cs ← pList pCall
    match (HStore.mk S F).run L cs with
    | .error e => pure (showErr e)
    | .ok st =>
      let mut s := s!"ok {st.S.length}"
      for xu in st.S do
        s := s ++ showVec xu.1 ++ " " ++ showRat xu.2
      s := s ++ s!" {st.F.length}"
      for z in st.F do
        s := s ++ showVec z
      pure s
  | "sys" =>
    pure (s!"ok {n}" ++ showVec L.F ++ showSq L.T ++ showSq L.Tinv ++ showVec L.Cf)
  | "fr" =>
    let x ← pVec n
    let u ← pRat
    let z ← pVec (n + 1)
    let tf := tabV (L.forward x u)
    let fwd : Fin (n + 1) → Q := untabV tf
    let rv := L.reverse z
    let trx := tabV rv.1
    let rx : Fin n → Q := untabV trx
    let rt := L.reverse fwd
    let rt2 := L.forward rx rv.2
    pure ("ok" ++ showVec fwd ++ showVec rx ++ " " ++ showRat rv.2 ++ showVec rt.1 ++ " "
      ++ showRat rt.2 ++ showVec rt2)
  | "p2p" =>
    let bs ← pBasis
    let T0 ← pRat
    let Tf ← pRat
    let x0 ← pVec n
    let u0 ← pRat
    let xf ← pVec n
    let uf ← pRat
    let ts ← pList pRat
    match p2p L bs T0 Tf x0 u0 xf uf with
    | .error e => pure (showFErr e)
    | .ok α =>
      let mut s := s!"ok {bs.N}" ++ showVec α
      for t in ts do
        let r := trajEval L bs α t
        s := s ++ showVec r.1 ++ " " ++ showRat r.2
      pure s
  | _ => throw s!"op:{op}"

/-- several operations on the same system: results joined by ` | `. -/
partial def runOps {n : Nat} (L : LinFlat n Q) (acc : String) : P String := do
  let r ← runOp L
  let acc' := if acc.isEmpty then r else acc ++ " | " ++ r
  if (← atEnd) then pure acc' else runOps L acc'

def run : P String := do
  let dt ← pDt
  let p ← pNat
  let m ← pNat
  match flatKindCheck dt p m with
  | .error e => set ([] : List String); pure (showFErr e)
  | .ok () =>
    let n ← pNat
    let A ← pMatSized n n
    let b ← pVec n
    match LinFlat.construct A b with
    | .error e => set ([] : List String); pure (showFErr e)
    | .ok L => runOps L ""

/-- `flat multi …` is a user-defined flat system with several flat outputs
(`Driver/FlatMulti.lean`), `flat par …` one with parameters (`Driver/FlatParams.lean`); everything
else is a linear SISO system. -/
def handle (toks : List String) : String :=
  match toks with
  | "multi" :: rest => FlatMulti.handle rest
  | "par" :: rest => FlatParams.handle rest
  | _ => runLine run toks

end CtrlVerif.Driver.Flat
