/-
Driver for the state-feedback family `sf` (C11).  One line per case:
  sf ctrb  <A> <B> <t|N>                      -> ok <mat>
  sf obsv  <A> <C> <t|N>                      -> ok <mat>
  sf acker <A> <B> <npoles> (re im)*          -> ok imzero=<0|1> <n> k…
  sf lqr   <lqr|dlqr> <dt|M> n m A B <Q> <R> <0|1 N> <0|1|2 Ci>
                                              -> ok <care|dare> q <A'> <B'> <Q'> <R'> <S: 0 | 1 mat>
  sf lqe   <lqe|dlqe> <dt|M> n g o A G C <QN> <RN> <0|1>
                                              -> ok <care|dare> <Aᵀ> <Cᵀ> <G QN Gᵀ> <RN> 0
  sf fbk   <dt> n m A B Cp <K> <0|1 Ci>      -> ok q <ctrl A B C D> <closed loop A B C D>
  sf fbks  <dt> n mt A B Cp <mt labels s:…> <0 | 1 selector> <K> <0|1 Ci>
                                              -> ok q m r <sel: m indices> <rest: r indices>
                                                 <ctrl A B C D> <closed loop A B C D>
    (selector as in Driver/Index.lean; closed-loop inputs: x_d, u_d, then the free plant inputs in
    increasing index order)
where <mat> = `r c v…` (row major).  Trusted glue (parsing, printing, tabulation).
-/
import CtrlVerif.Driver.Mat
import CtrlVerif.Driver.Index
import CtrlVerif.Model.StateFbkDyn
import Mathlib.Algebra.QuadraticAlgebra.Defs

namespace CtrlVerif.Driver.StateFbk

open CtrlVerif CtrlVerif.Driver CtrlVerif.StateFbk

abbrev GQ := QuadraticAlgebra ℚ (-1) 0

/-- `r c v…` -/
def pDM : P (DM Q) := do
  let r ← pNat
  let c ← pNat
  let M ← pMatSized r c
  pure ⟨r, c, M⟩

def pOptDM : P (Option (DM Q)) := do
  let f ← pNat
  if f = 0 then pure none else do
    let M ← pDM
    pure (some M)

def pOptNat : P (Option Nat) := do
  let t ← tok
  if t == "N" then pure none
  else match t.toNat? with
    | some n => pure (some n)
    | none => throw s!"optnat:{t}"

def pSysDt : P (Option Dt) := do
  match (← peek?) with
  | some "M" => let _ ← tok; pure none
  | _ => let d ← pDt; pure (some d)

/-- print a matrix over arbitrary index types along explicit index lists. -/
def showIdx {ρ κ : Type} (rows : List ρ) (cols : List κ) (M : Matrix ρ κ Q) : String := Id.run do
  let mut s := s!"{rows.length} {cols.length}"
  for i in rows do
    for j in cols do
      s := s ++ " " ++ showRat (M i j)
  pure s

def idxSum (a b : Nat) : List (Fin a ⊕ Fin b) :=
  (List.finRange a).map Sum.inl ++ (List.finRange b).map Sum.inr

def idx3 (a b c : Nat) : List ((Fin a ⊕ Fin b) ⊕ Fin c) :=
  (idxSum a b).map Sum.inl ++ (List.finRange c).map Sum.inr

def hCtrb : P String := do
  let A ← pDM
  let B ← pDM
  let t ← pOptNat
  match ctrbDyn A.r A.c B.r B.c A.m B.m t with
  | .ok ⟨_, M⟩ => pure ("ok " ++ showMat M)
  | .error e => pure (showErr e)

def hObsv : P String := do
  let A ← pDM
  let C ← pDM
  let t ← pOptNat
  match obsvDyn A.r A.c C.r C.c A.m C.m t with
  | .ok ⟨_, M⟩ => pure ("ok " ++ showMat M)
  | .error e => pure (showErr e)

def pGQ : P GQ := do
  let re ← pRat
  let im ← pRat
  pure ⟨re, im⟩

def hAcker : P String := do
  let A ← pDM
  let B ← pDM
  let poles ← pList pGQ
  -- p = np.real(np.poly(poles))
  let pc := polyFromRoots poles
  let p := pc.map (·.re)
  let imzero := pc.all (fun z => z.im == 0)
  match ackerDyn A.r A.c B.r B.c A.m B.m p with
  | .ok k => pure (s!"ok imzero={if imzero then 1 else 0} " ++ showRats k)
  | .error e => pure (showErr e)

def pFn : P Fn := do
  let t ← tok
  match t with
  | "lqr" => pure .lqr | "dlqr" => pure .dlqr | "lqe" => pure .lqe | "dlqe" => pure .dlqe
  | _ => throw s!"fn:{t}"

def showRoutine : Routine → String
  | .care => "care" | .dare => "dare"

def hLqr : P String := do
  let f ← pFn
  let sd ← pSysDt
  let n ← pNat
  let m ← pNat
  let A ← pMatSized n n
  let B ← pMatSized n m
  let Qm ← pDM
  let Rm ← pDM
  let Nc ← pOptDM
  let cf ← pNat           -- 0: none, 1: ndarray, 2: nested list (not an ndarray)
  let Ci ← if cf = 0 then pure none else do
    let Mx ← pDM
    pure (some Mx)
  match lqrDyn f sd n m A B Qm Rm Nc Ci (cf != 2) with
  | .ok (rt, ⟨q, a⟩) =>
    let rows := idxSum n q
    let cols := List.finRange m
    let s := match a.S with
      | none => "0"
      | some S => "1 " ++ showIdx rows cols S
    pure (s!"ok {showRoutine rt} {q} " ++ showIdx rows rows a.A ++ " " ++ showIdx rows cols a.B ++ " "
      ++ showIdx rows rows a.Q ++ " " ++ showIdx cols cols a.R ++ " " ++ s)
  | .error e => pure (showErr e)

def hLqe : P String := do
  let f ← pFn
  let sd ← pSysDt
  let n ← pNat
  let g ← pNat
  let o ← pNat
  let A ← pMatSized n n
  let G ← pMatSized n g
  let C ← pMatSized o n
  let QN ← pDM
  let RN ← pDM
  let hasNN ← pNat
  match lqeDyn f sd n g o A G C QN RN (hasNN != 0) with
  | .ok (rt, a) =>
    pure (s!"ok {showRoutine rt} " ++ showMat a.A ++ " " ++ showMat a.B ++ " " ++ showMat a.Q ++ " "
      ++ showMat a.R ++ " 0")
  | .error e => pure (showErr e)

def showSSIdx {σ ι o : Type} (st : List σ) (inp : List ι) (out : List o) (G : SS σ ι o Q) : String :=
  showIdx st st G.A ++ " " ++ showIdx st inp G.B ++ " " ++ showIdx out st G.C ++ " "
    ++ showIdx out inp G.D

def hFbk : P String := do
  let dt ← pDt
  let n ← pNat
  let m ← pNat
  let A ← pMatSized n n
  let B ← pMatSized n m
  let Cp ← pMatSized n n
  let Kg ← pDM
  let Ci ← pOptDM
  match fbkDyn dt n m A B Cp Kg Ci with
  | .ok ⟨q, c, cl⟩ =>
    pure (s!"ok {q} " ++ showSSIdx (List.finRange q) (idx3 n m n) (List.finRange m) c ++ " "
      ++ showSSIdx (idxSum n q) (idxSum n m) (idxSum n m) cl)
  | .error e => pure (showErr e)

/-- closed-loop inputs `(x_d ⊕ u_d) ⊕ d`. -/
def idx4 (a b d : Nat) : List ((Fin a ⊕ Fin b) ⊕ Fin d) :=
  (idxSum a b).map Sum.inl ++ (List.finRange d).map Sum.inr

def hFbkSel : P String := do
  let dt ← pDt
  let n ← pNat
  let mt ← pNat
  let A ← pMatSized n n
  let B ← pMatSized n mt
  let Cp ← pMatSized n n
  let mut labs : Array String := #[]
  for _ in [0:mt] do
    labs := labs.push (← Index.pStr)
  let hasSel ← pNat
  let ci ← if hasSel = 0 then pure none else do
    let s ← Index.pSel
    pure (some s)
  let Kg ← pDM
  let Ci ← pOptDM
  match fbkSelDyn dt n mt A B Cp (Index.labelsOf labs) ci Kg Ci with
  | .ok R =>
    let m := R.sel.length
    let r := R.rest.length
    let showFins := fun (l : List (Fin mt)) => String.join (l.map fun i => s!" {i.val}")
    pure (s!"ok {R.q} {m} {r}" ++ showFins R.sel ++ showFins R.rest ++ " "
      ++ showSSIdx (List.finRange R.q) (idx3 n m n) (List.finRange m) R.ctrl ++ " "
      ++ showSSIdx (idxSum n R.q) (idx4 n m r) (idxSum n m) R.cl)
  | .error e => pure (showErr e)

def handle (toks : List String) : String :=
  match toks with
  | "ctrb" :: rest => runLine hCtrb rest
  | "obsv" :: rest => runLine hObsv rest
  | "acker" :: rest => runLine hAcker rest
  | "lqr" :: rest => runLine hLqr rest
  | "lqe" :: rest => runLine hLqe rest
  | "fbk" :: rest => runLine hFbk rest
  | "fbks" :: rest => runLine hFbkSel rest
  | op :: _ => s!"bad-op sf:{op}"
  | [] => "bad-op sf:empty"

end CtrlVerif.Driver.StateFbk
