/-
Driver for the time-response family `tr` (model: Model/TimeResp.lean).  Trusted glue.

  tr forced  <sys> <T> <U> <X0> <ex>
  tr step    <sys> <T> <X0> <input> <output> <ex>
  tr impulse <sys> <T> <input> <output> <ex>
  tr initial <sys> <T> <X0> <output> <ex>

  <sys>  = n p m dt A… B… C… D…          (row major, as in the `ss` family)
  <T>    = TN | T k t₀ … t_{k-1}
  array  = S q | V k v… | M r c v…        (scalar / 1-D / 2-D row major)
  index  = -1 (None) | i
  <ex>   = X0 | X1 expA(n·n) expM((n+2m)²)   (values of scipy.linalg.expm, row major)

answers
  ok bits=b T k t… X n k v… Y p k v… U m k v… [FM N N v…]          (forced; time major)
  ok bits=b T k t… NTR r { X n k v… Y p' k v… U m' k v… }^r        (step / impulse / initial)
-/
import CtrlVerif.Driver.Mat
import CtrlVerif.Driver.SS
import CtrlVerif.Model.TimeResp

namespace CtrlVerif.Driver.TimeResp

open CtrlVerif CtrlVerif.Driver CtrlVerif.TimeResp

def pTime : P (Option (List Q)) := do
  let t ← tok
  if t == "TN" then pure none
  else if t == "T" then
    let l ← pList pRat
    pure (some l)
  else throw s!"time:{t}"

def pArr : P Arr := do
  let t ← tok
  match t with
  | "S" => let q ← pRat; pure (.scalar q)
  | "V" => let l ← pList pRat; pure (.d1 l)
  | "M" =>
    let r ← pNat
    let c ← pNat
    let v ← pArray (r * c) pRat
    pure (.d2 r ((List.range c).map fun j => Vector.ofFn fun i : Fin r => v.getD (i.val * c + j) 0))
  | _ => throw s!"arr:{t}"

def pIdx : P (Option Nat) := do
  let i ← pInt
  if i < 0 then pure none else pure (some i.toNat)

def pEx (n m : Nat) : P (Option (ExpmVals n m)) := do
  let t ← tok
  match t with
  | "X0" => pure none
  | "X1" =>
    let a ← pMatSized n n
    let e ← pMatSized (n + m + m) (n + m + m)
    pure (some ⟨a, e⟩)
  | _ => throw s!"ex:{t}"

def showVecs {n : Nat} (tag : String) (l : List (Vector Q n)) : String := Id.run do
  let mut s := s!"{tag} {n} {l.length}"
  for v in l do
    for q in v.toList do
      s := s ++ " " ++ showRat q
  pure s

def showRows (tag : String) (l : List (List Q)) : String := Id.run do
  let w := match l with | [] => 0 | r :: _ => r.length
  let mut s := s!"{tag} {w} {l.length}"
  for v in l do
    for q in v do
      s := s ++ " " ++ showRat q
  pure s

def bitsVecs {n : Nat} (l : List (Vector Q n)) : Nat :=
  l.foldl (fun b v => v.toList.foldl (fun b q => max b (ratBits q)) b) 0

def bitsRows (l : List (List Q)) : Nat :=
  l.foldl (fun b v => v.foldl (fun b q => max b (ratBits q)) b) 0

def forceSys (G : DSS Q) : DSS Q := SS.force G

def showForced (G : DSS Q) (T : Option (List Q)) (r : Trace G.n G.p G.m) : String :=
  let b := max (max (bitsVecs r.x) (bitsVecs r.y)) (bitsVecs r.u)
  let base := s!"ok bits={b} T " ++ showRats r.t ++ " " ++ showVecs "X" r.x ++ " "
    ++ showVecs "Y" r.y ++ " " ++ showVecs "U" r.u
  match G.dt, (gridStep r.t) with
  | .cont, .ok dt =>
    let M := tabulate (fohMFin G.sys.A G.sys.B dt)
    base ++ " FM " ++ showMat (ofTable M : Matrix (Fin (G.n + G.m + G.m)) (Fin (G.n + G.m + G.m)) Q)
  | _, _ => base

def showMulti {n : Nat} (r : MultiTrace n) : String := Id.run do
  let mut b := 0
  let mut s := ""
  let xs := r.x
  let ys := r.y
  let us := r.u
  for i in [0:xs.length] do
    let x := xs.getD i []
    let y := ys.getD i []
    let u := us.getD i []
    b := max b (max (bitsVecs x) (max (bitsRows y) (bitsRows u)))
    s := s ++ " " ++ showVecs "X" x ++ " " ++ showRows "Y" y ++ " " ++ showRows "U" u
  pure (s!"ok bits={b} T " ++ showRats r.t ++ s!" NTR {xs.length}" ++ s)

def run : P String := do
  let op ← tok
  let G0 ← SS.pLeaf
  let G := forceSys G0
  let T ← pTime
  match op with
  | "forced" =>
    let U ← pArr
    let X0 ← pArr
    let ex ← pEx G.n G.m
    match forced G T U X0 ex with
    | .ok r => pure (showForced G T r)
    | .error e => pure (showErr e)
  | "step" =>
    let X0 ← pArr
    let i ← pIdx
    let o ← pIdx
    let ex ← pEx G.n G.m
    match T with
    | none => throw "step needs T"
    | some T =>
      match step G T X0 i o ex with
      | .ok r => pure (showMulti r)
      | .error e => pure (showErr e)
  | "impulse" =>
    let i ← pIdx
    let o ← pIdx
    let ex ← pEx G.n G.m
    match T with
    | none => throw "impulse needs T"
    | some T =>
      match impulse G T i o ex with
      | .ok r => pure (showMulti r)
      | .error e => pure (showErr e)
  | "initial" =>
    let X0 ← pArr
    let o ← pIdx
    let ex ← pEx G.n G.m
    match T with
    | none => throw "initial needs T"
    | some T =>
      match initial G T X0 o ex with
      | .ok r => pure (showMulti r)
      | .error e => pure (showErr e)
  | _ => throw s!"op:{op}"

def handle (toks : List String) : String := runLine run toks

end CtrlVerif.Driver.TimeResp
