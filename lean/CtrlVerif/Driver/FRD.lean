/-
Driver for the FRD family: a postfix stack program per line, executed by the model
`CtrlVerif.Model.FRDDyn` over `ℚ(i)`.  Trusted glue (parsing, printing, tabulation).

line  := "frd" "X" <cnt> {h ω re im}  prog
prog  := leaf | prog "neg" | prog prog binop | prog "pow" k | prog prog "fb" re im
       | prog "sel" rows cols | prog "eval" ws          (eval only as the last instruction)
leaf  := "F" n p m smooth ω… (re im)…      data in the order k, i, j
       | "S" re im | "A" p m v… | "LT" p m dt (num den)… | "LS" ns p m dt A B C D
-/
import CtrlVerif.Driver.Util
import CtrlVerif.Model.FRDDyn
import CtrlVerif.Model.QI

namespace CtrlVerif.Driver.FRD

open CtrlVerif CtrlVerif.Driver Matrix

abbrev C := QI

def mkC (re im : Rat) : C := ⟨re, im⟩

def pC : P C := do
  let re ← pRat
  let im ← pRat
  pure (mkC re im)

def pRatC : P C := do
  let re ← pRat
  pure (mkC re 0)

def showC (z : C) : String := showRat z.re ++ " " ++ showRat z.im

def ratBits (q : Rat) : Nat := max (Nat.log2 q.num.natAbs) (Nat.log2 q.den) + 1
def cBits (z : C) : Nat := max (ratBits z.re) (ratBits z.im)

/-- tabulate the data so that later operations do not re-evaluate closures. -/
def force {n : Nat} (G : DFRD C n) : DFRD C n :=
  let tab : Array C := Id.run do
    let mut a := #[]
    for k in List.finRange n do
      for i in List.finRange G.p do
        for j in List.finRange G.m do
          a := a.push (G.sys.data k i j)
    pure a
  let om : Array Rat := (List.finRange n).toArray.map G.sys.omega
  ⟨G.p, G.m,
    ⟨fun k => om.getD k.val 0,
     fun k => Matrix.of fun i j => tab.getD ((k.val * G.p + i.val) * G.m + j.val) 0⟩,
    G.smooth⟩

def bitsOf {n : Nat} (G : DFRD C n) : Nat := Id.run do
  let mut b := 0
  for k in List.finRange n do
    for i in List.finRange G.p do
      for j in List.finRange G.m do
        b := max b (cBits (G.sys.data k i j))
  pure b

/-- statistics over every intermediate result: largest bit length, smallest non-zero and largest
squared modulus of an entry (conditioning proxies for the harness' tolerance regime). -/
structure St where
  mb : Nat := 0
  lo2 : Option Rat := none
  hi2 : Rat := 0

def norm2 (z : C) : Rat := z.re * z.re + z.im * z.im

def St.addFRD {n : Nat} (st : St) (G : DFRD C n) : St := Id.run do
  let mut s := st
  for k in List.finRange n do
    for i in List.finRange G.p do
      for j in List.finRange G.m do
        let z := G.sys.data k i j
        let a := norm2 z
        s := { s with mb := max s.mb (cBits z), hi2 := max s.hi2 a }
        if a ≠ 0 then
          s := { s with lo2 := match s.lo2 with
            | none => some a
            | some l => some (min l a) }
  pure s

def St.show (s : St) : String :=
  s!"bits={s.mb} lo2={match s.lo2 with | none => "0" | some l => showRat l} hi2={showRat s.hi2}"

def showFRD {n : Nat} (G : DFRD C n) : String := Id.run do
  let mut s := s!"frd {n} {G.p} {G.m} {if G.smooth then 1 else 0}"
  for k in List.finRange n do
    s := s ++ " " ++ showRat (G.sys.omega k)
  for k in List.finRange n do
    for i in List.finRange G.p do
      for j in List.finRange G.m do
        s := s ++ " " ++ showC (G.sys.data k i j)
  pure s

def pLeafF : P (FOperand C) := do
  let n ← pNat
  let p ← pNat
  let m ← pNat
  let sm ← pNat
  let om ← pArray n pRat
  let v ← pArray (n * p * m) pC
  pure (.frd n ⟨p, m,
    ⟨fun k => om.getD k.val 0,
     fun k => Matrix.of fun i j => v.getD ((k.val * p + i.val) * m + j.val) 0⟩, sm == 1⟩)

def pMat (r c : Nat) : P (Matrix (Fin r) (Fin c) C) := do
  let v ← pArray (r * c) pRatC
  pure (Matrix.of fun i j => v.getD (i.val * c + j.val) 0)

def pLeafA : P (FOperand C) := do
  let p ← pNat
  let m ← pNat
  let D ← pMat p m
  pure (.array p m D)

def pLeafLT : P (FOperand C) := do
  let p ← pNat
  let m ← pNat
  let dt ← pDt
  let ents ← pArray (p * m) (do
    let nn ← pList pRatC
    let dd ← pList pRatC
    pure (⟨nn, dd⟩ : Frac C))
  if ents.any (fun f => f.num.isEmpty || f.den.isEmpty) then throw "leaf:empty"
  pure (.lti (.tf p m (fun i j => ents.getD (i.val * m + j.val) ⟨[0], [1]⟩) dt))

def pLeafLS : P (FOperand C) := do
  let ns ← pNat
  let p ← pNat
  let m ← pNat
  let dt ← pDt
  let A ← pMat ns ns
  let B ← pMat ns m
  let Cm ← pMat p ns
  let D ← pMat p m
  pure (.lti (.ss ns p m ⟨A, B, Cm, D⟩ dt))

abbrev Table := List ((Rat × Rat) × C)

def mkEnv (tab : Table) : Env C :=
  { jw := fun w => mkC 0 w
    expj := fun h w => match tab.lookup (h, w) with
      | some z => z
      | none => mkC 0 0 }

/-- the table must contain every `exp(jωh)` the conversion of `x` on the grid of `G` reads. -/
def tableOk {n : Nat} (tab : Table) (G : DFRD C n) : FOperand C → Bool
  | .lti L =>
    match L.dt with
    | .disc h => (List.finRange n).all fun k => (tab.lookup (h, G.sys.omega k)).isSome
    | .dtrue => (List.finRange n).all fun k => (tab.lookup (1, G.sys.omega k)).isSome
    | _ => true
  | _ => true

def forceOp : FOperand C → FOperand C
  | .frd n G => .frd n (force G)
  | x => x

def St.addOp (st : St) : FOperand C → St
  | .frd _ G => st.addFRD G
  | _ => st

def showOperand : FOperand C → String
  | .frd _ G => showFRD G
  | .scalar c => "scalar " ++ showC c
  | .array p m _ => s!"array {p} {m}"
  | .lti _ => "lti"

def wrap {n : Nat} (r : Except Err (DFRD C n)) : Except Err (FOperand C) := r.map (FOperand.frd n)

/-- binary operators: the FRD operand's method (`a` FRD), else the reflected method (`b` FRD). -/
def binop (E : Env C) (name : String) (a b : FOperand C) :
    Except String (Except Err (FOperand C)) :=
  match name, a, b with
  | "add", .frd _ G, x => pure (wrap (G.add E x))
  | "add", x, .frd _ G => pure (wrap (G.add E x))
  | "sub", .frd _ G, x => pure (wrap (G.sub E x))
  | "sub", x, .frd _ G => pure (wrap (G.rsub E x))
  | "mul", .frd _ G, x => pure (wrap (G.mul E x))
  | "mul", x, .frd _ G => pure (wrap (G.rmul E x))
  | "div", .frd _ G, x => pure (wrap (G.truediv E x))
  | "div", x, .frd _ G => pure (wrap (G.rtruediv E x))
  | "append", .frd _ G, .frd n H => pure (wrap (G.append E (.frd n H)))
  | "append", .frd _ G, .lti L => pure (wrap (G.append E (.lti L)))
  | _, _, _ => throw s!"binop:{name}"

def checkTable (tab : Table) (a b : FOperand C) : Bool :=
  match a, b with
  | .frd _ G, x => tableOk tab G x
  | x, .frd _ G => tableOk tab G x
  | _, _ => true

/-- `store`: the objects of a history (`Driver/FRDHist.lean`) that the program may name with
`R i`; an empty slot (`none`: the step that would have made the object raised, or was an `eval`)
makes the whole program answer `skip`.  Second component: the FRD / operand the program leaves
(none when it raises, is skipped, or ends with `eval`).  A plain `frd` line has an empty store. -/
partial def runS (tab : Table) (store : Array (Option (FOperand C))) (stack : List (FOperand C))
    (mb : St := {}) : P (String × Option (FOperand C)) := do
  let E := mkEnv tab
  if (← atEnd) then
    match stack with
    | [x] => pure (s!"ok {(mb.addOp x).show} " ++ showOperand x, some x)
    | _ => throw "stack"
  else
    let t ← tok
    match t with
    | "R" =>
      let i ← pNat
      match store[i]? with
      | some (some x) => runS tab store (x :: stack) (mb.addOp x)
      | some none => pure ("skip", none)
      | none => throw s!"ref:{i}"
    | "F" => let f ← pLeafF; let f' := forceOp f; runS tab store (f' :: stack) (mb.addOp f')
    | "S" => let c ← pC; runS tab store (.scalar c :: stack) mb
    | "A" => let a ← pLeafA; runS tab store (a :: stack) mb
    | "LT" => let a ← pLeafLT; runS tab store (a :: stack) mb
    | "LS" => let a ← pLeafLS; runS tab store (a :: stack) mb
    | "neg" =>
      match stack with
      | x :: rest => let y := forceOp (DFRD.negOperand x); runS tab store (y :: rest) (mb.addOp y)
      | _ => throw "stack"
    | "pow" =>
      let k ← pInt
      match stack with
      | .frd n G :: rest =>
        match G.pow k with
        | .ok y => let y' := force y; runS tab store (.frd n y' :: rest) (mb.addFRD y')
        | .error e => pure (showErr e, none)
      | _ => throw "stack"
    | "fb" =>
      let sign ← pC
      match stack with
      | b :: a :: rest =>
        if !checkTable tab a b then throw "expj-missing" else
        let r : Except String (Except Err (FOperand C)) :=
          match a, b with
          | .frd _ G, x => pure (wrap (G.feedback E x sign))
          | .scalar c, .frd _ G => pure (wrap (G.feedbackL E (.scalar c) sign))
          | .array p m D, .frd _ G => pure (wrap (G.feedbackL E (.array p m D) sign))
          | _, _ => throw "fb-operands"
        match r with
        | .error e => throw e
        | .ok (.ok y) => let y' := forceOp y; runS tab store (y' :: rest) (mb.addOp y')
        | .ok (.error e) => pure (showErr e, none)
      | _ => throw "stack"
    | "sel" =>
      let rows ← pList pNat
      let cols ← pList pNat
      match stack with
      | .frd n G :: rest =>
        match G.select rows cols with
        | .ok y => let y' := force y; runS tab store (.frd n y' :: rest) (mb.addFRD y')
        | .error e => pure (showErr e, none)
      | _ => throw "stack"
    | "eval" =>
      let ws ← pList pRat
      if !(← atEnd) then throw "eval-not-last" else
      match stack with
      | [.frd _ G] =>
        match G.eval ws with
          | .ok ms =>
            let out : String := Id.run do
              let mut s := s!"ok {mb.show} eval {if G.smooth then 1 else 0} {ms.length} {G.p} {G.m}"
              for M in ms do
                for i in List.finRange G.p do
                  for j in List.finRange G.m do
                    s := s ++ " " ++ showC (M i j)
              pure s
            pure (out, none)
          | .error e =>
            -- an interpolating FRD answers between grid points with its spline (external)
            if G.smooth then pure (s!"ok {mb.show} interp {G.p} {G.m}", none) else pure (showErr e, none)
      | _ => throw "stack"
    | name =>
      match stack with
      | b :: a :: rest =>
        if !checkTable tab a b then throw "expj-missing" else
        match binop E name a b with
        | .error e => throw e
        | .ok (.ok y) => let y' := forceOp y; runS tab store (y' :: rest) (mb.addOp y')
        | .ok (.error e) => pure (showErr e, none)
      | _ => throw "stack"

/-- one `frd` line: a program without a store. -/
def run (tab : Table) (stack : List (FOperand C)) (mb : St := {}) : P String := do
  let r ← runS tab #[] stack mb
  pure r.1

def pTable : P Table := do
  let t ← tok
  if t != "X" then throw "header"
  pList (do
    let h ← pRat
    let w ← pRat
    let z ← pC
    pure ((h, w), z))

/-- the rest of the line after an error is not consumed: drop it. -/
def handle (toks : List String) : String :=
  match (do let tab ← pTable; run tab []).run toks with
  | .ok (s, _) => s
  | .error e => s!"bad-op {e}"

end CtrlVerif.Driver.FRD
