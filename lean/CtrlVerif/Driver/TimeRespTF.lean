/-
Driver for the time responses of SISO transfer functions, family `trtf`
(model: Model/Convert.lean `tf2ssList` followed by Model/TimeResp.lean; theorems Props/C06Real.lean).
Trusted glue.

  trtf forced  <dt> <num> <den> <T> <U>
  trtf step    <dt> <num> <den> <T>
  trtf impulse <dt> <num> <den> <T>

  <num>, <den> = k c₀ … c_{k-1}      (highest power first, as given to `tf`)
  <T>          = TN | T k t₀ … t_{k-1}
  <U>          = S q | V k v… | M r c v…

answers
  ok bits=b T k t… Y 1 k v… U 1 k v… H k h…      (forced; H = long division of num by den)
  ok bits=b T k t… NTR 1 X n k v… Y 1 k v… U 1 k v…   (step / impulse, as in family `tr`)

The response is computed by simulating the realisation `tf2ssList` returns (what the code does).
Where Props/C06Real.lean says what the answer must be, the driver also computes it the other way
and answers `model-error …` if the two differ (this cannot happen: `forced_tf_from_rest`,
`step_cumsum_impulse_forced`):
  forced, grid spacing = sampling time:  y_k = Σ_{j ≤ k} h_j u_{k-j};
  step, grid spacing = sampling time:    y_step[k] = dt · Σ_{j ≤ k} y_impulse[j].
-/
import CtrlVerif.Driver.TimeResp
import CtrlVerif.Lemmas.C06Real

namespace CtrlVerif.Driver.TimeRespTF

open CtrlVerif CtrlVerif.Driver CtrlVerif.TimeResp CtrlVerif.Driver.TimeResp CtrlVerif.C06Real

/-- `Σ_{j ≤ k} h_j u_{k-j}` for `k < len u`. -/
def conv (h : Nat → Q) (u : List Q) : List Q :=
  (List.range u.length).map fun k =>
    ((List.range (k + 1)).map fun j => h j * u.getD (k - j) 0).sum

/-- running sums scaled by `c`. -/
def cumsum (c : Q) (l : List Q) : List Q :=
  (List.range l.length).map fun k => c * (l.take (k + 1)).sum

def firstEntries {n : Nat} (l : List (Vector Q n)) : List Q := l.map fun v => v.toList.headD 0

/-- is the grid spacing the sampling time (decimation factor 1)? -/
def incOne (d : Dt) (T : List Q) : Bool :=
  match gridStep T with
  | .ok h => (match decimation d h with | .ok 1 => true | _ => false)
  | .error _ => false

def run : P String := do
  let op ← tok
  let dt ← pDt
  let num ← pList pRat
  let den ← pList pRat
  let T ← pTime
  match Convert.tf2ssList num den dt with
  | .error e =>
    -- consume the remaining arguments
    if op == "forced" then
      let _ ← pArr
    pure (showErr e)
  | .ok S =>
    match op with
    | "forced" =>
      let U ← pArr
      match forced S T U (.scalar 0) none with
      | .error e => pure (showErr e)
      | .ok r =>
        let y := firstEntries r.y
        let u := firstEntries r.u
        let h := (List.range r.t.length).map (tfImpulse num den)
        if incOne S.dt r.t && y != conv (tfImpulse num den) u then
          pure "model-error convolution with the long division differs from the simulated realisation"
        else
          let b := max (bitsVecs r.y) (bitsVecs r.u)
          pure (s!"ok bits={b} T " ++ showRats r.t ++ " " ++ showVecs "Y" r.y ++ " "
            ++ showVecs "U" r.u ++ " H " ++ showRats h)
    | "step" =>
      match T with
      | none => throw "step needs T"
      | some T =>
        match step S T (.scalar 0) none none none with
        | .error e => pure (showErr e)
        | .ok r =>
          if incOne S.dt T then
            match impulse S T none none none with
            | .error _ => pure "model-error impulse fails where step succeeds"
            | .ok ri =>
              let hh : Q := match S.dt with | .disc h => h | _ => 1
              let ys := ((r.y.headD []).map fun v => v.headD 0)
              let yi := ((ri.y.headD []).map fun v => v.headD 0)
              if ys != cumsum hh yi then
                pure "model-error step differs from dt times the running sum of the impulse response"
              else pure (showMulti r)
          else pure (showMulti r)
    | "impulse" =>
      match T with
      | none => throw "impulse needs T"
      | some T =>
        match impulse S T none none none with
        | .error e => pure (showErr e)
        | .ok r => pure (showMulti r)
    | _ => throw s!"op:{op}"

def handle (toks : List String) : String := runLine run toks

end CtrlVerif.Driver.TimeRespTF
