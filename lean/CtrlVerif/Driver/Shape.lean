/-
Driver for the response-shape family (C18): every array is filled with *positions*
(`offset + 0, 1, 2, …`), so the printed data of an observable says which raw entry sits where.
Offsets: outputs `y` 0, states `x` 1000000, inputs `u` 2000000, time 3000000.
-/
import CtrlVerif.Driver.Util
import CtrlVerif.Model.History

namespace CtrlVerif.Driver.Shape

open CtrlVerif CtrlVerif.Driver CtrlVerif.NDArr

def iota (off : Nat) (shape : List Nat) : NDArr Nat :=
  ⟨shape, (List.range shape.prod).map (off + ·)⟩

def offY := 0
def offX := 1000000
def offU := 2000000
def offT := 3000000

def showNats (l : List Nat) : String := String.join (l.map fun n => " " ++ toString n)

def showArr (a : NDArr Nat) : String :=
  s!"A {a.shape.length}{showNats a.shape} {a.data.length}{showNats a.data}"

def showRes (r : Except Err (NDArr Nat)) : String :=
  match r with
  | .ok a => showArr a
  | .error e => "E " ++ toString e

def showOpt (r : Except Err (Option (NDArr Nat))) : String :=
  match r with
  | .ok (some a) => showArr a
  | .ok none => "-"
  | .error e => "E " ++ toString e

def showShape (s : List Nat) : String := s!"{s.length}{showNats s}"

def showOShape (s : Option (List Nat)) : String :=
  match s with
  | some s => showShape s
  | none => "-"

def pShape : P (List Nat) := pList pNat

def pOShape : P (Option (List Nat)) := do
  match (← peek?) with
  | some "-" => let _ ← tok; pure none
  | _ => let s ← pShape; pure (some s)

def pSq : P Sq := do
  match (← tok) with
  | "N" => pure .none | "T" => pure .true | "F" => pure .false | "X" => pure .other
  | t => throw s!"sq:{t}"

def pOSq : P (Option Sq) := do
  match (← peek?) with
  | some "-" => let _ ← tok; pure none
  | _ => let s ← pSq; pure (some s)

def pBool : P Bool := do
  match (← tok) with
  | "0" => pure false | "1" => pure true
  | t => throw s!"bool:{t}"

def pOBool : P (Option Bool) := do
  match (← peek?) with
  | some "-" => let _ ← tok; pure none
  | _ => let b ← pBool; pure (some b)

def pONat : P (Option Nat) := do
  match (← peek?) with
  | some "-" => let _ ← tok; pure none
  | _ => let n ← pNat; pure (some n)

def pFn : P TFn := do
  match (← tok) with
  | "forced" => pure .forced | "io" => pure .io | "initial" => pure .initial
  | "step" => pure .step | "impulse" => pure .impulse
  | t => throw s!"fn:{t}"

/-- all observables of a time response object. -/
def showTRD (r : TRD Nat) (cfg : Cfg) : String :=
  let it := match r.iter cfg with
    | .ok l => s!"{l.length}" ++ String.join (l.map fun o => " " ++ showOpt (.ok o))
    | .error e => "E " ++ toString e
  s!"meta {if r.issiso then 1 else 0} {r.ninputs} {r.noutputs} {r.nstates} {r.ntraces}" ++
  s!" raw {showShape r.y.shape} {showOShape (r.x.map (·.shape))} {showOShape (r.u.map (·.shape))}" ++
  " time " ++ showArr r.time ++
  " outputs " ++ showRes (r.outputs cfg) ++
  " states " ++ showOpt (r.states cfg) ++
  " inputs " ++ showOpt (r.inputs cfg) ++
  " legacy " ++ showOpt r.legacyStates ++
  " iter " ++ it ++
  s!" len {r.len}" ++
  " get0 " ++ showOpt (r.getitem cfg 0) ++
  " get1 " ++ showOpt (r.getitem cfg 1) ++
  " get2 " ++ showOpt (r.getitem cfg 2) ++
  " get3 " ++ showOpt (r.getitem cfg 3)

structure Tail where
  cfg : Cfg
  callSq : Option Sq
  callTr : Option Bool
  callRx : Option Bool
  useCall : Bool

/-- `cfgSqTime cfgRx useCall callSq callTr callRx` -/
def pTail : P Tail := do
  let cs ← pSq
  let crx ← pBool
  let useCall ← pBool
  let csq ← pOSq
  let ctr ← pOBool
  let crx' ← pOBool
  pure ⟨{ sqTime := cs, returnX := crx }, csq, ctr, crx', useCall⟩

def finishTRD (r : Except Err (TRD Nat)) (tl : Tail) : String :=
  match r with
  | .error e => showErr e
  | .ok r =>
    let r' := if tl.useCall then r.call tl.callSq tl.callTr tl.callRx else r
    "ok " ++ showTRD r' tl.cfg

def hTrd : P String := do
  let fn ← pFn
  let p ← pNat; let m ← pNat; let n ← pNat; let T ← pNat
  let inp ← pONat; let out ← pONat
  let u1d ← pBool
  let sq ← pSq; let tr ← pBool; let rx ← pOBool
  let tl ← pTail
  match rawSpec fn p m n T inp out u1d with
  | .error e => pure (showErr e)
  | .ok spec =>
    let r := timeResponse fn p m n T inp out u1d (iota offT [T]) (iota offY spec.yShape)
      (spec.xShape.map (iota offX)) (spec.uShape.map (iota offU)) sq tr rx tl.cfg
    pure (finishTRD r tl)

def hCtor : P String := do
  let ts ← pShape; let ys ← pShape; let xs ← pOShape; let us ← pOShape
  let siso ← pOBool
  let tr ← pBool; let rx ← pBool; let sq ← pSq; let multi ← pBool
  let tl ← pTail
  let r := TRD.init (iota offT ts) (iota offY ys) (xs.map (iota offX)) (us.map (iota offU))
    siso tr rx sq multi
  pure (finishTRD r tl)

def showItem : FItem Nat → String
  | .omega => "omega"
  | .mag a => "mag " ++ showArr a
  | .phase a => "phase " ++ showArr a
  | .cplx a => "cplx " ++ showArr a

def showItemRes (r : Except Err (FItem Nat)) : String :=
  match r with
  | .ok i => showItem i
  | .error e => "E " ++ toString e

def showFRD (F : RespFRD Nat) (cfg : Cfg) : String :=
  let it := match F.iter cfg with
    | .ok l => s!"{l.length}" ++ String.join (l.map fun o => " " ++ showItem o)
    | .error e => "E " ++ toString e
  s!"raw {showShape F.frdata.shape} nomega {F.nomega} siso {if F.issiso then 1 else 0}" ++
  " magnitude " ++ showItemRes (F.magnitude cfg) ++
  " phase " ++ showItemRes (F.phase cfg) ++
  " complex " ++ showItemRes (F.complex cfg) ++
  " iter " ++ it

/-- `useCall callSq callRm` -/
def finishFRD (F : Except Err (RespFRD Nat)) (cs : Sq) : P String := do
  let useCall ← pBool
  let csq ← pSq
  let crm ← pOBool
  match F with
  | .error e => pure (showErr e)
  | .ok F =>
    let F' := if useCall then F.callCopy csq crm else F
    pure ("ok " ++ showFRD F' { sqFreq := cs })

/-- `frd <rshape> <oshape> sq rm cfgSq useCall callSq callRm` -/
def hFrd : P String := do
  let rs ← pShape; let os ← pShape
  let sq ← pSq; let rm ← pBool
  let cs ← pSq
  finishFRD (RespFRD.init (iota 0 rs) os sq rm) cs

def hFrdEval : P String := do
  let rs ← pShape; let os ← pShape
  let ks ← pList pNat
  let scalar ← pBool
  let sq ← pSq; let cs ← pSq
  match RespFRD.init (iota 0 rs) os .none false with
  | .error e => pure (showErr e)
  | .ok F => pure ("ok " ++ showRes (F.eval ks scalar sq { sqFreq := cs }))

/-- `frdevalw <rshape> <stored ids> <omega shape> <omega ids> offAxis sq cfgSq`: evaluation at
points given as frequency *values* (ids: equal ids = equal frequencies); the stored list may be
unsorted and may contain duplicates, the points may repeat, come in any order, or be missing. -/
def hFrdEvalW : P String := do
  let rs ← pShape
  let stored ← pList pNat
  let oshape ← pShape
  let req ← pList pNat
  let off ← pBool
  let sq ← pSq; let cs ← pSq
  match RespFRD.init (iota 0 rs) [stored.length] .none false with
  | .error e => pure (showErr e)
  | .ok F => pure ("ok " ++ showRes (F.evalAt stored ⟨oshape, req⟩ off sq { sqFreq := cs }))

def hLti : P String := do
  let p ← pNat; let m ← pNat
  let xs ← pShape
  let sq ← pSq; let cs ← pSq
  let len := match xs with
    | [] => 1
    | k :: _ => k
  pure ("ok " ++ showRes (ltiCall p m xs (iota 0 [p, m, len]) sq { sqFreq := cs }))

/-- `ltifr p m N sq cfgSq useCall callSq callRm` -/
def hLtiFr : P String := do
  let p ← pNat; let m ← pNat; let N ← pNat
  let sq ← pSq
  let cs ← pSq
  finishFRD (ltiFreqResp p m N (iota 0 [p, m, N]) sq { sqFreq := cs }) cs

def labelsOf (pre : String) (k : Option Nat) : Option (List String) :=
  k.map fun n => (List.range n).map fun i => pre ++ toString i

def pElem : P Key := do
  match (← tok) with
  | "N" => let s ← tok; pure (.name s)
  | "I" => let i ← pNat; pure (.int i)
  | t => throw s!"key:{t}"

def pKey : P Key := do
  match (← peek?) with
  | some "P" => let _ ← tok; let a ← pElem; let b ← pElem; pure (.pair a b)
  | _ => pElem

/-- `key <shape> <nsig|-> <ntrace|-> <key>`: signal labels `s0 s1 …`, trace labels `t0 t1 …`. -/
def hKey : P String := do
  let s ← pShape
  let ns ← pONat; let nt ← pONat
  let key ← pKey
  let sig : NamedSignal Nat := ⟨iota 0 s, labelsOf "s" ns, labelsOf "t" nt⟩
  pure ("ok " ++ showRes (sig.getitem key))

def showSig (r : Except Err (Option (NamedSignal Nat))) (key : Key) : String :=
  match r with
  | .error e => "sig E " ++ toString e
  | .ok none => "sig -"
  | .ok (some sg) => "sig " ++ showArr sg.arr ++ " res " ++ showRes (sg.getitem key)

/-- `keytrd <outputs|states|inputs> <key> <trd arguments…>` -/
def hKeyTrd : P String := do
  let obs ← tok
  let key ← pKey
  let fn ← pFn
  let p ← pNat; let m ← pNat; let n ← pNat; let T ← pNat
  let inp ← pONat; let out ← pONat
  let u1d ← pBool
  let sq ← pSq; let tr ← pBool; let rx ← pOBool
  let tl ← pTail
  match rawSpec fn p m n T inp out u1d with
  | .error e => pure (showErr e)
  | .ok spec =>
    match timeResponse fn p m n T inp out u1d (iota offT [T]) (iota offY spec.yShape)
      (spec.xShape.map (iota offX)) (spec.uShape.map (iota offU)) sq tr rx tl.cfg with
    | .error e => pure (showErr e)
    | .ok r =>
      let r' := if tl.useCall then r.call tl.callSq tl.callTr tl.callRx else r
      match obs with
      | "outputs" => pure ("ok " ++ showSig ((r'.outputsSignal tl.cfg).map some) key)
      | "states" => pure ("ok " ++ showSig (r'.statesSignal tl.cfg) key)
      | "inputs" => pure ("ok " ++ showSig (r'.inputsSignal tl.cfg) key)
      | t => throw s!"obs:{t}"

/-- `keyfr <key> p m N sq cfgSq useCall callSq callRm` -/
def hKeyFr : P String := do
  let key ← pKey
  let p ← pNat; let m ← pNat; let N ← pNat
  let sq ← pSq
  let cs ← pSq
  let useCall ← pBool
  let csq ← pSq
  let crm ← pOBool
  match ltiFreqResp p m N (iota 0 [p, m, N]) sq { sqFreq := cs } with
  | .error e => pure (showErr e)
  | .ok F =>
    let F' := if useCall then F.callCopy csq crm else F
    pure ("ok " ++ showSig ((F'.signal { sqFreq := cs }).map some) key)

/-! ### lists of systems -/

def joinBar (l : List String) : String := String.join (l.map fun x => " | " ++ x)

/-- `trdlist fn k (p m n)*k T inp out u1d sq tr rx <tail>`: the model of the call with a list
of `k` systems; every system's raw arrays are filled with positions of their own. -/
def hTrdList : P String := do
  let fn ← pFn
  let dims ← pList (do let p ← pNat; let m ← pNat; let n ← pNat; pure (p, m, n))
  let T ← pNat
  let inp ← pONat; let out ← pONat
  let u1d ← pBool
  let sq ← pSq; let tr ← pBool; let rx ← pOBool
  let tl ← pTail
  -- the raw arrays each system's simulation hands over (shapes from `rawSpec`; a system for
  -- which `rawSpec` raises gets empty arrays: `timeResponse` raises the same error first)
  let systems : List (SysRaw Nat) := dims.map fun (p, m, n) =>
    match rawSpec fn p m n T inp out u1d with
    | .ok spec => ⟨p, m, n, iota offY spec.yShape, spec.xShape.map (iota offX),
                   spec.uShape.map (iota offU)⟩
    | .error _ => ⟨p, m, n, iota offY [], none, none⟩
  match timeResponseList fn T inp out u1d (iota offT [T]) systems sq tr rx tl.cfg with
  | .error e => pure (showErr e)
  | .ok rs =>
    let rs' := rs.map fun r => if tl.useCall then r.call tl.callSq tl.callTr tl.callRx else r
    pure (s!"ok {rs'.length}" ++ joinBar (rs'.map fun r => showTRD r tl.cfg))

/-- `useCall callSq callRm` -/
def pFCall : P (Bool × Sq × Option Bool) := do
  let useCall ← pBool
  let csq ← pSq
  let crm ← pOBool
  pure (useCall, csq, crm)

/-- `frlist k (p m)*k N sq cfgSq useCall callSq callRm` -/
def hFrList : P String := do
  let dims ← pList (do let p ← pNat; let m ← pNat; pure (p, m))
  let N ← pNat
  let sq ← pSq
  let cs ← pSq
  let (useCall, csq, crm) ← pFCall
  let systems : List (SysHorner Nat) := dims.map fun (p, m) => ⟨p, m, iota 0 [p, m, N]⟩
  match freqResponseList N systems sq { sqFreq := cs } with
  | .error e => pure (showErr e)
  | .ok Fs =>
    let Fs' := Fs.map fun F => if useCall then F.callCopy csq crm else F
    pure (s!"ok {Fs'.length}" ++ joinBar (Fs'.map fun F => showFRD F { sqFreq := cs }))

/-! ### histories -/

def pTObs : P TObs := do
  match (← tok) with
  | "time" => pure .time | "outputs" => pure .outputs | "states" => pure .states
  | "inputs" => pure .inputs | "iter" => pure .iter | "len" => pure .len
  | "get0" => pure (.get 0) | "get1" => pure (.get 1) | "get2" => pure (.get 2)
  | "get3" => pure (.get 3)
  | t => throw s!"tobs:{t}"

/-- `R j obs | C j sq tr rx | S j sq | ST j b | SR j b | G sq` -/
def pTStep : P TStep := do
  match (← tok) with
  | "R" => let j ← pNat; let o ← pTObs; pure (.read j o)
  | "C" => let j ← pNat; let sq ← pOSq; let tr ← pOBool; let rx ← pOBool
           pure (.copy j ⟨sq, tr, rx⟩)
  | "S" => let j ← pNat; let s ← pSq; pure (.set j (.squeeze s))
  | "ST" => let j ← pNat; let b ← pBool; pure (.set j (.transpose b))
  | "SR" => let j ← pNat; let b ← pBool; pure (.set j (.returnX b))
  | "G" => let s ← pSq; pure (.config s)
  | t => throw s!"tstep:{t}"

def showTReading : TReading Nat → String
  | .arr r => "arr " ++ showOpt r
  | .tuple (.ok l) => s!"tuple {l.length}" ++ String.join (l.map fun o => " " ++ showOpt (.ok o))
  | .tuple (.error e) => "tuple E " ++ toString e
  | .nat n => s!"nat {n}"

/-- `… H <n> <step>*n`: run the history on the response object just built (object 0). -/
def finishTHist (r : Except Err (TRD Nat)) (tl : Tail) : P String := do
  let h ← tok
  if h != "H" then throw s!"H expected:{h}"
  let steps ← pList pTStep
  match r with
  | .error e => pure (showErr e)
  | .ok r =>
    let r' := if tl.useCall then r.call tl.callSq tl.callTr tl.callRx else r
    match HState.run (trdOps Nat) ⟨[r'], tl.cfg⟩ steps with
    | .error e => pure (showErr e)
    | .ok (rds, _) => pure (s!"ok {rds.length}" ++ joinBar (rds.map showTReading))

/-- `hist <trd arguments…> H n steps…` -/
def hHist : P String := do
  let fn ← pFn
  let p ← pNat; let m ← pNat; let n ← pNat; let T ← pNat
  let inp ← pONat; let out ← pONat
  let u1d ← pBool
  let sq ← pSq; let tr ← pBool; let rx ← pOBool
  let tl ← pTail
  match rawSpec fn p m n T inp out u1d with
  | .error e => let _ ← tok; let _ ← pList pTStep; pure (showErr e)
  | .ok spec =>
    let r := timeResponse fn p m n T inp out u1d (iota offT [T]) (iota offY spec.yShape)
      (spec.xShape.map (iota offX)) (spec.uShape.map (iota offU)) sq tr rx tl.cfg
    finishTHist r tl

/-- `histctor <ctor arguments…> H n steps…` -/
def hHistCtor : P String := do
  let ts ← pShape; let ys ← pShape; let xs ← pOShape; let us ← pOShape
  let siso ← pOBool
  let tr ← pBool; let rx ← pBool; let sq ← pSq; let multi ← pBool
  let tl ← pTail
  let r := TRD.init (iota offT ts) (iota offY ys) (xs.map (iota offX)) (us.map (iota offU))
    siso tr rx sq multi
  finishTHist r tl

def pFObs : P FObs := do
  match (← tok) with
  | "magnitude" => pure .magnitude | "phase" => pure .phase | "complex" => pure .complex
  | "iter" => pure .iter | "frdata" => pure .frdata
  | t => throw s!"fobs:{t}"

/-- `R j obs | C j sq rm | S j sq | SM j b | G sq` -/
def pFStep : P FStep := do
  match (← tok) with
  | "R" => let j ← pNat; let o ← pFObs; pure (.read j o)
  | "C" => let j ← pNat; let sq ← pSq; let rm ← pOBool; pure (.copy j ⟨sq, rm⟩)
  | "S" => let j ← pNat; let s ← pSq; pure (.set j (.squeeze s))
  | "SM" => let j ← pNat; let b ← pBool; pure (.set j (.returnMagphase b))
  | "G" => let s ← pSq; pure (.config s)
  | t => throw s!"fstep:{t}"

def showFReading : FReading Nat → String
  | .item r => "item " ++ showItemRes r
  | .tuple (.ok l) => s!"tuple {l.length}" ++ String.join (l.map fun o => " " ++ showItem o)
  | .tuple (.error e) => "tuple E " ++ toString e
  | .raw a => "raw " ++ showArr a

def finishFHist (F : Except Err (RespFRD Nat)) (cs : Sq) : P String := do
  let (useCall, csq, crm) ← pFCall
  let h ← tok
  if h != "H" then throw s!"H expected:{h}"
  let steps ← pList pFStep
  match F with
  | .error e => pure (showErr e)
  | .ok F =>
    let F' := if useCall then F.callCopy csq crm else F
    match HState.run (frdOps Nat) ⟨[F'], { sqFreq := cs }⟩ steps with
    | .error e => pure (showErr e)
    | .ok (rds, _) => pure (s!"ok {rds.length}" ++ joinBar (rds.map showFReading))

/-- `histfr p m N sq cfgSq useCall callSq callRm H n steps…` -/
def hHistFr : P String := do
  let p ← pNat; let m ← pNat; let N ← pNat
  let sq ← pSq
  let cs ← pSq
  finishFHist (ltiFreqResp p m N (iota 0 [p, m, N]) sq { sqFreq := cs }) cs

/-- `histfrd <rshape> <oshape> sq rm cfgSq useCall callSq callRm H n steps…` -/
def hHistFrd : P String := do
  let rs ← pShape; let os ← pShape
  let sq ← pSq; let rm ← pBool
  let cs ← pSq
  finishFHist (RespFRD.init (iota 0 rs) os sq rm) cs

def handle (toks : List String) : String :=
  match toks with
  | "trd" :: rest => runLine hTrd rest
  | "ctor" :: rest => runLine hCtor rest
  | "frd" :: rest => runLine hFrd rest
  | "frdeval" :: rest => runLine hFrdEval rest
  | "frdevalw" :: rest => runLine hFrdEvalW rest
  | "lti" :: rest => runLine hLti rest
  | "ltifr" :: rest => runLine hLtiFr rest
  | "key" :: rest => runLine hKey rest
  | "keytrd" :: rest => runLine hKeyTrd rest
  | "keyfr" :: rest => runLine hKeyFr rest
  | "trdlist" :: rest => runLine hTrdList rest
  | "frlist" :: rest => runLine hFrList rest
  | "hist" :: rest => runLine hHist rest
  | "histctor" :: rest => runLine hHistCtor rest
  | "histfr" :: rest => runLine hHistFr rest
  | "histfrd" :: rest => runLine hHistFrd rest
  | t :: _ => s!"bad-op c18:{t}"
  | [] => "bad-op c18:empty"

end CtrlVerif.Driver.Shape
