/-
Driver for the transfer-function family: a postfix stack program per line.
-/
import CtrlVerif.Driver.Util
import CtrlVerif.Model.TFDyn
import CtrlVerif.Model.TFCall
import CtrlVerif.Driver.TFAudit
import Mathlib.Algebra.Field.Rat

namespace CtrlVerif.Driver.TF

open CtrlVerif CtrlVerif.Driver
open CtrlVerif.Driver.TFAudit (sysExact valExact operandExact powExact feedbackExactOp binopExact)

abbrev Q := Rat

/-- tabulate the entries so later operations do not re-evaluate closures. -/
def force (G : DTF Q) : DTF Q :=
  let tab : Array (Frac Q) := Id.run do
    let mut a := #[]
    for i in List.finRange G.p do
      for j in List.finRange G.m do
        a := a.push (G.sys.e i j)
    pure a
  ⟨G.p, G.m, ⟨fun i j => tab.getD (i.val * G.m + j.val) Frac.zero⟩, G.dt⟩

def ratBits (q : Rat) : Nat := max (Nat.log2 q.num.natAbs) (Nat.log2 q.den) + 1

/-- largest bit length of any coefficient (exactness-regime guard for the harness). -/
def bitsOf (G : DTF Q) : Nat := Id.run do
  let mut b := 0
  for i in List.finRange G.p do
    for j in List.finRange G.m do
      let f := G.sys.e i j
      for c in f.num ++ f.den do
        b := max b (ratBits c)
  pure b

def bitsOp : Operand Q → Nat
  | .sys G => bitsOf G
  | _ => 0

def forceOp : Operand Q → Operand Q
  | .sys G => .sys (force G)
  | x => x

def showTF (G : DTF Q) : String := Id.run do
  let mut s := s!"tf {G.p} {G.m} {showDt G.dt}"
  for i in List.finRange G.p do
    for j in List.finRange G.m do
      let f := G.sys.e i j
      s := s ++ " " ++ showRats f.num ++ " " ++ showRats f.den
  pure s

def showOperand : Operand Q → String
  | .sys G => showTF G
  | .scalar c => "scalar " ++ showRat c
  | .array p m D => Id.run do
    let mut s := s!"array {p} {m}"
    for i in List.finRange p do
      for j in List.finRange m do
        s := s ++ " " ++ showRat (D i j)
    pure s

def pLeafTF : P (Except Err (DTF Q)) := do
  let p ← pNat
  let m ← pNat
  let dt ← pDt
  let ents ← pArray (p * m) (do
    let n ← pList pRat
    let d ← pList pRat
    pure (⟨n, d⟩ : Frac Q))
  if ents.any (fun f => f.num.isEmpty || f.den.isEmpty) then throw "leaf:empty"
  -- the constructor: zero-denominator check + normalisation
  match TFM.mk' (o := Fin p) (ι := Fin m) (fun i j => ents.getD (i.val * m + j.val) Frac.zero) with
  | .ok s => pure (.ok ⟨p, m, s, dt⟩)
  | .error e => pure (.error e)

def pLeafArray : P (Operand Q) := do
  let p ← pNat
  let m ← pNat
  let v ← pArray (p * m) pRat
  pure (.array p m fun i j => v.getD (i.val * m + j.val) 0)

def toSys : Operand Q → DTF Q
  | .sys G => G
  | .scalar c => DTF.ofScalar c 1 1
  | .array p m D => DTF.ofArray p m D

inductive Out where
  | ok (stack : List (Operand Q))
  | err (e : Err)

def binop (name : String) (a b : Operand Q) : Except String (Except Err (Operand Q)) :=
  let wrap (r : Except Err (DTF Q)) : Except Err (Operand Q) := r.map Operand.sys
  match name, a, b with
  | "add", .sys G, x => pure (wrap (G.add x))
  | "add", x, .sys G => pure (wrap (G.add x))
  | "sub", .sys G, x => pure (wrap (G.sub x))
  | "sub", x, .sys G => pure (wrap (G.rsub x))
  | "mul", .sys G, x => pure (wrap (G.mul x))
  | "mul", x, .sys G => pure (wrap (G.rmul x))
  | "div", .sys G, x => pure (wrap (G.truediv x))
  | "div", x, .sys G => pure (wrap (G.rtruediv x))
  | "append", a, b => pure (wrap ((toSys a).append (toSys b)))
  | "hcat", a, b => pure (wrap ((toSys a).hcat (toSys b)))
  | "vcat", a, b => pure (wrap ((toSys a).vcat (toSys b)))
  | _, _, _ => throw s!"binop:{name}"

/-- [v01] audit of the n-ary function forms `series` (`name = "mul"`: `y * acc`), `parallel`
(`"add"`: `acc + y`), `append` (no arithmetic): the audits of the steps the implementation
executes, on the same intermediate values (up to the first step that raises), and the largest
coefficient bit length of an intermediate result. -/
def foldExact (name : String) (G : DTF Q) (xs : List (Operand Q)) : Bool × Nat := Id.run do
  let mut acc := G
  let mut ok := true
  let mut mb := 0
  for y in xs do
    let a : Operand Q := if name == "mul" then y else .sys acc
    let b : Operand Q := if name == "mul" then .sys acc else y
    ok := ok && binopExact name a b
    match binop name a b with
    | .ok (.ok (.sys r)) =>
      acc := force r
      mb := max mb (bitsOf acc)
    | _ => return (ok, mb)
  pure (ok, mb)

/-- [v01] pop the `n` arguments of an n-ary function form: `(first argument, the others in call
order, rest of the stack)`. -/
def popArgs (n : Nat) (stack : List (Operand Q)) : Option (Operand Q × List (Operand Q) × List (Operand Q)) :=
  if n = 0 ∨ stack.length < n then none
  else
    match (stack.take n).reverse with
    | a :: xs => some (a, xs, stack.drop n)
    | [] => none

/-- error answer; `fx` as in `run` (includes the audit of the operation that failed: the steps
the implementation executes before it raises). -/
def errLine (e : Err) (fx : Bool) : String := showErr e ++ s!" fx={if fx then 1 else 0}"

/-- `mb`: largest coefficient bit length of any intermediate result; `fx`: the float-exactness
audit (`Driver/TFAudit.lean`) passed for every leaf and every operation so far. -/
partial def run (stack : List (Operand Q)) (mb : Nat := 0) (fx : Bool := true) : P String := do
  if (← atEnd) then
    match stack with
    | [x] => pure (s!"ok bits={max mb (bitsOp x)} fx={if fx then 1 else 0} " ++ showOperand x)
    | _ => throw "stack"
  else
    let t ← tok
    match t with
    | "T" =>
      match (← pLeafTF) with
      | .ok G => let G' := force G; run (.sys G' :: stack) mb (fx && sysExact G')
      | .error e => pure (errLine e fx)
    | "S" => let c ← pRat; run (.scalar c :: stack) mb (fx && valExact c)
    | "A" => let a ← pLeafArray; run (a :: stack) mb (fx && operandExact a)
    | "neg" =>
      match stack with
      | x :: rest =>
        match DTF.Operand.neg x with
        | .ok y => let y' := forceOp y; run (y' :: rest) (max mb (bitsOp y')) fx
        | .error e => pure (errLine e fx)
      | _ => throw "stack"
    | "pow" =>
      let k ← pInt
      match stack with
      | .sys G :: rest =>
        match G.pow k with
        | .ok y => let y' := force y; run (.sys y' :: rest) (max mb (bitsOf y')) (fx && powExact G k)
        | .error e => pure (errLine e (fx && powExact G k))
      | _ => throw "stack"
    | "fb" =>
      let sign ← pRat
      match stack with
      | b :: .sys G :: rest =>
        match G.feedback b sign with
        | .ok y =>
          let y' := force y
          run (.sys y' :: rest) (max mb (bitsOf y')) (fx && feedbackExactOp G b sign)
        | .error e => pure (errLine e (fx && feedbackExactOp G b sign))
      | _ => throw "stack"
    -- [v01] function-call forms of bdalg (Model/TFCall.lean)
    | "fbf" =>
      let sign ← pRat
      match stack with
      | b :: a :: rest =>
        let fxo := fx && feedbackExactOp (DTF.Operand.toSys a) b sign
        match DTF.feedbackFn a b sign with
        | .ok y => let y' := force y; run (.sys y' :: rest) (max mb (bitsOf y')) fxo
        | .error e => pure (errLine e fxo)
      | _ => throw "stack"
    | "negate" =>
      match stack with
      | .sys G :: rest =>
        match DTF.negateFn G with
        | .ok y => let y' := force y; run (.sys y' :: rest) (max mb (bitsOf y')) fx
        | .error e => pure (errLine e fx)
      | _ => throw "stack"
    | "series" | "parallel" | "appendn" =>
      let n ← pNat
      match popArgs n stack with
      | some (.sys G, xs, rest) =>
        let au := if t == "series" then foldExact "mul" G xs
          else if t == "parallel" then foldExact "add" G xs else (true, 0)
        let r := if t == "series" then DTF.seriesFn G xs
          else if t == "parallel" then DTF.parallelFn G xs else DTF.appendFn G xs
        let fxo := fx && au.1
        match r with
        | .ok y => let y' := force y; run (.sys y' :: rest) (max (max mb au.2) (bitsOf y')) fxo
        | .error e => pure (errLine e fxo)
      | _ => throw "stack"
    | "sel" =>
      let rows ← pList pNat
      let cols ← pList pNat
      match stack with
      | .sys G :: rest =>
        match G.select rows cols with
        | .ok y => let y' := force y; run (.sys y' :: rest) (max mb (bitsOf y')) fx
        | .error e => pure (errLine e fx)
      | _ => throw "stack"
    | name =>
      match stack with
      | b :: a :: rest =>
        match binop name a b with
        | .error e => throw e
        | .ok (.ok y) =>
          let y' := forceOp y
          run (y' :: rest) (max mb (bitsOp y')) (fx && binopExact name a b)
        | .ok (.error e) => pure (errLine e (fx && binopExact name a b))
      | _ => throw "stack"

/-- the rest of the line after an error is not consumed: drop it. -/
def handle (toks : List String) : String :=
  match (run []).run toks with
  | .ok (s, _) => s
  | .error e => s!"bad-op {e}"

end CtrlVerif.Driver.TF
