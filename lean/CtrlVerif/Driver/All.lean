import CtrlVerif.Driver.TF
import CtrlVerif.Driver.SS

namespace CtrlVerif.Driver

def dispatch (line : String) : String :=
  match (line.splitOn " ").filter (· ≠ "") with
  | [] => "bad-op empty"
  | "tf" :: rest => TF.handle rest
  | "ss" :: rest => SS.handle rest
  | f :: _ => s!"bad-op family:{f}"

end CtrlVerif.Driver
