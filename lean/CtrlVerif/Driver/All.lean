import CtrlVerif.Driver.TF
import CtrlVerif.Driver.SS
import CtrlVerif.Driver.Shape
import CtrlVerif.Driver.ShapeRoutes
import CtrlVerif.Driver.Config
import CtrlVerif.Driver.Index
import CtrlVerif.Driver.FRD
import CtrlVerif.Driver.FRDTree
import CtrlVerif.Driver.FRDHist
import CtrlVerif.Driver.Dt
import CtrlVerif.Driver.DtExpr
import CtrlVerif.Driver.Nyquist
import CtrlVerif.Driver.Margins
import CtrlVerif.Driver.IC
import CtrlVerif.Driver.MatEqn
import CtrlVerif.Driver.TimeResp
import CtrlVerif.Driver.TimeRespTF
import CtrlVerif.Driver.Eval
import CtrlVerif.Driver.Canon
import CtrlVerif.Driver.IOSys
import CtrlVerif.Driver.Flat
import CtrlVerif.Driver.Disc
import CtrlVerif.Driver.Convert
import CtrlVerif.Driver.Norm
import CtrlVerif.Driver.StateFbk
import CtrlVerif.Driver.Select

namespace CtrlVerif.Driver

def dispatch (line : String) : String :=
  match (line.splitOn " ").filter (· ≠ "") with
  | [] => "bad-op empty"
  | "tf" :: rest => TF.handle rest
  | "ss" :: rest => SS.handle rest
  | "c18" :: rest => Shape.handle rest
  | "c18r" :: rest => ShapeRoutes.handle rest
  | "c19" :: rest => Config.handle rest
  | "idx" :: rest => Index.handle rest
  | "frd" :: rest => FRD.handle rest
  | "frdtree" :: rest => FRDTree.handle rest
  | "frdhist" :: rest => FRDHist.handle rest
  | "dt" :: rest => DtFam.handle rest
  | "dtx" :: rest => DtExprFam.handle rest
  | "nyq" :: rest => Nyquist.handle rest
  | "mg" :: rest => Margins.handle rest
  | "ic" :: rest => IC.handle rest
  | "mateqn" :: rest => MatEqn.handle rest
  | "tr" :: rest => TimeResp.handle rest
  | "trtf" :: rest => TimeRespTF.handle rest
  | "ev" :: rest => Eval.handle rest
  | "c15" :: rest => Canon.handle rest
  | "io" :: rest => IO.handle rest
  | "flat" :: rest => Flat.handle rest
  | "c2d" :: rest => Disc.handle rest
  | "cv" :: rest => Conv.handle rest
  | "norm" :: rest => Norm.handle rest
  | "sf" :: rest => StateFbk.handle rest
  | "sel" :: rest => Select.handle rest
  | f :: _ => s!"bad-op family:{f}"

end CtrlVerif.Driver
