import CtrlVerif.Driver.TF
import CtrlVerif.Driver.SS
import CtrlVerif.Driver.Shape
import CtrlVerif.Driver.Config
import CtrlVerif.Driver.Index
import CtrlVerif.Driver.FRD
import CtrlVerif.Driver.Dt

namespace CtrlVerif.Driver

def dispatch (line : String) : String :=
  match (line.splitOn " ").filter (· ≠ "") with
  | [] => "bad-op empty"
  | "tf" :: rest => TF.handle rest
  | "ss" :: rest => SS.handle rest
  | "c18" :: rest => Shape.handle rest
  | "c19" :: rest => Config.handle rest
  | "idx" :: rest => Index.handle rest
  | "frd" :: rest => FRD.handle rest
  | "dt" :: rest => DtFam.handle rest
  | f :: _ => s!"bad-op family:{f}"

end CtrlVerif.Driver
