/-
Driver for the indexing family (C17):

  idx <cls> <pre> <suf> <name> <dt> <p> <m> <outs…> <ins…> <body> <row selector> <col selector>

strings are `s:<text>` tokens; `<cls>` = `ss | tf | frd`;
body  ss : n, A (n·n), B (n·m), C (p·n), D (p·m)            (rationals, row major)
      tf : p·m entries `len num… len den…`
      frd: w, omega (w), then p·m·w pairs `re im`
selector: `I k` | `N s:name` | `S a b c` (`_` = None) | `L cnt (I k | N s:name)…` | `X`
answer:   `ok <cls> <name> <dt> <p> <m> <outs…> <ins…> <body>` | `err <Err>`

Call histories (Model/IndexHist.lean: selector objects kept by the caller and used again):

  idx hist <k> <selector>*k <n> ( <cls> <pre> … <body> <row variable> <col variable>
                                 | W <variable> <selector> )*n          (W = the caller edits its object)

answer:   `hist <answer of call 1> ## … ## <answer of last call> ## store <selector>*k`
          (the caller's selector objects after the last call)
-/
import CtrlVerif.Driver.Util
import CtrlVerif.Model.Index
import CtrlVerif.Model.IndexHist
import Mathlib.Algebra.Field.Rat

namespace CtrlVerif.Driver.Index

open CtrlVerif CtrlVerif.Driver CtrlVerif.Index

abbrev Q := Rat

def pStr : P String := do
  let t ← tok
  if t.startsWith "s:" then pure (t.drop 2).toString else throw s!"str:{t}"

def showStr (s : String) : String := "s:" ++ s

def pOptInt : P (Option Int) := do
  let t ← tok
  if t == "_" then pure none
  else match t.toInt? with
    | some n => pure (some n)
    | none => throw s!"optint:{t}"

def pItem : P Item := do
  let t ← tok
  if t == "I" then pure (.idx (← pInt))
  else if t == "N" then pure (.name (← pStr))
  else throw s!"item:{t}"

def pSel : P Sel := do
  let t ← tok
  if t == "I" then pure (.idx (← pInt))
  else if t == "N" then pure (.name (← pStr))
  else if t == "S" then
    let a ← pOptInt
    let b ← pOptInt
    let c ← pOptInt
    pure (.slice a b c)
  else if t == "L" then pure (.list (← pList pItem))
  else if t == "X" then pure .bad
  else throw s!"sel:{t}"

def labelsOf {n : Nat} (a : Array String) : Fin n → String := fun i => a.getD i.val ""

def showLabels {n : Nat} (f : Fin n → String) : String :=
  String.join ((List.finRange n).map fun i => " " ++ showStr (f i))

def showMat {a b : Nat} (M : Matrix (Fin a) (Fin b) Q) : String :=
  String.join ((List.finRange a).map fun i =>
    String.join ((List.finRange b).map fun j => " " ++ showRat (M i j)))

def matOf {a b : Nat} (v : Array Q) : Matrix (Fin a) (Fin b) Q :=
  Matrix.of fun i j => v.getD (i.val * b + j.val) 0

def header {P : Nat → Nat → Type} (cls : String) (R : Sys P) : String :=
  s!"ok {cls} {showStr R.name} {showDt R.dt} {R.p} {R.m}" ++ showLabels R.outs ++ showLabels R.ins

/-- everything up to the body. -/
structure Head where
  cfg : Cfg
  name : String
  dt : Dt
  p : Nat
  m : Nat
  outs : Array String
  ins : Array String

def pHead : P Head := do
  let pre ← pStr
  let suf ← pStr
  let name ← pStr
  let dt ← pDt
  let p ← pNat
  let m ← pNat
  let outs ← pArray p pStr
  let ins ← pArray m pStr
  pure ⟨⟨pre, suf⟩, name, dt, p, m, outs, ins⟩

def sysSS : P (Sel → Sel → String) := do
  let h ← pHead
  let n ← pNat
  let A ← pArray (n * n) pRat
  let B ← pArray (n * h.m) pRat
  let C ← pArray (h.p * n) pRat
  let D ← pArray (h.p * h.m) pRat
  let G : SSB Q n h.p h.m := ⟨matOf A, matOf B, matOf C, matOf D⟩
  let S : Sys (SSB Q n) := ⟨h.p, h.m, G, labelsOf h.outs, labelsOf h.ins, h.dt, h.name⟩
  pure fun kr kc =>
    match getitem (P := SSB Q n) ssCtor h.cfg S kr kc with
    | .error e => showErr e
    | .ok R =>
      header "ss" R ++ s!" {n}" ++ showMat R.body.A ++ showMat R.body.B ++ showMat R.body.C
        ++ showMat R.body.D

def sysTF : P (Sel → Sel → String) := do
  let h ← pHead
  let ents ← pArray (h.p * h.m) (do
    let n ← pList pRat
    let d ← pList pRat
    pure (⟨n, d⟩ : Frac Q))
  if ents.any (fun f => f.num.isEmpty || f.den.isEmpty) then throw "leaf:empty"
  match TFM.mk' (o := Fin h.p) (ι := Fin h.m)
      (fun i j => ents.getD (i.val * h.m + j.val) Frac.zero) with
  | .error e => pure fun _ _ => "bad-op leaf-" ++ toString e
  | .ok G =>
    let S : Sys (TFB Q) := ⟨h.p, h.m, G, labelsOf h.outs, labelsOf h.ins, h.dt, h.name⟩
    pure fun kr kc =>
      match getitem (P := TFB Q) tfCtor h.cfg S kr kc with
      | .error e => showErr e
      | .ok R =>
        header "tf" R ++ String.join ((List.finRange R.p).map fun i =>
          String.join ((List.finRange R.m).map fun j =>
            " " ++ showRats (R.body.e i j).num ++ " " ++ showRats (R.body.e i j).den))

def sysFRD : P (Sel → Sel → String) := do
  let h ← pHead
  let w ← pNat
  let omega ← pArray w pRat
  let dat ← pArray (h.p * h.m * w) (do
    let re ← pRat
    let im ← pRat
    pure (re, im))
  let F : FRDB Q (Q × Q) h.p h.m :=
    ⟨omega.toList, fun i j => (List.range w).map fun k =>
      dat.getD ((i.val * h.m + j.val) * w + k) (0, 0)⟩
  let S : Sys (FRDB Q (Q × Q)) := ⟨h.p, h.m, F, labelsOf h.outs, labelsOf h.ins, h.dt, h.name⟩
  pure fun kr kc =>
    match getitem (P := FRDB Q (Q × Q)) frdCtor h.cfg S kr kc with
    | .error e => showErr e
    | .ok R =>
      header "frd" R ++ " " ++ showRats R.body.omega
        ++ String.join ((List.finRange R.p).map fun i =>
          String.join ((List.finRange R.m).map fun j =>
            String.join ((R.body.data i j).map fun z => " " ++ showRat z.1 ++ " " ++ showRat z.2)))

/-- one call: the system, then the two selectors as written. -/
def runOne (sys : P (Sel → Sel → String)) : P String := do
  let f ← sys
  let kr ← pSel
  let kc ← pSel
  pure (f kr kc)

def showOptInt : Option Int → String
  | none => "_"
  | some k => toString k

def showItem : Item → String
  | .idx k => s!"I {k}"
  | .name s => "N " ++ showStr s

def showSel : Sel → String
  | .idx k => s!"I {k}"
  | .name s => "N " ++ showStr s
  | .slice a b c => s!"S {showOptInt a} {showOptInt b} {showOptInt c}"
  | .list l => s!"L {l.length}" ++ String.join (l.map fun it => " " ++ showItem it)
  | .bad => "X"

/-- a history (`Index.runEvents`): the caller's selector objects, then the events: calls, each on its
own system (any class) with the numbers of the variables that hold the two selectors, and edits
`W <variable> <selector>` of the caller's own objects. -/
def runHistLine : P String := do
  let store ← pList pSel
  let n ← pNat
  let mut evs : Array (Event String) := #[]
  for _ in [0:n] do
    let cls ← tok
    if cls == "W" then
      let v ← pNat
      let x ← pSel
      evs := evs.push (.write v x)
    else
      let f ← (if cls == "ss" then sysSS else if cls == "tf" then sysTF
        else if cls == "frd" then sysFRD else throw s!"hist-class:{cls}")
      let r ← pNat
      let c ← pNat
      evs := evs.push (.call ⟨f, r, c⟩)
  let res := runEvents store evs.toList
  pure ("hist" ++ String.join (res.1.map fun s => " " ++ s ++ " ##") ++ " store"
    ++ String.join (res.2.map fun s => " " ++ showSel s))

def handle (toks : List String) : String :=
  match toks with
  | "ss" :: rest => runLine (runOne sysSS) rest
  | "tf" :: rest => runLine (runOne sysTF) rest
  | "frd" :: rest => runLine (runOne sysFRD) rest
  | "hist" :: rest => runLine runHistLine rest
  | _ => "bad-op idx-class"

end CtrlVerif.Driver.Index
