/-
Driver for the I/O-system family `io`:  `io <op> <postfix system program> ; <arguments>`.

system program
  `P n m p dt k (name val)^k  poly^n  hflag poly^p`   polynomial system (`hflag = 0`: `outfcn=None`)
      poly = `nterms (coef nvars (var exp)^nvars)^nterms`, var = `t | x<i> | u<i> | p<name>`
  `Q n m p dt k (name val)^k  j (name default)^j  poly^n  hflag poly^p`   the same with callables that read
      further parameters as `params.get(name, default)`
  `L n p m dt A… B… C… D…`   StateSpace leaf          `S q` scalar      `A p m v…` array
  `mul add sub div neg`, `fb sign`, `fbp sign env` (`feedback(other, sign, params=env)`)
operations
  `shape`                                                  → `ok n m p dt`
  `resp  T teval U X0 env`                                 → `ok bits=b N n m p x… u… y…` | `ok overflow b`
  `lin   t X0 U0 eps env`                                  → `ok A B C D`
  `op    t X0 U0 Y0 dx0 iu iy ix idx env`                  → `ok sol x… u… y…` | `ok singular` | `ok nonsquare`
  `linp  t (V X0 | O states inputs) U0 eps env`            → `ok A B C D`   (`U0 = N`: omitted / `None`)
  `dyn   t x u env`, `out t x u env`                       → `ok v…`
Trusted glue (parsing, printing, the exact linear solve of the affine root problem, whose
result is checked against `rootfun` before it is printed).
-/
import CtrlVerif.Driver.Mat
import CtrlVerif.Driver.SS
import CtrlVerif.Model.IOSysDyn

namespace CtrlVerif.Driver.IO

open CtrlVerif CtrlVerif.Driver

def pVar : P PVar := do
  let s ← tok
  if s == "t" then pure .t
  else if s.startsWith "x" then
    match (s.drop 1).toString.toNat? with
    | some i => pure (.x i)
    | none => throw s!"var:{s}"
  else if s.startsWith "u" then
    match (s.drop 1).toString.toNat? with
    | some i => pure (.u i)
    | none => throw s!"var:{s}"
  else if s.startsWith "p" then pure (.p (s.drop 1).toString)
  else throw s!"var:{s}"

def pTerm : P PTerm := do
  let c ← pRat
  let vs ← pList (do let v ← pVar; let e ← pNat; pure (v, e))
  pure ⟨c, vs⟩

def pPoly : P PPoly := pList pTerm

def pEnv : P ParamEnv := pList (do let s ← tok; let v ← pRat; pure (s, v))

def pPolySys : P DIO := do
  let n ← pNat
  let m ← pNat
  let p ← pNat
  let dt ← pDt
  let params ← pEnv
  let fs ← pArray n pPoly
  let hflag ← pNat
  let hs ← if hflag == 0 then pure none else do
    let a ← pArray p pPoly
    pure (some a.toList)
  pure (DIO.ofPoly n m p dt params fs.toList hs)

def pPolySysD : P DIO := do
  let n ← pNat
  let m ← pNat
  let p ← pNat
  let dt ← pDt
  let params ← pEnv
  let defaults ← pEnv
  let fs ← pArray n pPoly
  let hflag ← pNat
  let hs ← if hflag == 0 then pure none else do
    let a ← pArray p pPoly
    pure (some a.toList)
  pure (DIO.ofPolyD n m p dt params defaults fs.toList hs)

def pSSLeaf : P DIO := do
  let G ← SS.pLeaf
  let G' := SS.force G
  pure (DIO.ofSS G'.n G'.m G'.p G'.dt G'.sys)

def pVArg : P VArg := do
  let k ← tok
  match k with
  | "N" => pure .none
  | "S" => pure (.scalar (← pRat))
  | "L" => pure (.list (← pList (pList pRat)))
  | "A" => pure (.array (← pList pRat))
  | _ => throw s!"varg:{k}"

def pXArg : P XArg := do
  let k ← tok
  match k with
  | "V" => pure (.vec (← pVArg))
  | "O" => do
    let xs ← pVArg
    let us ← pVArg
    pure (.op xs us)
  | _ => throw s!"xarg:{k}"

def pUElem : P UElem := do
  let k ← tok
  match k with
  | "s" => pure (.scalar (← pRat))
  | "v" => pure (.vec (← pList pRat))
  | "m" =>
    let r ← pNat
    let c ← pNat
    let rows ← pArray r (pArray c pRat)
    pure (.mat (rows.toList.map (·.toList)))
  | _ => throw s!"uelem:{k}"

def pUArg : P UArg := do
  let k ← tok
  match k with
  | "S" => pure (.scalar (← pRat))
  | "A1" => pure (.arr1 (← pList pRat))
  | "A2" =>
    let r ← pNat
    let c ← pNat
    let rows ← pArray r (pArray c pRat)
    pure (.arr2 (rows.toList.map (·.toList)))
  | "L" => pure (.list (← pList pUElem))
  | _ => throw s!"uarg:{k}"

def pOpt {α} (p : P α) : P (Option α) := do
  let k ← pNat
  if k == 0 then pure none else pure (some (← p))

def showList (l : List Q) : String := String.join (l.map fun q => " " ++ showRat q)

def bitsList (l : List Q) : Nat := l.foldl (fun b q => max b (ratBits q)) 0

/-- the system program: a postfix stack machine up to `;`. -/
partial def pProgram (stack : List IOperand) : P (Except Err DIO) := do
  let t ← tok
  let cont (r : Except Err DIO) (rest : List IOperand) : P (Except Err DIO) :=
    match r with
    | .ok G => pProgram (.sys G :: rest)
    | .error e => pure (.error e)
  match t with
  | ";" =>
    match stack with
    | [.sys G] => pure (.ok G)
    | _ => throw "stack"
  | "P" => do let G ← pPolySys; pProgram (.sys G :: stack)
  | "Q" => do let G ← pPolySysD; pProgram (.sys G :: stack)
  | "L" => do let G ← pSSLeaf; pProgram (.sys G :: stack)
  | "S" => do let c ← pRat; pProgram (.scalar c :: stack)
  | "A" => do
    let p ← pNat
    let m ← pNat
    let D ← pMatSized p m
    pProgram (.array p m D :: stack)
  | "neg" =>
    match stack with
    | a :: rest => cont a.neg rest
    | _ => throw "stack"
  | "fb" => do
    let sign ← pRat
    match stack with
    | b :: a :: rest => cont (a.feedback b sign) rest
    | _ => throw "stack"
  | "fbp" => do
    let sign ← pRat
    let given ← pEnv
    match stack with
    | b :: a :: rest => cont (a.feedbackP b sign (some given)) rest
    | _ => throw "stack"
  | name =>
    match stack with
    | b :: a :: rest =>
      match name with
      | "mul" => cont (a.mul b) rest
      | "add" => cont (a.add b) rest
      | "sub" => cont (a.sub b) rest
      | "div" => cont (a.div b) rest
      | _ => throw s!"op:{name}"
    | _ => throw "stack"

/-- skip to after the `;` (when the program already failed). -/
partial def skipProgram : P Unit := do
  let t ← tok
  if t == ";" then pure () else skipProgram

def trajBits (tr : Traj) : Nat :=
  max (bitsList tr.xs.flatten) (max (bitsList tr.us.flatten) (bitsList tr.ys.flatten))

def showTraj (G : DIO) (tr : Traj) : String :=
  let xs := tr.xs.flatten
  let us := tr.us.flatten
  let ys := tr.ys.flatten
  let b := trajBits tr
  s!"ok bits={b} {tr.times.length} {G.n} {G.m} {G.p}" ++ showList xs ++ showList us ++ showList ys

/-- Iterated polynomial maps grow doubly exponentially (the bit length is multiplied by the degree
at every step); such trajectories leave the binary64 range and the harness does not compare them
(more than 200 bits).  They are detected on prefixes of 6, 8, 10, … evaluation times so that
numbers with millions of digits are never computed or printed: `some b` when a prefix needs
`b > 3000` bits. -/
def overflowAt (G : DIO) (env : ParamEnv) (T : List Q) (te : List Q) (U : UArg) (X0 : VArg) :
    Nat → Nat → Option Nat
  | 0, _ => none
  | fuel + 1, k =>
    if k ≥ te.length then none
    else
      match response G env T (some (te.take k)) U X0 with
      | .ok tr =>
        let b := trajBits tr
        if b > 3000 then some b else overflowAt G env T te U X0 fuel (k + 2)
      | .error _ => none

def unitList (k j : Nat) : List Q := (List.range k).map fun i => if i = j then 1 else 0

/-- Gauss–Jordan elimination over `ℚ` on the augmented rows `[M | b]` (`k` rows of length `k+1`):
the solution of `M z = b`, `none` when a column has no pivot (`M` singular).  Trusted glue: the
caller checks the result with `rootfun`. -/
def gaussSolve (k : Nat) (aug : Array (Array Q)) : Option (Array Q) := Id.run do
  let mut a := aug
  for c in List.range k do
    let mut piv : Option Nat := none
    for r in List.range k do
      if r ≥ c && piv.isNone && (a.getD r #[]).getD c 0 != 0 then piv := some r
    match piv with
    | none => return none
    | some r =>
      let rowc := a.getD c #[]
      let rowr := a.getD r #[]
      let d := rowr.getD c 0
      let prn := rowr.map (· / d)
      a := (a.set! r rowc).set! c prn
      for r2 in List.range k do
        if r2 != c then
          let row := a.getD r2 #[]
          let f := row.getD c 0
          if f != 0 then
            a := a.set! r2 (Array.ofFn (n := k + 1) fun j => row.getD j.val 0 - f * prn.getD j.val 0)
  return some ((Array.range k).map fun i => (a.getD i #[]).getD k 0)

/-- exact solution of the (affine) root problem, checked against `rootfun`. -/
def solveOp {n m p : Nat} (S : OpSpec n m p) (G : IOSys (Fin n) (Fin m) (Fin p) Q) : String :=
  let k := S.idx.stateVars.length + S.idx.inputVars.length
  match S.rootfun G (List.replicate k 0) with
  | .error e => showErr e
  | .ok r0 =>
    if r0.length ≠ k then "ok nonsquare"
    else
      let colsE := (List.range k).mapM fun j => S.rootfun G (unitList k j)
      match colsE with
      | .error e => showErr e
      | .ok cols =>
        let r0a := r0.toArray
        let colsA : Array (Array Q) := (cols.map List.toArray).toArray
        -- rootfun(z) = r0 + M z with column j of M = rootfun(e_j) - r0: solve M z = -r0
        let aug : Array (Array Q) := (Array.range k).map fun i =>
          ((Array.range k).map fun j => (colsA.getD j #[]).getD i 0 - r0a.getD i 0).push (-(r0a.getD i 0))
        match gaussSolve k aug with
        | none => "ok singular"
        | some za =>
          let z : List Q := za.toList
          match S.rootfun G z, S.result G z with
          | .ok r, .ok (x, u, y) =>
            if r.all (· == 0) then
              "ok sol" ++ showList (listOf x) ++ showList (listOf u) ++ showList (listOf y)
            else "model-error root-certificate"
          | .error e, _ => showErr e
          | _, .error e => showErr e

def showSSMats {n m p : Nat} (S : CtrlVerif.SS (Fin n) (Fin m) (Fin p) Q) : String :=
  "ok " ++ showMat S.A ++ " " ++ showMat S.B ++ " " ++ showMat S.C ++ " " ++ showMat S.D

def run : P String := do
  let op ← tok
  let prog ← pProgram []
  match prog with
  | .error e =>
    -- the rest of the line is not needed
    set ([] : List String)
    pure (showErr e)
  | .ok G =>
    match op with
    | "shape" => pure s!"ok {G.n} {G.m} {G.p} {showDt G.dt}"
    | "resp" => do
      let T ← pList pRat
      let te ← pOpt (pList pRat)
      let U ← pUArg
      let X0 ← pVArg
      let env ← pEnv
      match overflowAt G env T (te.getD T) U X0 (te.getD T).length 6 with
      | some b => pure s!"ok overflow {b}"
      | none =>
        match response G env T te U X0 with
        | .ok tr => pure (showTraj G tr)
        | .error e => pure (showErr e)
    | "lin" => do
      let t ← pRat
      let X0 ← pVArg
      let U0 ← pVArg
      let eps ← pRat
      let env ← pEnv
      match linearizeD G env t X0 U0 eps with
      | .ok S => pure (showSSMats S)
      | .error e => pure (showErr e)
    | "linp" => do
      let t ← pRat
      let X ← pXArg
      let U0 ← pVArg
      let eps ← pRat
      let env ← pEnv
      match linearizeP G env t X U0 eps with
      | .ok S => pure (showSSMats S)
      | .error e => pure (showErr e)
    | "dyn" => do
      let t ← pRat
      let x ← pList pRat
      let u ← pList pRat
      let env ← pEnv
      match dynamicsD G env t x u with
      | .ok v => pure ("ok" ++ showList v)
      | .error e => pure (showErr e)
    | "out" => do
      let t ← pRat
      let x ← pList pRat
      let u ← pList pRat
      let env ← pEnv
      match outputD G env t x u with
      | .ok v => pure ("ok" ++ showList v)
      | .error e => pure (showErr e)
    | "op" => do
      let t ← pRat
      let X0 ← pVArg
      let U0 ← pVArg
      let Y0 ← pVArg
      let dx0 ← pOpt (pList pRat)
      let iu ← pOpt (pList pInt)
      let iy ← pOpt (pList pInt)
      let ix ← pOpt (pList pInt)
      let idx ← pOpt (pList pInt)
      let env ← pEnv
      match opProblem G t X0 U0 Y0 dx0 iu iy ix idx with
      | .error e => pure (showErr e)
      | .ok S => pure (solveOp S (G.build env))
    | _ => throw s!"op:{op}"

def handle (toks : List String) : String := runLine run toks

end CtrlVerif.Driver.IO
