/-
Driver family `frdtree`: the tie between the postfix interpreter of `Driver/FRD.lean` (what the
correspondence check of C09 compares with python-control) and `FRDTree.Expr.evalModel` (what the
tree theorem of `Props/C09Tree.lean` is about).

A `frdtree` line has the format of a `frd` line.  It is answered by `FRD.handle` (so the harness
sees exactly the `frd` answer), after the same program has ALSO been read as an expression tree
`Expr ℚ(i) n` and evaluated by `Expr.evalModel` (whole tree at once, no intermediate
tabulation): if the two results differ (value, shape, grid, `smooth` flag, or error kind) the
answer is `model-error tree-mismatch …`, which the runner never masks.  Programs that are not
`Expr` trees (an `eval` request, FRD-valued subtrees on grids of different lengths, a non-FRD
result) are answered by `FRD.handle` alone.  Trusted glue (parsing, printing).
-/
import CtrlVerif.Driver.FRD
import CtrlVerif.Model.C09Expr

namespace CtrlVerif.Driver.FRDTree

open CtrlVerif CtrlVerif.Driver CtrlVerif.Driver.FRD CtrlVerif.FRDTree

/-- stack items: an FRD-valued tree on `n` grid points, or a non-FRD operand. -/
inductive Item where
  | tree (n : Nat) (e : Expr C n)
  | opd (x : Opd C)

def binOpOf : String → Option BinOp
  | "add" => some .add
  | "sub" => some .sub
  | "mul" => some .mul
  | "div" => some .div
  | _ => none

def opdOf : FOperand C → Option (Opd C)
  | .scalar c => some (.scalar c)
  | .array p m D => some (.array p m D)
  | .lti L => some (.lti L)
  | .frd _ _ => none

/-- read the postfix program as a tree; `none`: the program is not an `Expr` tree.  `R i` names
the object `i` of a history's store (`Driver/FRDHist.lean`): an FRD object is a LEAF holding the
stored value, any other operand is the operand; an empty or missing slot: not a tree. -/
partial def buildS (store : Array (Option (FOperand C))) (stack : List Item) :
    P (Option (Σ n, Expr C n)) := do
  if (← atEnd) then
    match stack with
    | [.tree n e] => pure (some ⟨n, e⟩)
    | _ => pure none
  else
    let t ← tok
    match t with
    | "R" =>
      let i ← pNat
      match store[i]? with
      | some (some (.frd n F)) => buildS store (.tree n (.leaf F) :: stack)
      | some (some x) =>
        match opdOf x with
        | some y => buildS store (.opd y :: stack)
        | none => pure none
      | _ => pure none
    | "F" =>
      match (← pLeafF) with
      | .frd n F => buildS store (.tree n (.leaf (force F)) :: stack)
      | _ => pure none
    | "S" => let c ← pC; buildS store (.opd (.scalar c) :: stack)
    | "A" =>
      match opdOf (← pLeafA) with
      | some x => buildS store (.opd x :: stack)
      | none => pure none
    | "LT" =>
      match opdOf (← pLeafLT) with
      | some x => buildS store (.opd x :: stack)
      | none => pure none
    | "LS" =>
      match opdOf (← pLeafLS) with
      | some x => buildS store (.opd x :: stack)
      | none => pure none
    | "neg" =>
      match stack with
      | .tree n e :: rest => buildS store (.tree n (.neg e) :: rest)
      | .opd x :: rest =>
        match opdOf (DFRD.negOperand x.toF) with
        | some y => buildS store (.opd y :: rest)
        | none => pure none
      | _ => pure none
    | "pow" =>
      let k ← pInt
      match stack with
      | .tree n e :: rest => buildS store (.tree n (.pow e k) :: rest)
      | _ => pure none
    | "fb" =>
      let sign ← pC
      match stack with
      | .tree nb b :: .tree n a :: rest =>
        if h : nb = n then buildS store (.tree n (.fb a (h ▸ b) sign) :: rest) else pure none
      | .opd x :: .tree n a :: rest => buildS store (.tree n (.fbV a x.toF sign) :: rest)
      | .tree n b :: .opd (.scalar c) :: rest =>
        buildS store (.tree n (.fbL (.scalar c) rfl b sign) :: rest)
      | .tree n b :: .opd (.array p m D) :: rest =>
        buildS store (.tree n (.fbL (.array p m D) rfl b sign) :: rest)
      | _ => pure none
    | "sel" =>
      let rows ← pList pNat
      let cols ← pList pNat
      match stack with
      | .tree n e :: rest => buildS store (.tree n (.sel e rows cols) :: rest)
      | _ => pure none
    | "eval" => pure none
    | "append" =>
      match stack with
      | .tree nb b :: .tree n a :: rest =>
        if h : nb = n then buildS store (.tree n (.append a (h ▸ b)) :: rest) else pure none
      | .opd (.lti L) :: .tree n a :: rest =>
        buildS store (.tree n (.appendV a (.lti L) rfl) :: rest)
      | _ => pure none
    | name =>
      match binOpOf name, stack with
      | some op, .tree nb b :: .tree n a :: rest =>
        if h : nb = n then buildS store (.tree n (.bin op a (h ▸ b)) :: rest) else pure none
      | some op, .opd x :: .tree n a :: rest => buildS store (.tree n (.binV op a x.toF) :: rest)
      | some op, .tree n b :: .opd x :: rest => buildS store (.tree n (.rbin op x b) :: rest)
      | _, _ => pure none

/-- a plain `frdtree` line: no store. -/
def build (stack : List Item) : P (Option (Σ n, Expr C n)) := buildS #[] stack

/-- the `frd` answer without its statistics prefix. -/
def core (base : String) : String :=
  if base.startsWith "ok " then
    " ".intercalate (((base.splitOn " ").filter (· ≠ "")).drop 4)
  else base

def handle (toks : List String) : String :=
  let base := FRD.handle toks
  if base.startsWith "bad-op" then base else
  match (do let tab ← pTable; let r ← build []; pure (tab, r)).run toks with
  | .ok ((tab, some ⟨_, e⟩), _) =>
    let mine := match e.evalModel (mkEnv tab) with
      | .ok R => showFRD R
      | .error err => showErr err
    if mine == core base then base
    else s!"model-error tree-mismatch run=[{core base}] tree=[{mine}]"
  | _ => base

end CtrlVerif.Driver.FRDTree
