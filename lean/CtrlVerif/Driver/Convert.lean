/-
Driver for the conversion family `cv`: a postfix stack program per line, executed by
`CtrlVerif.Model.Convert` over `ℚ` (the terminal `frd` instruction over `ℚ(i)`).  Trusted glue.

line  := "cv" "X" <cnt> {h ω re im}  prog
prog  := leaf | prog step | prog prog "op" (add|sub|mul) | prog "frd" n ω… kw
leaf  := "SS" names n p m dt A… B… C… D…
       | "TF" names p m dt (num den)…
       | "ZPK" names dt nz z… np p… k
names := name nin in… nout out…
step  := ("tf" | "ss2tf" | "ss") kw | "tfdata" | "ssdata"
kw    := ("-" | "=" name) ("-" | "=" nin in…) ("-" | "=" nout out…)
-/
import CtrlVerif.Driver.SS
import CtrlVerif.Driver.TF
import CtrlVerif.Driver.FRD
import CtrlVerif.Model.Convert

namespace CtrlVerif.Driver.Conv

open CtrlVerif CtrlVerif.Driver CtrlVerif.Convert

def pNames : P Meta := do
  let name ← tok
  let ins ← pList tok
  let outs ← pList tok
  pure ⟨name, ins, outs⟩

def pKw : P Kw := do
  let a ← tok
  let name ← if a == "-" then pure none else if a == "=" then (do let n ← tok; pure (some n))
    else throw s!"kw:{a}"
  let b ← tok
  let ins ← if b == "-" then pure none else if b == "=" then (do let l ← pList tok; pure (some l))
    else throw s!"kw:{b}"
  let c ← tok
  let outs ← if c == "-" then pure none else if c == "=" then (do let l ← pList tok; pure (some l))
    else throw s!"kw:{c}"
  pure { name := name, inputs := ins, outputs := outs }

def showNames (μ : Meta) : String :=
  μ.name ++ " " ++ toString μ.inputs.length ++ String.join (μ.inputs.map (" " ++ ·))
    ++ " " ++ toString μ.outputs.length ++ String.join (μ.outputs.map (" " ++ ·))

def forceRep : Rep Q → Rep Q
  | .ss G => .ss (SS.force G)
  | .tf G => .tf (TF.force G)

def forceObj (x : Obj Q) : Obj Q := ⟨forceRep x.rep, x.names⟩

def showObj (x : Obj Q) : String :=
  match x.rep with
  | .ss G => "ss " ++ showNames x.names ++ " " ++
      s!"{G.n} {G.p} {G.m} {showDt G.dt} " ++ showMat G.sys.A ++ " " ++ showMat G.sys.B ++ " "
        ++ showMat G.sys.C ++ " " ++ showMat G.sys.D
  | .tf G => "tf " ++ showNames x.names ++ " " ++ (TF.showTF G).drop 3

def pLeafSS : P (Obj Q) := do
  let μ ← pNames
  let G ← SS.pLeaf
  pure ⟨.ss (SS.force G), μ⟩

def pLeafTF : P (Except Err (Obj Q)) := do
  let μ ← pNames
  match (← TF.pLeafTF) with
  | .ok G => pure (.ok ⟨.tf (TF.force G), μ⟩)
  | .error e => pure (.error e)

def pLeafZPK : P (Except Err (Obj Q)) := do
  let μ ← pNames
  let dt ← pDt
  let zs ← pList pRat
  let ps ← pList pRat
  let k ← pRat
  match Convert.zpk zs ps k dt with
  | .ok G => pure (.ok ⟨.tf (TF.force G), μ⟩)
  | .error e => pure (.error e)

/-- embed a rational system into `ℚ(i)`. -/
def toC (q : Q) : FRD.C := FRD.mkC q 0

def ltiOf : Rep Q → LTI FRD.C
  | .ss G => .ss G.n G.p G.m ⟨G.sys.A.map toC, G.sys.B.map toC, G.sys.C.map toC, G.sys.D.map toC⟩ G.dt
  | .tf G => .tf G.p G.m (fun i j => ⟨(G.sys.e i j).num.map toC, (G.sys.e i j).den.map toC⟩) G.dt

def tableOkFor (tab : FRD.Table) (dt : Dt) (ws : List ℚ) : Bool :=
  match dt with
  | .disc h => ws.all fun w => (tab.lookup (h, w)).isSome
  | .dtrue => ws.all fun w => (tab.lookup (1, w)).isSome
  | _ => true

partial def run (tab : FRD.Table) (stack : List (Obj Q)) : P String := do
  if (← atEnd) then
    match stack with
    | [x] => pure ("ok " ++ showObj x)
    | _ => throw "stack"
  else
    let t ← tok
    let doStep (st : Step) : P String := do
      match stack with
      | x :: rest =>
        if !chainCertOK [st] x then pure "model-error cert" else
        match applyStep st x with
        | .ok y => run tab (forceObj y :: rest)
        | .error e => pure (showErr e)
      | _ => throw "stack"
    match t with
    | "SS" => let x ← pLeafSS; run tab (x :: stack)
    | "TF" =>
      match (← pLeafTF) with
      | .ok x => run tab (x :: stack)
      | .error e => pure (showErr e)
    | "ZPK" =>
      match (← pLeafZPK) with
      | .ok x => run tab (x :: stack)
      | .error e => pure (showErr e)
    | "tf" => let kw ← pKw; doStep (.tf kw)
    | "ss2tf" => let kw ← pKw; doStep (.ss2tf kw)
    | "ss" => let kw ← pKw; doStep (.ss kw)
    | "tfdata" => doStep .tfdata
    | "ssdata" => doStep .ssdata
    | "op" =>
      let o ← tok
      let op ← match o with
        | "add" => pure MOp.add
        | "sub" => pure MOp.sub
        | "mul" => pure MOp.mul
        | _ => throw s!"op:{o}"
      match stack with
      | y :: x :: rest =>
        if !mixedCertOK op x y then pure "model-error cert" else
        match mixed op x y with
        | .ok r => run tab (forceObj r :: rest)
        | .error e => pure (showErr e)
      | _ => throw "stack"
    | "frd" =>
      let ws ← pList pRat
      let kw ← pKw
      if !(← atEnd) then throw "frd-not-last" else
      match stack with
      | [x] =>
        if !tableOkFor tab x.rep.dt ws then throw "expj-missing" else
        match frdOfSys (FRD.mkEnv tab) (ltiOf x.rep) ws with
        | .ok F =>
          let F' := FRD.force F
          pure ("ok frd " ++ showNames (frdMeta x.names kw) ++ " " ++ showDt (frdDt x.rep.dt) ++ " "
            ++ FRD.showFRD F')
        | .error e => pure (showErr e)
      | _ => throw "stack"
    | _ => throw s!"tok:{t}"

def handle (toks : List String) : String :=
  match (do let tab ← FRD.pTable; run tab []).run toks with
  | .ok (s, _) => s
  | .error e => s!"bad-op {e}"

end CtrlVerif.Driver.Conv
