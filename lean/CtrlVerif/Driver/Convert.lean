/-
Driver for the conversion family `cv`: a postfix stack program per line, executed by
`CtrlVerif.Model.Convert` over `ℚ` (the terminal `frd` instruction over `ℚ(i)`).  Trusted glue.

line  := "cv" "X" <cnt> {h ω re im}  prog
prog  := leaf | prog step | prog prog "op" (add|sub|mul) | prog "frd" n ω… kw | prog cfg
leaf  := "SS" names n p m dt A… B… C… D…
       | "SSK" flag names n p m dt A… B… C… D…      (`ss(A, B, C, D, dt, remove_useless_states=flag)`)
       | "TF" names p m dt (num den)…
       | "ZPK" names dt nz z… np p… k
names := name nin in… nout out…
step  := ("tf" | "ss2tf" | "ss") kw | "ssk" flag kw | "tfdata" | "ss2tf4" | "ssdata"
kw    := ("-" | "=" name) ("-" | "=" nin in…) ("-" | "=" nout out…)
flag  := "-" | "1" | "0"                              (keyword `remove_useless_states` absent / True / False)
cfg   := "cfg" ("on" | "off" | "legacy" | "reset")    (`set_defaults('statesp', remove_useless_states=…)`,
                                                       `use_legacy_defaults('0.8.4')`, `reset_defaults()`)
The configured default of `remove_useless_states` is part of the run state (`g`, initially off);
every step / operator / leaf is executed by the `…R g` functions of `Model/ConvertRus.lean`.
-/
import CtrlVerif.Driver.SS
import CtrlVerif.Driver.TF
import CtrlVerif.Driver.FRD
import CtrlVerif.Model.ConvertRus

namespace CtrlVerif.Driver.Conv

open CtrlVerif CtrlVerif.Driver CtrlVerif.Convert

def pNames : P Meta := do
  let name ← tok
  let ins ← pList tok
  let outs ← pList tok
  pure ⟨name, ins, outs⟩

def pKw : P Kw := do
  let a ← tok
  let name ← if a == "-" then pure none else if a == "=" then (do let n ← tok; pure (some n))
    else throw s!"kw:{a}"
  let b ← tok
  let ins ← if b == "-" then pure none else if b == "=" then (do let l ← pList tok; pure (some l))
    else throw s!"kw:{b}"
  let c ← tok
  let outs ← if c == "-" then pure none else if c == "=" then (do let l ← pList tok; pure (some l))
    else throw s!"kw:{c}"
  pure { name := name, inputs := ins, outputs := outs }

def showNames (μ : Meta) : String :=
  μ.name ++ " " ++ toString μ.inputs.length ++ String.join (μ.inputs.map (" " ++ ·))
    ++ " " ++ toString μ.outputs.length ++ String.join (μ.outputs.map (" " ++ ·))

def forceRep : Rep Q → Rep Q
  | .ss G => .ss (SS.force G)
  | .tf G => .tf (TF.force G)

def forceObj (x : Obj Q) : Obj Q := ⟨forceRep x.rep, x.names⟩

def showObj (x : Obj Q) : String :=
  match x.rep with
  | .ss G => "ss " ++ showNames x.names ++ " " ++
      s!"{G.n} {G.p} {G.m} {showDt G.dt} " ++ showMat G.sys.A ++ " " ++ showMat G.sys.B ++ " "
        ++ showMat G.sys.C ++ " " ++ showMat G.sys.D
  | .tf G => "tf " ++ showNames x.names ++ " " ++ (TF.showTF G).drop 3

def pFlag : P (Option Bool) := do
  let a ← tok
  if a == "-" then pure none else if a == "1" then pure (some true)
  else if a == "0" then pure (some false) else throw s!"flag:{a}"

/-- `ss(A, B, C, D, dt, …)`: one constructor call with the keyword `flag` or the default `g`. -/
def pLeafSS (g : Bool) (flag : Option Bool) : P (Obj Q) := do
  let μ ← pNames
  let G ← SS.pLeaf
  pure ⟨.ss (SS.force (construct (flag.getD g) (SS.force G))), μ⟩

def pLeafTF : P (Except Err (Obj Q)) := do
  let μ ← pNames
  match (← TF.pLeafTF) with
  | .ok G => pure (.ok ⟨.tf (TF.force G), μ⟩)
  | .error e => pure (.error e)

def pLeafZPK : P (Except Err (Obj Q)) := do
  let μ ← pNames
  let dt ← pDt
  let zs ← pList pRat
  let ps ← pList pRat
  let k ← pRat
  match Convert.zpk zs ps k dt with
  | .ok G => pure (.ok ⟨.tf (TF.force G), μ⟩)
  | .error e => pure (.error e)

/-- embed a rational system into `ℚ(i)`. -/
def toC (q : Q) : FRD.C := FRD.mkC q 0

def ltiOf : Rep Q → LTI FRD.C
  | .ss G => .ss G.n G.p G.m ⟨G.sys.A.map toC, G.sys.B.map toC, G.sys.C.map toC, G.sys.D.map toC⟩ G.dt
  | .tf G => .tf G.p G.m (fun i j => ⟨(G.sys.e i j).num.map toC, (G.sys.e i j).den.map toC⟩) G.dt

def tableOkFor (tab : FRD.Table) (dt : Dt) (ws : List ℚ) : Bool :=
  match dt with
  | .disc h => ws.all fun w => (tab.lookup (h, w)).isSome
  | .dtrue => ws.all fun w => (tab.lookup (1, w)).isSome
  | _ => true

partial def run (tab : FRD.Table) (g : Bool) (stack : List (Obj Q)) : P String := do
  if (← atEnd) then
    match stack with
    | [x] => pure ("ok " ++ showObj x)
    | _ => throw "stack"
  else
    let t ← tok
    let doStep (st : StepR) : P String := do
      match stack with
      | x :: rest =>
        if !stepCertOKR g st x.rep then pure "model-error cert" else
        match applyStepR g st x with
        | .ok y => run tab g (forceObj y :: rest)
        | .error e => pure (showErr e)
      | _ => throw "stack"
    match t with
    | "SS" => let x ← pLeafSS g none; run tab g (x :: stack)
    | "SSK" => let fl ← pFlag; let x ← pLeafSS g fl; run tab g (x :: stack)
    | "cfg" =>
      let e ← tok
      let ev ← match e with
        | "on" => pure (CfgEv.setRus true)
        | "off" => pure (CfgEv.setRus false)
        | "legacy" => pure CfgEv.legacy
        | "reset" => pure CfgEv.reset
        | _ => throw s!"cfg:{e}"
      run tab (ev.apply g) stack
    | "TF" =>
      match (← pLeafTF) with
      | .ok x => run tab g (x :: stack)
      | .error e => pure (showErr e)
    | "ZPK" =>
      match (← pLeafZPK) with
      | .ok x => run tab g (x :: stack)
      | .error e => pure (showErr e)
    | "tf" => let kw ← pKw; doStep (.tf kw)
    | "ss2tf" => let kw ← pKw; doStep (.ss2tf kw)
    | "ss" => let kw ← pKw; doStep (.ss kw none)
    | "ssk" => let fl ← pFlag; let kw ← pKw; doStep (.ss kw fl)
    | "tfdata" => doStep .tfdata
    | "ss2tf4" => doStep .ss2tf4
    | "ssdata" => doStep .ssdata
    | "op" =>
      let o ← tok
      let op ← match o with
        | "add" => pure MOp.add
        | "sub" => pure MOp.sub
        | "mul" => pure MOp.mul
        | _ => throw s!"op:{o}"
      match stack with
      | y :: x :: rest =>
        if !mixedCertOKR g op x y then pure "model-error cert" else
        match mixedR g op x y with
        | .ok r => run tab g (forceObj r :: rest)
        | .error e => pure (showErr e)
      | _ => throw "stack"
    | "frd" =>
      let ws ← pList pRat
      let kw ← pKw
      if !(← atEnd) then throw "frd-not-last" else
      match stack with
      | [x] =>
        if !tableOkFor tab x.rep.dt ws then throw "expj-missing" else
        match frdOfSys (FRD.mkEnv tab) (ltiOf x.rep) ws with
        | .ok F =>
          let F' := FRD.force F
          pure ("ok frd " ++ showNames (frdMeta x.names kw) ++ " " ++ showDt (frdDt x.rep.dt) ++ " "
            ++ FRD.showFRD F')
        | .error e => pure (showErr e)
      | _ => throw "stack"
    | _ => throw s!"tok:{t}"

def handle (toks : List String) : String :=
  match (do let tab ← FRD.pTable; run tab false []).run toks with
  | .ok (s, _) => s
  | .error e => s!"bad-op {e}"

end CtrlVerif.Driver.Conv
