/-
Driver for the state-space family: a postfix stack program per line.
  leaf   : `L n p m dt A… B… C… D…`   (row major, sizes implied)
  scalar : `S q`      array : `A p m v…`
  ops    : neg | pow k | fb sign | lft nu ny | sel nr r… nc c… | add sub mul div append
  bdalg  : series k | parallel k | appendn k   (the k topmost operands, in call order; the folds
           of `Model/C02Bdalg.lean`) | negate | tosys (`_convert_to_statespace`, the first
           operand of the function form of feedback)
  option : rus   (the final processing of the `StateSpace` constructor with the option
           `remove_useless_states` on, applied to the topmost operand: `C02Rus.rusOp true`)
-/
import CtrlVerif.Driver.Mat
import CtrlVerif.Model.SSDyn
import CtrlVerif.Model.C02Bdalg
import CtrlVerif.Model.C02Rus

namespace CtrlVerif.Driver.SS

open CtrlVerif CtrlVerif.Driver

def force (G : DSS Q) : DSS Q :=
  let a := tabulate G.sys.A
  let b := tabulate G.sys.B
  let c := tabulate G.sys.C
  let d := tabulate G.sys.D
  ⟨G.n, G.p, G.m, ⟨ofTable a, ofTable b, ofTable c, ofTable d⟩, G.dt⟩

def bitsOf (G : DSS Q) : Nat :=
  max (max (matBits G.sys.A) (matBits G.sys.B)) (max (matBits G.sys.C) (matBits G.sys.D))

def showSS (G : DSS Q) : String :=
  s!"ss {G.n} {G.p} {G.m} {showDt G.dt} " ++ showMat G.sys.A ++ " " ++ showMat G.sys.B ++ " "
    ++ showMat G.sys.C ++ " " ++ showMat G.sys.D

def forceOp : SOperand Q → SOperand Q
  | .sys G => .sys (force G)
  | .array p m D => let t := tabulate D; .array p m (ofTable t)
  | x => x

def bitsOp : SOperand Q → Nat
  | .sys G => bitsOf G
  | _ => 0

def showOperand : SOperand Q → String
  | .sys G => showSS G
  | .scalar c => "scalar " ++ showRat c
  | .array p m D => "array " ++ showMat D

def pLeaf : P (DSS Q) := do
  let n ← pNat
  let p ← pNat
  let m ← pNat
  let dt ← pDt
  let A ← pMatSized n n
  let B ← pMatSized n m
  let C ← pMatSized p n
  let D ← pMatSized p m
  pure ⟨n, p, m, ⟨A, B, C, D⟩, dt⟩

def binop (name : String) (a b : SOperand Q) : Except String (Except Err (SOperand Q)) :=
  let wrap (r : Except Err (DSS Q)) : Except Err (SOperand Q) := r.map SOperand.sys
  match name, a, b with
  | "add", .sys G, x => pure (wrap (G.add x))
  | "add", x, .sys G => pure (wrap (G.add x))
  | "sub", .sys G, x => pure (wrap (G.sub x))
  | "sub", x, .sys G => pure (wrap (G.rsub x))
  | "mul", .sys G, x => pure (wrap (G.mul x))
  | "mul", x, .sys G => pure (wrap (G.rmul x))
  | "div", .sys G, x => pure (wrap (G.truediv x))
  | "div", x, .sys G => pure (wrap (G.rtruediv x))
  | "append", a, b => pure (wrap ((DSS.toSys a).append (DSS.toSys b)))
  | _, _, _ => throw s!"binop:{name}"

def bdFn? : String → Option BdFn
  | "series" => some .series
  | "parallel" => some .parallel
  | "appendn" => some .append
  | _ => none

/-- `DSS.bdFoldOp` (the fold of `bdalg.series / parallel / append`), every intermediate result
tabulated and its bit size recorded. -/
def bdFoldForced (f : BdFn) : SOperand Q → List (SOperand Q) → Nat →
    Except SSEvalErr (SOperand Q × Nat)
  | acc, [], mb => .ok (acc, mb)
  | acc, y :: l, mb =>
    match DSS.bdStepOp f acc y with
    | none => .error .bad
    | some (.error e) => .error (.err e)
    | some (.ok r) => let r' := forceOp r; bdFoldForced f r' l (max mb (bitsOp r'))

/-- `DSS.bdalg` with the intermediate results tabulated. -/
def bdalgForced (f : BdFn) : List (SOperand Q) → Nat → Except SSEvalErr (SOperand Q × Nat)
  | [], _ => .error .bad
  | a :: l, mb => bdFoldForced f (forceOp (DSS.bdSeed a l)) l mb

partial def run (stack : List (SOperand Q)) (mb : Nat := 0) : P String := do
  if (← atEnd) then
    match stack with
    | [x] => pure (s!"ok bits={max mb (bitsOp x)} " ++ showOperand x)
    | _ => throw "stack"
  else
    let t ← tok
    match t with
    | "L" => let G ← pLeaf; let G' := force G; run (.sys G' :: stack) (max mb (bitsOf G'))
    | "S" => let c ← pRat; run (.scalar c :: stack) mb
    | "A" =>
      let p ← pNat
      let m ← pNat
      let D ← pMatSized p m
      run (.array p m D :: stack) mb
    | "neg" | "negate" =>
      match stack with
      | x :: rest => run (forceOp (DSS.SOperand.neg x) :: rest) mb
      | _ => throw "stack"
    | "tosys" =>
      match stack with
      | x :: rest => run (.sys (DSS.toSys x) :: rest) mb
      | _ => throw "stack"
    | "rus" =>
      match stack with
      | x :: rest => run (forceOp (C02Rus.rusOp true x) :: rest) mb
      | _ => throw "stack"
    | "series" | "parallel" | "appendn" =>
      let k ← pNat
      match bdFn? t with
      | none => throw "bdalg"
      | some f =>
        if stack.length < k then throw "stack"
        else
          match bdalgForced f (stack.take k).reverse mb with
          | .ok (y, mb') => run (y :: stack.drop k) mb'
          | .error .bad => throw s!"bdalg:{t}"
          | .error (.err e) => pure (showErr e)
    | "pow" =>
      let k ← pInt
      match stack with
      | .sys G :: rest =>
        match G.pow k with
        | .ok y => let y' := force y; run (.sys y' :: rest) (max mb (bitsOf y'))
        | .error e => pure (showErr e)
      | _ => throw "stack"
    | "fb" =>
      let sign ← pRat
      match stack with
      | b :: .sys G :: rest =>
        match G.feedback b sign with
        | .ok y => let y' := force y; run (.sys y' :: rest) (max mb (bitsOf y'))
        | .error e => pure (showErr e)
      | _ => throw "stack"
    | "lft" =>
      let nu ← pInt
      let ny ← pInt
      match stack with
      | b :: .sys G :: rest =>
        match G.lft b nu ny with
        | .ok y => let y' := force y; run (.sys y' :: rest) (max mb (bitsOf y'))
        | .error e => pure (showErr e)
      | _ => throw "stack"
    | "sel" =>
      let rows ← pList pNat
      let cols ← pList pNat
      match stack with
      | .sys G :: rest =>
        match G.select rows cols with
        | .ok y => let y' := force y; run (.sys y' :: rest) (max mb (bitsOf y'))
        | .error e => pure (showErr e)
      | _ => throw "stack"
    | name =>
      match stack with
      | b :: a :: rest =>
        match binop name a b with
        | .error e => throw e
        | .ok (.ok y) => let y' := forceOp y; run (y' :: rest) (max mb (bitsOp y'))
        | .ok (.error e) => pure (showErr e)
      | _ => throw "stack"

def handle (toks : List String) : String :=
  match (run []).run toks with
  | .ok (s, _) => s
  | .error e => s!"bad-op {e}"

end CtrlVerif.Driver.SS
