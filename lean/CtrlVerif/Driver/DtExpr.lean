/-
Driver for whole timebase expressions (`dtx …` lines).  Trusted glue: parses a postfix program
into a `C05Expr.Expr`, runs `C05Expr.eval`, prints the leaf timebases and the result.

  dtx <cfg> <postfix program>   ->  ok L=<Dt>,<Dt>,… R=<cls>:<Dt> | ok L=… R=const | ok L=… R=err:<e>
                                    | err <e>     (a leaf factory rejects its `dt`)

program tokens:
  <opnd>                 leaf: scalar | array | <cls>:<0|1 static>:<kw>      (as in `dt …` lines)
  sumjunc                summing junction
  sample=<rat>           sample(Ts) of the top of the stack
  un=<name>              neg getitem copy rename toSS toTF toFRD toNL sim reach obs modred minreal lin
  pow=<int>
  bin=<add|sub|mul|div>  fb  lft
  series=<n> parallel=<n> append=<n> combine=<n>      n children from the stack
  ic=<n>=<kw>            interconnect of n children, kw: - | N | C | T | D<rat>
-/
import CtrlVerif.Driver.Dt
import CtrlVerif.Model.C05Expr

namespace CtrlVerif.Driver.DtExprFam

open CtrlVerif CtrlVerif.Driver CtrlVerif.C05Expr

def parseUn1 (t : String) : Option Un1 :=
  if t == "neg" then some .neg
  else if t == "getitem" then some .getitem
  else if t == "copy" then some .copy
  else if t == "rename" then some .rename
  else if t == "toSS" then some .toSS
  else if t == "toTF" then some .toTF
  else if t == "toFRD" then some .toFRD
  else if t == "toNL" then some .toNL
  else if t == "sim" then some .similarity
  else if t == "reach" then some .reachable
  else if t == "obs" then some .observable
  else if t == "modred" then some .modelReduction
  else if t == "minreal" then some .minreal
  else if t == "lin" then some .linearize
  else none

def parseDtTok (t : String) : Except String Dt :=
  if t == "N" then .ok .none
  else if t == "C" then .ok .cont
  else if t == "T" then .ok .dtrue
  else if t.startsWith "D" then
    match parseRat (t.drop 1).toString with
    | some q => .ok (.disc q)
    | none => .error s!"dt:{t}"
  else .error s!"dt:{t}"

/-- pop `n` children (the last pushed is the last child). -/
def popN (n : Nat) (st : List Expr) : Except String (List Expr × List Expr) :=
  if st.length < n then .error "dtx:stack" else .ok ((st.take n).reverse, st.drop n)

/-- postfix program → expression; `.ok (.error e)`: a leaf factory raised `e`. -/
def buildExpr (cfg : DtArg) (toks : List String) : Except String (Except Err Expr) := do
  let mut st : List Expr := []
  for t in toks do
    match t.splitOn "=" with
    | [single] =>
      if single == "sumjunc" then st := .sumjunc :: st
      else if single == "fb" then
        match st with
        | y :: x :: r => st := Expr.fb x y :: r
        | _ => throw "dtx:stack"
      else if single == "lft" then
        match st with
        | y :: x :: r => st := Expr.lft x y :: r
        | _ => throw "dtx:stack"
      else
        let o ← DtFam.parseOpnd single
        match DtFam.build cfg o with
        | .ok a => st := .leaf a :: st
        | .error e => return (.error e)
    | [key, v] =>
      if key == "sample" then
        match parseRat v, st with
        | some q, x :: r => st := .sample q x :: r
        | _, _ => throw s!"dtx:{t}"
      else if key == "pow" then
        match v.toInt?, st with
        | some k, x :: r => st := Expr.pow k x :: r
        | _, _ => throw s!"dtx:{t}"
      else if key == "un" then
        match parseUn1 v, st with
        | some u, x :: r => st := Expr.un u x :: r
        | _, _ => throw s!"dtx:{t}"
      else if key == "bin" then
        match DtFam.parseBinOp v, st with
        | some op, y :: x :: r => st := Expr.bin op x y :: r
        | _, _ => throw s!"dtx:{t}"
      else
        match v.toNat? with
        | none => throw s!"dtx:{t}"
        | some n =>
          let (ch, rest) ← popN n st
          if key == "series" then st := Expr.series ch :: rest
          else if key == "parallel" then st := Expr.parallel ch :: rest
          else if key == "append" then st := Expr.appendAll ch :: rest
          else if key == "combine" then st := Expr.combine ch :: rest
          else throw s!"dtx:{t}"
    | [key, v, kw] =>
      if key == "ic" then
        match v.toNat? with
        | none => throw s!"dtx:{t}"
        | some n =>
          let (ch, rest) ← popN n st
          let k ← (if kw == "-" then pure Option.none else do
            let d ← parseDtTok kw
            pure (some d))
          st := Expr.ic k ch :: rest
      else throw s!"dtx:{t}"
    | _ => throw s!"dtx:{t}"
  match st with
  | [e] => pure (.ok e)
  | _ => throw "dtx:final-stack"

def showLeaves (l : List Dt) : String := "L=" ++ ",".intercalate (l.map showDt)

def hExpr : P String := do
  let cfg ← DtFam.pCfg
  let toks ← get
  set ([] : List String)
  match buildExpr cfg toks with
  | .error e => throw e
  | .ok (.error e) => pure (showErr e)
  | .ok (.ok e) => pure s!"ok {showLeaves (leaves e)} {DtFam.showResArg (eval cfg e)}"

def handle (toks : List String) : String := runLine hExpr toks

end CtrlVerif.Driver.DtExprFam
