/-
Driver for the C15 family (`c15 …`):
  sim     <leaf> q T(q·q) c inv            similarity_transform
  simf    <leaf> q T(q·q) c flag           the same with a flag *object* for `inverse=`
                                            (`Model/PyFlag.lean`): `b0|b1` bool, `i<k>` int, `nb0|nb1`
                                            numpy.bool_, `ni<k>` NumPy integer, `f<p/q>` float, `none`,
                                            `s:<text>` str, `a0|a1` 0-d bool array; the model computes the
                                            truth value
  reach   <leaf>                            reachable_form
  obsv    <leaf>                            observable_form
  canon   form <leaf>                       canonical_form  (form: reachable|observable|other)
  red     <leaf> labels… 6 keys method      model_reduction
  minreal num den zeros poles tol           TransferFunction.minreal (one entry, rational roots)
  minrealc num den zeros poles tol          the same with Gaussian-rational roots (`re im` pairs): the model
                                            runs over ℚ(i); `real(poly(…))` is the identity on its result,
                                            which the driver certifies (imaginary parts exactly 0)
<leaf> = `n p m dt A… B… C… D…` (as in the `ss` family).
keys: `N` | `I k` | `S name` | `L cnt (I k | S name)…` | `R a b c` (`_` = None).
Trusted glue.  The characteristic polynomial handed to the model (the external `numpy.poly`) is
computed by Faddeev–LeVerrier over ℚ and its contract `p(A) = 0` is checked on every call.
-/
import CtrlVerif.Driver.SS
import CtrlVerif.Model.CanonicalDyn
import CtrlVerif.Model.Minreal
import CtrlVerif.Model.PyFlag

namespace CtrlVerif.Driver.Canon

open CtrlVerif CtrlVerif.Driver CtrlVerif.Reduce CtrlVerif.Minreal

/-- Faddeev–LeVerrier: coefficient list (highest power first) of the characteristic polynomial,
together with the certificate `A M_n + a_n I = 0`. -/
def charCoeffs {n : Nat} (A : Matrix (Fin n) (Fin n) Q) : List Q × Bool := Id.run do
  let mut coeffs : Array Q := #[1]
  let mut mt := tabulate (1 : Matrix (Fin n) (Fin n) Q)
  let mut ok := (n == 0)
  for k in [1:n+1] do
    let M : Matrix (Fin n) (Fin n) Q := ofTable mt
    let am := tabulate (A * M)
    let AM : Matrix (Fin n) (Fin n) Q := ofTable am
    let c : Q := -(AM.trace) / (k : Q)
    coeffs := coeffs.push c
    let nx := tabulate (AM + c • (1 : Matrix (Fin n) (Fin n) Q))
    if k == n then
      ok := decide ((ofTable nx : Matrix (Fin n) (Fin n) Q) = 0)
    mt := nx
  pure (coeffs.toList, ok)

def showOut (o : CanonOut Q) : String :=
  "ok " ++ SS.showSS o.sys ++ " T " ++ showMat o.T

def pOptInt : P (Option Int) := do
  let t ← tok
  if t == "_" then pure none
  else match t.toInt? with
    | some v => pure (some v)
    | none => throw s!"optint:{t}"

def pAtom : P Atom := do
  let t ← tok
  if t == "I" then pure (.idx (← pInt))
  else if t == "S" then pure (.name (← tok))
  else throw s!"atom:{t}"

def pKey : P Key := do
  let t ← tok
  if t == "N" then pure .none
  else if t == "I" then pure (.atom (.idx (← pInt)))
  else if t == "S" then pure (.atom (.name (← tok)))
  else if t == "L" then pure (.list (← pList pAtom))
  else if t == "R" then
    let a ← pOptInt
    let b ← pOptInt
    let c ← pOptInt
    pure (.slice a b c)
  else throw s!"key:{t}"

def pMethod : P Method := do
  let t ← tok
  if t == "truncate" then pure .truncate
  else if t == "matchdc" then pure .matchdc
  else pure .other

def pForm : P DSS.Form := do
  let t ← tok
  if t == "reachable" then pure .reachable
  else if t == "observable" then pure .observable
  else if t == "modal" then throw "form:modal-not-modelled"
  else pure .other

def ofQ (q : Q) : QI := ⟨q, 0⟩

def pQI : P QI := do
  let re ← pRat
  let im ← pRat
  pure ⟨re, im⟩

def pOptRat : P (Option Q) := do
  match (← peek?) with
  | some "_" => let _ ← tok; pure none
  | _ => pure (some (← pRat))

/-- a flag object (`Model/PyFlag.lean`) -/
def pFlag : P PyFlag := do
  let t ← tok
  let ratOf (u : String) : P PyFlag :=
    match parseRat u with
    | some v => pure (.pyFloat v)
    | none => throw s!"flag:{t}"
  let intOf (u : String) (k : Int → PyFlag) : P PyFlag :=
    match u.toInt? with
    | some v => pure (k v)
    | none => throw s!"flag:{t}"
  if t == "b0" then pure (.pyBool false)
  else if t == "b1" then pure (.pyBool true)
  else if t == "nb0" then pure (.npBool false)
  else if t == "nb1" then pure (.npBool true)
  else if t == "a0" then pure (.arr0 false)
  else if t == "a1" then pure (.arr0 true)
  else if t == "none" then pure .pyNone
  else if t.startsWith "s:" then pure (.pyStr (String.ofList (t.toList.drop 2)))
  else if t.startsWith "ni" then intOf (String.ofList (t.toList.drop 2)) .npInt
  else if t.startsWith "i" then intOf (String.ofList (t.toList.drop 1)) .pyInt
  else if t.startsWith "f" then ratOf (String.ofList (t.toList.drop 1))
  else throw s!"flag:{t}"

def canonCmd (form : DSS.Form) (G : DSS Q) : String :=
  let G' := SS.force G
  let (ap, ok) := charCoeffs G'.sys.A
  if !ok then "model-error charpoly-certificate"
  else match DSS.canonicalForm G' form ap with
    | .ok o => showOut o
    | .error e => showErr e

def run : P String := do
  let cmd ← tok
  match cmd with
  | "sim" =>
    let G ← SS.pLeaf
    let q ← pNat
    let T ← pMatSized q q
    let c ← pRat
    let inv ← pNat
    let G' := SS.force G
    match DSS.similarity G' q T c (inv != 0) with
    | .ok y => pure ("ok " ++ SS.showSS y)
    | .error e => pure (showErr e)
  | "simf" =>
    let G ← SS.pLeaf
    let q ← pNat
    let T ← pMatSized q q
    let c ← pRat
    let flag ← pFlag
    let G' := SS.force G
    match DSS.similarityF G' q T c flag with
    | .ok y => pure ("ok " ++ SS.showSS y)
    | .error e => pure (showErr e)
  | "reach" => do let G ← SS.pLeaf; pure (canonCmd .reachable G)
  | "obsv" => do let G ← SS.pLeaf; pure (canonCmd .observable G)
  | "canon" => do
    let f ← pForm
    let G ← SS.pLeaf
    pure (canonCmd f G)
  | "red" =>
    let G ← SS.pLeaf
    let sl ← pList tok
    let il ← pList tok
    let ol ← pList tok
    let es ← pKey
    let ks ← pKey
    let ei ← pKey
    let ki ← pKey
    let eo ← pKey
    let ko ← pKey
    let meth ← pMethod
    let G' := SS.force G
    match DSS.modelReduction G' sl il ol es ks ei ki eo ko meth with
    | .ok y => pure ("ok " ++ SS.showSS y)
    | .error e => pure (showErr e)
  | "minreal" =>
    let num ← pList pRat
    let den ← pList pRat
    let zs ← pList pRat
    let ps ← pList pRat
    let tol ← pOptRat
    -- contract of `numpy.roots`: num = num[0] * ∏ (X - z), den = den[0] * ∏ (X - p)
    let okN := match num with
      | n0 :: _ => decide (trim (scale n0 (polyFromRoots zs)) = trim num) || isZero num
      | [] => false
    let okD := match den with
      | d0 :: _ => decide (scale d0 (polyFromRoots ps) = den)
      | [] => false
    if !(okN && okD) then pure "model-error roots-contract"
    -- hypothesis of `C15.minreal_sem_on`: on these lists the tolerance test identifies only equal roots
    else if !rootsSeparated (closeQ tol) zs ps then pure "model-error roots-not-separated"
    else match minrealEntry (closeQ tol) ⟨num, den⟩ zs ps with
      | .ok f => pure ("ok " ++ showRats f.num ++ " " ++ showRats f.den)
      | .error e => pure (showErr e)
  | "minrealc" =>
    let num ← pList pRat
    let den ← pList pRat
    let zs ← pList pQI
    let ps ← pList pQI
    let tol ← pOptRat
    let numC := num.map ofQ
    let denC := den.map ofQ
    -- contract of `numpy.roots` over ℚ(i)
    let okN := match numC with
      | n0 :: _ => decide (trim (scale n0 (polyFromRoots zs)) = trim numC) || isZero numC
      | [] => false
    let okD := match denC with
      | d0 :: _ => decide (scale d0 (polyFromRoots ps) = denC)
      | [] => false
    if !(okN && okD) then pure "model-error roots-contract"
    else if !rootsSeparated (closeQI tol) zs ps then pure "model-error roots-not-separated"
    else match minrealEntry (closeQI tol) ⟨numC, denC⟩ zs ps with
      | .ok f =>
        -- `real(poly(…))`: certified to be the identity here
        if (f.num ++ f.den).all (fun c => c.im == 0) then
          pure ("ok " ++ showRats (f.num.map (·.re)) ++ " " ++ showRats (f.den.map (·.re)))
        else pure "model-error nonreal-result"
      | .error e => pure (showErr e)
  | c => throw s!"cmd:{c}"

def handle (toks : List String) : String := runLine run toks

end CtrlVerif.Driver.Canon
