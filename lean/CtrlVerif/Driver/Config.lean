/-
Driver for the C19 families:

  c19 cfg <imp: n (k v)*> <ncalls> call*        history over the configuration machine
      call ::= set k v | get k | sd module n (k v)* | with n (k v)* ncalls call*
             | reset | matlab | fbs | legacy a b c | legacybad | op 0|1
      answer: ok then per top-level call:  c <nouts> out* <ndiff> (k v)*
              out ::= done | val v | ver a b c | res gen|named | raised <Err>
              (diff = entries of the dictionary after the call that differ from before, sorted)

  c19 nlp <mode: code|fixed|spec> <nsubs> (n (k v)*)* <top: n (k v)*> <ncalls> pcall*
      pcall ::= call j ov | eval j ov | ics ov        ov ::= - | n (k v)*
      answer: ok then per call:  p <n> (j <m> (k v)*)*   |  e <Err>
-/
import CtrlVerif.Driver.Util
import CtrlVerif.Model.Config

namespace CtrlVerif.Driver.Config

open CtrlVerif CtrlVerif.Driver CtrlVerif.Config

def pKV : P (String × String) := do
  let k ← tok
  let v ← tok
  pure (k, v)

partial def pCall : P Call := do
  let t ← tok
  match t with
  | "set" => do let k ← tok; let v ← tok; pure (.setItem k v)
  | "get" => do let k ← tok; pure (.getItem k)
  | "sd" => do let m ← tok; let kvs ← pList pKV; pure (.setDefaults m kvs)
  | "with" => do
    let m ← pList pKV
    let n ← pNat
    let mut body : Array Call := #[]
    for _ in [0:n] do
      body := body.push (← pCall)
    pure (.withCtx m body.toList)
  | "reset" => pure .reset
  | "matlab" => pure .useMatlab
  | "fbs" => pure .useFbs
  | "legacy" => do let a ← pNat; let b ← pNat; let c ← pNat; pure (.useLegacy (some (a, b, c)))
  | "legacybad" => pure (.useLegacy none)
  | "op" => do
    let b ← pNat
    if b = 0 then pure (.op false) else if b = 1 then pure (.op true) else throw "op-flag"
  | _ => throw s!"call:{t}"

def showOut : Out → String
  | .done => "done"
  | .val v => "val " ++ v
  | .ver a b c => s!"ver {a} {b} {c}"
  | .result none => "res named"
  | .result (some _) => "res gen"
  | .raised e => "raised " ++ toString e

def sortKV (l : List (String × String)) : List (String × String) :=
  (l.toArray.qsort (fun a b => a.1 < b.1)).toList

def showKVs (l : List (String × String)) : String :=
  toString l.length ++ String.join ((sortKV l).map fun e => " " ++ e.1 ++ " " ++ e.2)

/-- entries of `c'` that are not the same in `c`. -/
def diff (c c' : Cfg) : List (String × String) :=
  c'.filter fun e => get c e.1 != some e.2

def handleCfg : P String := do
  let imp ← pList pKV
  let n ← pNat
  let mut w : World := ⟨imp, 0⟩
  let mut s := "ok"
  for _ in [0:n] do
    let c ← pCall
    let r := step imp w c
    s := s ++ s!" c {r.2.1.length}" ++ String.join (r.2.1.map fun o => " " ++ showOut o)
      ++ " " ++ showKVs (diff w.cfg r.1.cfg)
    w := r.1
  pure s

def pOv : P (Option Params) := do
  match (← peek?) with
  | some "-" => do let _ ← tok; pure none
  | _ => do let l ← pList pKV; pure (some l)

def pPCall : P PCall := do
  let t ← tok
  match t with
  | "call" => do let j ← pNat; let ov ← pOv; pure (.subCall j ov)
  | "eval" => do let j ← pNat; let ov ← pOv; pure (.subEval j ov)
  | "ics" => do let ov ← pOv; pure (.icsEval ov)
  | _ => throw s!"pcall:{t}"

def showPOut : Except Err (List (Nat × Params)) → String
  | .error e => "e " ++ toString e
  | .ok l => s!"p {l.length}" ++ String.join (l.map fun e => s!" {e.1} " ++ showKVs e.2)

def handleNlp : P String := do
  let mode ← tok
  let subs ← pList (pList pKV)
  let top ← pList pKV
  let n ← pNat
  let S : PSys := ⟨subs, top⟩
  let mut st : PState := PState.init S
  let mut s := "ok"
  for _ in [0:n] do
    let c ← pPCall
    if mode == "spec" then
      s := s ++ " " ++ showPOut (specOut S c)
    else
      let m ← (if mode == "code" then pure PMode.code
               else if mode == "fixed" then pure PMode.fixed else throw s!"mode:{mode}")
      let r := pstep m S st c
      st := r.1
      s := s ++ " " ++ showPOut r.2
  pure s

def handle (toks : List String) : String :=
  match toks with
  | "cfg" :: rest => runLine handleCfg rest
  | "nlp" :: rest => runLine handleNlp rest
  | _ => "bad-op c19-subfamily"

end CtrlVerif.Driver.Config
