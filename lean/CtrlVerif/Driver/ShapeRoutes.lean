/-
Driver for the *routes* stream of C18 (family token `c18r`): executes `timeVia` / `freqVia` and
`routeHistory` / `freqRouteHistory` of `Model/ResponseObj.lean` — the object that carries a target
setting by the argument, `__call__`, attribute-assignment or configuration-default route — and
prints all observables of the resulting object under the resulting configuration, in the format
of the `trd` / `frd` ops of `Driver/Shape.lean` (positions instead of values).

  c18r trd  fn p m n T inp out u1d  ROUTE  tsq ttr trx  ssq str srx  cfgSq
  c18r ctor <ts> <ys> <xs|-> <us|-> siso multi  ROUTE  tsq ttr trx  ssq str srx  cfgSq
  c18r frd  <rs> <os>  ROUTE  tsq trm  ssq srm  cfgSq
  c18r trdh / ctorh / frdh …  (same arguments): the route as a history of the state machine
       `HState.run`, one read per observable, printed like the `hist` ops

ROUTE = A (argument) | C (`__call__`) | S (attribute assignment) | G (configuration default).
-/
import CtrlVerif.Driver.Shape
import CtrlVerif.Model.ResponseObj

namespace CtrlVerif.Driver.ShapeRoutes

open CtrlVerif CtrlVerif.Driver CtrlVerif.NDArr CtrlVerif.Driver.Shape

def pRoute : P Route := do
  match (← tok) with
  | "A" => pure .arg | "C" => pure .call | "S" => pure .attr | "G" => pure .config
  | t => throw s!"route:{t}"

def pTSettings : P TSettings := do
  let sq ← pSq; let tr ← pBool; let rx ← pBool
  pure ⟨sq, tr, rx⟩

def pFSettings : P FSettings := do
  let sq ← pSq; let rm ← pBool
  pure ⟨sq, rm⟩

/-- the settings of the object a route starts from (see `route_history`). -/
def routeStart (ρ : Route) (tgt start : TSettings) : TSettings :=
  match ρ with
  | .arg => tgt
  | .call => start
  | .attr => start
  | .config => { tgt with squeeze := .none }

def freqRouteStart (ρ : Route) (tgt start : FSettings) : FSettings :=
  match ρ with
  | .arg => tgt
  | .call => start
  | .attr => start
  | .config => { tgt with squeeze := .none }

def tobsAll : List TObs :=
  [.time, .outputs, .states, .inputs, .iter, .len, .get 0, .get 1, .get 2, .get 3]

def fobsAll : List FObs := [.magnitude, .phase, .complex, .iter, .frdata]

def finishT (M : TMaker Nat) (asHist : Bool) : P String := do
  let ρ ← pRoute
  let tgt ← pTSettings
  let start ← pTSettings
  let cs ← pSq
  let base : Cfg := { sqTime := cs }
  if asHist then
    match M.make (routeStart ρ tgt start) with
    | .error e => pure (showErr e)
    | .ok r₀ =>
      let rds := tobsAll.map fun o =>
        match HState.run (trdOps Nat) ⟨[r₀], base⟩ (routeHistory ρ tgt o) with
        | .ok ([rd], _) => showTReading rd
        | .ok _ => "model-error route history arity"
        | .error e => "model-error route history " ++ toString e
      pure (s!"ok {rds.length}" ++ joinBar rds)
  else
    match timeVia M ρ tgt start base with
    | .error e => pure (showErr e)
    | .ok (r, cfg) => pure ("ok " ++ showTRD r cfg)

def hTrd (asHist : Bool) : P String := do
  let fn ← pFn
  let p ← pNat; let m ← pNat; let n ← pNat; let T ← pNat
  let inp ← pONat; let out ← pONat
  let u1d ← pBool
  match rawSpec fn p m n T inp out u1d with
  | .error e => pure (showErr e)
  | .ok spec =>
    finishT (fnMaker fn p m n T inp out u1d (iota offT [T]) (iota offY spec.yShape)
      (spec.xShape.map (iota offX)) (spec.uShape.map (iota offU)) {}) asHist

def hCtor (asHist : Bool) : P String := do
  let ts ← pShape; let ys ← pShape; let xs ← pOShape; let us ← pOShape
  let siso ← pOBool
  let multi ← pBool
  finishT (ctorMaker (iota offT ts) (iota offY ys) (xs.map (iota offX)) (us.map (iota offU))
    siso multi) asHist

def hFrd (asHist : Bool) : P String := do
  let rs ← pShape; let os ← pShape
  let ρ ← pRoute
  let tgt ← pFSettings
  let start ← pFSettings
  let cs ← pSq
  let base : Cfg := { sqFreq := cs }
  if asHist then
    match frdMake (iota 0 rs) os (freqRouteStart ρ tgt start) with
    | .error e => pure (showErr e)
    | .ok F₀ =>
      let rds := fobsAll.map fun o =>
        match HState.run (frdOps Nat) ⟨[F₀], base⟩ (freqRouteHistory ρ tgt o) with
        | .ok ([rd], _) => showFReading rd
        | .ok _ => "model-error route history arity"
        | .error e => "model-error route history " ++ toString e
      pure (s!"ok {rds.length}" ++ joinBar rds)
  else
    match freqVia (iota 0 rs) os ρ tgt start base with
    | .error e => pure (showErr e)
    | .ok (F, cfg) => pure ("ok " ++ showFRD F cfg)

def handle (toks : List String) : String :=
  match toks with
  | "trd" :: rest => runLine (hTrd false) rest
  | "ctor" :: rest => runLine (hCtor false) rest
  | "frd" :: rest => runLine (hFrd false) rest
  | "trdh" :: rest => runLine (hTrd true) rest
  | "ctorh" :: rest => runLine (hCtor true) rest
  | "frdh" :: rest => runLine (hFrd true) rest
  | t :: _ => s!"bad-op c18r:{t}"
  | [] => "bad-op c18r:empty"

end CtrlVerif.Driver.ShapeRoutes
