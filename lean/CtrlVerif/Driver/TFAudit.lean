/-
Float-exactness audit for the transfer-function driver (harness glue, no theorems).

The correspondence check compares the implementation (binary64 / int64 NumPy arithmetic) with
the model over `ℚ` *exactly* whenever the implementation's arithmetic cannot have rounded.
The audit decides this on the model's side: it walks through the same sequence of primitive
operations as the model (`polymul`, `polyadd`, `scale` inside `addSiso`, `mulEntry`, `divSiso`,
`fbSiso`, composed as in `DTF.addCore`, `mulCore`, `pow`, …) and checks for every primitive sum
`Σ tᵢ` (one output coefficient of a convolution, of a `polyadd`, of a scaling) that

  * every term is a dyadic rational, all terms are multiples of `2^e`, `e ≥ -1000`,
  * `Σ |tᵢ| < 2^(e+53)` and `< 2^1000`.

Then every term and every partial sum *in any order of summation* (and with or without fused
multiply-add) is a multiple of `2^e` of magnitude `< 2^(e+53)`, hence a binary64 number: no
rounding, no overflow/underflow.  By induction over the operations of a tree the
implementation's intermediate arrays are the model's, as long as every audited step passed.
The criterion is per coefficient, so polynomials mixing `1` with `2^-60` pass where a uniform
fixed-point bound would not.
-/
import CtrlVerif.Model.TFDyn
import Mathlib.Algebra.Field.Rat

namespace CtrlVerif.Driver.TFAudit

open CtrlVerif

abbrev Q := Rat

def isPow2 (n : Nat) : Bool := n != 0 && n == 2 ^ (Nat.log2 n)

/-- 2-adic valuation of a positive natural (fuel: the bit length). -/
def v2 (n : Nat) : Nat := go (Nat.log2 n + 1) n
where
  go : Nat → Nat → Nat
    | 0, _ => 0
    | f + 1, n => if n != 0 && n % 2 == 0 then go f (n / 2) + 1 else 0

/-- exponent of the lowest set bit of a nonzero dyadic rational; `none` if not dyadic. -/
def lowBit (q : Q) : Option Int :=
  if !isPow2 q.den then none
  else if q.den == 1 then some (v2 q.num.natAbs) else some (- (Nat.log2 q.den : Int))

def pow2 (e : Int) : Q :=
  match e with
  | .ofNat k => ((2 ^ k : Nat) : Q)
  | .negSucc k => 1 / ((2 ^ (k + 1) : Nat) : Q)

/-- the terms of one primitive sum can be accumulated in binary64 without rounding. -/
def sumExact (terms : List Q) : Bool := Id.run do
  let nz := terms.filter (· ≠ 0)
  if nz.isEmpty then return true
  let mut e : Option Int := none
  let mut s : Q := 0
  for t in nz do
    match lowBit t with
    | none => return false
    | some b =>
      e := match e with
        | none => some b
        | some a => some (min a b)
      s := s + |t|
  match e with
  | none => return true
  | some lo => return decide (-1000 ≤ lo) && decide (s < pow2 (lo + 53)) && decide (s < pow2 1000)

def valExact (q : Q) : Bool := sumExact [q]

def listExact (p : List Q) : Bool := p.all valExact

/-- `numpy.polymul(p, q)`: every output coefficient is one primitive sum. -/
def mulExact (p q : List Q) : Bool :=
  let pa := p.toArray
  let qa := q.toArray
  (List.range (pa.size + qa.size - 1)).all fun k =>
    sumExact ((List.range pa.size).filterMap fun i =>
      if i ≤ k ∧ k - i < qa.size then some (pa.getD i 0 * qa.getD (k - i) 0) else none)

/-- `numpy.polyadd(p, q)`. -/
def addExact (p q : List Q) : Bool :=
  let n := max p.length q.length
  (List.zipWith (fun a b => sumExact [a, b]) (padLeft n p) (padLeft n q)).all id

/-- `c * array`. -/
def scaleExact (c : Q) (p : List Q) : Bool := p.all fun x => valExact (c * x)

def addSisoExact (a b : Frac Q) : Bool :=
  mulExact a.num b.den && mulExact b.num a.den && mulExact a.den b.den &&
    addExact (polymul a.num b.den) (polymul b.num a.den)

def mulSisoExact (a b : Frac Q) : Bool := mulExact a.num b.num && mulExact a.den b.den

/-- the accumulate loop of `__mul__` / `__rmul__` over explicit summand lists. -/
def mulEntryExact (row col : List (Frac Q)) : Bool := Id.run do
  let mut acc : Frac Q := Frac.zero
  for (a, b) in row.zip col do
    if !mulSisoExact a b then return false
    let s := mulSiso a b
    if !addSisoExact acc s then return false
    acc := addSiso acc s
  return true

def divSisoExact (a b : Frac Q) : Bool := mulExact a.num b.den && mulExact a.den b.num

def fbSisoExact (a b : Frac Q) (sign : Q) : Bool :=
  valExact sign && mulExact a.num b.den && mulExact b.den a.den && mulExact b.num a.num &&
    scaleExact (-sign) (polymul b.num a.num) &&
    addExact (polymul b.den a.den) (scale (-sign) (polymul b.num a.num))

/-- entry `(i, j)` of a run-time shaped system (`0/1` outside the shape: never used). -/
def ent (G : DTF Q) (i j : Nat) : Frac Q :=
  if h : i < G.p ∧ j < G.m then G.sys.e ⟨i, h.1⟩ ⟨j, h.2⟩ else Frac.zero

def sysExact (G : DTF Q) : Bool :=
  (List.range G.p).all fun i => (List.range G.m).all fun j =>
    listExact (ent G i j).num && listExact (ent G i j).den

/-- matrix product `A * B` (shapes already promoted and checked by the caller). -/
def matMulExact (A B : DTF Q) : Bool :=
  (List.range A.p).all fun i => (List.range B.m).all fun j =>
    mulEntryExact ((List.range A.m).map fun k => ent A i k) ((List.range A.m).map fun k => ent B k j)

def okOr {α : Type} (r : Except Err α) (f : α → Bool) : Bool :=
  match r with
  | .ok x => f x
  | .error _ => true

/-- mirrors `DTF.mulCore`. -/
def mulCoreExact (G H : DTF Q) : Bool :=
  let G' := if G.isSiso && !H.isSiso then G.diagOf H.p else G
  let H' := if !G.isSiso && H.isSiso then H.diagOf G.m else H
  if G'.m = H'.p then matMulExact G' H' else true

/-- mirrors `DTF.rmulCore` (`other * self`). -/
def rmulCoreExact (self other : DTF Q) : Bool :=
  let self' := if self.isSiso && !other.isSiso then self.diagOf other.m else self
  let other' := if !self.isSiso && other.isSiso then other.diagOf self.p else other
  if other'.m = self'.p then matMulExact other' self' else true

def onesTimesExact (p m : Nat) (g : DTF Q) : Bool :=
  rmulCoreExact g (DTF.ofArray p m fun _ _ => 1)

/-- mirrors `DTF.addCore`. -/
def addCoreExact (G H : DTF Q) : Bool :=
  let pg := G.isSiso && !H.isSiso
  let ph := !G.isSiso && H.isSiso
  (if pg then onesTimesExact H.p H.m G else true) &&
  (if ph then onesTimesExact G.p G.m H else true) &&
  okOr (if pg then DTF.onesTimes H.p H.m G else pure G) fun G' =>
  okOr (if ph then DTF.onesTimes G.p G.m H else pure H) fun H' =>
    if G'.m = H'.m ∧ G'.p = H'.p then
      (List.range G'.p).all fun i => (List.range G'.m).all fun j =>
        addSisoExact (ent G' i j) (ent H' i j)
    else true

def divSisoCoreExact (G H : DTF Q) : Bool := divSisoExact G.frac00 H.frac00

def powNatExact (G : DTF Q) : Nat → Bool
  | 0 => true
  | n + 1 => powNatExact G n && okOr (DTF.powNat G n) fun r => mulCoreExact G r

def recipExact (G : DTF Q) : Bool :=
  if G.isSiso then divSisoCoreExact DTF.unity G else true

def powNegNatExact (G : DTF Q) : Nat → Bool
  | 0 => true
  | n + 1 => recipExact G && powNegNatExact G n &&
      okOr (DTF.recip G) fun i => okOr (DTF.powNegNat G n) fun r => mulCoreExact i r

def powExact (G : DTF Q) (n : Int) : Bool :=
  match n with
  | .ofNat k => powNatExact G k
  | .negSucc k => powNegNatExact G (k + 1)

/-- mirrors `DTF.truedivCore`. -/
def truedivCoreExact (G H : DTF Q) : Bool :=
  if !G.isSiso && H.isSiso then
    powExact H (-1) && okOr (DTF.pow H (-1)) fun hi => mulCoreExact G (hi.diagOf G.m)
  else if !G.isSiso || !H.isSiso then true
  else divSisoCoreExact G H

/-- mirrors `DTF.rtruedivCore` (`other / self`). -/
def rtruedivCoreExact (self other : DTF Q) : Bool :=
  if self.isSiso && !other.isSiso then
    powExact self (-1) && okOr (DTF.pow self (-1)) fun si => mulCoreExact other (si.diagOf other.m)
  else if !self.isSiso || !other.isSiso then true
  else truedivCoreExact other self

def feedbackCoreExact (G H : DTF Q) (sign : Q) : Bool :=
  if !G.isSiso || !H.isSiso then true else fbSisoExact G.frac00 H.frac00 sign

/-- the value handed over by the harness is a binary64 number. -/
def operandExact : Operand Q → Bool
  | .sys G => sysExact G
  | .scalar c => valExact c
  | .array p m D => (List.finRange p).all fun i => (List.finRange m).all fun j => valExact (D i j)

/-- the operand as the operator converts it (`_convert_to_transfer_function`), for `self = G`. -/
def convAdd (G : DTF Q) : Operand Q → DTF Q
  | .sys H => H
  | .scalar c => DTF.ofScalar c G.p G.m
  | .array p m D => DTF.ofArray p m D

def addExactOp (G : DTF Q) (x : Operand Q) : Bool := addCoreExact G (convAdd G x)

/-- `self - other`: negation is exact, then `__add__`. -/
def subExactOp (G : DTF Q) (x : Operand Q) : Bool :=
  okOr (DTF.Operand.neg x) fun y => addExactOp G y

/-- `other - self` = `(-self) + other`. -/
def rsubExactOp (G : DTF Q) (x : Operand Q) : Bool :=
  okOr G.neg fun n => addExactOp n x

def mulExactOp (G : DTF Q) : Operand Q → Bool
  | .sys H => mulCoreExact G H
  | .scalar c => mulCoreExact G (DTF.ofScaledEye c G.m)
  | .array p m D => mulCoreExact G (DTF.ofArray p m D)

def rmulExactOp (G : DTF Q) : Operand Q → Bool
  | .sys H => rmulCoreExact G H
  | .scalar c => rmulCoreExact G (DTF.ofScaledEye c G.p)
  | .array p m D => rmulCoreExact G (DTF.ofArray p m D)

def truedivExactOp (G : DTF Q) : Operand Q → Bool
  | .sys H => truedivCoreExact G H
  | .scalar c => truedivCoreExact G (DTF.ofScalar c 1 1)
  | .array p m D => truedivCoreExact G (DTF.ofArray p m D)

def rtruedivExactOp (G : DTF Q) : Operand Q → Bool
  | .sys H => rtruedivCoreExact G H
  | .scalar c => rtruedivCoreExact G (DTF.ofScalar c G.m G.m)
  | .array p m D => rtruedivCoreExact G (DTF.ofArray p m D)

def feedbackExactOp (G : DTF Q) (x : Operand Q) (sign : Q) : Bool :=
  match x with
  | .sys H => feedbackCoreExact G H sign
  | .scalar c => feedbackCoreExact G (DTF.ofScalar c 1 1) sign
  | .array p m D => feedbackCoreExact G (DTF.ofArray p m D) sign

/-- audit of one binary operator of the driver (same dispatch as `Driver.TF.binop`);
`append`, `hcat`, `vcat` do no arithmetic. -/
def binopExact (name : String) (a b : Operand Q) : Bool :=
  match name, a, b with
  | "add", .sys G, x => addExactOp G x
  | "add", x, .sys G => addExactOp G x
  | "sub", .sys G, x => subExactOp G x
  | "sub", x, .sys G => rsubExactOp G x
  | "mul", .sys G, x => mulExactOp G x
  | "mul", x, .sys G => rmulExactOp G x
  | "div", .sys G, x => truedivExactOp G x
  | "div", x, .sys G => rtruedivExactOp G x
  | _, _, _ => true

end CtrlVerif.Driver.TFAudit
