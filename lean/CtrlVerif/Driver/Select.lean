/-
Driver for the direct correspondence streams of the source-text tie (`sel …` lines): the
hand-written models of the pure-Python selector / dispatch functions, called with the arguments
of a direct call of the real function.  Trusted glue.

  sel dtpred <fn> <sys> <strict> <dt>    fn = isdtime | isctime | timebase | m_isdtime | m_isctime
                                         sys = none | num | other | sys:<Dt>     strict = 0 | 1
                                         -> ok b:<0|1> | ok dt:<Dt> | err <e>
  sel subsys <n> <key>                   key = I k | S a b c | L cnt k… | X      (`_` = None)
                                         -> ok <cnt> <rows…> | err <e>          (`_process_subsys_index`)
  sel chk <array> <n> <m> <sq> <sy>      array = M F|I p q v… (as in `mateqn` lines)
                                         -> ok | err <e>                          (`_check_shape`)
  sel cca <kind> <shape> <data> <legal…> <sq> <tr>
                                         kind = i | f | c | o; shape, data = count-prefixed lists of
                                         naturals / integers; legal = count, then count-prefixed lists
                                         of `any` | <n>; sq, tr = 0 | 1
                                         -> ok <kind> <shape> <data> | err <e>   (`_check_convert_array`)
  sel ssm <kind> <shape> <data> <axis> <square> <rows> <cols>
                                         square = N | 0 | 1; rows, cols = N | <n>
                                         -> ok <kind> <shape> <data> | err <e>   (`_ssmatrix`)
-/
import CtrlVerif.Driver.Util
import CtrlVerif.Model.DtPred
import CtrlVerif.Model.Index
import CtrlVerif.Driver.MatEqn
import CtrlVerif.Model.CheckConvert
import CtrlVerif.Model.SsMatSpec

namespace CtrlVerif.Driver.Select

open CtrlVerif CtrlVerif.Driver

def pBool : P Bool := do
  let t ← tok
  if t == "1" then pure true else if t == "0" then pure false else throw s!"bool:{t}"

def pSys : P SysArg := do
  let t ← tok
  if t == "none" then pure .none
  else if t == "num" then pure .number
  else if t == "other" then pure .other
  else if t.startsWith "sys:" then
    match (pDt.run [(t.drop 4).toString]) with
    | .ok (d, _) => pure (.sys d)
    | .error e => throw e
  else throw s!"sysarg:{t}"

def showB (r : Except Err Bool) : String :=
  match r with
  | .ok b => "ok b:" ++ (if b then "1" else "0")
  | .error e => showErr e

def showD (r : Except Err Dt) : String :=
  match r with
  | .ok d => "ok dt:" ++ showDt d
  | .error e => showErr e

def dtpred : P String := do
  let fn ← tok
  let sys ← pSys
  let strict ← pBool
  let dt ← pDt
  if fn == "isdtime" then pure (showB (DtPred.isdtimeFn sys strict dt))
  else if fn == "isctime" then pure (showB (DtPred.isctimeFn sys dt strict))
  else if fn == "timebase" then pure (showD (DtPred.timebaseFn sys strict))
  else if fn == "m_isdtime" then
    match sys with
    | .sys d => pure (showB (.ok (DtPred.isdtime strict d)))
    | _ => throw "m_isdtime needs a system"
  else if fn == "m_isctime" then
    match sys with
    | .sys d => pure (showB (.ok (DtPred.isctime strict d)))
    | _ => throw "m_isctime needs a system"
  else throw s!"dtpred:{fn}"

def pOptInt : P (Option Int) := do
  let t ← tok
  if t == "_" then pure none
  else match t.toInt? with
    | some n => pure (some n)
    | none => throw s!"optint:{t}"

def pKey : P Index.Key := do
  let t ← tok
  if t == "I" then pure (.idx (← pInt))
  else if t == "S" then
    let a ← pOptInt
    let b ← pOptInt
    let c ← pOptInt
    pure (.slice a b c)
  else if t == "L" then pure (.list (← pList pInt))
  else if t == "X" then pure .bad
  else throw s!"key:{t}"

def subsys : P String := do
  let n ← pNat
  let k ← pKey
  match Index.processIdx n k with
  | .ok rows => pure ("ok " ++ toString rows.length ++ String.join (rows.map fun r => " " ++ toString r.val))
  | .error e => pure (showErr e)

def chk : P String := do
  let M ← MatEqn.pReq
  let n ← pNat
  let m ← pNat
  let sq ← pBool
  let sy ← pBool
  match CtrlVerif.MatEqn.checkShape M n m sq sy with
  | .ok _ => pure "ok"
  | .error e => pure (showErr e)

def pKind : P PyCCA.Kind := do
  let t ← tok
  match t with
  | "i" => pure .i | "f" => pure .f | "c" => pure .c | "o" => pure .other
  | _ => throw s!"kind:{t}"

def pDim : P PyCCA.Dim := do
  match ← peek? with
  | some "any" => let _ ← tok; pure .any
  | _ => let n ← pNat; pure (.n n)

def showKind : PyCCA.Kind → String
  | .i => "i" | .f => "f" | .c => "c" | .other => "o"

def cca : P String := do
  let k ← pKind
  let shape ← pList pNat
  let data ← pList pInt
  let legal ← pList (pList pDim)
  let sq ← pBool
  let tr ← pBool
  match CheckConvert.checkConvert (⟨shape, data, k⟩ : PyCCA.Arr Int) legal sq tr with
  | .ok r => pure ("ok " ++ showKind r.kind ++ " " ++ toString r.shape.length
      ++ String.join (r.shape.map fun d => " " ++ toString d) ++ " " ++ toString r.data.length
      ++ String.join (r.data.map fun d => " " ++ toString d))
  | .error e => pure (showErr e)

def pOptNat : P (Option Nat) := do
  match ← peek? with
  | some "N" => let _ ← tok; pure none
  | _ => let n ← pNat; pure (some n)

def pOptBool : P (Option Bool) := do
  match ← peek? with
  | some "N" => let _ ← tok; pure none
  | _ => let b ← pBool; pure (some b)

def ssm : P String := do
  let k ← pKind
  let shape ← pList pNat
  let data ← pList pInt
  let axis ← pInt
  let sq ← pOptBool
  let rows ← pOptNat
  let cols ← pOptNat
  match C11GenSsMat.ssmatrixSpec (⟨shape, data, k⟩ : PyCCA.Arr Int) axis sq rows cols with
  | .ok r => pure ("ok " ++ showKind r.kind ++ " " ++ toString r.shape.length
      ++ String.join (r.shape.map fun d => " " ++ toString d) ++ " " ++ toString r.data.length
      ++ String.join (r.data.map fun d => " " ++ toString d))
  | .error e => pure (showErr e)

def handle (toks : List String) : String :=
  match toks with
  | "ssm" :: rest => runLine ssm rest
  | "cca" :: rest => runLine cca rest
  | "chk" :: rest => runLine chk rest
  | "dtpred" :: rest => runLine dtpred rest
  | "subsys" :: rest => runLine subsys rest
  | op :: _ => s!"bad-op sel:{op}"
  | [] => "bad-op sel:empty"

end CtrlVerif.Driver.Select
