/-
Driver for the discretisation family (`c2d …`), one request per line:
  ss n p m dt A… B… C… D… Ts method alpha|- (P w tanv)|- (E v…)|- [J 0|1 dt]
  tf <num> <den> dt Ts method alpha|- (P w tanv)|- [J 0|1 dt]
  matched <num> <den> <zeros> <poles> <E(zeros·Ts)> <E(poles·Ts)> Ts [J 0|1 dt]
(`Ts` = a rational or `T` for the Python value `True`; the optional `J first dt` asks for the
timebase of the sampled system combined with a system of timebase `dt`, printed as a trailing
` J <dt>` / ` J err <e>`)
  names copy(0|1) name|- srcname|- <inputs> <outputs> <states> (- | <list>)×3
  pade T n numdeg|-
  bind S|F npos <keyword names>      (S = sys.sample, F = sample_system / c2d; answers the slot of
                                      every parameter: p<i> | k<j> | d)
Trusted glue.
-/
import CtrlVerif.Driver.Mat
import CtrlVerif.Model.Discretize

namespace CtrlVerif.Driver.Disc

open CtrlVerif CtrlVerif.Driver

def pMethod : P C2dMethod := do
  let t ← tok
  pure (match t with
    | "zoh" => .zoh | "gbt" => .gbt | "bilinear" => .bilinear | "tustin" => .tustin
    | "euler" => .euler | "forward_diff" => .forwardDiff | "backward_diff" => .backwardDiff
    | "foh" => .foh | "impulse" => .impulse | "matched" => .matched
    | _ => .unknown)

def pOptRat : P (Option Rat) := do
  match (← peek?) with
  | some "-" => let _ ← tok; pure none
  | _ => let q ← pRat; pure (some q)

def pPrewarp : P (Option (Prewarp Q)) := do
  let t ← tok
  if t == "-" then pure none
  else if t == "P" then
    let w ← pRat
    let tv ← pRat
    pure (some ⟨w, tv⟩)
  else throw s!"prewarp:{t}"

/-- the period argument: `T` = Python `True`, otherwise a rational. -/
def pPeriod : P Period := do
  let t ← tok
  if t == "T" then pure .btrue
  else match parseRat t with
    | some q => pure (.num q)
    | none => throw s!"period:{t}"

/-- optional trailing `J first dt`: the second step. -/
def pJoin (Ts : Period) : P String := do
  match (← peek?) with
  | some "J" =>
    let _ ← tok
    let first ← pNat
    let other ← pDt
    match joinDt Ts other (first != 0) with
    | .ok d => pure (" J " ++ showDt d)
    | .error e => pure (" J " ++ showErr e)
  | _ => pure ""

def sumIdx {n m : Nat} : Fin n ⊕ Fin m → Nat
  | .inl a => a.val
  | .inr b => n + b.val

def pExt (n m : Nat) : P (Option (Matrix (Fin n ⊕ Fin m) (Fin n ⊕ Fin m) Q)) := do
  let t ← tok
  if t == "-" then pure none
  else if t == "E" then
    let v ← pArray ((n + m) * (n + m)) pRat
    pure (some fun i j => v.getD (sumIdx i * (n + m) + sumIdx j) 0)
  else throw s!"ext:{t}"

def showSS (G : DSS Q) : String :=
  s!"ss {G.n} {G.p} {G.m} {showDt G.dt} " ++ showMat G.sys.A ++ " " ++ showMat G.sys.B ++ " "
    ++ showMat G.sys.C ++ " " ++ showMat G.sys.D

def hSS : P String := do
  let n ← pNat
  let p ← pNat
  let m ← pNat
  let dt ← pDt
  let A ← pMatSized n n
  let B ← pMatSized n m
  let C ← pMatSized p n
  let D ← pMatSized p m
  let Ts ← pPeriod
  let method ← pMethod
  let alpha ← pOptRat
  let pw ← pPrewarp
  let ext ← pExt n m
  let j ← pJoin Ts
  let G : DSS Q := ⟨n, p, m, ⟨A, B, C, D⟩, dt⟩
  match G.sampleP Ts method alpha pw ext with
  | .ok R => pure ("ok " ++ showSS R ++ j)
  | .error e => pure (showErr e)

def hTF : P String := do
  let num ← pList pRat
  let den ← pList pRat
  let dt ← pDt
  let Ts ← pPeriod
  let method ← pMethod
  let alpha ← pOptRat
  let pw ← pPrewarp
  let j ← pJoin Ts
  match tfSampleP num den dt Ts method alpha pw with
  | .ok (nd, dd, d) => pure (s!"ok tf {showDt d} " ++ showRats nd ++ " " ++ showRats dd ++ j)
  | .error e => pure (showErr e)

def lookupE (keys vals : List Rat) (x : Rat) : Rat :=
  match (keys.zip vals).find? (fun kv => kv.1 == x) with
  | some kv => kv.2
  | none => 0

def hMatched : P String := do
  let num ← pList pRat
  let den ← pList pRat
  let zeros ← pList pRat
  let poles ← pList pRat
  let ez ← pList pRat
  let ep ← pList pRat
  let Ts ← pPeriod
  let j ← pJoin Ts
  if ez.length ≠ zeros.length ∨ ep.length ≠ poles.length then throw "matched:lengths"
  let keys := (zeros ++ poles).map (· * Ts.val)
  let E := lookupE keys (ez ++ ep)
  match c2dMatchedP num den zeros poles E Ts with
  | .ok (nd, dd, d) => pure (s!"ok tf {showDt d} " ++ showRats nd ++ " " ++ showRats dd ++ j)
  | .error e => pure (showErr e)

def pStrs : P (List String) := pList tok

def pOptStrs : P (Option (List String)) := do
  match (← peek?) with
  | some "-" => let _ ← tok; pure none
  | _ => let l ← pStrs; pure (some l)

def pOptStr : P (Option String) := do
  let t ← tok
  pure (if t == "-" then none else some t)

def showStrs (l : List String) : String :=
  toString l.length ++ String.join (l.map fun s => " " ++ s)

def hNames : P String := do
  let copy ← pNat
  let name ← pOptStr
  let srcname ← pOptStr
  let i ← pStrs
  let o ← pStrs
  let s ← pStrs
  let oi ← pOptStrs
  let oo ← pOptStrs
  let os ← pOptStrs
  match sampleNames ⟨srcname, i, o, s⟩ (copy != 0) name oi oo os with
  | .ok r => pure (s!"ok names {r.name.getD "*"} " ++ showStrs r.inputs ++ " " ++ showStrs r.outputs
      ++ " " ++ showStrs r.states)
  | .error e => pure (showErr e)

def pOptInt : P (Option Int) := do
  match (← peek?) with
  | some "-" => let _ ← tok; pure none
  | _ => let q ← pInt; pure (some q)

def hPade : P String := do
  let T ← pRat
  let n ← pInt
  let nd ← pOptInt
  match pade T n nd with
  | .ok (num, den) => pure ("ok pade " ++ showRats num ++ " " ++ showRats den)
  | .error e => pure (showErr e)

def showSlot : Slot → String
  | .pos i => s!"p{i}"
  | .kw j => s!"k{j}"
  | .dflt => "d"

def hBind : P String := do
  let route ← tok
  let npos ← pNat
  let kws ← pStrs
  let r ← match route with
    | "S" => pure (bindSample npos kws)
    | "F" => pure (bindSampleSystem npos kws)
    | _ => throw s!"bind:{route}"
  match r with
  | .ok sl => pure ("ok bind" ++ String.join (sl.map fun x => " " ++ showSlot x))
  | .error e => pure (showErr e)

def handle (toks : List String) : String :=
  match toks with
  | "bind" :: rest => runLine hBind rest
  | "ss" :: rest => runLine hSS rest
  | "tf" :: rest => runLine hTF rest
  | "matched" :: rest => runLine hMatched rest
  | "names" :: rest => runLine hNames rest
  | "pade" :: rest => runLine hPade rest
  | _ => "bad-op c2d"

end CtrlVerif.Driver.Disc
