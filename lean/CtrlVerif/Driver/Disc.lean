/-
Driver for the discretisation family (`c2d …`), one request per line:
  ss n p m dt A… B… C… D… Ts method alpha|- (P w tanv)|- (E v…)|-
  tf <num> <den> dt Ts method alpha|- (P w tanv)|-
  matched <num> <den> <zeros> <poles> <E(zeros·Ts)> <E(poles·Ts)> Ts
  names copy(0|1) name|- srcname|- <inputs> <outputs> <states> (- | <list>)×3
  pade T n numdeg|-
Trusted glue.
-/
import CtrlVerif.Driver.Mat
import CtrlVerif.Model.Discretize

namespace CtrlVerif.Driver.Disc

open CtrlVerif CtrlVerif.Driver

def pMethod : P C2dMethod := do
  let t ← tok
  pure (match t with
    | "zoh" => .zoh | "gbt" => .gbt | "bilinear" => .bilinear | "tustin" => .tustin
    | "euler" => .euler | "forward_diff" => .forwardDiff | "backward_diff" => .backwardDiff
    | "foh" => .foh | "impulse" => .impulse | "matched" => .matched
    | _ => .unknown)

def pOptRat : P (Option Rat) := do
  match (← peek?) with
  | some "-" => let _ ← tok; pure none
  | _ => let q ← pRat; pure (some q)

def pPrewarp : P (Option (Prewarp Q)) := do
  let t ← tok
  if t == "-" then pure none
  else if t == "P" then
    let w ← pRat
    let tv ← pRat
    pure (some ⟨w, tv⟩)
  else throw s!"prewarp:{t}"

def sumIdx {n m : Nat} : Fin n ⊕ Fin m → Nat
  | .inl a => a.val
  | .inr b => n + b.val

def pExt (n m : Nat) : P (Option (Matrix (Fin n ⊕ Fin m) (Fin n ⊕ Fin m) Q)) := do
  let t ← tok
  if t == "-" then pure none
  else if t == "E" then
    let v ← pArray ((n + m) * (n + m)) pRat
    pure (some fun i j => v.getD (sumIdx i * (n + m) + sumIdx j) 0)
  else throw s!"ext:{t}"

def showSS (G : DSS Q) : String :=
  s!"ss {G.n} {G.p} {G.m} {showDt G.dt} " ++ showMat G.sys.A ++ " " ++ showMat G.sys.B ++ " "
    ++ showMat G.sys.C ++ " " ++ showMat G.sys.D

def hSS : P String := do
  let n ← pNat
  let p ← pNat
  let m ← pNat
  let dt ← pDt
  let A ← pMatSized n n
  let B ← pMatSized n m
  let C ← pMatSized p n
  let D ← pMatSized p m
  let Ts ← pRat
  let method ← pMethod
  let alpha ← pOptRat
  let pw ← pPrewarp
  let ext ← pExt n m
  let G : DSS Q := ⟨n, p, m, ⟨A, B, C, D⟩, dt⟩
  match G.sample Ts method alpha pw ext with
  | .ok R => pure ("ok " ++ showSS R)
  | .error e => pure (showErr e)

def hTF : P String := do
  let num ← pList pRat
  let den ← pList pRat
  let dt ← pDt
  let Ts ← pRat
  let method ← pMethod
  let alpha ← pOptRat
  let pw ← pPrewarp
  match tfSample num den dt Ts method alpha pw with
  | .ok (nd, dd, d) => pure (s!"ok tf {showDt d} " ++ showRats nd ++ " " ++ showRats dd)
  | .error e => pure (showErr e)

def lookupE (keys vals : List Rat) (x : Rat) : Rat :=
  match (keys.zip vals).find? (fun kv => kv.1 == x) with
  | some kv => kv.2
  | none => 0

def hMatched : P String := do
  let num ← pList pRat
  let den ← pList pRat
  let zeros ← pList pRat
  let poles ← pList pRat
  let ez ← pList pRat
  let ep ← pList pRat
  let Ts ← pRat
  if ez.length ≠ zeros.length ∨ ep.length ≠ poles.length then throw "matched:lengths"
  let keys := (zeros ++ poles).map (· * Ts)
  let E := lookupE keys (ez ++ ep)
  match c2dMatched num den zeros poles E Ts with
  | .ok (nd, dd, d) => pure (s!"ok tf {showDt d} " ++ showRats nd ++ " " ++ showRats dd)
  | .error e => pure (showErr e)

def pStrs : P (List String) := pList tok

def pOptStrs : P (Option (List String)) := do
  match (← peek?) with
  | some "-" => let _ ← tok; pure none
  | _ => let l ← pStrs; pure (some l)

def pOptStr : P (Option String) := do
  let t ← tok
  pure (if t == "-" then none else some t)

def showStrs (l : List String) : String :=
  toString l.length ++ String.join (l.map fun s => " " ++ s)

def hNames : P String := do
  let copy ← pNat
  let name ← pOptStr
  let srcname ← pOptStr
  let i ← pStrs
  let o ← pStrs
  let s ← pStrs
  let oi ← pOptStrs
  let oo ← pOptStrs
  let os ← pOptStrs
  match sampleNames ⟨srcname, i, o, s⟩ (copy != 0) name oi oo os with
  | .ok r => pure (s!"ok names {r.name.getD "*"} " ++ showStrs r.inputs ++ " " ++ showStrs r.outputs
      ++ " " ++ showStrs r.states)
  | .error e => pure (showErr e)

def pOptInt : P (Option Int) := do
  match (← peek?) with
  | some "-" => let _ ← tok; pure none
  | _ => let q ← pInt; pure (some q)

def hPade : P String := do
  let T ← pRat
  let n ← pInt
  let nd ← pOptInt
  match pade T n nd with
  | .ok (num, den) => pure ("ok pade " ++ showRats num ++ " " ++ showRats den)
  | .error e => pure (showErr e)

def handle (toks : List String) : String :=
  match toks with
  | "ss" :: rest => runLine hSS rest
  | "tf" :: rest => runLine hTF rest
  | "matched" :: rest => runLine hMatched rest
  | "names" :: rest => runLine hNames rest
  | "pade" :: rest => runLine hPade rest
  | _ => "bad-op c2d"

end CtrlVerif.Driver.Disc
