/-
Driver for the matrix-equation family (`mateqn`).  One line = one call of lyap / dlyap / care /
dare with `method='scipy'`:

  mateqn lyap|dlyap <A> <Q> <C> <E> X <x>
  mateqn care|dare <stabilizing 0|1> <A> <B> <Q> <R> <S> <E> X <x>

where an array is `M F|I p q v…` (row major; `F` float dtype, `I` integer dtype) or `N` (None) and
`<x>` is `p q v…` (the matrix the SciPy solver returned in the implementation run: the driver's
solver *replays* it) or `N`.

Answer: `err <Err>` when the validation raises, else
  `ok call <solver> <args…>`                              (the recorded solver call)
followed for care / dare by ` res X … G … Acl … Ecl …|N`, ` res err illPosed`, or ` res needX`.
Trusted glue; the functions executed are those of `Model/MatEqn.lean`.
-/
import CtrlVerif.Driver.Mat
import CtrlVerif.Model.MatEqn

namespace CtrlVerif.Driver.MatEqn

open CtrlVerif CtrlVerif.Driver CtrlVerif.MatEqn

/-- machine epsilon of binary64, `numpy.finfo(float).eps = 2⁻⁵²` -/
def eps64 : Q := 1 / 4503599627370496

def pDMat : P (Option (DMat Q)) := do
  let t ← tok
  if t == "N" then pure none
  else if t == "M" then
    let f ← tok
    let p ← pNat
    let q ← pNat
    let M ← pMatSized p q
    if f == "F" then pure (some ⟨p, q, M, some eps64⟩)
    else if f == "I" then pure (some ⟨p, q, M, none⟩)
    else throw s!"dtype:{f}"
  else throw s!"array:{t}"

def pReq : P (DMat Q) := do
  match ← pDMat with
  | some M => pure M
  | none => throw "required array is None"

/-- the replayed solver output: `X p q v…` or `X N` -/
def pX : P (Option (DMat Q)) := do
  let t ← tok
  if t != "X" then throw s!"expected X, got {t}"
  match ← peek? with
  | some "N" => let _ ← tok; pure none
  | _ =>
    let p ← pNat
    let q ← pNat
    let M ← pMatSized p q
    pure (some ⟨p, q, M, none⟩)

def showOpt {p q : Nat} : Option (Matrix (Fin p) (Fin q) Q) → String
  | none => "N"
  | some M => showMat M

def showLyapCall {n : Nat} (name : String) (c : LyapCall (Fin n) Q) : String :=
  s!"ok call {name} " ++ showMat c.a ++ " " ++ showMat c.q

def showSylvCall {n m : Nat} (c : SylvCall (Fin n) (Fin m) Q) : String :=
  "ok call sylv " ++ showMat c.a ++ " " ++ showMat c.b ++ " " ++ showMat c.q

def showAreCall {n m : Nat} (name : String) (c : AreCall (Fin n) (Fin m) Q) : String :=
  s!"ok call {name} " ++ showMat c.a ++ " " ++ showMat c.b ++ " " ++ showMat c.q ++ " "
    ++ showMat c.r ++ " " ++ showOpt c.e ++ " " ++ showOpt c.s

def showRes {n m : Nat} (r : AreResult (Fin n) (Fin m) Q) : String :=
  " res X " ++ showMat r.X ++ " G " ++ showMat r.G ++ " Acl " ++ showMat r.Acl ++ " Ecl "
    ++ showOpt r.Ecl

def runLyap (disc : Bool) : P String := do
  let A ← pReq
  let Qm ← pReq
  let C ← pDMat
  let E ← pDMat
  let _ ← pX
  if disc then
    match dlyapPlan A Qm C E with
    | .error e => pure (showErr e)
    | .ok P => pure (showLyapCall "dlyap" (dlyapCall P.A P.Q))
  else
    match lyapPlan A Qm C E with
    | .error e => pure (showErr e)
    | .ok (.lyap _ A' Q') => pure (showLyapCall "clyap" (lyapCall A' Q'))
    | .ok (.sylv _ _ A' Q' C') => pure (showSylvCall (sylvCall A' Q' C'))

def runAre (disc : Bool) : P String := do
  let stab ← pNat
  let A ← pReq
  let B ← pReq
  let Qm ← pReq
  let R ← pDMat
  let S ← pDMat
  let E ← pDMat
  let X ← pX
  let plan := if disc then darePlan eps64 (stab != 0) A B Qm R S E
              else carePlan eps64 (stab != 0) A B Qm R S E
  match plan with
  | .error e => pure (showErr e)
  | .ok P =>
    let call := if disc then showAreCall "dare" (dareCall P.A P.B P.Q P.R P.S P.E)
                else showAreCall "care" (careCall P.A P.B P.Q P.R P.S P.E)
    match X with
    | none => pure (call ++ " res needX")
    | some Xd =>
      if h : Xd.p = P.n ∧ Xd.q = P.n then
        let Xm : Matrix (Fin P.n) (Fin P.n) Q := Xd.cast h.1 h.2
        if disc then
          let ft := tabulate (dareF P.B P.R Xm)
          let F : Matrix (Fin P.m) (Fin P.m) Q := ofTable ft
          if F.det = 0 then pure (call ++ " res err illPosed")
          else
            let fit := tabulate (SS.invQ F)
            pure (call ++ showRes (dareFinish P.A P.B P.S P.E Xm (ofTable fit)))
        else
          if P.R.det = 0 then pure (call ++ " res err illPosed")
          else
            let rit := tabulate (SS.invQ P.R)
            pure (call ++ showRes (careFinish P.A P.B P.S P.E Xm (ofTable rit)))
      else throw "xshape"

def handle (toks : List String) : String :=
  match toks with
  | "lyap" :: rest => runLine (runLyap false) rest
  | "dlyap" :: rest => runLine (runLyap true) rest
  | "care" :: rest => runLine (runAre false) rest
  | "dare" :: rest => runLine (runAre true) rest
  | f :: _ => s!"bad-op fn:{f}"
  | [] => "bad-op empty"

end CtrlVerif.Driver.MatEqn
