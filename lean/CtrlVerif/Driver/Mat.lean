/-
Line-protocol utilities for matrices of run-time size over `ℚ`: parse / print (row major),
tabulation (so that later operations do not re-evaluate closures).  Trusted glue.
-/
import CtrlVerif.Driver.Util
import Mathlib.Data.Matrix.Basic
import Mathlib.Algebra.Field.Rat

namespace CtrlVerif.Driver

abbrev Q := Rat

/-- the entries of a matrix, row major.  Bind the result with `let` (it is then computed once);
never tabulate through a function-valued definition: Lean may eta-expand it and rebuild the
table on every entry access. -/
@[noinline] def tabulate {p m : Nat} (M : Matrix (Fin p) (Fin m) Q) : Array Q := Id.run do
  let mut a := Array.mkEmpty (p * m)
  for i in List.finRange p do
    for j in List.finRange m do
      a := a.push (M i j)
  pure a

/-- read a row-major table back as a matrix. -/
def ofTable {p m : Nat} (tab : Array Q) : Matrix (Fin p) (Fin m) Q :=
  fun i j => tab.getD (i.val * m + j.val) 0

/-- `p m v₁ … v_{pm}` (row major). -/
def pMatSized (p m : Nat) : P (Matrix (Fin p) (Fin m) Q) := do
  let v ← pArray (p * m) pRat
  pure (ofTable v)

def showMat {p m : Nat} (M : Matrix (Fin p) (Fin m) Q) : String := Id.run do
  let mut s := s!"{p} {m}"
  for i in List.finRange p do
    for j in List.finRange m do
      s := s ++ " " ++ showRat (M i j)
  pure s

def ratBits (q : Rat) : Nat := max (Nat.log2 q.num.natAbs) (Nat.log2 q.den) + 1

def matBits {p m : Nat} (M : Matrix (Fin p) (Fin m) Q) : Nat := Id.run do
  let mut b := 0
  for i in List.finRange p do
    for j in List.finRange m do
      b := max b (ratBits (M i j))
  pure b

end CtrlVerif.Driver
