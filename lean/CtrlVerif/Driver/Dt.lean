/-
Driver for the timebase family (`dt …` lines).  Trusted glue: parses a cell of the operation
table, runs the model of `Model/DtOps.lean`, prints the timebases.

  dt mk     <cfg> <opnd>                 -> ok <Dt> | err <e>
  dt common <Dt> <Dt>                    -> ok <Dt> | err <e>
  dt bin    <op> <cfg> <opnd> <opnd>     (op: add sub mul div fb append lft)
                                         -> ok A=<Dt|-> B=<Dt|-> R=<cls>:<Dt> | … R=err:<e> | err <e>
  dt un     <op> [arg] <cfg> <opnd>      -> ok A=<Dt> R=…
  dt nary   <fn> <kw> <cfg> <opnd>…      -> ok R=…          (series parallel append combine interconnect)
  dt tree   <cfg> <postfix program>      -> ok R=…

<cfg>, <kw>: `-` (absent) | N | T | Q<rat> | O      <opnd>: scalar | array | <cls>:<0|1 static>:<kw>
-/
import CtrlVerif.Driver.Util
import CtrlVerif.Model.DtOps

namespace CtrlVerif.Driver.DtFam

open CtrlVerif CtrlVerif.Driver

def parseArgTok (t : String) : Except String (Option DtArg) :=
  if t == "-" then .ok none
  else if t == "N" then .ok (some .none)
  else if t == "T" then .ok (some .btrue)
  else if t == "O" then .ok (some .other)
  else if t.startsWith "Q" then
    match parseRat (t.drop 1).toString with
    | some q => .ok (some (.num q))
    | none => .error s!"dtarg:{t}"
  else .error s!"dtarg:{t}"

def pKw : P (Option DtArg) := do
  match parseArgTok (← tok) with
  | .ok v => pure v
  | .error e => throw e

def pCfg : P DtArg := do
  match ← pKw with
  | some v => pure v
  | none => throw "cfg:absent"

def parseCls (t : String) : Except String Cls :=
  if t == "ss" then .ok .ss else if t == "tf" then .ok .tf else if t == "frd" then .ok .frd
  else if t == "nl" then .ok .nl else if t == "ic" then .ok .ic else .error s!"cls:{t}"

/-- an operand description: constant, or (class, static, dt keyword). -/
inductive Opnd where
  | scalar | array
  | mk (c : Cls) (static : Bool) (kw : Option DtArg)

def parseOpnd (t : String) : Except String Opnd :=
  if t == "scalar" then .ok .scalar
  else if t == "array" then .ok .array
  else match t.splitOn ":" with
    | [c, s, k] => do
      let c ← parseCls c
      let kw ← parseArgTok k
      if s == "0" then .ok (.mk c false kw)
      else if s == "1" then .ok (.mk c true kw)
      else .error s!"static:{s}"
    | _ => .error s!"opnd:{t}"

def pOpnd : P Opnd := do
  match parseOpnd (← tok) with
  | .ok v => pure v
  | .error e => throw e

/-- run the factory of an operand. -/
def build (cfg : DtArg) : Opnd → Except Err Arg
  | .scalar => .ok .scalar
  | .array => .ok .array
  | .mk c st kw => do
    let d ← factoryDt c st kw cfg
    .ok (.sys ⟨c, d⟩)

def showArgDt : Arg → String
  | .sys s => showDt s.dt
  | _ => "-"

def showRes : Except Err Sys → String
  | .ok s => s!"R={s.cls.toString}:{showDt s.dt}"
  | .error e => s!"R=err:{e}"

def showResArg : Except Err Arg → String
  | .ok (.sys s) => s!"R={s.cls.toString}:{showDt s.dt}"
  | .ok _ => "R=const"
  | .error e => s!"R=err:{e}"

def parseBinOp (t : String) : Option BinOp :=
  if t == "add" then some .add else if t == "sub" then some .sub
  else if t == "mul" then some .mul else if t == "div" then some .div else none

def hMk : P String := do
  let cfg ← pCfg
  let o ← pOpnd
  match build cfg o with
  | .ok a => pure s!"ok {showArgDt a}"
  | .error e => pure (showErr e)

def hCommon : P String := do
  let a ← pDt
  let b ← pDt
  match common a b with
  | .ok d => pure s!"ok {showDt d}"
  | .error e => pure (showErr e)

def hBin : P String := do
  let opn ← tok
  let cfg ← pCfg
  let oa ← pOpnd
  let ob ← pOpnd
  match build cfg oa, build cfg ob with
  | .ok a, .ok b =>
    let r : Except Err Sys ← (match parseBinOp opn with
      | some op => pure (binDt op a b cfg)
      | none =>
        if opn == "fb" then
          match a, b with
          | .sys x, _ => pure (feedbackDt x b cfg)
          | _, .sys y => pure (feedbackConstDt y cfg)
          | _, _ => throw "fb:const-const"
        else if opn == "append" then
          match a with
          | .sys x => pure (appendDt x b cfg)
          | _ => throw "append:const-left"
        else if opn == "lft" then pure (lftArg a b cfg)
        else throw s!"binop:{opn}")
    pure s!"ok A={showArgDt a} B={showArgDt b} {showRes r}"
  | .error e, _ => pure (showErr e)
  | _, .error e => pure (showErr e)

def pUnOp : P UnOp := do
  let t ← tok
  if t == "neg" then pure .neg
  else if t == "pow" then pure (.pow (← pInt))
  else if t == "getitem" then pure .getitem
  else if t == "copy" then pure .copy
  else if t == "rename" then pure .rename
  else if t == "toSS" then pure .toSS
  else if t == "toTF" then pure .toTF
  else if t == "toFRD" then pure .toFRD
  else if t == "toNL" then pure .toNL
  else if t == "sim" then pure .similarity
  else if t == "reach" then pure .reachable
  else if t == "obs" then pure .observable
  else if t == "modred" then pure .modelReduction
  else if t == "minreal" then pure .minreal
  else if t == "lin" then pure .linearize
  else if t == "sample" then pure (.sample (← pRat))
  else throw s!"unop:{t}"

def hUn : P String := do
  let op ← pUnOp
  let cfg ← pCfg
  let oa ← pOpnd
  match build cfg oa with
  | .ok (.sys x) => pure s!"ok A={showDt x.dt} {showRes (unDt op x cfg)}"
  | .ok _ => throw "un:const"
  | .error e => pure (showErr e)

partial def pRest {α} (p : P α) : P (List α) := do
  if (← atEnd) then pure [] else do
    let x ← p
    let xs ← pRest p
    pure (x :: xs)

def buildAll (cfg : DtArg) (l : List Opnd) : Except Err (List Arg) := l.mapM (build cfg)

def hNary : P String := do
  let fn ← tok
  let kw ← pKw
  let cfg ← pCfg
  let os ← pRest pOpnd
  match buildAll cfg os with
  | .error e => pure (showErr e)
  | .ok args =>
    if fn == "combine" then pure s!"ok {showRes (combineTfDt args cfg)}"
    else if fn == "interconnect" then
      let syss := args.filterMap (fun a => match a with | .sys s => some s | _ => none)
      if syss.length ≠ args.length then throw "interconnect:const" else
      let r : Except Err Sys := do
        let k ← (match kw with
          | none => .ok none
          | some v => do let d ← v.check; .ok (some d))
        icDt k syss cfg
      pure s!"ok {showRes r}"
    else
      match args with
      | .sys first :: rest =>
        if fn == "series" then pure s!"ok {showRes (seriesDt first rest cfg)}"
        else if fn == "parallel" then pure s!"ok {showRes (parallelDt first rest cfg)}"
        else if fn == "append" then pure s!"ok {showRes (appendAllDt first rest cfg)}"
        else throw s!"nary:{fn}"
      | _ => throw "nary:first-not-system"

/-- postfix program → tree. -/
def buildTree (cfg : DtArg) (toks : List String) : Except String (Except Err Tree) := do
  let mut st : List Tree := []
  for t in toks do
    if t == "neg" then
      match st with
      | x :: r => st := .neg x :: r
      | _ => throw "tree:stack"
    else if t == "fb" || t == "append" || (parseBinOp t).isSome then
      match st with
      | y :: x :: r =>
        if t == "fb" then st := .feedback x y :: r
        else if t == "append" then st := .append x y :: r
        else match parseBinOp t with
          | some op => st := .bin op x y :: r
          | none => throw "tree:op"
      | _ => throw "tree:stack"
    else
      let o ← parseOpnd t
      match build cfg o with
      | .ok a => st := .leaf a :: st
      | .error e => return (.error e)
  match st with
  | [t] => pure (.ok t)
  | _ => throw "tree:final-stack"

def hTree : P String := do
  let cfg ← pCfg
  let toks ← get
  set ([] : List String)
  match buildTree cfg toks with
  | .error e => throw e
  | .ok (.error e) => pure (showErr e)
  | .ok (.ok t) => pure s!"ok {showResArg (evalTree cfg t)}"

def handle (toks : List String) : String :=
  match toks with
  | "mk" :: rest => runLine hMk rest
  | "common" :: rest => runLine hCommon rest
  | "bin" :: rest => runLine hBin rest
  | "un" :: rest => runLine hUn rest
  | "nary" :: rest => runLine hNary rest
  | "tree" :: rest => runLine hTree rest
  | t :: _ => s!"bad-op dt:{t}"
  | [] => "bad-op dt:empty"

end CtrlVerif.Driver.DtFam
