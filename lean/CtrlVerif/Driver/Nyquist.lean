/-
Driver for the Nyquist family (C13).  Lines (after the family token `nyq`):

* `count <pi> <eps> <n> (re im angle){n}` — `re + i im` = the implementation's sample of `L` on the
  contour, `angle` = the externally computed `np.angle(L + 1)`;
  answer `ok <count> <encirclements> <branch-margin|none>` or `model-error angle <i>` when a
  supplied angle violates the quadrant contract.
* `unwrap <period> <n> a{n}` — answer `ok <n> out{n}`.
* `contour <r> <npts> <dir> <np> (re im){np} <nom> om{nom}` — s-plane contour decisions:
  `ok <n> (w U | w R q dx | w L q dx){n}` or `err <Err>`.
* `pz <ctime:0|1> <dir> <count> <np> (re im){np} <ncl> (re im){ncl}` — `ok <P> <Z> <0|1>`.
* `grid <cfg> <nl> log{nl} <ni> interesting{ni}` — exponents of the logarithmic default grid that `nyquist_response`
  asks for (`feature_periphery_decades=2` forwarded; `cfg` = the configured default periphery): `ok <lsp_min> <lsp_max>`.
* `omega <npts> <N | nyq> <n> om{n}` — `omega_sys` before points are inserted near poles (linspace from 0 to the
  first grid point; discrete time: cut below the Nyquist frequency, which is appended): `ok <n> w{n}` or `err <Err>`.
* `tb <pi> <n> dt{n}` — the loop is a product of `n` parts with these timebases (`N | C | T | D<p/q>`): the loop's
  timebase (`common_timebase` folded), the feature branch of `_default_frequency_range`, the Nyquist frequency the grid
  is cut at, whether the poles are taken as s-plane poles, and the four predicates `isctime()`, `isctime(strict=True)`,
  `isdtime()`, `isdtime(strict=True)`: `ok <dt> <C|D|S> <N | nyq> <0|1> <0|1> <0|1> <0|1> <0|1>` or `err <Err>`.
* `lomega <pi> <npts> <i> <ns> dt{ns} <n> om{n}` — one call of `nyquist_response` on a list of `ns` systems with these
  timebases and the common logarithmic grid `om`: the loop over the systems (`listDefaultOmega`) is run and
  `omega_sys` of system `i` (0-based) is printed: `ok <n> w{n}` or `err <Err>`.
* `lgrid <cfg> <ns> (<nl> log{nl} <ni> interesting{ni}){ns}` — exponents of the common grid of a list of systems
  (`listExponents`): `ok <lsp_min> <lsp_max>`.
-/
import CtrlVerif.Driver.Util
import CtrlVerif.Model.Nyquist
import CtrlVerif.Model.NyquistGrid
import CtrlVerif.Model.NyquistList
import Mathlib.Data.Rat.Floor

namespace CtrlVerif.Driver.Nyquist

open CtrlVerif CtrlVerif.Driver CtrlVerif.Nyquist

abbrev Q := Rat

def pPair : P (Q × Q) := do
  let a ← pRat
  let b ← pRat
  pure (a, b)

def pDir : P Dir := do
  let t ← tok
  if t == "right" then pure .right
  else if t == "left" then pure .left
  else if t == "none" then pure .none
  else pure .other

def firstBad (pi eps : Q) : ℕ → List ((Q × Q) × Q) → Option ℕ
  | _, [] => none
  | i, (z, a) :: t => if angleQuadOK pi eps (addOne z) a then firstBad pi eps (i + 1) t else some i

def hCount : P String := do
  let pi ← pRat
  let eps ← pRat
  let smp ← pList (do let z ← pPair; let a ← pRat; pure (z, a))
  match firstBad pi eps 0 smp with
  | some i => pure s!"model-error angle {i}"
  | none =>
    let angles := smp.map (·.2)
    let m := match branchMargin (2 * pi) angles with
      | some m => showRat m
      | none => "none"
    pure s!"ok {count pi angles} {showRat (encirclements pi angles)} {m}"

def hUnwrap : P String := do
  let period ← pRat
  let a ← pList pRat
  pure ("ok " ++ showRats (unwrap period a))

def showDec : Q × Option (Side × Q × Q) → String
  | (w, none) => s!" {showRat w} U"
  | (w, some (.right, q, dx)) => s!" {showRat w} R {showRat q} {showRat dx}"
  | (w, some (.left, q, dx)) => s!" {showRat w} L {showRat q} {showRat dx}"

def hContour : P String := do
  let r ← pRat
  let npts ← pNat
  let dir ← pDir
  let poles ← pList pPair
  let om ← pList pRat
  match contourDecisions r npts dir poles om with
  | .error e => pure (showErr e)
  | .ok ds => pure (s!"ok {ds.length}" ++ String.join (ds.map showDec))

def hPZ : P String := do
  let ct ← pNat
  let dir ← pDir
  let cnt ← pInt
  let poles ← pList pPair
  let cl ← pList pPair
  let Pn := countP (ct == 1) dir poles
  let Zn := countZ (ct == 1) cl
  pure s!"ok {Pn} {Zn} {if criterionOK Zn cnt Pn then 1 else 0}"

def hGrid : P String := do
  let cfg ← pRat
  let logs ← pList pRat
  let interesting ← pList pRat
  let e := nyquistExponents cfg logs interesting
  pure s!"ok {showRat e.1} {showRat e.2}"

def hOmega : P String := do
  let npts ← pNat
  let t ← tok
  let nyq : Option Q ← if t == "N" then pure none else
    match parseRat t with
    | some q => pure (some q)
    | none => throw s!"rat:{t}"
  let om ← pList pRat
  match defaultOmega npts nyq om with
  | .error e => pure (showErr e)
  | .ok l => pure ("ok " ++ showRats l)

def hTb : P String := do
  let pi ← pRat
  let parts ← pList pDt
  match loopTimebase parts with
  | .error e => pure (showErr e)
  | .ok d =>
    let br := match featureBranch d with
      | .continuous => "C"
      | .discrete => "D"
      | .skipped => "S"
    let nq := match nyquistFreq pi d with
      | none => "N"
      | some f => showRat f
    let b := fun (x : Bool) => if x then "1" else "0"
    pure s!"ok {showDt d} {br} {nq} {b (polesInSPlane d)} {b (DtPred.isctime false d)} {b (DtPred.isctime true d)} {b (DtPred.isdtime false d)} {b (DtPred.isdtime true d)}"

def hLOmega : P String := do
  let pi ← pRat
  let npts ← pNat
  let i ← pNat
  let dts ← pList pDt
  let om ← pList pRat
  match listDefaultOmega pi npts om dts with
  | .error e => pure (showErr e)
  | .ok ls =>
    match ls[i]? with
    | none => pure (showErr .indexRange)
    | some l => pure ("ok " ++ showRats l)

def hLGrid : P String := do
  let cfg ← pRat
  let fs ← pList (do let logs ← pList pRat; let interesting ← pList pRat; pure (logs, interesting))
  let e := listExponents cfg fs
  pure s!"ok {showRat e.1} {showRat e.2}"

def handle (toks : List String) : String :=
  match toks with
  | "count" :: rest => runLine hCount rest
  | "unwrap" :: rest => runLine hUnwrap rest
  | "contour" :: rest => runLine hContour rest
  | "pz" :: rest => runLine hPZ rest
  | "grid" :: rest => runLine hGrid rest
  | "omega" :: rest => runLine hOmega rest
  | "tb" :: rest => runLine hTb rest
  | "lomega" :: rest => runLine hLOmega rest
  | "lgrid" :: rest => runLine hLGrid rest
  | op :: _ => s!"bad-op nyq:{op}"
  | [] => "bad-op nyq:empty"

end CtrlVerif.Driver.Nyquist
