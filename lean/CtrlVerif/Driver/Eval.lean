/-
Driver for the evaluation family (`ev`, property C04), executed by `CtrlVerif.Model.Eval` over
`ℚ(i)`.  Trusted glue (parsing, printing).

line := "ev" sys op
sys  := "LT" p m dt (num den)…  |  "LS" ns p m dt A B C D          (as in the `frd` family)
      | "LC" p m dt (num den)…          transfer function with complex coefficients: every
                                        coefficient is a pair `re im`
op   := "call" k (re im)…                      sys(x) at k points
      | "freq" k w… "X" cnt {h ω re im}…       frequency_response(omega); table of exp(jωh)
      | "dc"                                    dcgain()
      | "poles" …                               see `opPoles`
      | "zeros" …                               see `opZeros`
answer for call / freq / dc:
  ok <k> <p> <m> [W w…] [R <real>] { P <sing> <detre> <detim> <reg> cell… }…
                                                                     cell := F re im | I | N
  (`R`, dc only: is the result of `_dcgain` a real array; the cells of dc are those of `dcPost`)
-/
import CtrlVerif.Driver.FRD
import CtrlVerif.Model.Eval

namespace CtrlVerif.Driver.Eval

open CtrlVerif CtrlVerif.Driver CtrlVerif.Driver.FRD CtrlVerif.Eval Matrix

def showCell : IVal C → String
  | .fin z => "F " ++ showC z
  | .inf => "I"
  | .nan => "N"

/-- does the system matrix have full normal rank (some sample point at which it does not lose
rank)?  Every maximal minor has degree ≤ n in the point, so n + 1 sample points decide.  When it
has not, the zero test of the singular branch is left to rounding (`matrix_rank` of a matrix that
is rank deficient everywhere): the harness then accepts `inf` and `nan`. -/
def regFlag {n p m : Nat} (G : SS (Fin n) (Fin m) (Fin p) C) : String :=
  if (samplePts (K := C) n).any fun x => !zeroTest G x then "1" else "0"

/-- per-point diagnostics: singular flag, `det(xI - A)` (conditioning proxy), regularity. -/
def pointInfo (L : LTI C) (x : C) : String :=
  match L with
  | .tf _ _ _ _ => "P 0 1 0 -"
  | .ss _ _ _ G _ =>
    let d := detFin (resolv G.A x)
    if d = 0 then s!"P 1 0 0 {regFlag G}" else s!"P 0 {showC d} -"

def showPoint (L : LTI C) (x : C) (M : Matrix (Fin L.p) (Fin L.m) (IVal C)) : String := Id.run do
  let mut s := pointInfo L x
  for i in List.finRange L.p do
    for j in List.finRange L.m do
      s := s ++ " " ++ showCell (M i j)
  pure s

def showPoints (L : LTI C) (xs : List C) (Ms : List (Matrix (Fin L.p) (Fin L.m) (IVal C))) :
    String :=
  String.intercalate " " ((List.zip xs Ms).map fun xm => showPoint L xm.1 xm.2)

/-- a transfer function whose coefficients are Gaussian rationals (pairs `re im`). -/
def pLeafLC : P (FOperand C) := do
  let p ← pNat
  let m ← pNat
  let dt ← pDt
  let ents ← pArray (p * m) (do
    let nn ← pList pC
    let dd ← pList pC
    pure (⟨nn, dd⟩ : Frac C))
  if ents.any (fun f => f.num.isEmpty || f.den.isEmpty) then throw "leaf:empty"
  pure (.lti (.tf p m (fun i j => ents.getD (i.val * m + j.val) ⟨[0], [1]⟩) dt))

/-- the system and whether its line carries complex coefficients (then the candidate polynomials
of `poles` are lists of pairs too). -/
def pSys : P (LTI C × Bool) := do
  let t ← tok
  let f ← match t with
    | "LT" => pLeafLT
    | "LC" => pLeafLC
    | "LS" => pLeafLS
    | _ => throw s!"sys:{t}"
  match f with
  | .lti L => pure (L, t == "LC")
  | _ => throw "sys"

def pPoly : P (List C) := pList pRatC

def pPolyC : P (List C) := pList pC

def showPolyC (d : List C) : String :=
  toString d.length ++ String.join (d.map fun z => " " ++ showC z)

/-- real parts of a matrix, row major (the systems of this family have real data). -/
def showMatRe {r c : Type} [Fintype r] [Fintype c] (rows : List r) (cols : List c)
    (M : Matrix r c C) : String :=
  String.join (rows.map fun i => String.join (cols.map fun j => " " ++ showRat (M i j).re))

def sumRange (n m : Nat) : List (Fin n ⊕ Fin m) :=
  (List.finRange n).map Sum.inl ++ (List.finRange m).map Sum.inr

/-- `poles`:
  TF SISO: "poles"                → ok poly <den>
  TF MIMO: "poles" {L cofs bezs}ₘ → ok polys m L…        (certificates checked; coefficients are
                                                          pairs `re im` on an `LC` line)
  SS     : "poles" cand           → ok empty | ok poly cand   (certificate checked) -/
def opPoles (L : LTI C) (cplx : Bool) : P String := do
  let pPoly := if cplx then pPolyC else pPoly
  match L with
  | .ss ns _ _ G _ =>
    let cand ← pPoly
    match ssPolesArg G with
    | none => pure "ok empty"
    | some A =>
      match ssPolesPoly G cand with
      | some d => pure ("ok poly " ++ showPolyC d ++ s!" arg {ns}"
          ++ showMatRe (List.finRange ns) (List.finRange ns) A)
      | none => pure s!"model-error charpoly-certificate ns={ns}"
  | .tf p m e _ =>
    let cs ← pArray m (do
      let l ← pPoly
      let cof ← pList pPoly
      let bez ← pList pPoly
      pure (l, cof, bez))
    match tfPolesPolys e (fun j => cs.getD j.val ([], [], [])) with
    | some ds =>
      pure (s!"ok polys {ds.length}" ++ String.join (ds.map fun d =>
        " " ++ toString d.length ++ String.join (d.map fun z => " " ++ showC z)))
    | none => pure s!"model-error lcm-certificate {p}x{m}"

/-- `zeros`:
  TF: "zeros"       → ok poly <num> | err notImplemented
  SS: "zeros" cand  → ok empty | err notImplemented | ok poly cand (certificate checked) -/
def opZeros (L : LTI C) : P String := do
  match L with
  | .tf _ _ e _ =>
    match tfZerosArg e with
    | .ok d => pure ("ok poly " ++ toString d.length ++ String.join (d.map fun z => " " ++ showC z))
    | .error er => pure (showErr er)
  | .ss ns p m G _ =>
    let cand ← pPoly
    match ssZerosArg G with
    | .error er => pure (showErr er)
    | .ok none => pure "ok empty"
    | .ok (some LM) =>
      if h : p = m then
        if zeroPolyCert (squareOf h G) cand (samplePts (ns + m)) then
          pure ("ok poly " ++ showPolyC cand ++ s!" arg {ns + m}"
            ++ showMatRe (sumRange ns m) (sumRange ns m) LM.1
            ++ showMatRe (sumRange ns m) (sumRange ns m) LM.2)
        else pure s!"model-error zeropoly-certificate ns={ns}"
      else pure "model-error zeros-shape"

/-- candidate state responses for the general path: `Y` then, per point, `ns * m` entries
(only for state-space systems with ≥ 2 states). -/
def pCands (L : LTI C) (k : Nat) : P (List (Array C)) := do
  match L with
  | .ss ns _ m _ _ =>
    if ns ≥ 2 then
      let t ← tok
      if t != "Y" then throw "cands"
      let mut out : Array (Array C) := #[]
      for _ in [0:k] do
        out := out.push (← pArray (ns * m) pC)
      pure out.toList
    else pure (List.replicate k #[])
  | _ => pure (List.replicate k #[])

/-- `sys(x)` at one point, executed with the certificate. -/
def evalPoint : (L : LTI C) → C → Array C → Option (Matrix (Fin L.p) (Fin L.m) (IVal C))
  | .tf _ _ e _, x, _ => some (tfHorner e x)
  | .ss _ _ m G _, x, v => ssHornerCert G x (Matrix.of fun i j => v.getD (i.val * m + j.val) 0)

/-- the component patterns of `sys(x)` (what `_dcgain` inspects): recomputed for a transfer
function, the two patterns of the singular branch for a state-space system. -/
def toCx : (L : LTI C) → C → Matrix (Fin L.p) (Fin L.m) (IVal C) → Matrix (Fin L.p) (Fin L.m) (Cx C)
  | .tf _ _ e _, x, _ => tfHornerCx partsQI e x
  | .ss _ _ _ _ _, _, M => Matrix.of fun i j => ssCx (M i j)

def evalPoints (L : LTI C) (xs : List C) (cands : List (Array C)) : Option String := do
  let mut out : List String := []
  for (x, v) in List.zip xs cands do
    let M ← evalPoint L x v
    out := out ++ [showPoint L x M]
  pure (String.intercalate " " out)

def run : P String := do
  let (L, cplx) ← pSys
  let op ← tok
  match op with
  | "call" =>
    let xs ← pList pC
    let cands ← pCands L xs.length
    match evalPoints L xs cands with
    | some s => pure (s!"ok {xs.length} {L.p} {L.m} " ++ s)
    | none => pure "model-error solve-certificate"
  | "freq" =>
    let ws ← pList pRat
    let tab ← pTable
    let cands ← pCands L ws.length
    let E := mkEnv tab
    -- every exp(jωh) the model reads must have been supplied
    let need : Bool := match L.dt with
      | .disc h => ws.all fun w => (tab.lookup (h, w)).isSome
      | .dtrue => ws.all fun w => (tab.lookup (1, w)).isSome
      | _ => true
    if !need then throw "expj-missing" else
    let om := sortW ws
    match evalPoints L (freqPoints E L.dt ws) cands with
    | some s =>
      pure (s!"ok {om.length} {L.p} {L.m} W" ++ String.join (om.map fun w => " " ++ showRat w)
        ++ " " ++ s)
    | none => pure "model-error solve-certificate"
  | "dc" =>
    let cands ← pCands L 1
    let x : C := dcPoint L.dt
    match evalPoint L x (cands.headD #[]) with
    | some M =>
      -- `_dcgain`: evaluate, then the real-part post-processing
      let r := dcPost partsQI (toCx L x M)
      pure (s!"ok 1 {L.p} {L.m} R {if r.1 then 1 else 0} " ++ showPoint L x r.2)
    | none => pure "model-error solve-certificate"
  | "poles" => opPoles L cplx
  | "zeros" => opZeros L
  | _ => throw s!"op:{op}"

def handle (toks : List String) : String :=
  match run.run toks with
  | .ok (s, []) => s
  | .ok (_, r) => s!"bad-op trailing:{r.length}"
  | .error e => s!"bad-op {e}"

end CtrlVerif.Driver.Eval
