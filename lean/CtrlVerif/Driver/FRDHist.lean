/-
Driver family `frdhist`: a HISTORY of FRD operator calls over objects that are made once and
used many times (model: `Model/C09Hist.lean`, theorems: `Props/C09Hist.lean`).

line  := "frdhist" "X" <cnt> {h ω re im}  <nobj> obj…  step ";" step ";" …
obj   := leaf of `Driver/FRD.lean` ("F" … | "S" … | "A" … | "LT" … | "LS" …)      object i, i < nobj
step  := ("T" | "N") prog        prog of `Driver/FRD.lean` plus the instruction "R" i = object i;
                                 the object made by step j (0-based) is object nobj + j
answer := "ok" ans {"|" ans}     one `frd` answer per step ("ok bits=… frd …" | "ok … eval …" |
                                 "err <Err>" | "skip": the step names an object that does not exist
                                 because the step that would have made it raised / ended with eval)

Every step is executed by the postfix interpreter `FRD.runS` over the store.  With flag "T" the
step is ALSO read as a `FRDTree.Step` (the program ↦ the tree over the stored values,
`FRDTree.buildS`) and executed by `FRDTree.stepE` — the function the history theorems are about;
a difference (value, shape, grid, `smooth`, error kind) is answered `model-error hist-mismatch`,
which the runner never masks.  The store only grows (`Array.push`): an object is its value.
Trusted glue (parsing, printing).
-/
import CtrlVerif.Driver.FRDTree
import CtrlVerif.Model.C09Hist

namespace CtrlVerif.Driver.FRDHist

open CtrlVerif CtrlVerif.Driver CtrlVerif.Driver.FRD CtrlVerif.FRDTree

def pObj : P (FOperand C) := do
  let t ← tok
  match t with
  | "F" => do let f ← pLeafF; pure (forceOp f)
  | "S" => do let c ← pC; pure (.scalar c)
  | "A" => pLeafA
  | "LT" => pLeafLT
  | "LS" => pLeafLS
  | _ => throw s!"obj:{t}"

/-- the token lists between the ";" separators (a trailing ";" does not open an empty step). -/
def splitSteps (toks : List String) : List (List String) :=
  let (cur, acc) := toks.foldl (fun (st : List String × List (List String)) t =>
    if t == ";" then ([], st.1.reverse :: st.2) else (t :: st.1, st.2)) ([], [])
  (if cur.isEmpty then acc else cur.reverse :: acc).reverse

/-- a program as a step of the model: the tree it denotes over the store. -/
def stepOf (prog : List String) : Step C := fun st =>
  match (FRDTree.buildS st.toArray []).run prog with
  | .ok (r, _) => r
  | .error _ => none

/-- the program names (`R i`) an object that does not exist: the whole step is skipped, wherever
in the program the name stands (the implementation side decides the same way before it runs the
call). -/
def namesEmpty (store : Array (Option (FOperand C))) : List String → Bool
  | "R" :: i :: rest =>
    (match i.toNat? with
      | some k => (match store[k]? with
        | some none => true
        | _ => false)
      | none => false) || namesEmpty store rest
  | _ :: rest => namesEmpty store rest
  | [] => false

def showStep : Option (Σ n, Except Err (DFRD C n)) → Option String
  | none => none
  | some ⟨_, .ok R⟩ => some (showFRD R)
  | some ⟨_, .error e⟩ => some (showErr e)

def handle (toks : List String) : String :=
  match (do
      let tab ← pTable
      let nobj ← pNat
      let objs ← pArray nobj pObj
      let rest ← get
      set ([] : List String)
      pure (tab, objs, rest)).run toks with
  | .error e => s!"bad-op {e}"
  | .ok ((tab, objs, rest), _) => Id.run do
    let mut store : Array (Option (FOperand C)) := objs.map some
    let mut out : Array String := #[]
    for st in splitSteps rest do
      match st with
      | [] => return "bad-op empty-step"
      | flag :: prog =>
        if namesEmpty store prog then
          out := out.push "skip"
          store := store.push none
        else
        match (FRD.runS tab store []).run prog with
        | .error e => return s!"bad-op {e}"
        | .ok ((ans, r), _) =>
          let mut a := ans
          if flag == "T" then
            match showStep (stepE (mkEnv tab) store.toList (stepOf prog)) with
            | some mine =>
              if mine != FRDTree.core ans then
                return s!"model-error hist-mismatch run=[{FRDTree.core ans}] step=[{mine}]"
            | none => a := ans
          out := out.push a
          -- only an FRD object is a new object of the history
          store := store.push (match r with
            | some (.frd n F) => some (.frd n F)
            | _ => none)
    pure ("ok " ++ " | ".intercalate out.toList)

end CtrlVerif.Driver.FRDHist
