def hello := "world"
