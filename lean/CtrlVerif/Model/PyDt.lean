/-
Meaning of the primitive Python tests that `harness/core/py2lean.py` emits, on the abstract
timebase type `Dt` (`None`, `0`, `True`, `dt > 0`).  Hand-written, part of the trusted base of
the source-text tie (DESIGN §2.5).  `False` is not a timebase value of the model: a system
constructed with `dt=False` is outside the quantifier of C05.
-/
import CtrlVerif.Model.Dt
import CtrlVerif.Model.DtOps

namespace CtrlVerif.PyDt

/-- `x is None` -/
def isNone : Dt → Bool
  | .none => true
  | _ => false

/-- `x is True` -/
def isTrue : Dt → Bool
  | .dtrue => true
  | _ => false

/-- `x is False` (no model value is `False`) -/
def isFalse : Dt → Bool := fun _ => false

/-- Python number behind a timebase that is not `None`: `True` is `1`, `0` is `0`. -/
def num : Dt → Rat
  | .disc h => h
  | .dtrue => 1
  | _ => 0

/-- `x > 0` (`True > 0` holds; `None > 0` raises TypeError in Python — every generated use is
guarded by `x is None` tests, and the equality theorem covers all 16 class pairs anyway). -/
def gtZero (d : Dt) : Bool := decide (0 < num d) && !isNone d

/-- `x == 0` -/
def eqZero (d : Dt) : Bool := decide (num d = 0) && !isNone d

/-- `np.isclose(x, y)` with the default tolerances. -/
def isclose (a b : Dt) : Bool := close (num a) (num b)

end CtrlVerif.PyDt

namespace CtrlVerif.PyDtArg

/-! primitives for the translation of `_process_dt_keyword` (values of a `dt=` argument) -/

/-- `dt is None` -/
def isNone : DtArg → Bool
  | .none => true
  | _ => false

/-- `isinstance(dt, (bool, int, float))` -/
def isNumber : DtArg → Bool
  | .btrue => true
  | .num _ => true
  | _ => false

/-- `dt < 0` for a bool / int / float (`True < 0` is false). -/
def ltZero : DtArg → Bool
  | .num q => decide (q < 0)
  | _ => false

/-- `d.pop('dt')` when the key is present (KeyError otherwise: never reached, the generated code
tests membership first; mapped to `badArg`). -/
def pop : Option DtArg → Except Err DtArg
  | some v => .ok v
  | Option.none => .error .badArg

end CtrlVerif.PyDtArg
