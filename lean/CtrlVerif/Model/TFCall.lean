/-
Function-call forms of the transfer-function operators: the wrappers of `control/bdalg.py`
(`feedback`, `series`, `parallel`, `negate`, `append`) as they act on VALUES.

The wrappers take naming keywords (`name=`, `inputs=`, `outputs=`, `states=`) which are handed
to `update_names` on the finished result; they are not arguments of the functions below because
the value of the result does not depend on them - which is exactly what the correspondence
check tests when it calls the real wrappers with such keywords.

* `feedback(sys1, sys2=1, sign=-1, **kw)`: `sys1.feedback(sys2, sign)`; a scalar / array `sys1`
  is first converted with `_convert_to_transfer_function` (the branch taken when `sys2` is a
  scalar, an array or a transfer function - the only one inside C01).
* `series(sys1, ..., sysn, **kw)`: `reduce(lambda x, y: y * x, syslist[1:], syslist[0])`.
* `parallel(sys1, ..., sysn, **kw)`: `reduce(lambda x, y: x + y, ...)`.
* `negate(sys, **kw)`: `-sys`.
* `append(sys1, ..., sysn, **kw)`: `s1 = s1.append(s)` for the further arguments.

The first argument of `series` / `parallel` / `append` is a system here (then every accumulator
is one); the further arguments are arbitrary operands.
-/
import CtrlVerif.Model.TFDyn

namespace CtrlVerif

variable {K : Type} [Field K] [DecidableEq K]

namespace DTF

/-- `_convert_to_transfer_function(x)` without a requested shape (scalar: `1 × 1`). -/
def Operand.toSys : Operand K → DTF K
  | .sys G => G
  | .scalar c => ofScalar c 1 1
  | .array p m D => ofArray p m D

/-- `bdalg.feedback(sys1, sys2, sign)`: the method of the (converted) first argument, with the
requested `sign`. -/
def feedbackFn (a b : Operand K) (sign : K) : Except Err (DTF K) :=
  (Operand.toSys a).feedback b sign

/-- `y * x` for a system `x` on the right as Python dispatches it: `y.__mul__(x)` for a system
`y`, otherwise `x.__rmul__(y)`. -/
def lmulBy (x : DTF K) : Operand K → Except Err (DTF K)
  | .sys H => H.mul (.sys x)
  | .scalar c => x.rmul (.scalar c)
  | .array p m D => x.rmul (.array p m D)

/-- `bdalg.series(G, x1, ..., xn)` = `xn * (... * (x1 * G))`. -/
def seriesFn (G : DTF K) (xs : List (Operand K)) : Except Err (DTF K) :=
  xs.foldlM (fun acc y => lmulBy acc y) G

/-- `bdalg.parallel(G, x1, ..., xn)` = `((G + x1) + ...) + xn`. -/
def parallelFn (G : DTF K) (xs : List (Operand K)) : Except Err (DTF K) :=
  xs.foldlM (fun acc y => acc.add y) G

/-- `bdalg.append(G, x1, ..., xn)`: block diagonal, left to right. -/
def appendFn (G : DTF K) (xs : List (Operand K)) : Except Err (DTF K) :=
  xs.foldlM (fun acc y => acc.append (Operand.toSys y)) G

/-- `bdalg.negate(G)`. -/
def negateFn (G : DTF K) : Except Err (DTF K) := G.neg

end DTF

end CtrlVerif
