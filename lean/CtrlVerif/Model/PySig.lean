/-
Trusted primitive file of the source-text tie `py2lean_disp` (C14; notes/NOTES-py2lean-disp.md):
the vocabulary in which `harness/core/py2lean_disp.py` writes down

* a Python function SIGNATURE as read from its `ast.arguments` node (`Sig`): the names of the
  positional-only / positional-or-keyword / keyword-only parameters in order, whether `*args` and
  `**kwargs` exist, and the default value of every parameter that has one (`Const`);
* a forwarding CALL `recv.attr(v₁, …, k₁=w₁, …, **kwargs)` whose arguments are parameters of the
  calling function (`Call`), and its value under an environment of the caller's parameters
  (`Call.eval`: the call form the callee is invoked with, `CallForm`);
* Python's binding of a call form to a signature (`Sig.bind`, `Sig.receive`): for the signatures
  without positional-only / keyword-only parameters and without `*args` this is the hand-written model
  `bindArgs` of `Model/Discretize.lean` (validated against real Python calls by the correspondence
  family of C14); other signatures are outside the modelled subset (`Err.notImplemented`).

Nothing here is specific to python-control.
-/
import CtrlVerif.Model.Discretize

namespace CtrlVerif.PySig

/-- a default value as written in the `def` line. -/
inductive Const where
  | none
  | bool (b : Bool)
  | str (s : String)
  | int (n : Int)
  | other (src : String)      -- any other expression: its source text
  deriving DecidableEq, Repr

/-- a signature as `ast.arguments` has it (a leading `self` of a method is dropped by the translator). -/
structure Sig where
  posonly : List String
  params : List String                -- positional-or-keyword parameters, in order
  kwonly : List String
  vararg : Bool                       -- `*args` present
  varkw : Bool                        -- `**kwargs` present
  defaults : List (String × Const)    -- every parameter with a default, in order
  deriving DecidableEq, Repr

/-- only positional-or-keyword parameters (and possibly `**kwargs`). -/
def Sig.simple (s : Sig) : Bool := s.posonly.isEmpty && s.kwonly.isEmpty && !s.vararg

/-- number of leading parameters without a default. -/
def Sig.nreq (s : Sig) : Nat :=
  (s.params.takeWhile (fun p => !(s.defaults.any (fun d => d.1 == p)))).length

def Sig.default (s : Sig) (p : String) : Const := (s.defaults.lookup p).getD (.other "<no default>")

/-- Python's binding of a call with `npos` positional arguments and the keywords `kws`. -/
def Sig.bind (s : Sig) (npos : Nat) (kws : List String) : Except Err (List Slot) :=
  if s.simple then bindArgs s.params s.nreq s.varkw npos kws else .error .notImplemented

/-- a forwarding call `recv.attr(pos…, k=v…, **kwargs)`; every argument is the NAME of a parameter
of the calling function (a local that only renames a parameter is resolved by the translator). -/
structure Call where
  recv : String
  attr : String
  pos : List String
  kws : List (String × String)      -- (keyword of the callee, parameter of the caller)
  star : Bool                       -- the caller's `**kwargs` is passed on as `**kwargs`
  deriving DecidableEq, Repr

/-- the values a callee is invoked with. -/
structure CallForm (α : Type) where
  recv : α
  attr : String
  pos : List α
  kws : List (String × α)           -- explicit keywords, in call order
  star : List (String × α)          -- the items of the expanded `**kwargs`

/-- the forwarding call under the caller's environment `env` (value of each parameter) and the
caller's `**kwargs` dictionary. -/
def Call.eval {α : Type} (c : Call) (env : String → α) (kwargs : List (String × α)) : CallForm α :=
  { recv := env c.recv, attr := c.attr, pos := c.pos.map env,
    kws := c.kws.map (fun kv => (kv.1, env kv.2)),
    star := if c.star then kwargs else [] }

/-- what the callee receives. -/
structure Received (α : Type) where
  self : α
  vals : List α                     -- the value of every parameter of the signature, in order
  extra : List (String × α)         -- the callee's `**kwargs`

/-- binding of a call form: every parameter gets the value of its slot, or its default
(`lit` interprets the default constants). -/
def Sig.receive {α : Type} (s : Sig) (lit : Const → α) (f : CallForm α) : Except Err (Received α) :=
  match s.bind f.pos.length (f.kws.map (·.1) ++ f.star.map (·.1)) with
  | .error e => .error e
  | .ok slots =>
    .ok { self := f.recv,
          vals := List.zipWith (fun p sl =>
            (Slot.value f.pos (f.kws.map (·.2) ++ f.star.map (·.2)) sl).getD (lit (s.default p)))
            s.params slots,
          extra := (f.kws ++ f.star).filter (fun kv => !s.params.contains kv.1) }

/-- which parameter of the caller each parameter of the callee `s` receives through the call `c`
(`none`: the callee's own default), computed on the names alone. -/
def Call.sources (c : Call) (s : Sig) : Except Err (List (Option String)) :=
  match s.bind c.pos.length (c.kws.map (·.1)) with
  | .error e => .error e
  | .ok slots => .ok (slots.map (Slot.value c.pos (c.kws.map (·.2))))

end CtrlVerif.PySig
