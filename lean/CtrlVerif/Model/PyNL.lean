/-
Meaning of the Python / NumPy primitives that `harness/core/py2lean_nl.py` emits when it translates
statement blocks of control/nlsys.py (`input_output_response`, `linearize`, `find_operating_point`,
`_update_params`) into Lean.  Hand-written, part of the trusted base of the source-text tie of C08
(DESIGN §10.3, notes/NOTES-py2lean-nlsys.md).  Everything lives in the namespace `CtrlVerif.PyNL`.

Value model:
  * a 1-D float array / a Python list of floats is a `List K`; Python `float` is exact arithmetic in
    the field `K` (rounding is not modelled, DESIGN §3.1); Python `int` is `Int`;
  * a 2-D array that is indexed by its LAST axis (`U[..., i]`, `U[:, i]`) is the list of its columns
    (`List (List K)`); a Python list of 1-D arrays that is turned into such an array by
    `np.transpose(np.array(.))` is that same list (`transposeStack` checks that it is not ragged);
  * a 2-D array that is filled column by column (`A[:, i] = v`) is a `CMat` (row count + columns);
  * the value of a vector argument (`None`, scalar, list / tuple of array-likes, ndarray) is an `Arg`;
  * a parameter dictionary is an association list in which the FIRST binding of a key wins;
    `d.update(e)` is `e ++ d`, `d.copy()` is `d`, a dictionary is true when it is not empty.
Partial operations are partial (`Except Err`): an out-of-range index, operands of different length
(NumPy would broadcast a length-1 operand: outside the modelled domain), a zero divisor (NumPy gives
`inf` / `nan` and a warning: the model of C08 rejects these inputs, so does this file).
-/
import CtrlVerif.Model.PyArith
import CtrlVerif.Model.Dt

namespace CtrlVerif.PyNL

/-! ### integers -/

/-- `np.clip(i, lo, hi)` = `minimum(maximum(i, lo), hi)`. -/
def clip (i lo hi : Int) : Int := min (max i lo) hi

/-- start position of the slice bound `n` in a sequence of length `len` (`a[:n]`, `a[n:]`):
negative bounds count from the end, everything is clipped to `0 … len`. -/
def sliceBound (len : Nat) (n : Int) : Nat :=
  if n < 0 then ((len : Int) + n).toNat else min n.toNat len

/-- `a[:n]` -/
def sliceTo {α : Type} (a : List α) (n : Int) : List α := a.take (sliceBound a.length n)

/-- `a[n:]` -/
def sliceFrom {α : Type} (a : List α) (n : Int) : List α := a.drop (sliceBound a.length n)

section vec
variable {K : Type}

/-- `np.searchsorted(T, t, side='left')` for a sorted `T`: the number of leading entries `< t`. -/
def searchsortedLeft [LinearOrder K] (T : List K) (t : K) : Int :=
  ((T.takeWhile (· < t)).length : Int)

/-- `np.zeros((n,))` / `np.zeros(n)` -/
def vzeros [Zero K] (n : Int) : List K := List.replicate n.toNat 0

/-- `np.ones((n,))` -/
def vones [One K] (n : Int) : List K := List.replicate n.toNat 1

/-- `a + b` for two 1-D arrays of the same length. -/
def vadd [Add K] (a b : List K) : Except Err (List K) :=
  if a.length = b.length then .ok (List.zipWith (· + ·) a b) else .error .shape

/-- `a - b` for two 1-D arrays of the same length. -/
def vsub [Sub K] (a b : List K) : Except Err (List K) :=
  if a.length = b.length then .ok (List.zipWith (· - ·) a b) else .error .shape

/-- `a * c` for a 1-D array and a scalar. -/
def vscale [Mul K] (a : List K) (c : K) : List K := a.map (· * c)

/-- `a / c` for a 1-D array and a scalar. -/
def vdiv [Field K] [DecidableEq K] (a : List K) (c : K) : Except Err (List K) :=
  if c = 0 then .error .zeroDen else .ok (a.map (· / c))

/-- `np.transpose(np.array(l))` for a list of 1-D arrays: the (channel, time) array, stored as the
list of its columns — the list itself; a ragged list is rejected. -/
def transposeStack (l : List (List K)) : Except Err (List (List K)) :=
  match l with
  | [] => .ok []
  | v :: _ => if l.all (fun w => w.length == v.length) then .ok l else .error .shape

/-- `np.allclose(a, c)` for a 1-D array and a scalar, over `ℚ` (`np.isclose` of `Model/Dt.lean`). -/
def allcloseNum (a : List Rat) (c : Rat) : Bool := a.all fun v => close v c

/-! ### arrays filled column by column -/

/-- a 2-D array as its row count and the list of its columns. -/
structure CMat (K : Type) where
  r : Nat
  cols : List (List K)
  deriving DecidableEq

/-- `np.zeros((r, c))` -/
def CMat.zeros [Zero K] (r c : Int) : CMat K :=
  ⟨r.toNat, List.replicate c.toNat (List.replicate r.toNat 0)⟩

/-- `M[:, i] = v` -/
def CMat.setCol (M : CMat K) (i : Int) (v : List K) : Except Err (CMat K) :=
  if v.length = M.r then
    match PyArith.setItem M.cols i v with
    | .error e => .error e
    | .ok c => .ok ⟨M.r, c⟩
  else .error .shape

/-! ### 2-D arrays given by their rows; elements of a mixed input list -/

/-- a 2-D array as its column count and the list of its rows. -/
structure RMat (K : Type) where
  c : Nat
  rows : List (List K)
  deriving DecidableEq

/-- what `np.vstack` makes of a 1-D array: one row. -/
def RMat.ofVec (v : List K) : RMat K := ⟨v.length, [v]⟩

/-- `np.outer(a, b)` for two 1-D arrays (a scalar first argument is the array of that one entry). -/
def outer [Mul K] (a b : List K) : RMat K := ⟨b.length, a.map fun x => b.map (x * ·)⟩

/-- `np.vstack(blocks)`: no block, or blocks with different column counts, is a `ValueError`. -/
def vstack (blocks : List (RMat K)) : Except Err (RMat K) :=
  match blocks with
  | [] => .error .shape
  | b :: _ =>
    if blocks.all (fun x => x.c == b.c) then .ok ⟨b.c, (blocks.map (·.rows)).flatten⟩ else .error .shape

/-- an element of the input list of `input_output_response` after `np.array(u)`: a number (0-d), a
1-D array, a 2-D array. -/
inductive UElem (K : Type) where
  | scalar (c : K)
  | vec (v : List K)
  | mat (M : RMat K)

/-! ### vector arguments -/

/-- the forms of a vector argument of `nlsys.py`: `None`, a scalar, a list / tuple (every element an
array-like, given flattened), an ndarray (given flattened). -/
inductive Arg (K : Type) where
  | none
  | scalar (c : K)
  | list (parts : List (List K))
  | array (v : List K)

/-- the first argument of `linearize`: a vector argument or an `OperatingPoint` object (its
`states` and `inputs` attributes). -/
inductive XArg (K : Type) where
  | vec (x : Arg K)
  | op (states inputs : Arg K)

/-- a value that has to be an array where it is used (`x0 + dx`, an argument of `_rhs` / `_out`):
`None` there is a `TypeError` (rule of the model: `badArg`). -/
def asArray (v : Option (List K)) : Except Err (List K) :=
  match v with
  | some a => .ok a
  | Option.none => .error .badArg

end vec

/-! ### index lists (`find_operating_point`) -/

/-- insertion into a strictly increasing list, dropping a value that is already there. -/
def insertU (a : Int) : List Int → List Int
  | [] => [a]
  | b :: bs => if a < b then a :: b :: bs else if a = b then b :: bs else b :: insertU a bs

/-- `np.unique(l)`: the distinct values in increasing order. -/
def unique (l : List Int) : List Int := l.foldr insertU []

/-- `min(l)` (`ValueError: min() iterable argument is empty`, class `badArg` by the rule of the family). -/
def minInt (l : List Int) : Except Err Int :=
  match l with
  | [] => .error .badArg
  | a :: as => .ok (as.foldl min a)

/-- `max(l)` (`ValueError` on an empty list). -/
def maxInt (l : List Int) : Except Err Int :=
  match l with
  | [] => .error .shape
  | a :: as => .ok (as.foldl max a)

/-- `np.delete(xs, idx)`: the entries of `xs` whose position is not listed (negative positions count
from the end, a position out of range is an `IndexError`). -/
def deleteIdx {α : Type} (xs : List α) (idx : List Int) : Except Err (List α) :=
  match idx.mapM (PyArith.normIdx xs.length) with
  | .error e => .error e
  | .ok ps => .ok ((List.range xs.length).filterMap fun i => if ps.contains i then none else xs[i]?)

section vec2
variable {K : Type}

/-- `x[idx] = vals` for an integer index array (the updated array): the entries are assigned in
order (a repeated index keeps the last value), `vals` must have the length of `idx`. -/
def scatter (x : List K) : List Int → List K → Except Err (List K)
  | [], [] => .ok x
  | i :: is, v :: vs =>
    match PyArith.setItem x i v with
    | .error e => .error e
    | .ok x' => scatter x' is vs
  | _, _ => .error .shape

/-- `x[idx]` for an integer index array. -/
def gather (x : List K) (idx : List Int) : Except Err (List K) := idx.mapM (PyArith.getItem x)

end vec2

/-! ### parameter dictionaries -/

/-- `dict` with keys `κ` and values `ν`; the first binding of a key wins. -/
abbrev Dict (κ ν : Type) := List (κ × ν)

/-- `d.copy()` -/
def Dict.copy {κ ν : Type} (d : Dict κ ν) : Dict κ ν := d

/-- `d.update(e)` (the updated dictionary) -/
def Dict.update {κ ν : Type} (d e : Dict κ ν) : Dict κ ν := e ++ d

/-- truth value of `params` (`None` and `{}` are false). -/
def Dict.truthy {κ ν : Type} (d : Option (Dict κ ν)) : Bool :=
  match d with
  | some e => !e.isEmpty
  | Option.none => false

/-- `d.update(e)` where `e` was just tested true. -/
def Dict.updateOpt {κ ν : Type} (d : Dict κ ν) (e : Option (Dict κ ν)) : Dict κ ν :=
  match e with
  | some e => Dict.update d e
  | Option.none => d

end CtrlVerif.PyNL
