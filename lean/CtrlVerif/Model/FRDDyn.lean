/-
Dynamic (run-time shaped) layer of the FRD model: operand conversion (`_convert_to_frd`),
SISO promotion, shape checks, scalar fast paths, operator dispatch and the `smooth` flag,
following `FrequencyResponseData.__add__ … append`, `__getitem__`, `eval` step by step.

Deviations from the code, all of them defects of the code with respect to C09 (see
`Props/C09.lean` and NOTES-C09.md):
* `feedback` honours `sign`;
* `eval` answers in request order;
* `_convert_to_frd` does not sort the caller's grid: everything is index by index in stored order;
* a converted constant / LTI operand does not need two grid points (the code builds it with
  `smooth=True`, which raises on a one-point grid);
* `F ** 0` is the identity response (the code uses the all-ones matrix, so `F ** k` is wrong for
  every MIMO `F`), and `scalar / F` for a MIMO `F` is not implemented (the code divides entry by
  entry, which is not a matrix operation).
-/
import CtrlVerif.Model.FRD
import CtrlVerif.Model.TF
import CtrlVerif.Model.Dt
import Mathlib.Logic.Equiv.Fin.Basic

namespace CtrlVerif

open Matrix

variable {K : Type} [Field K] [DecidableEq K]

/-- an FRD object on a grid of `n` points: shape, data, and whether it interpolates
(`_ifunc is not None`). -/
structure DFRD (K : Type) (n : Nat) where
  p : Nat
  m : Nat
  sys : FRD n (Fin p) (Fin m) K
  smooth : Bool

/-- re-type along equalities of the shape. -/
def FRD.castShape {n p p' m m' : Nat} (hp : p = p') (hm : m = m')
    (G : FRD n (Fin p) (Fin m) K) : FRD n (Fin p') (Fin m') K :=
  ⟨G.omega, fun k => (G.data k).submatrix (Fin.cast hp.symm) (Fin.cast hm.symm)⟩

/-- re-type along an equality of the grid length. -/
def FRD.castN {n n' : Nat} {o ι : Type*} (h : n = n') (G : FRD n o ι K) : FRD n' o ι K :=
  ⟨fun k => G.omega (Fin.cast h.symm k), fun k => G.data (Fin.cast h.symm k)⟩

/-- re-type `Fin a ⊕ Fin b` blocks as `Fin (a + b)`. -/
def FRD.flatten {n a b c d : Nat} (G : FRD n (Fin a ⊕ Fin b) (Fin c ⊕ Fin d) K) :
    FRD n (Fin (a + b)) (Fin (c + d)) K :=
  ⟨G.omega, fun k => (G.data k).submatrix finSumFinEquiv.symm finSumFinEquiv.symm⟩

/-! ### LTI operands: evaluated on the grid -/

/-- the two external ingredients of "evaluate on the grid": the embedding `ω ↦ jω` and NumPy's
`exp(1j * ω * dt)` (a parameter of the model; the harness supplies NumPy's values). -/
structure Env (K : Type) where
  jw : ℚ → K
  expj : ℚ → ℚ → K          -- `expj h ω = exp(1j * ω * h)`

/-- the point at which an LTI operand with timebase `dt` is evaluated for the frequency `ω`:
`isctime()` (`dt = 0` or `None`) → `jω`, otherwise `exp(jω·dt)` (`dt = True` counts as `1`). -/
def freqPoint (E : Env K) : Dt → ℚ → K
  | .cont, w => E.jw w
  | .none, w => E.jw w
  | .dtrue, w => E.expj 1 w
  | .disc h, w => E.expj h w

/-- a state-space or transfer-function operand. -/
inductive LTI (K : Type) where
  | tf (p m : Nat) (e : Fin p → Fin m → Frac K) (dt : Dt)
  | ss (ns p m : Nat) (G : SS (Fin ns) (Fin m) (Fin p) K) (dt : Dt)

namespace LTI

def p : LTI K → Nat
  | .tf p _ _ _ => p
  | .ss _ p _ _ _ => p

def m : LTI K → Nat
  | .tf _ m _ _ => m
  | .ss _ _ m _ _ => m

def dt : LTI K → Dt
  | .tf _ _ _ dt => dt
  | .ss _ _ _ _ dt => dt

/-- `-sys` (`TransferFunction.__neg__`: numerators negated; `StateSpace.__neg__`: `-C`, `-D`). -/
def neg : LTI K → LTI K
  | .tf p m e dt => .tf p m (fun i j => (e i j).neg) dt
  | .ss ns p m G dt => .ss ns p m G.neg dt

/-- the point `s` is a pole of the representation: some denominator vanishes / `sI - A` is
singular (the code then returns `inf`/`nan`). -/
def singularAt : LTI K → K → Bool
  | .tf _ _ e _, s => decide (∃ i j, polyval (e i j).den s = 0)
  | .ss ns _ _ G _, s => decide ((s • (1 : Matrix (Fin ns) (Fin ns) K) - G.A).det = 0)

/-- the value of the operand at `s` (`sys(s)`: Horner evaluation of every entry for a transfer
function, `C (sI - A)⁻¹ B + D` for a state-space system). -/
def valueAt : (L : LTI K) → K → Matrix (Fin L.p) (Fin L.m) K
  | .tf _ _ e _, s => Matrix.of fun i j => polyval (e i j).num s / polyval (e i j).den s
  | .ss ns _ _ G _, s => G.C * (SS.invQ (s • (1 : Matrix (Fin ns) (Fin ns) K) - G.A) * G.B) + G.D

end LTI

/-! ### operators after conversion -/

namespace DFRD

variable {n : Nat}

def isSiso (G : DFRD K n) : Bool := G.p == 1 && G.m == 1

/-- the scalar response of a SISO system at grid index `k` (used on SISO systems only). -/
def g00 (G : DFRD K n) (k : Fin n) : K :=
  if h : 0 < G.p ∧ 0 < G.m then G.sys.data k ⟨0, h.1⟩ ⟨0, h.2⟩ else 0

/-- constant response, as `_convert_to_frd` builds it (`smooth=True`). -/
def constD (omega : Fin n → ℚ) (p m : Nat) (D : Matrix (Fin p) (Fin m) K) : DFRD K n :=
  ⟨p, m, FRD.const omega D, true⟩

/-- `_convert_to_frd(sys, omega)` for an LTI operand: evaluated on the grid. -/
def ofLTI (E : Env K) (L : LTI K) (omega : Fin n → ℚ) : Except Err (DFRD K n) :=
  if ∃ k, L.singularAt (freqPoint E L.dt (omega k)) = true then .error .zeroDen
  else .ok ⟨L.p, L.m, FRD.ofFun omega fun k => L.valueAt (freqPoint E L.dt (omega k)), true⟩

/-- `bdalg.append(*[g] * r)` for SISO `g`. -/
def diagOf (g : DFRD K n) (r : Nat) : DFRD K n :=
  ⟨r, r, ⟨g.sys.omega, fun k => Matrix.diagonal fun _ => g.g00 k⟩, g.smooth⟩

/-- the size check and the product loop of `__mul__`, after promotion. -/
def mulAligned (G H : DFRD K n) : Except Err (DFRD K n) :=
  if h : G.m = H.p then
    .ok ⟨G.p, H.m, FRD.mul G.sys (FRD.castShape h.symm rfl H.sys), G.smooth && H.smooth⟩
  else .error .shape

/-- core of `__mul__` after conversion of `other`: promote a SISO operand, then multiply. -/
def mulCore (G H : DFRD K n) : Except Err (DFRD K n) :=
  mulAligned (if G.isSiso && !H.isSiso then G.diagOf H.p else G)
    (if !G.isSiso && H.isSiso then H.diagOf G.m else H)

/-- core of `__rmul__` (`other * self`) after conversion: note the promotion sizes. -/
def rmulCore (self other : DFRD K n) : Except Err (DFRD K n) :=
  let self' := if self.isSiso && !other.isSiso then self.diagOf other.m else self
  let other' := if !self.isSiso && other.isSiso then other.diagOf self.p else other
  if h : other'.m = self'.p then
    .ok ⟨other'.p, self'.m, FRD.rmul self'.sys (FRD.castShape rfl h other'.sys),
      self.smooth && other.smooth⟩
  else .error .shape

/-- `np.ones((p, m)) * g` (goes through `__rmul__` with an ndarray). -/
def onesTimes (p m : Nat) (g : DFRD K n) : Except Err (DFRD K n) :=
  rmulCore g (constD g.sys.omega p m (Matrix.of fun _ _ => 1))

/-- core of `__add__` after conversion of `other`. -/
def addCore (G H : DFRD K n) : Except Err (DFRD K n) := do
  let G' ← if G.isSiso && !H.isSiso then onesTimes H.p H.m G else pure G
  let H' ← if !G.isSiso && H.isSiso then onesTimes G.p G.m H else pure H
  if hm : G'.m = H'.m then
    if hp : G'.p = H'.p then
      pure ⟨G'.p, G'.m, FRD.add G'.sys (FRD.castShape hp.symm hm.symm H'.sys), false⟩
    else .error .shape
  else .error .shape

/-- `__neg__` (the result is built without `smooth`). -/
def neg (G : DFRD K n) : DFRD K n := ⟨G.p, G.m, G.sys.neg, false⟩

/-- core of `__truediv__` after conversion: only a SISO divisor is implemented. -/
def truedivCore (G H : DFRD K n) : Except Err (DFRD K n) :=
  if !H.isSiso then .error .notImplemented
  else do
    let s ← FRD.divSiso G.sys H.g00
    pure ⟨G.p, G.m, s, G.smooth && H.smooth⟩

/-- `F ** 0`: the identity response (ones on the diagonal), same shape and grid. -/
def unityLike (G : DFRD K n) : DFRD K n :=
  ⟨G.p, G.m, ⟨G.sys.omega, fun _ => Matrix.of fun i j => if i.val = j.val then 1 else 0⟩, G.smooth⟩

/-- `FRD(ones(self.frdata.shape), self.omega)`, the numerator of the negative-power branch. -/
def onesLike (G : DFRD K n) : DFRD K n :=
  ⟨G.p, G.m, ⟨G.sys.omega, fun _ => Matrix.of fun _ _ => 1⟩, false⟩

/-- `self ** k`, `k ≥ 0`: `self * (self ** (k-1))`. -/
def powNat (G : DFRD K n) : Nat → Except Err (DFRD K n)
  | 0 => pure (unityLike G)
  | k + 1 => do
    let r ← powNat G k
    mulCore G r

/-- `self ** (-k)`: `(ones / self) * (self ** (-k+1))`. -/
def powNegNat (G : DFRD K n) : Nat → Except Err (DFRD K n)
  | 0 => pure (unityLike G)
  | k + 1 => do
    let i ← truedivCore (onesLike G) G
    let r ← powNegNat G k
    mulCore i r

def pow (G : DFRD K n) (k : Int) : Except Err (DFRD K n) :=
  match k with
  | .ofNat k => powNat G k
  | .negSucc k => powNegNat G (k + 1)

/-- core of `feedback` after conversion of `other`. -/
def feedbackCore (G H : DFRD K n) (sign : K) : Except Err (DFRD K n) :=
  if h : G.p = H.m ∧ G.m = H.p then do
    let s ← FRD.feedback G.sys (FRD.castShape h.2.symm h.1.symm H.sys) sign
    pure ⟨G.p, G.m, s, G.smooth⟩
  else .error .shape

/-- core of `append` after conversion of `other`. -/
def appendCore (G H : DFRD K n) : DFRD K n :=
  ⟨G.p + H.p, G.m + H.m, FRD.flatten (G.sys.append H.sys), G.smooth⟩

/-- `sys[rows, cols]` for index lists already resolved; out-of-range indices raise. -/
def select (G : DFRD K n) (rows cols : List Nat) : Except Err (DFRD K n) :=
  if h : (∀ r ∈ rows, r < G.p) ∧ (∀ c ∈ cols, c < G.m) then
    .ok ⟨rows.length, cols.length,
      G.sys.select (fun i : Fin rows.length => ⟨rows[i], h.1 _ (List.getElem_mem _)⟩)
        (fun j : Fin cols.length => ⟨cols[j], h.2 _ (List.getElem_mem _)⟩), false⟩
  else .error .indexRange

/-- `eval(omega)` of a non-interpolating FRD (for an interpolating one the spline is external). -/
def eval (G : DFRD K n) (ws : List ℚ) : Except Err (List (Matrix (Fin G.p) (Fin G.m) K)) :=
  G.sys.eval ws

end DFRD

/-! ### operands and dispatch -/

/-- operands of the Python operators. -/
inductive FOperand (K : Type) where
  | frd (n : Nat) (F : DFRD K n)
  | scalar (c : K)
  | array (p m : Nat) (D : Matrix (Fin p) (Fin m) K)
  | lti (L : LTI K)

namespace DFRD

variable {n : Nat}

/-- `_convert_to_frd(other, omega=self.omega, inputs=m, outputs=p)`. -/
def convert (E : Env K) (omega : Fin n → ℚ) (p m : Nat) : FOperand K → Except Err (DFRD K n)
  | .frd n' H =>
    if h : n' = n then
      if FRD.gridMatch omega (FRD.castN h H.sys).omega then
        .ok ⟨H.p, H.m, FRD.castN h H.sys, H.smooth⟩
      else .error .notImplemented
    else .error .notImplemented
  | .lti L => ofLTI E L omega
  | .scalar c => .ok (constD omega p m (Matrix.of fun _ _ => c))
  | .array p' m' D => .ok (constD omega p' m' D)

/-- `-other`, as Python evaluates it before dispatch. -/
def negOperand : FOperand K → FOperand K
  | .frd n H => .frd n H.neg
  | .scalar c => .scalar (-c)
  | .array p m D => .array p m (-D)
  | .lti L => .lti L.neg

/-- `self + other` (`__radd__` is the same call): a scalar is converted to the shape of `self`. -/
def add (E : Env K) (G : DFRD K n) (x : FOperand K) : Except Err (DFRD K n) := do
  let H ← match x with
    | .scalar _ => convert E G.sys.omega G.p G.m x
    | _ => convert E G.sys.omega 1 1 x
  addCore G H

/-- `self - other` = `self + (-other)`. -/
def sub (E : Env K) (G : DFRD K n) (x : FOperand K) : Except Err (DFRD K n) :=
  add E G (negOperand x)

/-- `other - self` = `other + (-self)` → `(-self) + other`. -/
def rsub (E : Env K) (G : DFRD K n) (x : FOperand K) : Except Err (DFRD K n) :=
  add E G.neg x

/-- `self * other`: scalar fast path, otherwise convert and multiply. -/
def mul (E : Env K) (G : DFRD K n) : FOperand K → Except Err (DFRD K n)
  | .scalar c => .ok ⟨G.p, G.m, FRD.smul c G.sys, G.smooth⟩
  | x => do
    let H ← convert E G.sys.omega 1 1 x
    mulCore G H

/-- `other * self` for a non-FRD `other`. -/
def rmul (E : Env K) (G : DFRD K n) : FOperand K → Except Err (DFRD K n)
  | .scalar c => .ok ⟨G.p, G.m, FRD.smul c G.sys, G.smooth⟩
  | x => do
    let H ← convert E G.sys.omega 1 1 x
    rmulCore G H

/-- `self / other`: `self.frdata * (1/other)` for a scalar (Python raises on `1/0`). -/
def truediv (E : Env K) (G : DFRD K n) : FOperand K → Except Err (DFRD K n)
  | .scalar c =>
    if c = 0 then .error .zeroDen else .ok ⟨G.p, G.m, FRD.smul c⁻¹ G.sys, G.smooth⟩
  | x => do
    let H ← convert E G.sys.omega 1 1 x
    truedivCore G H

/-- `other / self` for a non-FRD `other`; only a SISO `self` can be a divisor. -/
def rtruediv (E : Env K) (G : DFRD K n) : FOperand K → Except Err (DFRD K n)
  | .scalar c =>
    if !G.isSiso then .error .notImplemented
    else do
      let s ← FRD.rdivScalar c G.g00 G.sys.omega
      pure ⟨1, 1, s, G.smooth⟩
  | x => do
    let H ← convert E G.sys.omega 1 1 x
    if !G.isSiso then .error .notImplemented else truedivCore H G

/-- `self.feedback(other, sign)`. -/
def feedback (E : Env K) (G : DFRD K n) (x : FOperand K) (sign : K) : Except Err (DFRD K n) := do
  let H ← convert E G.sys.omega 1 1 x
  feedbackCore G H sign

/-- `control.feedback(other, self, sign)` for a scalar/array `other`: it is converted on the
grid of `self` and its `feedback` method is used. -/
def feedbackL (E : Env K) (G : DFRD K n) (x : FOperand K) (sign : K) : Except Err (DFRD K n) := do
  let H ← convert E G.sys.omega 1 1 x
  feedbackCore H G sign

/-- `self.append(other)` for a system `other`. -/
def append (E : Env K) (G : DFRD K n) (x : FOperand K) : Except Err (DFRD K n) := do
  let H ← convert E G.sys.omega 1 1 x
  pure (appendCore G H)

end DFRD

end CtrlVerif
