/-
Meaning of the NumPy / Python primitives that `harness/core/py2lean_ss.py` emits when it translates
the arithmetic METHODS of `class StateSpace` (control/statesp.py: `__neg__ __add__ __radd__ __sub__
__rsub__ __mul__ __rmul__ __truediv__ __rtruediv__ __pow__ feedback append lft`) into Lean
(`Generated/SS*.lean`).  Hand-written; together with the translator this file is the trusted base
of the source-text tie of property C02 (notes/NOTES-py2lean-ss.md, DESIGN §10.3).

* `PMat K`  — an UNTYPED 2-D NumPy array: number of rows, number of columns, entries.  Every
  operation whose operands must fit checks the dimensions at run time and is an error otherwise
  (`Except Err`), never a default: `matmul` (`@`), `add` / `sub` (`+ -` of two arrays),
  `hcat` / `vcat` (`concatenate(axis=1 / 0)`), `block` (`np.block`), `setSlice`
  (`X[a:b, c:d] = V`), `solve`, `inv`, `StateSpace(A, B, C, D, dt)` (`PySS.mk`).
  Total operations: `zeros ones eye onesLike T neg smul mulNum addNum sliceRows sliceCols`
  (Python slices clip, they never raise).
* floats are modelled by EXACT arithmetic in an arbitrary field `K` (DESIGN §3.1); Python `int`s
  that can be negative are `Int`, shapes and attribute sizes (`nstates`, `ninputs`, `noutputs`,
  `X.shape[i]`) are `Nat`.
* `numpy.linalg.matrix_rank` is the rank (`Matrix.rank`); `solve(F, X)` / `scipy.linalg.inv` are
  exact: a singular matrix is an error (`illPosed`; NumPy: `LinAlgError`, a `ValueError`), otherwise
  the result is `F⁻¹ X` with `F⁻¹ = det⁻¹ • adjugate`.
* a Python `StateSpace` object is a `DSS K` (`Model/SSDyn.lean`: sizes, the four matrices, the
  timebase); `PySS.A … PySS.D` read its attributes as untyped arrays, `PySS.mk` is the constructor
  call, which checks that the four arrays fit.  The other operand of a binary operator is an
  `SOperand K`: a `StateSpace`, a Python / NumPy number, or a 2-D `ndarray`.
* `common_timebase` is `CtrlVerif.common` (`Model/Dt.lean`; tied to its own source text by
  `C05Gen.generated_common_eq`).

Only the TYPES `DSS`, `SOperand`, `SS`, `Dt`, `Err` and the function `common` of the model are used
here — none of the model's operators.

NOT modelled (each is an explicit error or outside the operand space, see the notes): NumPy
broadcasting between two 2-D arrays of different shapes (such an addition is an error here),
`TransferFunction` / FRD operands, 0-d / 1-d arrays, complex numbers, names and labels of systems.
-/
import CtrlVerif.Model.SSDyn
import Mathlib.LinearAlgebra.Matrix.Rank

namespace CtrlVerif

open Matrix

/-- an untyped 2-D array: `r × c` with entries `M`. -/
structure PMat (K : Type) where
  r : Nat
  c : Nat
  M : Matrix (Fin r) (Fin c) K

namespace PMat

variable {K : Type} [Field K]

/-- the same entries, the sizes re-typed along equalities. -/
def retype {r c r' c' : Nat} (hr : r = r') (hc : c = c') (M : Matrix (Fin r) (Fin c) K) :
    Matrix (Fin r') (Fin c') K :=
  M.submatrix (Fin.cast hr.symm) (Fin.cast hc.symm)

/-- `np.zeros((r, c))` -/
def zeros (r c : Nat) : PMat K := ⟨r, c, 0⟩

/-- `np.ones((r, c))` -/
def ones (r c : Nat) : PMat K := ⟨r, c, Matrix.of fun _ _ => 1⟩

/-- `np.eye(n)` -/
def eye (n : Nat) : PMat K := ⟨n, n, 1⟩

/-- `np.zeros((r, c))` for Python ints (`ValueError` for a negative size). -/
def zerosI (r c : Int) : Except Err (PMat K) :=
  if r < 0 ∨ c < 0 then .error .shape else .ok (zeros r.toNat c.toNat)

/-- `np.eye(n)` for a Python int (`ValueError` for a negative size). -/
def eyeI (n : Int) : Except Err (PMat K) :=
  if n < 0 then .error .shape else .ok (eye n.toNat)

/-- `np.ones_like(X)` -/
def onesLike (X : PMat K) : PMat K := ones X.r X.c

/-- `np.atleast_2d(X)` of a 2-D array. -/
def atleast2d (X : PMat K) : PMat K := X

/-- `X.T` -/
def T (X : PMat K) : PMat K := ⟨X.c, X.r, X.Mᵀ⟩

/-- `-X` -/
def neg (X : PMat K) : PMat K := ⟨X.r, X.c, -X.M⟩

/-- `a * X` for a number `a`. -/
def smul (a : K) (X : PMat K) : PMat K := ⟨X.r, X.c, a • X.M⟩

/-- `X * a` for a number `a`. -/
def mulNum (X : PMat K) (a : K) : PMat K := ⟨X.r, X.c, Matrix.of fun i j => X.M i j * a⟩

/-- `X + a` for a number `a` (added to every entry). -/
def addNum (X : PMat K) (a : K) : PMat K := ⟨X.r, X.c, Matrix.of fun i j => X.M i j + a⟩

/-- `X + Y` for two arrays of the same shape (other shapes: error, see the header). -/
def add (X Y : PMat K) : Except Err (PMat K) :=
  if h : Y.r = X.r ∧ Y.c = X.c then .ok ⟨X.r, X.c, X.M + retype h.1 h.2 Y.M⟩ else .error .shape

/-- `X - Y` for two arrays of the same shape. -/
def sub (X Y : PMat K) : Except Err (PMat K) :=
  if h : Y.r = X.r ∧ Y.c = X.c then .ok ⟨X.r, X.c, X.M - retype h.1 h.2 Y.M⟩ else .error .shape

/-- `X @ Y` (`ValueError` unless the inner sizes agree). -/
def matmul (X Y : PMat K) : Except Err (PMat K) :=
  if h : Y.r = X.c then .ok ⟨X.r, Y.c, X.M * retype h rfl Y.M⟩ else .error .shape

/-- `np.concatenate((X, Y), axis=1)`: side by side, `X` first. -/
def hcat (X Y : PMat K) : Except Err (PMat K) :=
  if h : Y.r = X.r then
    .ok ⟨X.r, X.c + Y.c, (fromCols X.M (retype h rfl Y.M)).submatrix id finSumFinEquiv.symm⟩
  else .error .shape

/-- `np.concatenate((X, Y), axis=0)`: stacked, `X` on top. -/
def vcat (X Y : PMat K) : Except Err (PMat K) :=
  if h : Y.c = X.c then
    .ok ⟨X.r + Y.r, X.c, (fromRows X.M (retype rfl h Y.M)).submatrix finSumFinEquiv.symm id⟩
  else .error .shape

/-- one row of blocks of `np.block`: concatenated left to right. -/
def hcatList : List (PMat K) → Except Err (PMat K)
  | [] => .error .badArg
  | [X] => .ok X
  | X :: Y :: rest => (hcatList (Y :: rest)).bind fun R => hcat X R

/-- rows of blocks stacked top to bottom. -/
def vcatList : List (PMat K) → Except Err (PMat K)
  | [] => .error .badArg
  | [X] => .ok X
  | X :: Y :: rest => (vcatList (Y :: rest)).bind fun R => vcat X R

/-- `np.block([[X11, X12, …], [X21, …], …])`: every inner list is concatenated along the columns,
the results along the rows. -/
def block (rows : List (List (PMat K))) : Except Err (PMat K) :=
  (rows.mapM hcatList).bind vcatList

/-- the position a slice bound denotes in a sequence of length `len` (Python `slice.indices`,
step 1): `None` is the default, a negative bound counts from the end, everything is clipped. -/
def sliceBound (len dflt : Nat) : Option Int → Nat
  | none => dflt
  | some k => if k < 0 then (k + len).toNat else min k.toNat len

theorem sliceBound_le (len dflt : Nat) (h : dflt ≤ len) (k : Option Int) :
    sliceBound len dflt k ≤ len := by
  cases k with
  | none => exact h
  | some k =>
    simp only [sliceBound]
    split
    · omega
    · exact Nat.min_le_right _ _

/-- `X[lo:hi, :]` -/
def sliceRows (X : PMat K) (lo hi : Option Int) : PMat K :=
  let a := sliceBound X.r 0 lo
  let b := sliceBound X.r X.r hi
  ⟨b - a, X.c, Matrix.of fun i j => X.M ⟨a + i.val, by
    have := sliceBound_le X.r X.r (le_refl _) hi
    have := i.isLt
    omega⟩ j⟩

/-- `X[:, lo:hi]` -/
def sliceCols (X : PMat K) (lo hi : Option Int) : PMat K :=
  let a := sliceBound X.c 0 lo
  let b := sliceBound X.c X.c hi
  ⟨X.r, b - a, Matrix.of fun i j => X.M i ⟨a + j.val, by
    have := sliceBound_le X.c X.c (le_refl _) hi
    have := j.isLt
    omega⟩⟩

/-- `X[r0:r1, c0:c1]` -/
def slice (X : PMat K) (r0 r1 c0 c1 : Option Int) : PMat K :=
  sliceCols (sliceRows X r0 r1) c0 c1

/-- `X[r0:r1, c0:c1] = V` (the updated array): `V` must have the shape of the slice. -/
def setSlice (X : PMat K) (r0 r1 c0 c1 : Option Int) (V : PMat K) : Except Err (PMat K) :=
  let a := sliceBound X.r 0 r0
  let b := sliceBound X.r X.r r1
  let c := sliceBound X.c 0 c0
  let d := sliceBound X.c X.c c1
  if h : V.r = b - a ∧ V.c = d - c then
    .ok ⟨X.r, X.c, Matrix.of fun i j =>
      if hi : a ≤ i.val ∧ i.val < b ∧ c ≤ j.val ∧ j.val < d then
        V.M ⟨i.val - a, by omega⟩ ⟨j.val - c, by omega⟩
      else X.M i j⟩
  else .error .shape

/-- `numpy.linalg.matrix_rank(X)` (exact arithmetic). -/
noncomputable def rank (X : PMat K) : Nat := X.M.rank

variable [DecidableEq K]

/-- the inverse of a square matrix with non-zero determinant. -/
def inverse {n : Nat} (F : Matrix (Fin n) (Fin n) K) : Matrix (Fin n) (Fin n) K :=
  (F.det)⁻¹ • F.adjugate

/-- `numpy.linalg.solve(F, X)`: `F` square, `X` with as many rows; singular `F`: `LinAlgError`. -/
def solve (F X : PMat K) : Except Err (PMat K) :=
  if h : F.c = F.r ∧ X.r = F.r then
    let F' : Matrix (Fin F.r) (Fin F.r) K := retype rfl h.1 F.M
    if F'.det = 0 then .error .illPosed
    else .ok ⟨F.r, X.c, inverse F' * retype h.2 rfl X.M⟩
  else .error .shape

/-- `scipy.linalg.inv(X)`: `X` square (`ValueError` otherwise); singular: `LinAlgError`. -/
def inv (X : PMat K) : Except Err (PMat K) :=
  if h : X.c = X.r then
    let X' : Matrix (Fin X.r) (Fin X.r) K := retype rfl h X.M
    if X'.det = 0 then .error .illPosed
    else .ok ⟨X.c, X.r, retype h.symm rfl (inverse X')⟩
  else .error .shape

/-- an array as the operand of an operator of a `StateSpace`. -/
def toOperand (X : PMat K) : SOperand K := .array X.r X.c X.M

end PMat

/-! Python-level access to `StateSpace` objects. -/
namespace PySS

variable {K : Type} [Field K]

/-- `sys.A` -/
def A (G : DSS K) : PMat K := ⟨G.n, G.n, G.sys.A⟩
/-- `sys.B` -/
def B (G : DSS K) : PMat K := ⟨G.n, G.m, G.sys.B⟩
/-- `sys.C` -/
def C (G : DSS K) : PMat K := ⟨G.p, G.n, G.sys.C⟩
/-- `sys.D` -/
def D (G : DSS K) : PMat K := ⟨G.p, G.m, G.sys.D⟩

/-- `sys.issiso()` -/
def issiso (G : DSS K) : Bool := G.p == 1 && G.m == 1

/-- `StateSpace(A, B, C, D, dt)`: `A` square, `B` with as many rows, `C` with as many columns,
`D` with the rows of `C` and the columns of `B`; anything else is a `ValueError`. -/
def mk (A B C D : PMat K) (dt : Dt) : Except Err (DSS K) :=
  if h : A.c = A.r ∧ B.r = A.r ∧ C.c = A.r ∧ D.r = C.r ∧ D.c = B.c then
    .ok ⟨A.r, C.r, B.c,
      ⟨PMat.retype rfl h.1 A.M, PMat.retype h.2.1 rfl B.M, PMat.retype rfl h.2.2.1 C.M,
        PMat.retype h.2.2.2.1 h.2.2.2.2 D.M⟩, dt⟩
  else .error .shape

/-- `StateSpace([], [], [], D, dt)`: a static gain. -/
def mkStatic (D : PMat K) (dt : Dt) : DSS K := ⟨0, D.r, D.c, ⟨0, 0, 0, D.M⟩, dt⟩

/-- `_convert_to_statespace(x)` for the three kinds of operand: a `StateSpace` is returned as it
is, a number or an array becomes `StateSpace([], [], [], np.atleast_2d(x), dt=None)`. -/
def convert : SOperand K → DSS K
  | .sys G => G
  | .scalar a => mkStatic ⟨1, 1, Matrix.of fun _ _ => a⟩ .none
  | .array p m M => mkStatic ⟨p, m, M⟩ .none

/-- `bdalg.append(*([g] * k))` given the method `append`: `s1 = sys[0]` (`IndexError` for an empty
list), then `s1 = s1.append(s)` for the remaining `k - 1` copies. -/
def appendCopies (append : DSS K → SOperand K → Except Err (DSS K)) (g : DSS K) :
    Nat → Except Err (DSS K)
  | 0 => .error .badArg
  | 1 => .ok g
  | k + 2 => (appendCopies append g (k + 1)).bind fun a => append a (.sys g)

/-- the exception classes behind `Err` that are `ValueError`s (`numpy.linalg.LinAlgError` is a
subclass): what `except ValueError` catches. -/
def isValueError : Err → Bool
  | .shape | .illPosed | .timebase => true
  | _ => false

/-- `numpy.linalg.LinAlgError` / `scipy.linalg.LinAlgError`: a singular matrix. -/
def isLinAlgError : Err → Bool
  | .illPosed => true
  | _ => false

end PySS

namespace PyNum

variable {K : Type} [Field K] [DecidableEq K]

/-- `a / b` for numbers (`ZeroDivisionError` for a zero divisor). -/
def div (a b : K) : Except Err K := if b = 0 then .error .zeroDen else .ok (a / b)

end PyNum

end CtrlVerif
