/-
C05 — whole expressions over the timebase calculus.

`Expr` covers every operation the property lists: leaves (a system of any class with any timebase,
static or dynamic, or a scalar / array constant which carries no timebase; a summing junction),
`sample(Ts)`, and inner nodes applying an operation `Op` to the evaluated children:

* the unary operations (negation, integer powers incl. `0` and negative exponents, indexing,
  copy, rename, the conversions `ss` / `tf` / `frd` / `nlsys`, similarity and canonical forms,
  `model_reduction`, `minreal`, `linearize`),
* the binary operators `+ - * /` of every class with Python's dispatch, `feedback`, `lft`,
* the n-ary block-diagram functions `series`, `parallel`, `append`, `interconnect(…, dt=…)`,
  `combine_tf`.

No new timebase rule is introduced here: `eval` only *composes* the per-operation functions of
`Model/DtOps.lean` (`binDt`, `unDt`, `feedbackDt`, `feedbackConstDt`, `lftDt`, `seriesDt`, `parallelDt`,
`appendAllDt`, `icDt`, `combineTfDt`, `factoryDt`), i.e. the table that the exhaustive
correspondence check of `harness/families/c05.py` validates against the real code.  n-ary
operands are folded exactly as the code folds them (left to right: `reduce(lambda x, y: y * x)`,
`reduce(lambda x, y: x + y)`, repeated `.append`, the loop of `InterconnectedSystem.__init__`, the
double loop of `combine_tf`).

Core Lean only (executed by the driver, family `dtx`).
-/
import CtrlVerif.Model.DtOps

namespace CtrlVerif.C05Expr

open CtrlVerif

/-- the unary operations of the property that are not sampling (`UnOp` without `sample`). -/
inductive Un1 where
  | neg | pow (k : Int) | getitem | copy | rename
  | toSS | toTF | toFRD | toNL
  | similarity | reachable | observable | modelReduction | minreal | linearize
  deriving DecidableEq, Repr, Inhabited

/-- the operation of the model behind a unary node. -/
def Un1.toUnOp : Un1 → UnOp
  | .neg => .neg | .pow k => .pow k | .getitem => .getitem | .copy => .copy | .rename => .rename
  | .toSS => .toSS | .toTF => .toTF | .toFRD => .toFRD | .toNL => .toNL
  | .similarity => .similarity | .reachable => .reachable | .observable => .observable
  | .modelReduction => .modelReduction | .minreal => .minreal | .linearize => .linearize

/-- operation applied by an inner node to its evaluated children. -/
inductive Op where
  | un (u : Un1)                     -- one child
  | bin (op : BinOp)                 -- two children: `l op r`
  | feedback                         -- two children: `feedback(l, r)`
  | lft                              -- two children: `l.lft(r)` (`StateSpace.lft`)
  | series | parallel | append       -- one or more children, folded left to right
  | interconnect (kw : Option Dt)    -- any number of children, optional `dt=` keyword
  | combineTf                        -- any number of blocks (one block row)
  deriving DecidableEq, Repr, Inhabited

mutual
/-- expressions. -/
inductive Expr where
  | leaf (a : Arg)                       -- a system `⟨class, dt⟩`, a scalar, an array
  | sumjunc                              -- `summing_junction(...)`
  | sample (ts : Rat) (e : Expr)         -- `e.sample(ts)` / `c2d(e, ts)`
  | node (op : Op) (args : EList)
/-- lists of expressions (children of a node). -/
inductive EList where
  | nil
  | cons (e : Expr) (l : EList)
end

instance : Inhabited Expr := ⟨.sumjunc⟩
instance : Inhabited EList := ⟨.nil⟩

def EList.ofList : List Expr → EList
  | [] => .nil
  | e :: l => .cons e (EList.ofList l)

def EList.toList : EList → List Expr
  | .nil => []
  | .cons e l => e :: l.toList

/-! readable constructors -/

def Expr.un (u : Un1) (e : Expr) : Expr := .node (.un u) (.cons e .nil)
def Expr.neg (e : Expr) : Expr := .un .neg e
def Expr.pow (k : Int) (e : Expr) : Expr := .un (.pow k) e
def Expr.bin (op : BinOp) (l r : Expr) : Expr := .node (.bin op) (.cons l (.cons r .nil))
def Expr.fb (l r : Expr) : Expr := .node .feedback (.cons l (.cons r .nil))
def Expr.lft (l r : Expr) : Expr := .node .lft (.cons l (.cons r .nil))
def Expr.series (l : List Expr) : Expr := .node .series (EList.ofList l)
def Expr.parallel (l : List Expr) : Expr := .node .parallel (EList.ofList l)
def Expr.appendAll (l : List Expr) : Expr := .node .append (EList.ofList l)
def Expr.ic (kw : Option Dt) (l : List Expr) : Expr := .node (.interconnect kw) (EList.ofList l)
def Expr.combine (l : List Expr) : Expr := .node .combineTf (EList.ofList l)
def Expr.sys (c : Cls) (d : Dt) : Expr := .leaf (.sys ⟨c, d⟩)

/-! ### operations on evaluated children -/

/-- a non-sampling unary operation on an evaluated operand: `-c` of a constant is a constant,
everything else needs a system. -/
def unArg (u : Un1) (a : Arg) (cfg : DtArg) : Except Err Arg :=
  match a with
  | .sys x => do let s ← unDt u.toUnOp x cfg; .ok (.sys s)
  | c => match u with
    | .neg => negArg c cfg
    | _ => .error .badArg

/-- `sys.sample(ts)` on an evaluated operand. -/
def sampleArg (ts : Rat) (a : Arg) (cfg : DtArg) : Except Err Arg :=
  match a with
  | .sys x => do let s ← unDt (.sample ts) x cfg; .ok (.sys s)
  | _ => .error .badArg

/-- `feedback(a, b)`: the method of a system `a`; a constant `a` is converted to the class of `b`
(`bdalg.feedback`). -/
def fbArg (a b : Arg) (cfg : DtArg) : Except Err Sys :=
  match a, b with
  | .sys x, _ => feedbackDt x b cfg
  | _, .sys y => feedbackConstDt y cfg
  | _, _ => .error .badArg

/-- the evaluated children of `interconnect` must all be systems. -/
def allSys : List Arg → Except Err (List Sys)
  | [] => .ok []
  | .sys s :: l => do let r ← allSys l; .ok (s :: r)
  | _ :: _ => .error .badArg

/-- the operation of an inner node on its evaluated children (`badArg`: wrong number of
children, or a constant where the function needs a system). -/
def applyOp (cfg : DtArg) : Op → List Arg → Except Err Arg
  | .un u, [a] => unArg u a cfg
  | .bin op, [a, b] => do let s ← binDt op a b cfg; .ok (.sys s)
  | .feedback, [a, b] => do let s ← fbArg a b cfg; .ok (.sys s)
  | .lft, [a, b] => do let s ← lftArg a b cfg; .ok (.sys s)
  | .series, .sys first :: rest => do let s ← seriesDt first rest cfg; .ok (.sys s)
  | .parallel, .sys first :: rest => do let s ← parallelDt first rest cfg; .ok (.sys s)
  | .append, .sys first :: rest => do let s ← appendAllDt first rest cfg; .ok (.sys s)
  | .interconnect kw, args => do
      let l ← allSys args
      let s ← icDt kw l cfg
      .ok (.sys s)
  | .combineTf, args => do let s ← combineTfDt args cfg; .ok (.sys s)
  | _, _ => .error .badArg

/-- `summing_junction(inputs, output)`: a static `StateSpace` created without `dt`, then the copy
constructor `StateSpace(ss_sys, inputs=…, outputs=…, name=…)`. -/
def sumjuncDt (cfg : DtArg) : Except Err Sys := do
  let d ← factoryDt .ss true Option.none cfg
  unDt .toSS ⟨.ss, d⟩ cfg

mutual
/-- value of an expression (class and timebase of the resulting system, or a constant). -/
def eval (cfg : DtArg) : Expr → Except Err Arg
  | .leaf a => .ok a
  | .sumjunc => do let s ← sumjuncDt cfg; .ok (.sys s)
  | .sample ts e => do let a ← eval cfg e; sampleArg ts a cfg
  | .node op args => do let l ← evalL cfg args; applyOp cfg op l
/-- children are evaluated left to right, all of them (Python evaluates call arguments eagerly). -/
def evalL (cfg : DtArg) : EList → Except Err (List Arg)
  | .nil => .ok []
  | .cons e l => do
      let a ← eval cfg e
      let r ← evalL cfg l
      .ok (a :: r)
end

/-- timebase of the value of an expression under `config.defaults['control.default_dt'] = cfg`. -/
def evalDt (cfg : DtArg) (e : Expr) : Except Err Dt := do
  let a ← eval cfg e
  .ok a.dt

/-! ### leaves -/

/-- timebases an operation contributes besides those of its operands (`interconnect(…, dt=kw)`). -/
def Op.own : Op → List Dt
  | .interconnect (some d) => [d]
  | _ => []

mutual
/-- timebases of the leaves.  Sampling cuts the tree: a `sample` node is a leaf with timebase
`ts`; a summing junction and a constant are leaves without timebase (`None`). -/
def leaves : Expr → List Dt
  | .leaf a => [a.dt]
  | .sumjunc => [.none]
  | .sample ts _ => [.disc ts]
  | .node op args => op.own ++ leavesL args
def leavesL : EList → List Dt
  | .nil => []
  | .cons e l => leaves e ++ leavesL l
end

mutual
/-- the operands of all sampling nodes, at any depth. -/
def sampled : Expr → List Expr
  | .leaf _ => []
  | .sumjunc => []
  | .sample _ e => e :: sampled e
  | .node _ args => sampledL args
def sampledL : EList → List Expr
  | .nil => []
  | .cons e l => sampled e ++ sampledL l
end

end CtrlVerif.C05Expr
