/-
C18 model, part 3: the two *call forms* and *usage patterns* of response objects that part 2
leaves out.

* **lists of systems.**  `step_response`, `impulse_response`, `initial_response`,
  `forced_response`, `input_output_response` and `ct.frequency_response` accept a list (or
  tuple) of systems: "If passed a list, recursively call individual responses with given T" and
  the same keywords; the result (`TimeResponseList` / `FrequencyResponseList`) is the list of the
  single-system results, and the first system whose call raises makes the whole call raise
  (`listCall`, `timeResponseList`, `freqResponseList`).

* **histories on response objects.**  A response object is read (`outputs`, `states`, …,
  `magnitude`, `phase`, …, tuple unpacking, indexing), copied with new settings
  (`response(squeeze=…, transpose=…, return_x=…)`, `F(squeeze=…, return_magphase=…)`), its
  attributes are assigned (`response.squeeze = …`), and the package default is changed
  (`config.defaults['control.squeeze_time_response'] = …`), in any order.  `HState.run` is the
  state machine: a read returns the observation of the object under the settings in force *at
  that read* and changes nothing; a copy adds a new object and leaves the old one untouched.
-/
import CtrlVerif.Model.Response

namespace CtrlVerif

/-! ### a list (or tuple) of systems -/

/-- `[f(sys, …) for sys in sysdata]`: the first failing call raises. -/
def listCall {σ ρ : Type} (f : σ → Except Err ρ) (systems : List σ) : Except Err (List ρ) :=
  systems.mapM f

/-- what one system of a list call contributes to a time response: its dimensions and its
simulated raw arrays (external: C06). -/
structure SysRaw (α : Type) where
  p : Nat
  m : Nat
  n : Nat
  y : NDArr α
  x : Option (NDArr α)
  u : Option (NDArr α)

/-- `fn([sys₁, …, sysₖ], T, …, squeeze=…, transpose=…, return_x=…)`: every keyword is handed on
unchanged to the call for each system. -/
def timeResponseList {α : Type} (fn : TFn) (T : Nat) (inp out : Option Nat) (u1d : Bool)
    (t : NDArr α) (systems : List (SysRaw α)) (squeeze : Sq) (transpose : Bool)
    (returnX : Option Bool) (cfg : Cfg) : Except Err (List (TRD α)) :=
  listCall (fun s => timeResponse fn s.p s.m s.n T inp out u1d t s.y s.x s.u
    squeeze transpose returnX cfg) systems

/-- one system of a `ct.frequency_response([…], omega)` call: dimensions and `sys.horner` values
(external: C04). -/
structure SysHorner (α : Type) where
  p : Nat
  m : Nat
  horner : NDArr α

/-- `ct.frequency_response([sys₁, …, sysₖ], omega, squeeze=…)` on `N` given frequencies. -/
def freqResponseList {α : Type} (N : Nat) (systems : List (SysHorner α)) (squeeze : Sq)
    (cfg : Cfg) : Except Err (List (RespFRD α)) :=
  listCall (fun s => ltiFreqResp s.p s.m N s.horner squeeze cfg) systems

/-! ### histories -/

/-- the operations of one class of response objects: how an object is observed under a
configuration, copied with keywords (`obj(**kw)`), assigned an attribute, and how the package
configuration is changed. -/
structure HistOps (Obj Obs Reading CU SU GU : Type) where
  observe : Obj → Cfg → Obs → Reading
  copy : Obj → CU → Obj
  set : Obj → SU → Obj
  config : Cfg → GU → Cfg

/-- one step of a history; objects are named by their position in the list of objects created
so far (the response returned by the response function is object 0). -/
inductive HStep (Obs CU SU GU : Type) where
  | read (j : Nat) (o : Obs)       -- read a property / unpack / index object `j`
  | copy (j : Nat) (kw : CU)       -- `objs.append(objs[j](**kw))`
  | set (j : Nat) (a : SU)         -- `objs[j].attr = value`
  | config (g : GU)                -- `config.defaults[key] = value`
  deriving Repr

def HStep.isRead {Obs CU SU GU : Type} : HStep Obs CU SU GU → Bool
  | .read _ _ => true
  | _ => false

structure HState (Obj : Type) where
  objs : List Obj
  cfg : Cfg

namespace HState

variable {Obj Obs Reading CU SU GU : Type}

/-- one step: the new state and what was read (if the step is a read).  Naming an object that
does not exist is an error. -/
def step (ops : HistOps Obj Obs Reading CU SU GU) (s : HState Obj) :
    HStep Obs CU SU GU → Except Err (HState Obj × Option Reading)
  | .read j o =>
    match s.objs[j]? with
    | some r => .ok (s, some (ops.observe r s.cfg o))
    | none => .error .indexRange
  | .copy j kw =>
    match s.objs[j]? with
    | some r => .ok ({ s with objs := s.objs ++ [ops.copy r kw] }, none)
    | none => .error .indexRange
  | .set j a =>
    match s.objs[j]? with
    | some r => .ok ({ s with objs := s.objs.set j (ops.set r a) }, none)
    | none => .error .indexRange
  | .config g => .ok ({ s with cfg := ops.config s.cfg g }, none)

/-- a whole history: the readings in order, and the final state. -/
def run (ops : HistOps Obj Obs Reading CU SU GU) (s : HState Obj) :
    List (HStep Obs CU SU GU) → Except Err (List Reading × HState Obj)
  | [] => .ok ([], s)
  | st :: rest =>
    match s.step ops st with
    | .error e => .error e
    | .ok (s', rd) =>
      match run ops s' rest with
      | .error e => .error e
      | .ok (rds, sf) => .ok (rd.toList ++ rds, sf)

end HState

/-! ### time responses -/

/-- what can be read from a `TimeResponseData` object. -/
inductive TObs where
  | time | outputs | states | inputs     -- the properties
  | iter                                 -- `tuple(response)` / `t, y = response`
  | len                                  -- `len(response)`
  | get (i : Nat)                        -- `response[i]`
  deriving DecidableEq, Repr

inductive TReading (α : Type) where
  | arr (r : Except Err (Option (NDArr α)))
  | tuple (r : Except Err (List (Option (NDArr α))))
  | nat (n : Nat)

def TRD.observe {α : Type} (r : TRD α) (cfg : Cfg) : TObs → TReading α
  | .time => .arr (.ok (some r.time))
  | .outputs => .arr ((r.outputs cfg).map some)
  | .states => .arr (r.states cfg)
  | .inputs => .arr (r.inputs cfg)
  | .iter => .tuple (r.iter cfg)
  | .len => .nat r.len
  | .get i => .arr (r.getitem cfg i)

/-- keywords of `response(squeeze=…, transpose=…, return_x=…)` (`none`: not given). -/
structure TKw where
  squeeze : Option Sq := none
  transpose : Option Bool := none
  returnX : Option Bool := none
  deriving DecidableEq, Repr

/-- attribute assignments `response.squeeze = s`, `response.transpose = b`,
`response.return_x = b`. -/
inductive TSet where
  | squeeze (s : Sq) | transpose (b : Bool) | returnX (b : Bool)
  deriving DecidableEq, Repr

def TRD.setAttr {α : Type} (r : TRD α) : TSet → TRD α
  | .squeeze s => { r with squeeze := s }
  | .transpose b => { r with transpose := b }
  | .returnX b => { r with returnX := b }

/-- `config.defaults['control.squeeze_time_response'] = s` -/
def Cfg.setSqTime (cfg : Cfg) (s : Sq) : Cfg := { cfg with sqTime := s }

/-- `config.defaults['control.squeeze_frequency_response'] = s` -/
def Cfg.setSqFreq (cfg : Cfg) (s : Sq) : Cfg := { cfg with sqFreq := s }

def trdOps (α : Type) : HistOps (TRD α) TObs (TReading α) TKw TSet Sq where
  observe := TRD.observe
  copy := fun r kw => r.call kw.squeeze kw.transpose kw.returnX
  set := TRD.setAttr
  config := Cfg.setSqTime

abbrev TStep := HStep TObs TKw TSet Sq

/-! ### frequency responses -/

/-- what can be read from a `FrequencyResponseData` object (`complex`, and the stored array
behind `frdata` / the deprecated `fresp`, which no setting touches). -/
inductive FObs where
  | magnitude | phase | complex | iter | frdata
  deriving DecidableEq, Repr

inductive FReading (α : Type) where
  | item (r : Except Err (FItem α))
  | tuple (r : Except Err (List (FItem α)))
  | raw (a : NDArr α)

def RespFRD.observe {α : Type} (F : RespFRD α) (cfg : Cfg) : FObs → FReading α
  | .magnitude => .item (F.magnitude cfg)
  | .phase => .item (F.phase cfg)
  | .complex => .item (F.complex cfg)
  | .iter => .tuple (F.iter cfg)
  | .frdata => .raw F.frdata

/-- keywords of `F(squeeze=…, return_magphase=…)`; `squeeze = .none` is "not given or None". -/
structure FKw where
  squeeze : Sq := .none
  returnMagphase : Option Bool := none
  deriving DecidableEq, Repr

inductive FSet where
  | squeeze (s : Sq) | returnMagphase (b : Bool)
  deriving DecidableEq, Repr

def RespFRD.setAttr {α : Type} (F : RespFRD α) : FSet → RespFRD α
  | .squeeze s => { F with squeeze := s }
  | .returnMagphase b => { F with returnMagphase := b }

def frdOps (α : Type) : HistOps (RespFRD α) FObs (FReading α) FKw FSet Sq where
  observe := RespFRD.observe
  copy := fun F kw => F.callCopy kw.squeeze kw.returnMagphase
  set := RespFRD.setAttr
  config := Cfg.setSqFreq

abbrev FStep := HStep FObs FKw FSet Sq

end CtrlVerif
