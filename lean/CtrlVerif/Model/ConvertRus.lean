/-
The option `remove_useless_states` of `StateSpace.__init__` (control/statesp.py:239-279,
`_remove_useless_states` 350-377) inside the conversion model of C03, and the configuration
history that switches it on for a whole session (`set_defaults('statesp',
remove_useless_states=True)`, `use_legacy_defaults('0.8.x')`, `reset_defaults()`).

* `removeUseless` is `_remove_useless_states`: state `k` is dropped when (row `k` of `A` and row
  `k` of `B` are zero) or (column `k` of `A` and column `k` of `C` are zero); `A, B, C` are
  restricted to the kept states (`numpy.delete` on both axes), `D` and the timebase stay.
* `construct flag` is the "final processing" of the constructor: every `StateSpace(...)` call made
  anywhere in the library runs it with `flag` = the keyword, or the configured default `g` when
  the keyword is absent.  The `…R g` functions below are the functions of `Model/Convert.lean` /
  `Model/SSDyn.lean` with `construct g` inserted at exactly the places where the code calls the
  constructor; with `g = false` (the default) and no keyword they are the old functions
  (`Props/C03Rus.lean`, `…_off`).
-/
import CtrlVerif.Model.Convert

namespace CtrlVerif

open Matrix

namespace SS

variable {K : Type*} [Field K] {σ σ' ι o : Type*}

/-- the system restricted to the states `e k'` (`numpy.delete` of the other rows/columns of
`A`, rows of `B`, columns of `C`). -/
def restrict (G : SS σ ι o K) (e : σ' → σ) : SS σ' ι o K :=
  ⟨G.A.submatrix e e, G.B.submatrix e id, G.C.submatrix id e, G.D⟩

/-- nothing drives state `k`: row `k` of `A` and row `k` of `B` are zero. -/
def RowUseless (G : SS σ ι o K) (k : σ) : Prop := (∀ j, G.A k j = 0) ∧ (∀ j, G.B k j = 0)

/-- state `k` drives nothing: column `k` of `A` and column `k` of `C` are zero. -/
def ColUseless (G : SS σ ι o K) (k : σ) : Prop := (∀ i, G.A i k = 0) ∧ (∀ i, G.C i k = 0)

end SS

namespace Convert

variable {K : Type} [Field K] [DecidableEq K]

/-! ### `_remove_useless_states` -/

/-- `k ∈ intersect1d(where(~A.any(axis=1)), where(~B.any(axis=1)))`: nothing drives state `k`. -/
def uselessRow (G : DSS K) (k : Fin G.n) : Bool :=
  (List.finRange G.n).all (fun j => G.sys.A k j == 0) &&
    (List.finRange G.m).all (fun j => G.sys.B k j == 0)

/-- `k ∈ intersect1d(where(~A.any(axis=0)), where(~C.any(axis=0)))`: state `k` drives nothing. -/
def uselessCol (G : DSS K) (k : Fin G.n) : Bool :=
  (List.finRange G.n).all (fun i => G.sys.A i k == 0) &&
    (List.finRange G.p).all (fun i => G.sys.C i k == 0)

/-- `useless = union1d(useless_1, useless_2)`. -/
def useless (G : DSS K) (k : Fin G.n) : Bool := uselessRow G k || uselessCol G k

/-- the states that stay, in increasing order. -/
def keptStates (G : DSS K) : List (Fin G.n) := (List.finRange G.n).filter fun k => !useless G k

/-- `StateSpace._remove_useless_states`. -/
def removeUseless (G : DSS K) : DSS K :=
  let ks := keptStates G
  ⟨ks.length, G.p, G.m, G.sys.restrict ks.get, G.dt⟩

/-- the end of `StateSpace.__init__`: `if remove_useless_states: self._remove_useless_states()`. -/
def construct (flag : Bool) (G : DSS K) : DSS K := if flag then removeUseless G else G

/-! ### the configuration history -/

/-- the events that change `config.defaults['statesp.remove_useless_states']`. -/
inductive CfgEv where
  | setRus (v : Bool)     -- `set_defaults('statesp', remove_useless_states=v)`
  | legacy                -- `use_legacy_defaults('0.8.x')` (sets it to `True`)
  | reset                 -- `reset_defaults()` (back to `False`)
  deriving DecidableEq, Repr

/-- the configured default after an event. -/
def CfgEv.apply : CfgEv → Bool → Bool
  | .setRus v, _ => v
  | .legacy, _ => true
  | .reset, _ => false

/-! ### conversions with the constructor's final processing -/

/-- `_convert_to_statespace(tf)`: its `StateSpace(A, B, C, D, dt)` call has no keyword, so the
configured default `g` applies. -/
def toSSR (g : Bool) (G : DTF K) : Except Err (DSS K) := do
  let S ← toSS G
  pure (construct g S)

/-- the conversion functions of the public API, with the documented keyword
`remove_useless_states` (`none` = not given) where the function forwards it to the constructor,
and the data round trips split by the spelling that matters once the option is on. -/
inductive StepR where
  | tf (kw : Kw)                        -- `ct.tf(sys, **kw)` / `sys.to_tf(**kw)`
  | ss2tf (kw : Kw)                     -- `ct.ss2tf(sys, **kw)`
  | ss (kw : Kw) (rus : Option Bool)    -- `ct.ss(sys, **kw)` / `to_ss` / `ct.tf2ss(sys, **kw)`
  | tfdata                              -- `ct.tf(*ct.tfdata(sys), sys.dt)`
  | ss2tf4                              -- `ct.ss2tf(A, B, C, D, dt)` (`tfdata` for a tf)
  | ssdata                              -- `ct.ss(*ct.ssdata(sys), sys.dt)` / `ct.tf2ss(num, den, dt)`

/-- the step of `Model/Convert.lean` a step with options extends. -/
def StepR.base : StepR → Step
  | .tf kw => .tf kw
  | .ss2tf kw => .ss2tf kw
  | .ss kw _ => .ss kw
  | .tfdata => .tfdata
  | .ss2tf4 => .tfdata
  | .ssdata => .ssdata

/-- the representation after a step when the configured default is `g`.
`ss(tf)`: `StateSpace(_convert_to_statespace(sys), **kwargs)` — two constructor calls, the first
with the default, the second with the keyword; `ss(ss)`: the copy constructor with the keyword;
`ssdata` of a tf: `_convert_to_statespace` and then `ss(A, B, C, D, dt)`; `tf2ss(num, den, dt)`
the same two calls; `ss2tf(A, B, C, D, dt)`: `StateSpace(*args)` and then the conversion. -/
def stepRepR (g : Bool) : StepR → Rep K → Except Err (Rep K)
  | .tf _, .ss G => do let T ← toTF G; pure (.tf T)
  | .tf _, .tf G => pure (.tf G)
  | .ss2tf _, .ss G => do let T ← toTF G; pure (.tf T)
  | .ss2tf _, .tf _ => .error .badArg
  | .ss _ rus, .tf G => do let S ← toSSR g G; pure (.ss (construct (rus.getD g) S))
  | .ss _ rus, .ss G => pure (.ss (construct (rus.getD g) G))
  | .tfdata, .ss G => do let T ← toTF G; pure (.tf T)
  | .tfdata, .tf G => pure (.tf G)
  | .ss2tf4, .ss G => do let T ← toTF (construct g G); pure (.tf T)
  | .ss2tf4, .tf G => pure (.tf G)
  | .ssdata, .tf G => do let S ← toSSR g G; pure (.ss (construct g S))
  | .ssdata, .ss G => pure (.ss (construct g G))

def applyStepR (g : Bool) (st : StepR) (x : Obj K) : Except Err (Obj K) := do
  let r ← stepRepR g st x.rep
  pure ⟨r, stepMeta st.base x.rep x.names⟩

/-- the state-space system whose certificate a step uses (a failure is `model-error cert`;
unreachable over `ℚ` by `C03.certOK_true`). -/
def stepCertOKR (g : Bool) : StepR → Rep K → Bool
  | .tf _, .ss G => certOK G
  | .ss2tf _, .ss G => certOK G
  | .tfdata, .ss G => certOK G
  | .ss2tf4, .ss G => certOK (construct g G)
  | _, _ => true

/-- an item of a session: a configuration event or a conversion. -/
inductive Item where
  | cfg (e : CfgEv)
  | step (st : StepR)

/-- a session: conversions interleaved with configuration events, started with the configured
default `g`.  Returns the final object and the final default. -/
def runSession : List Item → Bool → Obj K → Except Err (Obj K × Bool)
  | [], g, x => pure (x, g)
  | .cfg e :: rest, g, x => runSession rest (e.apply g) x
  | .step st :: rest, g, x => do
    let y ← applyStepR g st x
    runSession rest g y

/-! ### state-space operators with the constructor's final processing -/

/-- `bdalg.append(*([x] * k))`: `k - 1` calls of `StateSpace.append`, each ending in the
constructor (a single system is deep-copied, no constructor call). -/
def appendNR (g : Bool) (x : DSS K) : Nat → Except Err (DSS K)
  | 0 => .error .badArg
  | 1 => pure x
  | k + 1 => do
    let a ← appendNR g x k
    let r ← a.append x
    pure (construct g r)

/-- `M * self` for an array (`StateSpace.__rmul__`): broadcast, `StateSpace(A, B, M C, M D, dt)`. -/
def rmulArrayR (g : Bool) (G : DSS K) (q r : Nat) (M : Matrix (Fin q) (Fin r) K) :
    Except Err (DSS K) := do
  let G' ← if G.isSiso then appendNR g G r else pure G
  if h : G'.p = r then
    pure (construct g ⟨G'.n, q, G'.m, SS.constMul M (G'.sys.castIO h rfl), G'.dt⟩)
  else .error .shape

def onesTimesR (g : Bool) (q r : Nat) (x : DSS K) : Except Err (DSS K) :=
  rmulArrayR g x q r (fun _ _ => 1)

/-- `StateSpace.__add__` for two systems. -/
def addSSR (g : Bool) (G H : DSS K) : Except Err (DSS K) := do
  let G' ← if G.isSiso && !H.isSiso then onesTimesR g H.p H.m G else pure G
  let H' ← if !G.isSiso && H.isSiso then onesTimesR g G.p G.m H else pure H
  if h : G'.m = H'.m ∧ G'.p = H'.p then
    let dt ← common G'.dt H'.dt
    pure (construct g
      ⟨G'.n + H'.n, G'.p, G'.m, (SS.add G'.sys (H'.sys.castIO h.2.symm h.1.symm)).flatS, dt⟩)
  else .error .shape

/-- `StateSpace.__mul__` for two systems. -/
def mulSSR (g : Bool) (G H : DSS K) : Except Err (DSS K) := do
  let G' ← if G.isSiso && !H.isSiso then appendNR g G H.p else pure G
  let H' ← if !G.isSiso && H.isSiso then appendNR g H G.m else pure H
  if h : G'.m = H'.p then
    let dt ← common G'.dt H'.dt
    pure (construct g
      ⟨H'.n + G'.n, G'.p, H'.m, (SS.mul G'.sys (H'.sys.castIO h.symm rfl)).flatS, dt⟩)
  else .error .shape

/-- `StateSpace.__neg__`: `StateSpace(A, B, -C, -D, dt)`. -/
def negR (g : Bool) (G : DSS K) : DSS K := construct g G.neg

/-- `left op right` under the configured default `g` (`Convert.mixedRep` with the constructor's
final processing at every `StateSpace(...)` call on the way). -/
def mixedRepR (g : Bool) : MOp → Rep K → Rep K → Except Err (Rep K)
  | .add, .ss G, .ss H => do let r ← addSSR g G H; pure (.ss r)
  | .add, .ss G, .tf H => do let H' ← toSSR g H; let r ← addSSR g G H'; pure (.ss r)
  | .add, .tf G, .tf H => do let r ← G.addCore H; pure (.tf r)
  | .add, .tf G, .ss H => do let H' ← toTF H; let r ← G.addCore H'; pure (.tf r)
  | .sub, .ss G, .ss H => do let r ← addSSR g G (negR g H); pure (.ss r)
  | .sub, .ss G, .tf H => do let N ← H.neg; let H' ← toSSR g N; let r ← addSSR g G H'; pure (.ss r)
  | .sub, .tf G, .tf H => do let N ← H.neg; let r ← G.addCore N; pure (.tf r)
  | .sub, .tf G, .ss H => do let H' ← toTF (negR g H); let r ← G.addCore H'; pure (.tf r)
  | .mul, .ss G, .ss H => do let r ← mulSSR g G H; pure (.ss r)
  | .mul, .ss G, .tf H => do let H' ← toSSR g H; let r ← mulSSR g G H'; pure (.ss r)
  | .mul, .tf G, .tf H => do let r ← G.mulCore H; pure (.tf r)
  | .mul, .tf G, .ss H => do let H' ← toTF H; let r ← G.mulCore H'; pure (.tf r)

def mixedR (g : Bool) (op : MOp) (x y : Obj K) : Except Err (Obj K) := do
  let r ← mixedRepR g op x.rep y.rep
  pure ⟨r, Meta.default r.p r.m⟩

def mixedCertOKR (g : Bool) (op : MOp) (x y : Obj K) : Bool :=
  match op, x.rep, y.rep with
  | .sub, .tf _, .ss H => certOK (negR g H)
  | _, .tf _, .ss H => certOK H
  | _, _, _ => true

end Convert

end CtrlVerif
