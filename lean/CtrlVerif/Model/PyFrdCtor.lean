/-
Meaning of the Python-level primitives that `harness/core/py2lean_frdctor.py` emits when it translates
`FrequencyResponseData.__init__` and the factory `frd` (control/frdata.py) into
`Generated/FrdCtor.lean`.  Hand-written and TRUSTED together with the translator (and `Model/PyFRD.lean`,
whose arrays `FVec PKVec PArr3` and LTI primitives `PyLTI.isctime PyLTI.call FVec.sort FVec.jw FVec.expj`
are re-used unchanged).  notes/NOTES-py2lean-frdctor.md.

* positional arguments are dynamically typed values `PyArg K`: a StateSpace / TransferFunction with
  its names (`LTI K` of the model + `Convert.Meta`), an FRD object, a response array (always in its
  3-D form, like `PyLTI.call`), an array_like of reals, a timebase value.  An attribute that a value of
  that kind does not have is an error `badArg` (AttributeError / TypeError).
* `kwargs` is a `PyKw`: only the keys `name inputs outputs dt smooth` are tracked (the caller passes no
  other keyword; `pop` of any other key yields its default).
* `_extended_system_name(name, prefix_suffix_name='sampled')` under the default configuration
  (prefix `''`, suffix `'$sampled'`) is `name ++ "$sampled"`; `_generic_name_check()` is
  `Convert.Meta.isGeneric` (the generic name is the token `sys[*]`).
* the OPAQUE tail `_process_iosys_keywords(kwargs, defaults)` + `InputOutputSystem.__init__(...)`
  is `PyIOSys.initFrd`: explicit keywords win over `defaults`; a default that is a count gives
  `u[i]` / `y[i]`; a missing name is a fresh generic name; a missing `dt` keyword is
  `config.defaults['control.default_dt'] = 0`; `smooth=True` needs two frequencies.
* `common_timebase` is `CtrlVerif.common` (own tie: C05Gen).
-/
import CtrlVerif.Model.PyFRD
import CtrlVerif.Model.Convert

namespace CtrlVerif

/-- a `FrequencyResponseData` object with its names and timebase. -/
structure PyFrdObj (K : Type) where
  omega : FVec
  frdata : PArr3 K
  names : Convert.Meta
  dt : Dt
  smooth : Bool

/-- a positional argument. -/
inductive PyArg (K : Type) where
  | sys (L : LTI K) (names : Convert.Meta)
  | frd (F : PyFrdObj K)
  | data (A : PArr3 K)
  | vec (w : FVec)
  | dt (d : Dt)

/-- the tracked part of `**kwargs`. -/
structure PyKw where
  name : Option String := none
  inputs : Option (List String) := none
  outputs : Option (List String) := none
  dt : Option Dt := none
  smooth : Option Bool := none

/-- `inputs` / `outputs` entry of `defaults`: a count or a list of labels. -/
inductive PySig where
  | count (n : Nat)
  | labels (l : List String)

/-- the dictionary `defaults`. -/
structure PyIODefaults where
  inputs : PySig
  outputs : PySig
  name : Option String

namespace PyKw
def get_name (kw : PyKw) (d : String) : String := kw.name.getD d
def get_inputs (kw : PyKw) (d : List String) : List String := kw.inputs.getD d
def get_outputs (kw : PyKw) (d : List String) : List String := kw.outputs.getD d
def set_name (kw : PyKw) (v : String) : PyKw := { kw with name := some v }
def set_inputs (kw : PyKw) (v : List String) : PyKw := { kw with inputs := some v }
def set_outputs (kw : PyKw) (v : List String) : PyKw := { kw with outputs := some v }
def set_dt (kw : PyKw) (v : Dt) : PyKw := { kw with dt := some v }
def has_dt (kw : PyKw) : Bool := kw.dt.isSome
/-- `kwargs.pop('smooth', d)`: the value … -/
def pop_smooth_val (kw : PyKw) (d : Bool) : Bool := kw.smooth.getD d
/-- … and the dictionary afterwards. -/
def pop_smooth_rest (kw : PyKw) : PyKw := { kw with smooth := none }
end PyKw

namespace PyArgs
variable {K : Type}
/-- `args[i]` for `i ≥ 0` -/
def get (args : List (PyArg K)) (i : Nat) : Except Err (PyArg K) :=
  match args[i]? with
  | some a => .ok a
  | none => .error .indexRange
/-- `args[-1]` -/
def last (args : List (PyArg K)) : Except Err (PyArg K) :=
  match args.getLast? with
  | some a => .ok a
  | none => .error .indexRange
/-- `args[:-1]` -/
def dropLast (args : List (PyArg K)) : List (PyArg K) := args.dropLast
end PyArgs

namespace PyArg
variable {K : Type} [Field K] [DecidableEq K]

/-- `isinstance(x, FRD)` -/
def isFRD : PyArg K → Bool
  | .frd _ => true
  | _ => false
/-- `isinstance(x, LTI)` (FRD is a subclass of LTI) -/
def isLTI : PyArg K → Bool
  | .sys _ _ => true
  | .frd _ => true
  | _ => false
/-- a value used as a timebase (`kwargs['dt'] = x`) -/
def asDt : PyArg K → Except Err Dt
  | .dt d => .ok d
  | _ => .error .badArg
/-- `np.asarray(x, dtype=float)` / `array(x, dtype=float, ndmin=1)` -/
def asVec : PyArg K → Except Err FVec
  | .vec w => .ok w
  | _ => .error .badArg
/-- `array(x, dtype=complex, ndmin=1)` followed by the 1-D → `(1, 1, -1)` reshape: the 3-D form;
anything that is not a 1-D or 3-D array is the constructor's `TypeError`. -/
def asData : PyArg K → Except Err (PArr3 K)
  | .data A => .ok A
  | _ => .error .notImplemented
/-- `x.dt` -/
def dt_attr : PyArg K → Except Err Dt
  | .sys L _ => .ok L.dt
  | .frd F => .ok F.dt
  | _ => .error .badArg
/-- `x.input_labels` -/
def input_labels : PyArg K → Except Err (List String)
  | .sys _ μ => .ok μ.inputs
  | .frd F => .ok F.names.inputs
  | _ => .error .badArg
/-- `x.output_labels` -/
def output_labels : PyArg K → Except Err (List String)
  | .sys _ μ => .ok μ.outputs
  | .frd F => .ok F.names.outputs
  | _ => .error .badArg
/-- `x.name` -/
def name : PyArg K → Except Err String
  | .sys _ μ => .ok μ.name
  | .frd F => .ok F.names.name
  | _ => .error .badArg
/-- `x._generic_name_check()` -/
def generic_name_check : PyArg K → Except Err Bool
  | .sys _ μ => .ok μ.isGeneric
  | .frd F => .ok F.names.isGeneric
  | _ => .error .badArg
/-- `x.isctime()` -/
def isctime : PyArg K → Except Err Bool
  | .sys L _ => .ok (PyLTI.isctime L)
  | .frd F => .ok (match F.dt with | .cont | .none => true | _ => false)
  | _ => .error .badArg
/-- `x.omega` -/
def omega : PyArg K → Except Err FVec
  | .frd F => .ok F.omega
  | _ => .error .badArg
/-- `x.frdata` -/
def frdata : PyArg K → Except Err (PArr3 K)
  | .frd F => .ok F.frdata
  | _ => .error .badArg
/-- `x(s, squeeze=False)` for a 1-D array of points: a StateSpace / TransferFunction is evaluated
(`PyLTI.call`); calling an FRD object off its grid is outside this tie. -/
def call : PyArg K → PKVec K → Except Err (PArr3 K)
  | .sys L _, x => PyLTI.call L x
  | _, _ => .error .badArg
/-- `x.dt` where `x.dt` multiplies `1j * omega` inside `np.exp` -/
def expj (E : Env K) (w : FVec) : PyArg K → Except Err (PKVec K)
  | .sys L _ => FVec.expj E w L.dt
  | .frd F => FVec.expj E w F.dt
  | _ => .error .badArg
end PyArg

namespace PyName
/-- `_extended_system_name(name, prefix_suffix_name=tag)` under the default configuration. -/
def extended (name tag : String) : String := name ++ "$" ++ tag
end PyName

namespace PySig
def resolve (pre : String) : PySig → List String
  | .count n => Convert.defaultLabels pre n
  | .labels l => l
end PySig

namespace PyIOSys
variable {K : Type}
/-- the opaque tail of the constructor: `_process_iosys_keywords(kwargs, defaults)` followed by
`InputOutputSystem.__init__(self, name=, inputs=, outputs=, dt=)` and the `smooth` check. -/
def initFrd (omega : FVec) (frdata : PArr3 K) (kw : PyKw) (d : PyIODefaults) (smooth : Bool) :
    Except Err (PyFrdObj K) :=
  if smooth = true ∧ omega.n < 2 then .error .shape
  else .ok ⟨omega, frdata,
    ⟨(kw.name.orElse fun _ => d.name).getD Convert.genericName,
     kw.inputs.getD (d.inputs.resolve "u"), kw.outputs.getD (d.outputs.resolve "y")⟩,
    kw.dt.getD .cont, smooth⟩
end PyIOSys

end CtrlVerif
