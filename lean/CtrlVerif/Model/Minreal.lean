/-
Model of `TransferFunction.minreal` (control/xferfcn.py): per entry, split numerator and
denominator into roots and gain, cancel every zero against the first pole that is within the
tolerance, rebuild the coefficient arrays with `poly`.

`numpy.roots` is external: the root lists are arguments (contract: the polynomial is its leading
coefficient times the product of `X - r` over the list).  The tolerance test
`abs(z - p) < tol or 1000 * max(eps, abs(z) * sqrt(eps))` is a predicate argument `close`; its two
concrete instances (rational roots, Gaussian-rational roots) are `Minreal.closeQ` and
`Minreal.closeQI` below: the tolerance of a zero depends on that zero only.
-/
import CtrlVerif.Model.TF
import CtrlVerif.Model.QI

namespace CtrlVerif

variable {K : Type*}

section
variable [Field K] [DecidableEq K]

/-- `numpy.poly(roots)`: coefficients of `∏ (X - r)`, highest power first. -/
def polyFromRoots (rs : List K) : List K :=
  rs.foldl (fun acc r => polymul acc [1, -r]) [1]

/-- `idx = where(pred)[0]; if len(idx): poles = delete(poles, idx[0])`: remove the first element
satisfying `p`, or `none` if there is none. -/
def removeFirst (p : K → Bool) : List K → Option (List K)
  | [] => none
  | x :: xs => if p x then some xs else (removeFirst p xs).map (x :: ·)

/-- the cancellation loop: returns the kept zeros and the remaining poles. -/
def cancelRoots (close : K → K → Bool) : List K → List K → List K × List K
  | [], ps => ([], ps)
  | z :: zs, ps =>
    match removeFirst (close z) ps with
    | some ps' => cancelRoots close zs ps'
    | none => let r := cancelRoots close zs ps; (z :: r.1, r.2)

/-- one entry of `minreal`: `gain = num[0] / den[0]`, `num = gain * poly(newzeros)`,
`den = poly(poles)`, then the constructor's normalisation. -/
def minrealEntry (close : K → K → Bool) (f : Frac K) (zeros poles : List K) :
    Except Err (Frac K) :=
  match f.num, f.den with
  | n0 :: _, d0 :: _ =>
    if d0 = 0 then .error .zeroDen
    else
      let r := cancelRoots close zeros poles
      pure (Frac.norm ⟨scale (n0 / d0) (polyFromRoots r.1), polyFromRoots r.2⟩)
  | _, _ => .error .badArg

/-- the decidable form of "the tolerance test identifies only equal roots among these zeros and
poles" (the hypothesis of `C15.minreal_sem_on`; certified by the driver on every call). -/
def rootsSeparated (close : K → K → Bool) (zs ps : List K) : Bool :=
  zs.all fun z => ps.all fun p => !close z p || decide (z = p)

end

namespace Minreal

/-- `float_info.epsilon`. -/
def eps : ℚ := 1 / 2 ^ 52

/-- `sqrt(float_info.epsilon)` (exactly `2⁻²⁶`). -/
def sqrtEps : ℚ := 1 / 2 ^ 26

/-- `tol or 1000 * max(eps, abs(z) * sqrt_eps)`: the tolerance used for the zero `z` — a function
of the explicit argument and of `z` alone (`tol = 0` is falsy in Python). -/
def tolOf (tol : Option ℚ) (z : ℚ) : ℚ :=
  match tol with
  | some t => if t = 0 then 1000 * max eps (|z| * sqrtEps) else t
  | none => 1000 * max eps (|z| * sqrtEps)

/-- `abs(z - p) < t`. -/
def closeQ (tol : Option ℚ) (z p : ℚ) : Bool := decide (|z - p| < tolOf tol z)

/-- `|w|²` of a Gaussian rational. -/
def normSqQI (w : QI) : ℚ := w.re * w.re + w.im * w.im

/-- the square of the tolerance used for the complex zero `z`:
`t² = tol²` or `10⁶ · max(eps², |z|² · eps)`. -/
def tolSqOf (tol : Option ℚ) (z : QI) : ℚ :=
  match tol with
  | some t => if t = 0 then 1000000 * max (eps * eps) (normSqQI z * eps) else t * t
  | none => 1000000 * max (eps * eps) (normSqQI z * eps)

/-- the same test for Gaussian-rational roots, on squares: `|z - p|² < t²` — for a tolerance
`t ≥ 0`; against a negative explicit tolerance `abs(z - p) < t` never holds (the comparison on
squares alone would accept it: found when the tie `C15GenMinreal.generated_close_eq_closeQI` was
proved; the real code cancels nothing for `tol < 0`). -/
def closeQI (tol : Option ℚ) (z p : QI) : Bool :=
  match tol with
  | some t => if t < 0 then false else decide (normSqQI (z - p) < tolSqOf tol z)
  | none => decide (normSqQI (z - p) < tolSqOf tol z)

end Minreal

end CtrlVerif
