/-
Model of `TransferFunction.minreal` (control/xferfcn.py): per entry, split numerator and
denominator into roots and gain, cancel every zero against the first pole that is within the
tolerance, rebuild the coefficient arrays with `poly`.

`numpy.roots` is external: the root lists are arguments (contract: the polynomial is its leading
coefficient times the product of `X - r` over the list).  The tolerance test
`abs(z - p) < tol or 1000 * max(eps, abs(z) * sqrt(eps))` is a predicate argument `close`.
-/
import CtrlVerif.Model.TF

namespace CtrlVerif

variable {K : Type*}

section
variable [Field K] [DecidableEq K]

/-- `numpy.poly(roots)`: coefficients of `∏ (X - r)`, highest power first. -/
def polyFromRoots (rs : List K) : List K :=
  rs.foldl (fun acc r => polymul acc [1, -r]) [1]

/-- `idx = where(pred)[0]; if len(idx): poles = delete(poles, idx[0])`: remove the first element
satisfying `p`, or `none` if there is none. -/
def removeFirst (p : K → Bool) : List K → Option (List K)
  | [] => none
  | x :: xs => if p x then some xs else (removeFirst p xs).map (x :: ·)

/-- the cancellation loop: returns the kept zeros and the remaining poles. -/
def cancelRoots (close : K → K → Bool) : List K → List K → List K × List K
  | [], ps => ([], ps)
  | z :: zs, ps =>
    match removeFirst (close z) ps with
    | some ps' => cancelRoots close zs ps'
    | none => let r := cancelRoots close zs ps; (z :: r.1, r.2)

/-- one entry of `minreal`: `gain = num[0] / den[0]`, `num = gain * poly(newzeros)`,
`den = poly(poles)`, then the constructor's normalisation. -/
def minrealEntry (close : K → K → Bool) (f : Frac K) (zeros poles : List K) :
    Except Err (Frac K) :=
  match f.num, f.den with
  | n0 :: _, d0 :: _ =>
    if d0 = 0 then .error .zeroDen
    else
      let r := cancelRoots close zeros poles
      pure (Frac.norm ⟨scale (n0 / d0) (polyFromRoots r.1), polyFromRoots r.2⟩)
  | _, _ => .error .badArg

end

end CtrlVerif
