/-
Meaning of the Python / NumPy primitives that `harness/core/py2lean_ic.py` emits when it translates
`_parse_spec` (control/iosys.py), `InterconnectedSystem.__init__` / `_parse_input_spec` /
`_parse_output_spec` / `set_connect_map` / `_compute_static_io` / `_rhs` / `_out` and the operator
forms `NonlinearIOSystem.__add__ … feedback` (control/nlsys.py) into Lean (`Generated/IC*.lean`).
Hand-written; together with the translator this file is the trusted base of the source-text tie of
property C07 (notes/NOTES-py2lean-ic.md, DESIGN §10.3).

* `Val K` — a dynamically typed Python value as far as signal specifications need them: `None`, an
  `int`, a number that is not an `int` (float / NumPy scalar: an element of the exact field `K`), a
  `str`, a `list`, a `tuple`, an object of any other class.  `bool` is not modelled (the harness never
  passes one).
* STRINGS ARE TOKENISED BY THE HARNESS (the convention of `Model/Interconnect.lean`, kept): a Python
  string is a `Str`: the text itself (`raw`), the groups of the three regular expressions of
  `_find_signals` on the text without one leading '-' (`tok : NameTok`), and — when the text
  contains a '.' — the pieces `re.split(r'\.', text)` returns, each with its own groups (`parts`).
  The harness computes these fields with the regular expressions of control/iosys.py (verbatim
  copies in `families/c07.py`); what the code does with the text after that — `s[0] == '-'`,
  `s[1:]`, dictionary look-ups by name, `len(namelist)` — is computed here from `raw`.
* `tokenize` is the statement, in Lean, of what `families/c07.py: spec_toks` sends to the model for a
  Python value (`none` = the harness cannot tokenise it and never sends it).
* exceptions are the shared `Err` enum.  `raise ValueError(msg)` is classified by the translator
  from the literal message with the rule of `families/c07.py: classify_exc` ("out of range" ↦
  `indexRange`, "couldn't find" ↦ `unknownName`, "inconsistent number" ↦ `shape`, otherwise
  `badArg`; additionally "incompatible" ↦ `shape`, the kind the model uses for the size checks of
  the operator forms; `RuntimeError("algebraic loop …")` ↦ `illPosed`).  TypeError / AttributeError
  ↦ `badArg`, IndexError of a Python sequence ↦ `indexRange`, IndexError of a NumPy array ↦ `shape`
  (the model's choice for an entry outside a map).
* `except ValueError` catches the kinds `isValueError` names (every kind a `raise ValueError` of
  `_parse_spec` is mapped to); `Err` does not separate a TypeError from a ValueError that are both
  `badArg`, so a TypeError inside the `try` of `_parse_output_spec` would be caught here and not in
  Python — it cannot occur on tokenisable specs.
* NumPy arrays are `PMat K` (`Model/PyMat.lean`, re-used) for the three maps and `List K` for 1-D
  arrays; floats are exact field elements.
-/
import CtrlVerif.Model.Interconnect
import CtrlVerif.Model.PyMat
import Mathlib.Algebra.BigOperators.Fin

namespace CtrlVerif.PyIC

open IC

/-! ### strings and values -/

/-- a Python string as the harness hands it over (see the header). -/
structure Str where
  raw : String
  tok : NameTok
  parts : List (String × NameTok) := []
  deriving Repr, Inhabited

/-- a one-character string (the result of `s[0]`). -/
def Str.ofChar (c : Char) : Str := ⟨String.singleton c, .exact (String.singleton c), []⟩

/-- `s[0] == '-'` for a non-empty string. -/
def Str.neg (s : Str) : Bool :=
  match s.raw.toList with
  | c :: _ => String.singleton c == "-"
  | [] => false

/-- `s[1:]`; the groups are those of the text without its leading '-'. -/
def Str.tail (s : Str) : Str := ⟨String.ofList (s.raw.toList.drop 1), s.tok, []⟩

/-- the text without one leading '-'. -/
def Str.unsigned (s : Str) : String := if s.neg then s.tail.raw else s.raw

inductive Val (K : Type) where
  | none
  | int (i : Int)
  | num (x : K)
  | str (s : Str)
  | list (l : List (Val K))
  | tuple (l : List (Val K))
  | other
  deriving Inhabited

/-- the classes an `isinstance` test may name. -/
inductive Cls where
  | int | str | list | tuple
  deriving DecidableEq, Repr

variable {K : Type}

def isinstance1 : Val K → Cls → Bool
  | .int _, .int => true
  | .str _, .str => true
  | .list _, .list => true
  | .tuple _, .tuple => true
  | _, _ => false

/-- `isinstance(v, (C1, C2, …))` -/
def isinstance (v : Val K) (cs : List Cls) : Bool := cs.any (isinstance1 v)

/-- `v is None` -/
def isNone : Val K → Bool
  | .none => true
  | _ => false

/-- the integer behind an `int`; TypeError otherwise (comparison / arithmetic with a non-number). -/
def toInt : Val K → Except Err Int
  | .int i => .ok i
  | _ => .error .badArg

/-- `seq[i]` for a Python sequence: negative indices count from the end, IndexError outside. -/
def seqGet {α : Type} (xs : List α) (i : Int) : Except Err α :=
  let k : Int := if i < 0 then i + xs.length else i
  if 0 ≤ k then
    match xs[k.toNat]? with
    | some x => .ok x
    | Option.none => .error .indexRange
  else .error .indexRange

/-- `len(v)` -/
def len : Val K → Except Err Int
  | .list l => .ok l.length
  | .tuple l => .ok l.length
  | .str s => .ok s.raw.toList.length
  | _ => .error .badArg

/-- `v[i]` for an integer `i`. -/
def getItem : Val K → Int → Except Err (Val K)
  | .list l, i => seqGet l i
  | .tuple l, i => seqGet l i
  | .str s, i => (seqGet s.raw.toList i).map fun c => .str (Str.ofChar c)
  | _, _ => .error .badArg

/-- `v[n:]` for a literal `n ≥ 0`. -/
def dropFrom : Val K → Nat → Except Err (Val K)
  | .list l, n => .ok (.list (l.drop n))
  | .tuple l, n => .ok (.tuple (l.drop n))
  | .str s, 1 => .ok (.str s.tail)
  | .str s, 0 => .ok (.str s)
  | .str _, _ => .error .notImplemented
  | _, _ => .error .badArg

/-- `v == "<literal>"` -/
def eqLit : Val K → String → Bool
  | .str s, t => s.raw == t
  | _, _ => false

/-- the elements `for x in v` visits. -/
def iter : Val K → Except Err (List (Val K))
  | .list l => .ok l
  | .tuple l => .ok l
  | _ => .error .badArg

/-- `all([isinstance(x, C) for x in v])` -/
def allIsinstance (v : Val K) (cs : List Cls) : Except Err Bool :=
  (iter v).map fun l => l.all fun x => isinstance x cs

/-- a list of Lean integers as a Python list. -/
def ofInts (l : List Int) : Val K := .list (l.map .int)

/-- `list(range(n))` as a Python list. -/
def listRange (n : Int) : Val K := ofInts ((List.range n.toNat).map Int.ofNat)

/-- a Python list whose elements must be `int`s (they are compared / added as integers). -/
def toInts (v : Val K) : Except Err (List Int) := (iter v).bind fun l => l.mapM toInt

/-- `re.split(r'\.', v)`: the pieces of a string. -/
def reSplitDot : Val K → Except Err (Val K)
  | .str s =>
    .ok (.list (if s.parts.isEmpty then [.str s] else s.parts.map fun p => .str ⟨p.1, p.2, []⟩))
  | _ => .error .badArg

/-- the number behind a gain: an `int` or another number; TypeError otherwise (in Python the
error surfaces where the gain is used: `gain != 1`, `map[i, j] += gain`). -/
def toNum [Field K] : Val K → Except Err K
  | .int i => .ok (i : K)
  | .num x => .ok x
  | _ => .error .badArg

/-! ### dictionaries `{name: index}` and attribute access -/

/-- a dictionary built by insertions in order (a later insertion of the same key wins). -/
abbrev Dict := List (String × Int)

/-- `d.get(key, None)`: a string is looked up by its text, another hashable key is absent, a list is
unhashable. -/
def dictGet (d : Dict) : Val K → Except Err (Val K)
  | .str s =>
    match (d.filter fun p => p.1 == s.raw).getLast? with
    | some p => .ok (.int p.2)
    | Option.none => .ok .none
  | .list _ => .error .badArg
  | _ => .ok .none

/-- `enumerate(xs)` -/
def enumerate {α : Type} (xs : List α) : List (Int × α) := xs.zipIdx.map fun p => ((p.2 : Int), p.1)

/-- `getattr(sys, name)` for the two signal dictionaries (as label lists; position = value). -/
def getattrIndex (S : SysSig) (name : String) : Except Err (List Label) :=
  if name == "input_index" then .ok S.inputs
  else if name == "output_index" then .ok S.outputs
  else .error .badArg

/-- a keyword argument that must not be `None` where it is used as a string. -/
def optStr : Option String → Except Err String
  | some s => .ok s
  | Option.none => .error .badArg

/-- the names a signal part stands for in `_find_signals`: a string or a list / tuple of strings. -/
def nameList : Val K → Except Err (List Str)
  | .str s => .ok [s]
  | .list l => l.mapM fun x => match x with | .str s => .ok s | _ => .error .badArg
  | .tuple l => l.mapM fun x => match x with | .str s => .ok s | _ => .error .badArg
  | _ => .error .badArg

/-- the result of `_find_signals` on tokenised names: `None` or the list of indices. -/
def findVal (labels : List Label) (toks : List NameTok) : Val K :=
  match IC.findSignals labels toks with
  | some r => ofInts (r.map Int.ofNat)
  | Option.none => .none

/-- `sys._find_signals(spec, sigdict)` (not translated: `IC.findSignals` on the groups the harness
computed). -/
def findSignals (labels : List Label) (v : Val K) : Except Err (Val K) :=
  (nameList v).map fun names => findVal labels (names.map Str.tok)

/-! ### loops, arrays and exceptions of `InterconnectedSystem.__init__` -/

/-- `range(n)` for a size. -/
def rangeNat (n : Nat) : List Int := (List.range n).map Int.ofNat

/-- `range(n)` for a Python int. -/
def range (n : Int) : List Int := rangeNat n.toNat

/-- the elements `for x in (v or [])` visits: `None` and an empty list stand for no elements. -/
def iterOrEmpty : Val K → Except Err (List (Val K))
  | .none => .ok []
  | v => iter v

/-- the number of signals `InputOutputSystem.__init__` creates for the keyword `inputs` /
`outputs` (`_process_signal_list`): `None` ↦ 0, an `int` ↦ that many, a list of names ↦ its
length, a single name ↦ 1. -/
def signalCount : Val K → Except Err Nat
  | .none => .ok 0
  | .int n => if n < 0 then .error .badArg else .ok n.toNat
  | .list l => .ok l.length
  | .str _ => .ok 1
  | _ => .error .badArg

/-- the kinds of `Err` that a `raise ValueError(...)` of `_parse_spec` is mapped to (what
`except ValueError` catches; see the header). -/
def isValueError : Err → Bool
  | .badArg | .indexRange | .unknownName | .shape => true
  | _ => false

/-- `try: body  except <class>: handler` -/
def tryExcept {α : Type} (body : Except Err α) (catches : Err → Bool) (handler : Except Err α) :
    Except Err α :=
  match body with
  | .ok a => .ok a
  | .error e => if catches e then handler else .error e

/-- `M[i, j] += g` on a 2-D array (NumPy: a negative index counts from the end, IndexError
outside). -/
def addAt [Field K] (X : PMat K) (i j : Int) (g : K) : Except Err (PMat K) :=
  let a : Int := if i < 0 then i + X.r else i
  let b : Int := if j < 0 then j + X.c else j
  if 0 ≤ a ∧ a < X.r ∧ 0 ≤ b ∧ b < X.c then
    .ok ⟨X.r, X.c, fun p q => if p.val = a.toNat ∧ q.val = b.toNat then X.M p q + g else X.M p q⟩
  else .error .shape

/-- `np.eye(n, m)` -/
def eyeRect [Field K] (n m : Nat) : PMat K :=
  ⟨n, m, Matrix.of fun i j => if i.val = j.val then 1 else 0⟩

/-! ### 1-D arrays, subsystem callbacks and the `while` loop of `_compute_static_io` -/

/-- a subsystem as `_compute_static_io` / `_rhs` see it: its sizes and its output / update functions
`_out(t, x, u)`, `_rhs(t, x, u)` (parameters: any functions; they return 1-D arrays). -/
structure Subsys (K : Type) where
  nstates : Nat
  ninputs : Nat
  noutputs : Nat
  out : K → List K → List K → List K
  rhs : K → List K → List K → List K

/-- a slice bound of a sequence of length `len` (step 1; a negative bound counts from the end,
everything is clipped). -/
def clipIdx (len : Nat) (i : Int) : Nat :=
  if i < 0 then (i + len).toNat else min i.toNat len

/-- `v[a:b]` on a 1-D array. -/
def sliceVec (v : List K) (a b : Int) : List K :=
  (v.take (clipIdx v.length b)).drop (clipIdx v.length a)

/-- `v[a:b] = w` (the updated array); `w` must have the length of the slice (NumPy would also
broadcast a one-element `w`: not modelled, an error here). -/
def setSliceVec (v : List K) (a b : Int) (w : List K) : Except Err (List K) :=
  let lo := clipIdx v.length a
  let hi := clipIdx v.length b
  if w.length = hi - lo ∧ lo ≤ hi then .ok (v.take lo ++ w ++ v.drop hi) else .error .shape

/-- `np.zeros((n,))` -/
def zerosVec [Field K] (n : Nat) : List K := List.replicate n 0

/-- `M @ v` / `np.dot(M, v)` for a 2-D `M` and a 1-D `v`. -/
def matVec [Field K] (M : PMat K) (v : List K) : Except Err (List K) :=
  if h : v.length = M.c then
    .ok (List.ofFn fun i : Fin M.r => ∑ j : Fin M.c, M.M i j * v[j.val]'(by rw [h]; exact j.isLt))
  else .error .shape

/-- `a + b` for two 1-D arrays of the same length. -/
def addVec [Field K] (a b : List K) : Except Err (List K) :=
  if a.length = b.length then .ok (List.zipWith (· + ·) a b) else .error .shape

/-- `(a == b).all()` for two 1-D arrays. -/
def eqAll [DecidableEq K] (a b : List K) : Bool := decide (a = b)

/-- `while cond: body` where the body may `break` (it returns the new state and "left by break"); the
number of iterations is bounded by `fuel` (exhausted: `notImplemented`). -/
def whileLoop {σ : Type} (cond : σ → Except Err Bool) (body : σ → Except Err (σ × Bool)) :
    Nat → σ → Except Err σ
  | 0, _ => .error .notImplemented
  | fuel + 1, s =>
    (cond s).bind fun c =>
      if c then (body s).bind fun r => if r.2 then .ok r.1 else whileLoop cond body fuel r.1
      else .ok s

/-! ### what the harness sends to the model for a Python value (`families/c07.py: spec_toks`) -/

section tokenize

variable [Field K]

/-- the system part of a spec (`none` = "X": neither an int nor a string). -/
def tokSys : Val K → Option (SysRef × Bool)
  | .int i => some (.idx i, false)
  | .str s => some (.name s.unsigned, s.neg)
  | _ => Option.none

/-- an empty string (`s[0]` raises IndexError; the harness does not tokenise it). -/
def emptyStr : Val K → Bool
  | .str s => s.raw.toList.isEmpty
  | _ => false

def allInts : List (Val K) → Option (List Int)
  | [] => some []
  | .int i :: l => (allInts l).map (i :: ·)
  | _ :: _ => Option.none

def allStrs : List (Val K) → Option (List Str)
  | [] => some []
  | .str s :: l => (allStrs l).map (s :: ·)
  | _ :: _ => Option.none

/-- the signal part of a spec. -/
def tokSig : Val K → Option (SigRef × Bool)
  | .none => some (.all, false)
  | .int i => some (.idx i, false)
  | .str s => some (.names [s.tok], s.neg)
  | .list l =>
    match allInts l with
    | some is => some (.idxs is, false)
    | Option.none => (allStrs l).map fun ss => (.names (ss.map Str.tok), false)
  | .tuple l => (allStrs l).map fun ss => (.names (ss.map Str.tok), false)
  | _ => Option.none

/-- the gain part of a spec. -/
def tokGain : Val K → Option (Option K)
  | .none => some Option.none
  | .int i => some (some (i : K))
  | .num x => some (some x)
  | _ => Option.none

def tokTriple (a b c : Val K) : Option (Spec K) :=
  if emptyStr a || emptyStr b then Option.none
  else
    match tokSys a with
    | Option.none => some .malformed
    | some (sys, sneg) =>
      match tokSig b, tokGain c with
      | some (sig, gneg), some g => some (.mk sys sneg sig gneg g)
      | _, _ => Option.none

/-- `spec_toks`: the tokens of a Python value used as a signal specification. -/
def tokenize : Val K → Option (Spec K)
  | .int i => some (.mk (.idx i) false .all false Option.none)
  | .str s =>
    match s.parts with
    | [] => tokTriple (.str s) .none .none
    | [p] => tokTriple (.str ⟨p.1, p.2, []⟩) .none .none
    | [p, q] => tokTriple (.str ⟨p.1, p.2, []⟩) (.str ⟨q.1, q.2, []⟩) .none
    | _ => some .malformed
  | .tuple [a] => tokTriple a .none .none
  | .tuple [a, b] => tokTriple a b .none
  | .tuple [a, b, c] => tokTriple a b c
  | .tuple [] => Option.none
  | _ => some .malformed

end tokenize

end CtrlVerif.PyIC
