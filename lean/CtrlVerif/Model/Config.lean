/-
C19 — model of the state the library keeps *between* calls (control/config.py, the name counter of
control/iosys.py, the parameter cache of control/nlsys.py), as a state machine

    step : World → Call → World × outputs

Core Lean only (no Mathlib).

* `Cfg` is `config.defaults` (a `DefaultDict`): `get`/`put`, the `deprecated.<old>` redirection of
  `_check_deprecation`, `__setitem__`, `__getitem__`/`__missing__`, `set_defaults`, the context
  manager `with defaults(mapping): body`, `reset_defaults`, `use_matlab_defaults`,
  `use_fbs_defaults`, `use_legacy_defaults`.
* every non-configuration call of the library is the constructor `Call.op`: it is *defined* to
  leave the configuration unchanged and to return a value that may depend on the logical name
  counter only through the generated name (`Out.result (some n)`).
* values are opaque tokens (`Val = String`, the canonical serialisation made by the harness);
  the configuration machinery itself reads a value in exactly one place (the value stored under
  `deprecated.<old>` is used as a key), which is why keys and values share one type.

Where the code that exists has a genuine defect with respect to C19 the model is the correct
behaviour and the code as it exists is kept beside it (`enterCode`, `resetCode`, `PMode.code`) for
the counterexample theorems:
  * `__enter__` changes the entries in front of an unknown key before it raises (`enterCode`);
  * the context manager keeps its saved values in one slot on the dictionary, so nested `with`
    blocks lose the outer saved values (not modelled; the model is the stack discipline);
  * `reset_defaults` writes through `__setitem__`, so a `deprecated.<k>` alias of an import-time
    key `k` diverts the reset of `k` (`resetCode`);
  * `NonlinearIOSystem.__call__` refreshes `_current_params` only when `params` is given
    (`PMode.code`).
-/
import CtrlVerif.Model.Err

namespace CtrlVerif.Config

abbrev Key := String
abbrev Val := String
abbrev Cfg := List (Key × Val)

/-- `key in defaults` / `defaults.data[key]`. -/
def get : Cfg → Key → Option Val
  | [], _ => none
  | (k', v) :: c, k => if k = k' then some v else get c k

def del : Cfg → Key → Cfg
  | [], _ => []
  | (k', v) :: c, k => if k = k' then del c k else (k', v) :: del c k

/-- `defaults.data[key] = value` (plain dictionary assignment). -/
def put (c : Cfg) (k : Key) (v : Val) : Cfg := (k, v) :: del c k

def has (c : Cfg) (k : Key) : Bool := (get c k).isSome

def keys (c : Cfg) : List Key := c.map (·.1)

/-- last-wins lookup (`dict.update` with a list of pairs). -/
def getLast : Cfg → Key → Option Val
  | [], _ => none
  | (k', v) :: c, k => match getLast c k with
    | some w => some w
    | none => if k = k' then some v else none

def depKey (k : Key) : Key := "deprecated." ++ k

/-- `_check_deprecation(key)`: the key actually written / read. -/
def checkDep (c : Cfg) (k : Key) : Key :=
  match get c (depKey k) with
  | some r => r
  | none => k

/-- `DefaultDict.__setitem__`. -/
def setItem (c : Cfg) (k : Key) (v : Val) : Cfg := put c (checkDep c k) v

/-- `DefaultDict.__getitem__` with `__missing__` (KeyError ↦ `unknownName`). -/
def getItem (c : Cfg) (k : Key) : Except Err Val :=
  match get c k with
  | some v => .ok v
  | none =>
    match get c (checkDep c k) with
    | some v => .ok v
    | none => .error .unknownName

/-- `set_defaults(module, **kvs)`: entries in front of an unrecognised keyword are assigned
before the `TypeError` (↦ `badArg`) is raised, as in the code. -/
def setDefaults (c : Cfg) (module : String) : List (String × Val) → Cfg × Option Err
  | [] => (c, none)
  | (key, v) :: rest =>
    let kn := module ++ "." ++ key
    if !(has c kn) && !(has c (depKey kn)) then (c, some .badArg)
    else setDefaults (setItem c kn v) module rest

/-- a sequence of `set_defaults` calls inside one function: stops at the first that raises. -/
def setDefaultsSeq (c : Cfg) : List (String × List (String × Val)) → Cfg × Option Err
  | [] => (c, none)
  | (m, kvs) :: rest =>
    match setDefaults c m kvs with
    | (c', none) => setDefaultsSeq c' rest
    | (c', some e) => (c', some e)

/-- `for k, v in mapping: self[k] = v`. -/
def assignAll (c : Cfg) : List (Key × Val) → Cfg
  | [] => c
  | (k, v) :: rest => assignAll (setItem c k v) rest

/-- `__enter__` of `with defaults(mapping)` — the correct behaviour: every key is validated
before anything is changed; returns the saved values and the new dictionary, `none` when a key
is unknown (`ValueError`). -/
def enter (c : Cfg) (m : List (Key × Val)) : Option (List (Key × Val) × Cfg) :=
  if m.all (fun e => has c e.1) then
    some (m.filterMap (fun e => (get c e.1).map (fun v => (e.1, v))), assignAll c m)
  else none

/-- `__enter__` as it exists in the code: check, save and assign key by key. -/
def enterCode (c : Cfg) (saved : List (Key × Val)) :
    List (Key × Val) → Cfg × List (Key × Val) × Bool
  | [] => (c, saved, true)
  | (k, v) :: rest =>
    match get c k with
    | none => (c, saved, false)
    | some old => enterCode (setItem c k v) (saved ++ [(k, old)]) rest

/-- `__exit__`: `for k, v in saved: self[k] = v`. -/
def restore (c : Cfg) (saved : List (Key × Val)) : Cfg := assignAll c saved

/-- plain dictionary `update` (no redirection). -/
def putAll (c : Cfg) : List (Key × Val) → Cfg
  | [] => c
  | (k, v) :: rest => putAll (put c k v) rest

/-- `reset_defaults()` — correct behaviour: every import-time entry gets its import-time value.
`imp` is the concatenation of the module default tables in the order of the code. -/
def reset (imp : Cfg) (c : Cfg) : Cfg := putAll c imp

/-- `reset_defaults()` as it exists: `defaults.update(table)` goes through `__setitem__`. -/
def resetCode (imp : Cfg) (c : Cfg) : Cfg := assignAll c imp

/-! ### the fixed assignments of `use_*_defaults` (values in the harness' serialisation) -/

def vTrue : Val := "~b1"
def vFalse : Val := "~b0"
def vNone : Val := "~n"

def matlabSeq : List (String × List (String × Val)) :=
  [("freqplot", [("dB", vTrue), ("deg", vTrue), ("Hz", vFalse), ("grid", vTrue)]),
   ("freqplot", [("magnitude_label", "Magnitude")])]

def fbsSeq : List (String × List (String × Val)) :=
  [("freqplot", [("dB", vFalse), ("deg", vTrue), ("Hz", vFalse), ("grid", vFalse)]),
   ("freqplot", [("magnitude_label", "Gain")]),
   ("nyquist", [("mirror_style", "--")])]

/-- `if major == 0 and minor < 9 or (minor == 9 and patch < 2)` (Python precedence). -/
def legacyPre092 (major minor patch : Nat) : Bool :=
  (major == 0 && decide (minor < 9)) || (minor == 9 && decide (patch < 2))

def legacyPre09 (major minor : Nat) : Bool := major == 0 && decide (minor < 9)

def legacySeq (major minor patch : Nat) : List (String × List (String × Val)) :=
  (if legacyPre092 major minor patch then
    [("nyquist", [("indent_radius", "~f0.1"), ("max_curve_magnitude", "~finf"),
                  ("max_curve_offset", "~i0"),
                  ("primary_style", "~j%5B%22-%22%2C%22-%22%5D"),
                  ("mirror_style", "~j%5B%22--%22%2C%22--%22%5D"),
                  ("start_marker_size", "~i0")])]
   else []) ++
  (if legacyPre09 major minor then
    [("control", [("default_dt", vNone)]),
     ("iosys", [("state_name_delim", "."),
                ("duplicate_system_name_prefix", "copy%20of%20"),
                ("duplicate_system_name_suffix", "%e"),
                ("linearized_system_name_prefix", "%e"),
                ("linearized_system_name_suffix", "_linearized")]),
     ("statesp", [("remove_useless_states", vTrue)]),
     ("forced_response", [("return_x", vTrue)]),
     ("control", [("squeeze_time_response", vTrue)]),
     ("nyquist", [("mirror_style", "-")])]
   else [])

/-! ### the state machine -/

structure World where
  cfg : Cfg
  ctr : Nat
  deriving Repr, DecidableEq

inductive Call where
  | setItem (k : Key) (v : Val)                       -- `defaults[k] = v`
  | getItem (k : Key)                                 -- `defaults[k]`
  | setDefaults (module : String) (kvs : List (String × Val))
  | withCtx (m : List (Key × Val)) (body : List Call) -- `with defaults(m): body`
  | reset
  | useMatlab
  | useFbs
  | useLegacy (ver : Option (Nat × Nat × Nat))        -- version string as parsed (`none`: rejected)
  | op (named : Bool)                                 -- any other library call; `named`: `name=` given

inductive Out where
  | done                              -- returned `None`
  | val (v : Val)
  | ver (major minor patch : Nat)
  | result (gen : Option Nat)         -- a result; `some n`: its name is generated from counter `n`
  | raised (e : Err)
  deriving DecidableEq, Repr

def outcome : Option Err → Out
  | none => .done
  | some e => .raised e

mutual
/-- one call: new world, outputs (those of the calls of a `with` body first), and the exception
the call raises, if any. -/
def step (imp : Cfg) (w : World) : Call → World × List Out × Option Err
  | .setItem k v => ({ w with cfg := setItem w.cfg k v }, [.done], none)
  | .getItem k =>
    match getItem w.cfg k with
    | .ok v => (w, [.val v], none)
    | .error e => (w, [.raised e], some e)
  | .setDefaults m kvs =>
    let r := setDefaults w.cfg m kvs
    ({ w with cfg := r.1 }, [outcome r.2], r.2)
  | .withCtx m body =>
    match enter w.cfg m with
    | none => (w, [.raised .badArg], some .badArg)
    | some (saved, c1) =>
      let r := runBody imp { w with cfg := c1 } body
      ({ r.1 with cfg := restore r.1.cfg saved }, r.2.1 ++ [outcome r.2.2], r.2.2)
  | .reset => ({ w with cfg := reset imp w.cfg }, [.done], none)
  | .useMatlab =>
    let r := setDefaultsSeq w.cfg matlabSeq
    ({ w with cfg := r.1 }, [outcome r.2], r.2)
  | .useFbs =>
    let r := setDefaultsSeq w.cfg fbsSeq
    ({ w with cfg := r.1 }, [outcome r.2], r.2)
  | .useLegacy none => (w, [.raised .badArg], some .badArg)
  | .useLegacy (some (a, b, p)) =>
    let r := setDefaultsSeq (reset imp w.cfg) (legacySeq a b p)
    match r.2 with
    | none => ({ w with cfg := r.1 }, [.ver a b p], none)
    | some e => ({ w with cfg := r.1 }, [.raised e], some e)
  | .op true => (w, [.result none], none)
  | .op false => ({ w with ctr := w.ctr + 1 }, [.result (some w.ctr)], none)

/-- the body of a `with` block: stops at the first call that raises. -/
def runBody (imp : Cfg) (w : World) : List Call → World × List Out × Option Err
  | [] => (w, [], none)
  | c :: cs =>
    let r := step imp w c
    match r.2.2 with
    | some e => (r.1, r.2.1, some e)
    | none =>
      let r' := runBody imp r.1 cs
      (r'.1, r.2.1 ++ r'.2.1, r'.2.2)
end

/-- a top-level history: every call is attempted (the caller catches exceptions). -/
def run (imp : Cfg) (w : World) : List Call → World × List Out
  | [] => (w, [])
  | c :: cs =>
    let r := step imp w c
    let r' := run imp r.1 cs
    (r'.1, r.2.1 ++ r'.2)

mutual
/-- a call that is a library call, a read, or a `with` block around such calls (any nesting). -/
def balanced : Call → Bool
  | .op _ => true
  | .getItem _ => true
  | .withCtx _ body => balancedL body
  | _ => false
def balancedL : List Call → Bool
  | [] => true
  | c :: cs => balanced c && balancedL cs
end

/-- forget the value of the counter in generated names. -/
def Out.erase : Out → Out
  | .result (some _) => .result (some 0)
  | o => o

/-! ### parameter protocol of nonlinear systems

An interconnected system `ics` with subsystems `sub_j`; every system has default parameters
`params`; an evaluation may pass an override `params=ov`.  The update/output function of
`sub_j` is called with a dictionary; which one is what C19 talks about. -/

abbrev Params := List (Key × Val)

deriving instance DecidableEq for Except

/-- `d.copy(); d.update(o)`. -/
def merge (p o : Params) : Params := o.foldl (fun acc e => put acc e.1 e.2) p

structure PSys where
  subs : List Params      -- `sub_j.params`
  top : Params            -- `ics.params`
  deriving Repr

inductive PCall where
  | subCall (j : Nat) (ov : Option Params)   -- `sub_j(u, params=ov)` (`__call__`, static system)
  | subEval (j : Nat) (ov : Option Params)   -- `sub_j.output / dynamics (t, x, u, params=ov)`
  | icsEval (ov : Option Params)             -- `ics.output / dynamics / input_output_response`
  deriving Repr

/-- what C19 requires: the dictionaries the subsystem functions see during the call (subsystem
index, dictionary), a function of the system and the arguments of *this* call. -/
def specOut (S : PSys) : PCall → Except Err (List (Nat × Params))
  | .subCall j ov | .subEval j ov =>
    match S.subs[j]? with
    | some p => .ok [(j, merge p (ov.getD []))]
    | none => .error .indexRange
  | .icsEval ov =>
    .ok ((List.range S.subs.length).zip
      (S.subs.map fun p => merge (merge p S.top) (ov.getD [])))

/-- the implementation keeps `_current_params` per subsystem. -/
abbrev PState := List Params

def PState.init (S : PSys) : PState := S.subs

inductive PMode where
  | code    -- as it exists: `__call__` refreshes the cache only when `params is not None`
  | fixed   -- `__call__` always calls `_update_params(params)`
  deriving DecidableEq, Repr

def pstep (mode : PMode) (S : PSys) (st : PState) : PCall → PState × Except Err (List (Nat × Params))
  | .subCall j ov =>
    match S.subs[j]? with
    | none => (st, .error .indexRange)
    | some p =>
      match mode, ov with
      | .code, none =>
        match st[j]? with
        | some cur => (st, .ok [(j, cur)])
        | none => (st, .error .indexRange)
      | _, _ =>
        let new := merge p (ov.getD [])
        (st.set j new, .ok [(j, new)])
  | .subEval j ov =>
    match S.subs[j]? with
    | some p =>
      let new := merge p (ov.getD [])
      (st.set j new, .ok [(j, new)])
    | none => (st, .error .indexRange)
  | .icsEval ov =>
    let new := S.subs.map fun p => merge (merge p S.top) (ov.getD [])
    (new, .ok ((List.range S.subs.length).zip new))

def prun (mode : PMode) (S : PSys) (st : PState) : List PCall → PState × List (Except Err (List (Nat × Params)))
  | [] => (st, [])
  | c :: cs =>
    let r := pstep mode S st c
    let r' := prun mode S r.1 cs
    (r'.1, r.2 :: r'.2)

end CtrlVerif.Config
