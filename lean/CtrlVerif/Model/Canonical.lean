/-
Model of control/canonical.py (`similarity_transform`, `reachable_form`, `observable_form`,
`canonical_form`) and of the state/input/output elimination formulas of
`control/modelsimp.py: model_reduction` — typed layer, written on Mathlib matrices so that the
definitions the theorems of `Props/C15.lean` are about are the ones the driver executes.

External numerical routines are parameters:
* `numpy.linalg.solve` : the inverse matrices `Ti`, `Wi`, `Wzi`, `A22i` are arguments (the
  run-time layer `Model/CanonicalDyn.lean` supplies certified inverses);
* `numpy.poly(A)` : the coefficient function `a` (`a 0 … a n`, highest power first) is an
  argument; its contract (`Σ a k · A^(n-k) = 0`, Cayley–Hamilton) is a hypothesis of the theorems.
-/
import CtrlVerif.Model.SS
import Mathlib.Data.Matrix.Mul
import Mathlib.Algebra.Group.Fin.Basic

namespace CtrlVerif

open Matrix

namespace SS

variable {K : Type*} [Field K]
variable {σ ι o κ ε : Type*}

/-! ### `similarity_transform` -/

/-- `similarity_transform(xsys, T, timescale=c)`: `A' = (T A) T⁻¹ / c`, `B' = T B / c`,
`C' = C T⁻¹`; `Ti` is what `solve` returns for `T`. -/
def similarity [Fintype σ] (G : SS σ ι o K) (T Ti : Matrix σ σ K) (c : K) : SS σ ι o K :=
  ⟨c⁻¹ • (T * G.A * Ti), c⁻¹ • (T * G.B), G.C * Ti, G.D⟩

/-- `similarity_transform(xsys, T, timescale=c, inverse=True)`: `A' = T⁻¹ A T / c`,
`B' = T⁻¹ B / c`, `C' = C T`. -/
def similarityInv [Fintype σ] (G : SS σ ι o K) (T Ti : Matrix σ σ K) (c : K) : SS σ ι o K :=
  ⟨c⁻¹ • (Ti * G.A * T), c⁻¹ • (Ti * G.B), G.C * T, G.D⟩

/-! ### canonical forms (SISO, states `Fin n`) -/

/-- the `A` matrix `reachable_form` writes: `A[0, j] = -Apoly[j+1] / Apoly[0]`,
`A[j+1, j] = 1`, zero elsewhere. -/
def companionR (n : Nat) (a : Nat → K) : Matrix (Fin n) (Fin n) K :=
  fun i j => if i.val = 0 then -(a (j.val + 1)) / a 0 else if i.val = j.val + 1 then 1 else 0

/-- the `A` matrix `observable_form` writes: `A[i, 0] = -Apoly[i+1] / Apoly[0]`,
`A[i, i+1] = 1`, zero elsewhere. -/
def companionO (n : Nat) (a : Nat → K) : Matrix (Fin n) (Fin n) K :=
  fun i j => if j.val = 0 then -(a (i.val + 1)) / a 0 else if j.val = i.val + 1 then 1 else 0

/-- `B = zeros_like(B); B[0, 0] = 1`. -/
def e1col (n : Nat) : Matrix (Fin n) (Fin 1) K := fun i _ => if i.val = 0 then 1 else 0

/-- `C = zeros_like(C); C[0, 0] = 1`. -/
def e1row (n : Nat) : Matrix (Fin 1) (Fin n) K := fun _ j => if j.val = 0 then 1 else 0

/-- `ctrb(A, B)` for one input: columns `B, A B, …, A^(n-1) B`. -/
def ctrb1 {n : Nat} (A : Matrix (Fin n) (Fin n) K) (B : Matrix (Fin n) (Fin 1) K) :
    Matrix (Fin n) (Fin n) K := fun i k => (A ^ k.val * B) i 0

/-- `obsv(A, C)` for one output: rows `C, C A, …, C A^(n-1)`. -/
def obsv1 {n : Nat} (A : Matrix (Fin n) (Fin n) K) (C : Matrix (Fin 1) (Fin n) K) :
    Matrix (Fin n) (Fin n) K := fun k j => (C * A ^ k.val) 0 j

/-- `Tzx = Wrz * inv(Wrx)` of `reachable_form` (`Wi` is the inverse of `Wrx = ctrb(A, B)`). -/
def reachT {n : Nat} (a : Nat → K) (Wi : Matrix (Fin n) (Fin n) K) : Matrix (Fin n) (Fin n) K :=
  ctrb1 (companionR n a) (e1col n) * Wi

/-- `reachable_form`: the system in canonical form and the transformation.  `Ti` is the inverse
of `Tzx` (`zsys.C = solve(Tzx.T, C.T).T`). -/
def reachableForm {n : Nat} (G : SS (Fin n) (Fin 1) (Fin 1) K) (a : Nat → K)
    (Wi Ti : Matrix (Fin n) (Fin n) K) :
    SS (Fin n) (Fin 1) (Fin 1) K × Matrix (Fin n) (Fin n) K :=
  (⟨companionR n a, e1col n, G.C * Ti, G.D⟩, reachT a Wi)

/-- `Tzx = inv(Wrz) * Wrx` of `observable_form` (`Wzi` is the inverse of
`Wrz = obsv(zsys.A, zsys.C)`). -/
def obsT {n : Nat} (A : Matrix (Fin n) (Fin n) K) (C : Matrix (Fin 1) (Fin n) K)
    (Wzi : Matrix (Fin n) (Fin n) K) : Matrix (Fin n) (Fin n) K :=
  Wzi * obsv1 A C

/-- `observable_form`. -/
def observableForm {n : Nat} (G : SS (Fin n) (Fin 1) (Fin 1) K) (a : Nat → K)
    (Wzi : Matrix (Fin n) (Fin n) K) :
    SS (Fin n) (Fin 1) (Fin 1) K × Matrix (Fin n) (Fin n) K :=
  (⟨companionO n a, obsT G.A G.C Wzi * G.B, e1row n, G.D⟩, obsT G.A G.C Wzi)

/-- Horner evaluation of the polynomial with coefficients `a 0, a 1, …` (highest power first)
at the matrix `A`, truncated after `a k`: `a 0 A^k + a 1 A^(k-1) + … + a k`. -/
def hornerMat [Fintype σ] [DecidableEq σ] (A : Matrix σ σ K) (a : Nat → K) : Nat → Matrix σ σ K
  | 0 => a 0 • 1
  | k + 1 => A * hornerMat A a k + a (k + 1) • 1

/-! ### `model_reduction` -/

/-- `method='truncate'`: `A11, B1, C1, D` for the kept states `ks`. -/
def truncate (G : SS σ ι o K) (ks : κ → σ) : SS κ ι o K :=
  ⟨G.A.submatrix ks ks, G.B.submatrix ks id, G.C.submatrix id ks, G.D⟩

/-- `method='matchdc'`: residualisation of the eliminated states `es`; `A22i` is what
`solve(A22, ·)` applies. -/
def matchdc [Fintype ε] (G : SS σ ι o K) (ks : κ → σ) (es : ε → σ) (A22i : Matrix ε ε K) :
    SS κ ι o K :=
  let A21 := G.A.submatrix es ks
  let A12 := G.A.submatrix ks es
  let B2 := G.B.submatrix es id
  let C2 := G.C.submatrix id es
  ⟨G.A.submatrix ks ks - A12 * (A22i * A21), G.B.submatrix ks id - A12 * (A22i * B2),
   G.C.submatrix id ks - C2 * (A22i * A21), G.D - C2 * (A22i * B2)⟩

end SS

end CtrlVerif
