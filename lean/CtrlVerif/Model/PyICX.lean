/-
Meaning of the further primitives that `harness/core/py2lean_icx.py` emits when it translates
`InputOutputSystem._find_signals` / `find_input(s)` / `find_output(s)` (control/iosys.py) and the
pre-processing statement groups of `interconnect()` (control/nlsys.py) into Lean
(`Generated/ICX*.lean`).  Hand-written, small; together with the translator and `Model/PyIC.lean`
(re-used: `Val`, `Str`, `isinstance`, `iter`, …) this is the trusted base of the tie
(notes/NOTES-py2lean-interconnect.md).

STRINGS ARE TOKENISED BY THE HARNESS (convention of `Model/Interconnect.lean` / `Model/PyIC.lean`,
kept): a `PyIC.Str` carries the text and the groups of the regular expressions of `_find_signals`.
The calls `re.match(<literal pattern>, name)` of the source text are therefore translated BY THEIR
LITERAL PATTERN into the projections below (a changed pattern is not translatable: the tie fails
visibly); everything the code does with the groups (empty-string tests, `int(...)`, comparisons, the
loops over the dictionary, `sigdict.get`, the final `None` test) is translated.

* a signal dictionary `{label: position}` is its key list in DICTIONARY ORDER (`List Label`,
  position = value, as `_process_signal_list` builds it); `for var in sigdict` visits the keys in
  that order, `sigdict.get(key)` is a look-up by the text (`IC.lookup`).
* the text of a name used as a dictionary key / as the prefix of the pattern
  `name + r'\[([\d]+)\]$'` is the name inside its token (`keyOf`; the harness sends the text there).
-/
import CtrlVerif.Model.PyIC

namespace CtrlVerif.PyICX

open IC PyIC

variable {K : Type}

/-- the groups of `re.match(r'([\w$]+)\[([\d]*):([\d]*)\]$', name)`; a digit group that may be
empty is `none` when empty, else its decimal value.  TypeError when `name` is not a string. -/
def reSlice : Val K → Except Err (Option (String × Option Nat × Option Nat))
  | .str s =>
    match s.tok with
    | .slice b lo hi => .ok (some (b, lo, hi))
    | _ => .ok none
  | _ => .error .badArg

/-- `re.match(r'([\w$]+)$', name)` (group 1 = the whole text). -/
def reBase : Val K → Except Err (Option String)
  | .str s =>
    match s.tok with
    | .base nm => .ok (some nm)
    | _ => .ok none
  | _ => .error .badArg

/-- the groups of `re.match(r'([\w$]+)\[([\d]+)\]$', var)` for a key of a signal dictionary. -/
def reIdx (l : Label) : Option (String × Nat) := l.idx

/-- the text of a name (dictionary key, pattern prefix): the name inside its token. -/
def keyText (s : Str) : String :=
  match s.tok with
  | .base nm => nm
  | .exact nm => nm
  | .slice _ _ _ => s.unsigned

/-- `re.match(name + r'\[([\d]+)\]$', var)` for a name that matched `[\w$]+$` (the harness never
sends a '$'): the key is `name[<digits>]`.  (`name + …` raises TypeError when `name` is not a
string; `_find_signals` has applied `re.match(…, name)` before, which raises first.) -/
def reNameIdx : Val K → Label → Option Nat
  | .str s, l =>
    match l.idx with
    | some (b, n) => if b == keyText s then some n else Option.none
    | Option.none => Option.none
  | _, _ => Option.none

/-- `sigdict.get(var)` for a key `var` of a dictionary. -/
def dictGet (sigdict : List Label) (key : Label) : Option Nat := IC.lookup sigdict key.raw

/-- `sigdict.get(name, None)` for a name.  (A hashable non-string is absent; an unhashable key
raises TypeError in Python, not reachable after `re.match(…, name)`.) -/
def dictGetVal (sigdict : List Label) : Val K → Option Nat
  | .str s => IC.lookup sigdict (keyText s)
  | _ => Option.none

/-- `sys.input_index` / `sys.output_index` / `sys.input_labels` / `sys.output_labels` -/
def inputIndex (S : SysSig) : List Label := S.inputs

def outputIndex (S : SysSig) : List Label := S.outputs

/-- the string `sysname + "." + label` as the harness tokenises it (two pieces). -/
def dotted (sysname : String) (l : Label) : Val K :=
  .str ⟨sysname ++ "." ++ l.raw, .exact (sysname ++ "." ++ l.raw),
        [(sysname, .base sysname), (l.raw, l.tok)]⟩

/-- `label in sys.output_labels` -/
def labelIn (l : Label) (ls : List Label) : Bool := ls.any fun m => m.raw == l.raw

/-- the truth value of a Python value (`if inputs and …`): `None`, `0`, `0.0`, `''`, `[]`, `()` are
false. -/
def truthy [Field K] [DecidableEq K] : Val K → Bool
  | .none => false
  | .int i => i != 0
  | .num x => x != 0
  | .str s => !s.raw.toList.isEmpty
  | .list l => !l.isEmpty
  | .tuple l => !l.isEmpty
  | .other => true

/-- `v[0].append(x)` for a list `v = [[]] * n` whose `n` entries are references to ONE list object
(the translator allows no other operation that could separate them): every entry sees the new
element; IndexError when `n = 0`. -/
def aliasedAppend {α : Type} (v : List (List α)) (x : α) : Except Err (List (List α)) :=
  if v.isEmpty then .error .indexRange else .ok (v.map (· ++ [x]))

/-- `(isys, isig)` as a specification value. -/
def pairVal (p : Nat × Nat) : Val K := .tuple [.int p.1, .int p.2]

/-- `syslist[isys].input_labels[isig]` (IndexError outside). -/
def labelAt (sigs : List SysSig) (d : IC.Dict) (p : Nat × Nat) : Except Err String :=
  match sigs[p.1]? with
  | Option.none => .error .indexRange
  | some S =>
    match (S.labels d)[p.2]? with
    | Option.none => .error .indexRange
    | some l => .ok l.raw

end CtrlVerif.PyICX
