/-
Call histories on ONE `LinearFlatSystem` object (property C20, history class).

The caller of control/flatsys holds objects: pairs `(x, u)` of arrays and flags `zflag` (a list with
one array).  A history is a sequence of calls whose arguments are objects the caller ALREADY holds
(literals it made itself, or the results of earlier calls) and whose results it keeps:

    F.append(sys.forward(S[s].x, S[s].u, params))        -- `HCall.fwd s`
    S.append(sys.reverse(F[f], params))                  -- `HCall.rev f`

`forward` / `reverse` of linflat.py read their arguments and allocate their results
(`zflag = [np.zeros(nstates + 1)]`, `x = Tinv @ z`, `u = zflag[0][-1] - F @ z`): no object the
caller holds is written to.  So the model of a history is a store that only grows: registers are
values, a call appends one register and changes nothing else (`HStore.step`).  An index that
does not name a register is `indexRange` (a harness bug, never generated).

Every register is tabulated when it is created (the driver chains calls on results of calls; a
closure would be re-evaluated at every use).
-/
import CtrlVerif.Model.Flat

namespace CtrlVerif

variable {K : Type} [Field K] [DecidableEq K] {n : Nat}

/-- one call of a history; the argument is the index of a register the caller holds. -/
inductive HCall where
  | fwd (s : Nat)
  | rev (f : Nat)
  deriving DecidableEq, Repr

/-- the objects the caller holds: `(x, u)` pairs and flags, in the order of creation. -/
structure HStore (n : Nat) (K : Type) where
  S : List ((Fin n → K) × K)
  F : List (Fin (n + 1) → K)

namespace HStore

/-- the `(x, u)` pair `reverse` returns, tabulated. -/
def revReg (L : LinFlat n K) (z : Fin (n + 1) → K) : (Fin n → K) × K :=
  let r := L.reverse z
  let tx := tabV r.1
  (untabV tx, r.2)

/-- the flag `forward` returns, tabulated. -/
def fwdReg (L : LinFlat n K) (xu : (Fin n → K) × K) : Fin (n + 1) → K :=
  let tz := tabV (L.forward xu.1 xu.2)
  untabV tz

/-- one call: the result is appended, every other register is left as it is. -/
def step (L : LinFlat n K) (st : HStore n K) : HCall → Except Err (HStore n K)
  | .fwd s =>
    match st.S[s]? with
    | none => .error .indexRange
    | some xu => .ok { st with F := st.F ++ [fwdReg L xu] }
  | .rev f =>
    match st.F[f]? with
    | none => .error .indexRange
    | some z => .ok { st with S := st.S ++ [revReg L z] }

/-- a history of calls. -/
def run (L : LinFlat n K) : HStore n K → List HCall → Except Err (HStore n K)
  | st, [] => .ok st
  | st, c :: cs =>
    match st.step L c with
    | .error e => .error e
    | .ok st' => run L st' cs

end HStore

end CtrlVerif
