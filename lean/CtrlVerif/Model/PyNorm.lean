/-
Meaning of the further NumPy / python-control primitives that `harness/core/py2lean_norm.py` emits
when it translates `system_norm` / `_psd_tol` (control/sysnorm.py) into Lean
(`Generated/Norm*.lean`).  Hand-written; together with the translator (and `Model/PyMat.lean`, whose
matrix primitives are re-used) this file is the trusted base of the source-text tie of property C16
(notes/NOTES-py2lean-norm.md, DESIGN §10.3).

* a 2-D `ndarray` is a `PMat K` (untyped: rows, columns, entries; `Model/PyMat.lean`), a `StateSpace`
  object a `DSS K` (attributes through `PySS.A …`, `G.nstates` = `G.n`, `G.isctime()` / `G.isdtime()`
  = `DtPred.isctime false G.dt` / `DtPred.isdtime false G.dt`, tied to control/iosys.py by `C05Pred`).
* floats are EXACT elements of an ordered field `K` (DESIGN §3.1); consequently `np.isclose(x, c)`
  is EQUALITY (as in the hand-written model `Model/Norm.lean`: generated poles are exactly on the
  stability boundary or clearly off it).
* a 1-D array of complex numbers (`G.poles()`, `la.eigvals(X)`) is a `List (Norm.Pole K)` (real and
  imaginary part), `z.real` is `real`, a 1-D array of floats a `List K`, a 1-D boolean array a
  `List Bool`; comparisons of an array with a number are element-wise, `any(·)` is `any`.
* `abs(z)` of a complex number is not an element of `K`: it is represented by its SQUARE (`AbsVal`).
  The translator only compares such a value with a NON-NEGATIVE literal `c`, for which
  `|z| = c ⇔ |z|² = c²` and `|z| > c ⇔ |z|² > c²`.
* `np.sqrt(q)` of a float is likewise represented by its radicand (`SqrtVal`; the model returns
  "the non-negative square root of `q`" as `Norm.H2Val.sqrt q`); it is `nan` iff `q < 0`.
* external routines are PARAMETERS of the generated functions, never axioms:
  `ct.lyap` / `ct.dlyap`  — a `LyapFun K` (a function on pairs of square matrices of every size),
     applied by `callLyap`, which checks the shapes (`ControlDimension` otherwise);
  `la.eigvals`             — `PMat K → List (Norm.Pole K)`;
  `G.poles()`              — the list it returned;
  `la.norm(X)` (Frobenius), `la.norm(X, ord=2)` — functions `PMat K → K`;
  `np.sqrt(np.finfo(float).eps)` — an element of `K`.
* `while c: body` is `whileFuel c body fuel`: at most `fuel` evaluations of the test; `none` = out
  of fuel (the generated function then returns `Norm.LinfVal.diverged`, as the model does).  The
  equality theorems hold for EVERY `fuel`.
* a variable that is only assigned inside a `while` body is an `Option` in the loop state; reading
  it unassigned is Python's `UnboundLocalError` (`bound`; `badArg` as in the model).

Only the TYPES `Norm.Pole`, `Norm.H2Val`, `Norm.LinfVal`, `DSS`, `Dt`, `Err` of the model are used
here — none of its functions.
-/
import CtrlVerif.Model.PyMat
import CtrlVerif.Model.Norm
import CtrlVerif.Model.DtPred

namespace CtrlVerif.PyNorm

open Matrix CtrlVerif

/-- an external solver of a Lyapunov equation (`ct.lyap(A, Q)`, `ct.dlyap(A, Q)`): a function on
pairs of square matrices of every size. -/
abbrev LyapFun (K : Type) :=
  (n : Nat) → Matrix (Fin n) (Fin n) K → Matrix (Fin n) (Fin n) K → Matrix (Fin n) (Fin n) K

/-- `abs(z)` of a complex number, represented by its square. -/
structure AbsVal (K : Type) where
  sq : K

/-- `np.sqrt(q)` of a float, represented by its radicand. -/
structure SqrtVal (K : Type) where
  radicand : K

/-- a variable that may be unassigned: reading it is an `UnboundLocalError`. -/
def bound {α : Type} : Option α → Except Err α
  | none => .error .badArg
  | some a => .ok a

/-- `any(bs)` of a 1-D boolean array. -/
def any (bs : List Bool) : Bool := bs.any id

/-- `while cond(s): s = body(s)` with at most `fuel` evaluations of the test (`none`: out of fuel);
test and body may raise. -/
def whileFuel {σ : Type} (cond : σ → Except Err Bool) (body : σ → Except Err σ) :
    Nat → σ → Except Err (Option σ)
  | 0, _ => .ok none
  | fuel + 1, s =>
    (cond s).bind fun c => if c then (body s).bind (whileFuel cond body fuel) else .ok (some s)

section field
variable {K : Type} [Field K]

/-- `ct.lyap(A, Q)` / `ct.dlyap(A, Q)` for an external solver: `A` square and `Q` of the same shape
(`ControlDimension` otherwise). -/
def callLyap (f : LyapFun K) (A Q : PMat K) : Except Err (PMat K) :=
  if h : A.c = A.r ∧ Q.r = A.r ∧ Q.c = A.r then
    .ok ⟨A.r, A.r, f A.r (PMat.retype rfl h.1 A.M) (PMat.retype h.2.1 h.2.2 Q.M)⟩
  else .error .shape

/-- `z.real` of a 1-D complex array. -/
def real (zs : List (Norm.Pole K)) : List K := zs.map fun z => z.re

/-- `abs(z)` of a 1-D complex array (each entry represented by `|z|² = re² + im²`). -/
def abs (zs : List (Norm.Pole K)) : List (AbsVal K) := zs.map fun z => ⟨z.re * z.re + z.im * z.im⟩

/-- `X.flat` (row-major). -/
def flat (X : PMat K) : List K :=
  (List.finRange X.r).flatMap fun i => (List.finRange X.c).map fun j => X.M i j

/-- `np.trace(X)`: the sum of the entries `X[i, i]` that exist. -/
def trace (X : PMat K) : K :=
  ∑ i : Fin X.r, if h : i.val < X.c then X.M i ⟨i.val, h⟩ else 0

/-- `np.sqrt(q)` -/
def sqrt (q : K) : SqrtVal K := ⟨q⟩

end field

section ordered
variable {K : Type} [Field K] [LinearOrder K]

/-- `np.isclose(xs, c)` in exact arithmetic, element-wise. -/
def isclose (xs : List K) (c : K) : List Bool := xs.map fun x => decide (x = c)

/-- `np.isclose(zs, c)` for a complex array and a real number `c`. -/
def iscloseC (zs : List (Norm.Pole K)) (c : K) : List Bool :=
  zs.map fun z => decide (z.re = c) && decide (z.im = 0)

/-- `xs > c`, element-wise. -/
def gt (xs : List K) (c : K) : List Bool := xs.map fun x => decide (c < x)

/-- `xs < c`, element-wise. -/
def lt (xs : List K) (c : K) : List Bool := xs.map fun x => decide (x < c)

/-- `xs != c`, element-wise. -/
def ne (xs : List K) (c : K) : List Bool := xs.map fun x => decide (x ≠ c)

/-- `np.isclose(abs(zs), c)` for a non-negative `c`. -/
def absIsclose (as : List (AbsVal K)) (c : K) : List Bool := as.map fun a => decide (a.sq = c * c)

/-- `abs(zs) > c` for a non-negative `c`. -/
def absGt (as : List (AbsVal K)) (c : K) : List Bool := as.map fun a => decide (c * c < a.sq)

/-- `np.isnan(np.sqrt(q))` -/
def isnan (v : SqrtVal K) : Bool := decide (v.radicand < 0)

end ordered

end CtrlVerif.PyNorm
