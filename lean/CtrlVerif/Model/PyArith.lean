/-
Meaning of the Python primitives that `harness/core/py2lean_arith.py` emits when it translates
straight-line / loop numeric Python into Lean.  Hand-written, part of the trusted base of the
source-text tie for numeric functions (DESIGN §2.5, notes/NOTES-py2lean-arith.md).

Python `int` is `Int`; Python `float` (and NumPy float64 scalars) are modelled by EXACT arithmetic in
an arbitrary field `K` (rounding is not modelled, DESIGN §3.1); an `int` meeting a `float` is cast.
Every partial Python operation is partial here (`Except Err`), never totalised with a default:
a zero divisor, an out-of-range index.
-/
import CtrlVerif.Model.Err
import Mathlib.Algebra.Order.Field.Basic
import Mathlib.Data.Nat.Choose.Basic
import Mathlib.Data.Nat.Factorial.Basic

namespace CtrlVerif.PyArith

/-- `range(a, b)` (`range(b)` is `range(0, b)`): `a, a+1, …, b-1`, empty when `b ≤ a`. -/
def range (a b : Int) : List Int := (List.range (b - a).toNat).map (fun (i : Nat) => a + (i : Int))

/-- position selected by the Python index `i` in a sequence of length `len`: `0 ≤ i < len` is
position `i`, `-len ≤ i < 0` is position `len + i`, anything else is an `IndexError`. -/
def normIdx (len : Nat) (i : Int) : Except Err Nat :=
  if 0 ≤ i ∧ i < len then .ok i.toNat
  else if i < 0 ∧ -(len : Int) ≤ i then .ok (i + len).toNat
  else .error .indexRange

/-- `xs[i]` -/
def getItem {α : Type} (xs : List α) (i : Int) : Except Err α :=
  match normIdx xs.length i with
  | .error e => .error e
  | .ok j =>
    match xs[j]? with
    | some v => .ok v
    | none => .error .indexRange

/-- `xs[i] = v` (the updated list) -/
def setItem {α : Type} (xs : List α) (i : Int) (v : α) : Except Err (List α) :=
  match normIdx xs.length i with
  | .error e => .error e
  | .ok j => .ok (xs.set j v)

section field
variable {K : Type} [Field K] [DecidableEq K]

/-- `a / b` (true division; `ZeroDivisionError` / NumPy `inf`,`nan` when `b == 0`). -/
def div (a b : K) : Except Err K := if b = 0 then .error .zeroDen else .ok (a / b)

/-- `x ** e`, `np.power(x, e)` for a float `x` and an int `e` (`0.0 ** -1` is an error). -/
def pow (x : K) (e : Int) : Except Err K :=
  if 0 ≤ e then .ok (x ^ e.toNat)
  else if x = 0 then .error .zeroDen
  else .ok ((x ^ (-e).toNat)⁻¹)

/-- `scipy.special.factorial(n)` for an int `n` (`0` for negative `n`, as SciPy returns). -/
def factorial (n : Int) : K := if n < 0 then 0 else (n.toNat.factorial : K)

/-- `scipy.special.binom(n, k)` for ints with `n ≥ 0` (`0` for `k < 0` or `k > n`, as SciPy
returns).  Negative `n` (SciPy: generalised binomial coefficient / `nan`) is outside the modelled
domain and an error here. -/
def binom (n k : Int) : Except Err K :=
  if n < 0 then .error .notImplemented
  else if k < 0 then .ok 0
  else .ok (n.toNat.choose k.toNat : K)

end field

end CtrlVerif.PyArith
