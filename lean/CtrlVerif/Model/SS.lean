/-
Model of `StateSpace` arithmetic (control/statesp.py): the block constructions of
`__add__`, `__mul__`, `__rmul__`, `__neg__`, `__pow__`, `feedback`, `lft`, `append`,
`__getitem__`, written on Mathlib matrices over arbitrary finite index types, so that the
same definitions are what the theorems are about and what the driver executes.
-/
import Mathlib.Data.Matrix.Block
import Mathlib.Data.Matrix.ColumnRowPartitioned
import Mathlib.LinearAlgebra.Matrix.Adjugate

namespace CtrlVerif

open Matrix

/-- a state-space quadruple with state index `σ`, input index `ι`, output index `o`. -/
structure SS (σ ι o : Type*) (K : Type*) where
  A : Matrix σ σ K
  B : Matrix σ ι K
  C : Matrix o σ K
  D : Matrix o ι K

namespace SS

variable {K : Type*} [Field K]
variable {σ σ₁ σ₂ ι ι₁ ι₂ o o₁ o₂ : Type*}

/-- `__neg__`: `(A, B, -C, -D)`. -/
def neg (G : SS σ ι o K) : SS σ ι o K := ⟨G.A, G.B, -G.C, -G.D⟩

/-- `__add__` of two systems: block-diagonal `A`, stacked `B`, side-by-side `C`, `D₁ + D₂`. -/
def add (G₁ : SS σ₁ ι o K) (G₂ : SS σ₂ ι o K) : SS (σ₁ ⊕ σ₂) ι o K where
  A := fromBlocks G₁.A 0 0 G₂.A
  B := fromRows G₁.B G₂.B
  C := fromCols G₁.C G₂.C
  D := G₁.D + G₂.D

/-- `self + M` for a constant matrix (`D + M`). -/
def addConst (G : SS σ ι o K) (M : Matrix o ι K) : SS σ ι o K := ⟨G.A, G.B, G.C, G.D + M⟩

/-- `__mul__`: `G₁ * G₂` means `G₂` first; the states of `G₂` come first. -/
def mul [Fintype ι₁] (G₁ : SS σ₁ ι₁ o K) (G₂ : SS σ₂ ι ι₁ K) : SS (σ₂ ⊕ σ₁) ι o K where
  A := fromBlocks G₂.A 0 (G₁.B * G₂.C) G₁.A
  B := fromRows G₂.B (G₁.B * G₂.D)
  C := fromCols (G₁.D * G₂.C) G₁.C
  D := G₁.D * G₂.D

/-- `self * M` for a constant matrix: `B M`, `D M`. -/
def mulConst [Fintype ι₁] (G : SS σ ι₁ o K) (M : Matrix ι₁ ι K) : SS σ ι o K :=
  ⟨G.A, G.B * M, G.C, G.D * M⟩

/-- `M * self` for a constant matrix: `M C`, `M D`. -/
def constMul [Fintype o₁] (M : Matrix o o₁ K) (G : SS σ ι o₁ K) : SS σ ι o K :=
  ⟨G.A, G.B, M * G.C, M * G.D⟩

/-- `self * c` for a scalar: `B c`, `D c`. -/
def smulRight (G : SS σ ι o K) (c : K) : SS σ ι o K := ⟨G.A, c • G.B, G.C, c • G.D⟩

/-- `self ** -1` given the inverse `Di` of `D`. -/
def inv [Fintype ι] [Fintype o] (G : SS σ ι o K) (Di : Matrix ι o K) : SS σ o ι K where
  A := G.A - G.B * Di * G.C
  B := G.B * Di
  C := -(Di * G.C)
  D := Di

/-- a static gain (`nstates = 0`): `σ` is empty. -/
def static [IsEmpty σ] (D : Matrix o ι K) : SS σ ι o K := ⟨0, 0, 0, D⟩

/-- `append`: block diagonal in everything. -/
def append (G₁ : SS σ₁ ι₁ o₁ K) (G₂ : SS σ₂ ι₂ o₂ K) : SS (σ₁ ⊕ σ₂) (ι₁ ⊕ ι₂) (o₁ ⊕ o₂) K where
  A := fromBlocks G₁.A 0 0 G₂.A
  B := fromBlocks G₁.B 0 0 G₂.B
  C := fromBlocks G₁.C 0 0 G₂.C
  D := fromBlocks G₁.D 0 0 G₂.D

/-- `feedback(other, sign)` given `E = (I - sign D₂ D₁)⁻¹`, as the code builds the blocks:
`T1 = I + sign D₁ E D₂`, `T2 = I + sign E D₂ D₁`. -/
def feedback [Fintype ι] [Fintype o] [DecidableEq ι] [DecidableEq o]
    (G₁ : SS σ₁ ι o K) (G₂ : SS σ₂ o ι K) (sign : K) (E : Matrix ι ι K) :
    SS (σ₁ ⊕ σ₂) ι o K :=
  let ED2 := E * G₂.D
  let EC2 := E * G₂.C
  let T1 : Matrix o o K := 1 + sign • (G₁.D * ED2)
  let T2 : Matrix ι ι K := 1 + sign • (ED2 * G₁.D)
  { A := fromBlocks (G₁.A + sign • (G₁.B * ED2 * G₁.C)) (sign • (G₁.B * EC2))
                    (G₂.B * T1 * G₁.C) (G₂.A + sign • (G₂.B * G₁.D * EC2))
    B := fromRows (G₁.B * T2) (G₂.B * G₁.D * T2)
    C := fromCols (T1 * G₁.C) (sign • (G₁.D * EC2))
    D := G₁.D * T2 }

/-- `sys[rows, cols]`. -/
def select {o' ι' : Type*} (G : SS σ ι o K) (r : o' → o) (c : ι' → ι) : SS σ ι' o' K :=
  ⟨G.A, G.B.submatrix id c, G.C.submatrix r id, G.D.submatrix r c⟩

/-- relabel the state space along an equivalence (used to flatten `σ₁ ⊕ σ₂` to `Fin (n₁+n₂)`). -/
def reindex {σ' : Type*} (G : SS σ ι o K) (e : σ ≃ σ') : SS σ' ι o K :=
  ⟨G.A.submatrix e.symm e.symm, G.B.submatrix e.symm id, G.C.submatrix id e.symm, G.D⟩

/-- the certified inverse used by the executable model: `det⁻¹ • adjugate`. -/
def invQ {n : Type*} [Fintype n] [DecidableEq n] (F : Matrix n n K) : Matrix n n K :=
  (F.det)⁻¹ • F.adjugate

end SS

end CtrlVerif
